// C05 — files are byte-exact age v1 and existing files keep decrypting.
//
// Encrypt side: tape-driven differential. crypto/rand.Reader is replaced by a
// recording deterministic stream, the real age.Encrypt writes a file, and the
// independent reference implementation (refage) rebuilds the file from the
// plaintext, the recipients and the recorded random values: byte equality
// (ssh-rsa bodies, whose padding is randomised, are opened instead).
// Decrypt side: the frozen corpus, the CCTV success vectors, the repository's
// example file, and fresh reference-written files must decrypt with the real
// age.Decrypt to their recorded plaintext.
package main

import (
	"bytes"
	"crypto/sha256"
	"encoding/hex"
	"encoding/json"
	"fmt"
	"os"
	"path/filepath"
	"strings"
	"sync"

	"filippo.io/age"
	"filippo.io/age/zverif/ax"
	"filippo.io/age/zverif/keys"
	"filippo.io/age/zverif/mon"
	"filippo.io/age/zverif/refage"
	"filippo.io/age/zverif/tape"
)

type encCase struct {
	list    []string
	length  int
	armored bool
	logN    int // work factor for S parties
	seg     []int
	via     string // hand-over mode (ax.Vias); "" = Write calls per seg
}

type produced struct {
	c     encCase
	pt    []byte
	file  []byte
	draws []mon.Draw
	err   error
}

var boundary = []int{0, 1, 2, 65535, 65536, 65537, 131071, 131072, 131073, 196608, 196609}

// sParty returns the passphrase party at a work factor. The recipient OBJECT
// is created once per (name, work factor) and reused for every file of the
// run, as an application encrypting several files to one passphrase would.
var sPartyCache = map[string]*keys.Party{}

func sParty(name string, logN int) *keys.Party {
	k := fmt.Sprintf("%s/%d", name, logN)
	if p, ok := sPartyCache[k]; ok {
		return p
	}
	base := keys.P(name)
	p := *base
	p.Recipient = keys.ScryptRecipient(base.Pass, logN)
	sPartyCache[k] = &p
	return &p
}

func partiesOf(c encCase) []*keys.Party {
	var ps []*keys.Party
	for _, n := range c.list {
		if strings.HasPrefix(n, "S") {
			ps = append(ps, sParty(n, c.logN))
		} else {
			ps = append(ps, keys.P(n))
		}
	}
	return ps
}

func main() {
	r := mon.Start("C05", "exploration")
	if dir := os.Getenv("VERIF_GEN_CORPUS"); dir != "" {
		genCorpus(dir)
		return
	}
	r.Rule = "encrypt side: case = (recipient list, plaintext length, armor, scrypt work factor, write segmentation) encrypted by the real library under a recorded deterministic random tape and compared byte for byte with the reference re-encoding; " +
		"decrypt side: case = one corpus / vector / reference-written file decrypted by the real library and compared with its recorded plaintext; distinct by file content hash"
	r.Assumptions = []string{
		"refage (the independent implementation) is the specification oracle; it is validated against the 114 CCTV vectors at start-up",
		"x/crypto chacha20poly1305 and scrypt, crypto/{sha256,hmac,ecdh,rsa} and math/big are trusted primitives",
		"ssh-rsa stanzas are opened with the private key (and their OAEP seed traced to the tape) instead of being reproduced",
		"retaining-identity stage: the file key slice an Identity returns stays the identity's; the library reads it and an identity may hand the same slice out again",
	}
	r.MinEvals, r.MinDistinct = 300, 200
	if n, err := refage.SelfCheck(); err != nil {
		fmt.Println("INCONCLUSIVE: reference implementation disagrees with the CCTV vectors:", err)
		os.Exit(2)
	} else {
		r.Set("reference_selfcheck_vectors", n)
	}
	encryptSide(r)
	corpusSide(r)
	retainedKeysSide(r)
	vectorSide(r)
	referenceFilesSide(r)
	stanzaShapesSide(r)
	collidingValuesSide(r)
	r.Finish()
}

func encryptSide(r *mon.Run) {
	rng := r.RNG("enc")
	alphabet := []string{"X1", "X2", "E1", "E2", "R1", "U1"}
	var lists [][]string
	for _, a := range alphabet {
		lists = append(lists, []string{a})
		for _, b := range alphabet {
			lists = append(lists, []string{a, b})
		}
	}
	lists = append(lists, []string{"U4", "X1"}, []string{"E1", "U4"}, []string{"R5"}, []string{"R6", "X1"}, []string{"R4"},
		[]string{"G1"}, []string{"G2"}, []string{"X4", "G1"}, []string{"G1", "E2"}, []string{"G2", "G1"},
		[]string{"EZ1"}, []string{"EZ2"}, []string{"X1", "EZ1"}, []string{"EZ2", "U0", "E1"},
		[]string{"PE1"}, []string{"PR1"}, []string{"U0", "PE1"}, []string{"U0", "PR1"}, []string{"X1", "U0", "U1", "PE1", "PR1"}, []string{"PE1", "U0"},
		[]string{"R7"}, []string{"R8"}, []string{"X1", "R7", "R8"},
		// two different Ed25519 keys whose 32-bit recipient tags are equal
		[]string{"EC1"}, []string{"EC2"}, []string{"EC1", "EC2"}, []string{"EC2", "EC1"}, []string{"X1", "EC1", "U1", "EC2"},
		// a recipient parsed from a valid but non-canonical key line
		[]string{"RN1"}, []string{"X2", "RN1"})
	full := []string{"X1", "X2", "X3", "E1", "E2", "E3", "R1", "R2", "R3", "R4", "R5", "R6", "R7", "R8", "U0", "U1", "U2", "U3", "U4", "A1", "A2", "A3", "EZ1", "EZ2", "EC1", "EC2", "PE1", "PR1"}
	for i := 0; i < r.Pick(60, 400); i++ {
		n := 3 + rng.Intn(5)
		var l []string
		hasKey := false
		for j := 0; j < n; j++ {
			x := full[rng.Intn(len(full))]
			if keys.P(x).Kind != 'U' {
				hasKey = true
			}
			l = append(l, x)
		}
		if hasKey {
			lists = append(lists, l)
		}
	}
	var cases []encCase
	for li, l := range lists {
		keyed := false
		for _, n := range l {
			keyed = keyed || keys.P(n).Kind != 'U'
		}
		if !keyed {
			continue // the reference needs at least one recipient it holds a key for
		}
		lens := []int{boundary[li%len(boundary)], rng.Intn(400)}
		if r.Thorough() {
			lens = append(lens, boundary[(li+5)%len(boundary)], 65536+rng.Intn(131072))
		}
		for k, n := range lens {
			c := encCase{list: l, length: n, armored: (li+k)%2 == 0}
			if k == 1 {
				c.seg = randomSeg(rng, n)
			} else {
				c.via = ax.Vias[(li+k)%len(ax.Vias)]
			}
			cases = append(cases, c)
		}
	}
	// chunk-multiple lengths through every hand-over mode, and payloads whose
	// chunk counter passes one byte (> 256 chunks): a symmetric slip in the
	// counter only shows against the independent reference
	for vi, via := range ax.Vias {
		cases = append(cases, encCase{list: []string{"X1"}, length: 65536 * (1 + vi%3), armored: vi%2 == 0, via: via})
		// and a length that leaves single hand-over steps of more than one chunk
		cases = append(cases, encCase{list: []string{"X2"}, length: 150000 + 65536*(vi%2) + vi, armored: vi%2 == 1, via: via})
	}
	cases = append(cases, encCase{list: []string{"X1"}, length: 300*65536 + 5, via: ax.ViaWrite},
		encCase{list: []string{"E1"}, length: 257 * 65536, via: ax.ViaCopyPlain})
	// passphrases of every length around the block sizes of the hash behind
	// the key derivation (55/56, 63/64/65, 119/120, 127/128/129) and long ones
	for _, n := range []int{1, 2, 31, 32, 33, 55, 56, 57, 63, 64, 65, 66, 119, 120, 127, 128, 129, 200, 1000} {
		cases = append(cases, encCase{list: []string{fmt.Sprintf("SL%d", n)}, length: 10 + n, armored: n%2 == 0, logN: 1 + n%5})
	}
	// passphrase files at every work factor 1..12 (+ the default 18 in thorough)
	for w := 1; w <= 12; w++ {
		cases = append(cases, encCase{list: []string{"S1"}, length: w * 13, armored: w%2 == 0, logN: w})
	}
	for w := 1; w <= 12; w += 3 {
		// the same recipient object a second and third time
		cases = append(cases, encCase{list: []string{"S1"}, length: 5 + w, logN: w}, encCase{list: []string{"S1"}, length: 70000 + w, armored: true, logN: w})
	}
	if r.Thorough() {
		cases = append(cases, encCase{list: []string{"S1"}, length: 10, logN: 18}, encCase{list: []string{"S2"}, length: 70000, armored: true, logN: 18})
	}
	for i := range cases {
		if cases[i].logN == 0 {
			cases[i].logN = keys.ScryptLogN
		}
	}

	// Phase 1 (serial): the tap is process-global, so files are produced one
	// at a time under a deterministic tape.
	t := mon.InstallTap(mon.NewDetStream(fmt.Sprintf("c05-tape-%d", r.Seed)))
	out := make([]*produced, len(cases))
	for i, c := range cases {
		pt := mon.DetBytes(fmt.Sprintf("c05-pt-%d-%d", r.Seed, i), c.length)
		mark := t.Mark()
		var file []byte
		var err error
		func() {
			defer func() {
				if p := recover(); p != nil {
					err = fmt.Errorf("PANIC: %v", p)
				}
			}()
			if c.via != "" {
				file, err = ax.EncryptVia(pt, c.armored, c.via, keys.Recipients(partiesOf(c))...)
			} else {
				file, err = ax.EncryptSeg(pt, c.armored, c.seg, keys.Recipients(partiesOf(c))...)
			}
		}()
		out[i] = &produced{c: c, pt: pt, file: file, draws: t.Since(mark), err: err}
		if i%256 == 0 {
			t.Reset()
		}
	}
	t.Uninstall()

	// Phase 2 (parallel): explain and compare.
	var bytesCompared int64
	var mu sync.Mutex
	mon.Par(len(out), func(i int) {
		p := out[i]
		c := p.c
		name := fmt.Sprintf("list=%s len=%d armor=%v logN=%d seg=%v via=%s", strings.Join(c.list, ","), c.length, c.armored, c.logN, len(c.seg) > 0, c.via)
		replay := map[string]any{"list": c.list, "len": c.length, "armor": c.armored, "logN": c.logN, "seg": c.seg, "case_index": i}
		r.Eval(1)
		if p.err != nil {
			r.Violate("encrypt-error:"+name, fmt.Sprintf("%s: %v", name, p.err), replay)
			return
		}
		bin := p.file
		if c.armored {
			b, err := refage.Dearmor(p.file)
			if err != nil {
				r.Violate("armor-not-canonical:"+name, fmt.Sprintf("%s: armored output rejected by the strict armor model: %q…", name, mon.Trunc(p.file, 120)), replay)
				return
			}
			if !bytes.Equal(refage.Armor(b, "\n"), p.file) {
				r.Violate("armor-differs:"+name, name+": armored output differs from the reference armoring of the same bytes", replay)
				return
			}
			bin = b
		}
		ex, err := tape.Explain(bin, partiesOf(c), p.pt, p.draws, c.logN)
		if err != nil {
			cls := "format"
			if _, ok := err.(*tape.ErrProvenance); ok {
				cls = "tape"
			}
			r.Violate(cls+"-mismatch:"+classOf(c)+":"+shortErr(err), fmt.Sprintf("%s: %v", name, err), replay)
			return
		}
		r.DistinctBytes(p.file)
		mu.Lock()
		bytesCompared += int64(len(p.file))
		mu.Unlock()
		r.Count("files_byte_exact", 1)
		r.Count("rsa_stanzas_opened", int64(ex.RSA))
		for _, n := range c.list {
			r.Tab("stanza_types_reproduced", string(n[0]))
		}
		r.Tab("enc_length", lenClass(c.length))
		r.SampleN("enc"+classOf(c), 1, map[string]any{"side": "encrypt", "list": strings.Join(c.list, ","), "len": c.length, "armored": c.armored,
			"file_sha256": hash(p.file), "tape_values_used": len(ex.Uses), "verdict": "byte-identical to the reference encoding"})
	})
	r.Set("bytes_compared_encrypt_side", bytesCompared)
}

func shortErr(err error) string {
	s := err.Error()
	if i := strings.Index(s, ":"); i > 0 {
		s = s[:i]
	}
	if len(s) > 60 {
		s = s[:60]
	}
	return s
}

func classOf(c encCase) string {
	seen := map[byte]bool{}
	var sb strings.Builder
	for _, n := range c.list {
		if !seen[n[0]] {
			seen[n[0]] = true
			sb.WriteByte(n[0])
		}
	}
	return sb.String()
}

func randomSeg(rng interface{ Intn(int) int }, n int) []int {
	var seg []int
	for left := n; left > 0; {
		k := rng.Intn(left + 1)
		if rng.Intn(4) == 0 {
			k = 0
		}
		seg = append(seg, k)
		left -= k
		if len(seg) > 20 {
			break
		}
	}
	return seg
}

func lenClass(n int) string {
	switch {
	case n <= 2:
		return fmt.Sprint(n)
	case n < 65535:
		return "<1chunk"
	case n <= 65537:
		return fmt.Sprintf("1chunk%+d", n-65536)
	case n < 131071:
		return "1-2chunks"
	case n <= 131073:
		return fmt.Sprintf("2chunks%+d", n-131072)
	case n < 196608:
		return "2-3chunks"
	}
	return ">=3chunks"
}

func hash(b []byte) string {
	h := sha256.Sum256(b)
	return hex.EncodeToString(h[:8])
}

// ---- frozen corpus -------------------------------------------------------------

type corpusEntry struct {
	File      string `json:"file"`
	Writer    string `json:"writer"` // "refage" or "age@9da7c8c"
	Armored   bool   `json:"armored"`
	Identity  string `json:"identity"` // party name
	PlainLen  int    `json:"plain_len"`
	PlainSeed string `json:"plain_seed"` // plaintext = mon.DetBytes(seed, len)
	PlainHash string `json:"plain_sha256"`
	Note      string `json:"note,omitempty"`
}

func corpusDir(r *mon.Run) string { return filepath.Join(r.Root, "corpus") }

func corpusSide(r *mon.Run) {
	b, err := os.ReadFile(filepath.Join(corpusDir(r), "manifest.json"))
	if err != nil {
		r.Inconclusive("frozen corpus missing: %v", err)
		return
	}
	var ents []corpusEntry
	if err := json.Unmarshal(b, &ents); err != nil {
		r.Inconclusive("frozen corpus manifest: %v", err)
		return
	}
	mon.Par(len(ents), func(i int) {
		e := ents[i]
		file, err := os.ReadFile(filepath.Join(corpusDir(r), e.File))
		if err != nil {
			r.Inconclusive("corpus file %s: %v", e.File, err)
			return
		}
		r.Guard("corpus:"+e.File, func() {
			id := keys.P(e.Identity).Identity
			res := decryptHeldAnyhow(file, e.Armored, id)
			r.Eval(1)
			r.DistinctBytes(file)
			got := sha256.Sum256(res.Plain)
			if !res.Clean() || hex.EncodeToString(got[:]) != e.PlainHash || len(res.Plain) != e.PlainLen {
				r.Violate("corpus:"+e.File, fmt.Sprintf("frozen corpus file %s (%s, written by %s) no longer decrypts to its recorded plaintext: %s", e.File, e.Note, e.Writer, res), map[string]any{"file": e.File})
				return
			}
			r.Count("corpus_files_decrypted", 1)
			r.Tab("corpus", fmt.Sprintf("%c:%s:armor=%v", e.Identity[0], e.Writer, e.Armored))
		})
	})
}

func vectorSide(r *mon.Run) {
	vs, err := refage.Vectors()
	if err != nil {
		r.Inconclusive("vectors: %v", err)
		return
	}
	for _, v := range vs {
		if v.Expect != "success" {
			continue
		}
		var ids []age.Identity
		for _, s := range v.Identities {
			i, err := age.ParseX25519Identity(s)
			if err != nil {
				r.Violate("vector-identity:"+v.Name, fmt.Sprintf("vector %s: identity does not parse: %v", v.Name, err), nil)
				continue
			}
			ids = append(ids, i)
		}
		for _, p := range v.Passphrases {
			ids = append(ids, keys.ScryptIdentity(p, 0))
		}
		v := v
		r.Guard("vector:"+v.Name, func() {
			res := decryptHeldAnyhow(v.File, v.Armored, ids...)
			r.Eval(1)
			r.DistinctBytes(v.File)
			h := sha256.Sum256(res.Plain)
			if !res.Clean() || !bytes.Equal(h[:], v.PayloadHash) {
				r.Violate("vector:"+v.Name, fmt.Sprintf("CCTV success vector %s does not decrypt to its recorded payload: %s", v.Name, res), map[string]any{"vector": v.Name})
				return
			}
			r.Count("vectors_decrypted", 1)
		})
	}
	// the repository's own example file
	src := os.Getenv("AGE_SRC")
	if src == "" {
		src = "/repo"
	}
	ex, err1 := os.ReadFile(filepath.Join(src, "testdata", "example.age"))
	kf, err2 := os.ReadFile(filepath.Join(src, "testdata", "example_keys.txt"))
	if err1 == nil && err2 == nil {
		ids, err := age.ParseIdentities(bytes.NewReader(kf))
		if err == nil {
			res := decryptHeldAnyhow(ex, false, ids...)
			r.Eval(1)
			if !res.Clean() || len(res.Plain) == 0 {
				r.Violate("example.age", "testdata/example.age no longer decrypts with testdata/example_keys.txt: "+res.String(), nil)
			} else {
				r.Count("example_file_decrypted", 1)
			}
		}
	}
}

// referenceFilesSide: files written by the reference implementation over the
// same space must decrypt with every listed recipient's real identity.
func referenceFilesSide(r *mon.Run) {
	rng := r.RNG("ref-files")
	type rc struct {
		list    []string
		length  int
		armored int // 0 binary, 1 LF armor, 2 CRLF armor
	}
	var cases []rc
	pool := []string{"X1", "X2", "E1", "E2", "R1", "R3", "U1", "U2"}
	n := r.Pick(250, 2500)
	for i := 0; i < n; i++ {
		k := 1 + rng.Intn(4)
		var l []string
		for j := 0; j < k; j++ {
			l = append(l, pool[rng.Intn(len(pool))])
		}
		ln := boundary[i%len(boundary)]
		if i%3 == 0 {
			ln = rng.Intn(1000)
		}
		cases = append(cases, rc{l, ln, i % 3})
	}
	for w := 1; w <= 12; w++ {
		cases = append(cases, rc{[]string{fmt.Sprintf("S%d", 1+w%2)}, w * 7, w % 3})
	}
	for _, n := range []int{1, 32, 55, 56, 63, 64, 65, 120, 127, 128, 129, 1000} {
		cases = append(cases, rc{[]string{fmt.Sprintf("SL%d", n)}, n, n % 3})
	}
	// more than 256 chunks, written by the reference
	cases = append(cases, rc{[]string{"X1"}, 300*65536 + 5, 0}, rc{[]string{"E2"}, 257 * 65536, 1})
	mon.Par(len(cases), func(i int) {
		c := cases[i]
		crng := mon.NewRNG(r.Seed, fmt.Sprintf("ref-file-%d", i))
		fileKey := mon.Bytes(crng, 16)
		nonce := mon.Bytes(crng, 16)
		pt := mon.DetBytes(fmt.Sprintf("c05-refpt-%d-%d", r.Seed, i), c.length)
		var sts []refage.Stanza
		hasKey := false
		for _, name := range c.list {
			p := keys.P(name)
			switch p.Kind {
			case 'X':
				s, err := refage.X25519Wrap(fileKey, p.Ref.(refage.X25519Key).Public(), mon.Bytes(crng, 32))
				if err != nil {
					return
				}
				sts = append(sts, s)
				hasKey = true
			case 'E':
				s, err := refage.SSHEd25519Wrap(fileKey, p.Ref.(refage.EdKey).Pub, mon.Bytes(crng, 32))
				if err != nil {
					return
				}
				sts = append(sts, s)
				hasKey = true
			case 'R':
				s, err := refage.SSHRSAWrap(fileKey, &p.Ref.(refage.RSAKey).Priv.PublicKey, crng)
				if err != nil {
					return
				}
				sts = append(sts, s)
				hasKey = true
			case 'S':
				sts = append(sts, refage.ScryptWrap(fileKey, p.Pass, mon.Bytes(crng, 16), 1+i%12))
				hasKey = true
			case 'U':
				for _, u := range p.Recipient.(*keys.Unknown).Stanzas {
					sts = append(sts, refage.Stanza{Type: u.Type, Args: u.Args, Body: u.Body})
				}
			}
		}
		if !hasKey {
			return
		}
		file := refage.BuildFile(fileKey, sts, nonce, pt)
		switch c.armored {
		case 1:
			file = refage.Armor(file, "\n")
		case 2:
			file = refage.Armor(file, "\r\n")
		}
		seen := map[string]bool{}
		for _, name := range c.list {
			p := keys.P(name)
			if p.Identity == nil || seen[name] {
				continue
			}
			seen[name] = true
			r.Guard(fmt.Sprintf("ref-file:%v:%d", c.list, c.length), func() {
				res := decryptHeldAnyhow(file, c.armored != 0, p.Identity)
				r.Eval(1)
				if !res.Clean() || !bytes.Equal(res.Plain, pt) {
					r.Violate(fmt.Sprintf("ref-file-rejected:%c:armor%d", p.Kind, c.armored),
						fmt.Sprintf("a file written by the reference implementation (list=%v len=%d armor=%d) is not decrypted to its plaintext by %s: %s", c.list, c.length, c.armored, name, res),
						map[string]any{"list": c.list, "len": c.length, "armor": c.armored, "identity": name, "case_index": i})
					return
				}
				r.Count("reference_files_decrypted", 1)
				r.Tab("ref_files", fmt.Sprintf("%c:armor%d", p.Kind, c.armored))
			})
		}
		r.DistinctBytes(file)
	})
}

// ---- corpus generation (run once; output committed under /verif/corpus) ---------

func genCorpus(dir string) {
	os.MkdirAll(dir, 0o755)
	var ents []corpusEntry
	add := func(name string, file []byte, e corpusEntry) {
		e.File = name
		if err := os.WriteFile(filepath.Join(dir, name), file, 0o644); err != nil {
			panic(err)
		}
		ents = append(ents, e)
	}
	t := mon.InstallTap(mon.NewDetStream("corpus-tape"))
	defer t.Uninstall()
	crng := mon.NewRNG(7, "corpus")
	type spec struct {
		list   []string
		length int
		note   string
	}
	var specs []spec
	for _, n := range []int{0, 1, 65535, 65536, 65537, 131072} {
		specs = append(specs, spec{[]string{"X1"}, n, "native X25519"})
	}
	for _, n := range []int{0, 1, 100} {
		specs = append(specs, spec{[]string{"E1"}, n, "ssh-ed25519"}, spec{[]string{"R1"}, n, "ssh-rsa 2048"}, spec{[]string{"S1"}, n, "passphrase"})
	}
	specs = append(specs, spec{[]string{"R3"}, 33, "ssh-rsa 3072"},
		spec{[]string{"X2", "E1", "R1", "X1"}, 1000, "multi-recipient"},
		spec{[]string{"U0", "X1", "U2", "U1"}, 50, "grease and unknown stanzas around X1"},
		spec{[]string{"U3", "E2", "U1"}, 48, "unknown stanzas around E2"})
	// appended later (earlier entries keep their bytes: the tape is sequential)
	specs = append(specs, spec{[]string{"R4"}, 10, "ssh-rsa 2500 bits"},
		spec{[]string{"R5"}, 64, "ssh-rsa 2048 bits, public exponent 35"},
		spec{[]string{"R6"}, 5, "ssh-rsa 2048 bits, public exponent 3"},
		spec{[]string{"E3", "R5", "X3"}, 65536, "multi-recipient with a small-exponent RSA key"})
	for si, sp := range specs {
		seed := fmt.Sprintf("corpus-pt-%d", si)
		pt := mon.DetBytes(seed, sp.length)
		ph := sha256.Sum256(pt)
		var idName string
		for _, n := range sp.list {
			if keys.P(n).Identity != nil {
				idName = n
			}
		}
		base := corpusEntry{Identity: idName, PlainLen: sp.length, PlainSeed: seed, PlainHash: hex.EncodeToString(ph[:]), Note: sp.note}
		// written by the pinned tree
		for _, arm := range []bool{false, true} {
			f, err := ax.Encrypt(pt, arm, keys.Recipients(keys.Ps(sp.list...))...)
			if err != nil {
				panic(err)
			}
			e := base
			e.Writer, e.Armored = "age@9da7c8c", arm
			add(fmt.Sprintf("%03d-age-%s-%d%s.age", si, strings.Join(sp.list, "_"), sp.length, map[bool]string{false: "", true: "-armor"}[arm]), f, e)
		}
		// written by the reference implementation
		fileKey, nonce := mon.Bytes(crng, 16), mon.Bytes(crng, 16)
		var sts []refage.Stanza
		for _, name := range sp.list {
			p := keys.P(name)
			switch p.Kind {
			case 'X':
				s, _ := refage.X25519Wrap(fileKey, p.Ref.(refage.X25519Key).Public(), mon.Bytes(crng, 32))
				sts = append(sts, s)
			case 'E':
				s, _ := refage.SSHEd25519Wrap(fileKey, p.Ref.(refage.EdKey).Pub, mon.Bytes(crng, 32))
				sts = append(sts, s)
			case 'R':
				s, _ := refage.SSHRSAWrap(fileKey, &p.Ref.(refage.RSAKey).Priv.PublicKey, crng)
				sts = append(sts, s)
			case 'S':
				sts = append(sts, refage.ScryptWrap(fileKey, p.Pass, mon.Bytes(crng, 16), 10))
			case 'U':
				for _, u := range p.Recipient.(*keys.Unknown).Stanzas {
					sts = append(sts, refage.Stanza{Type: u.Type, Args: u.Args, Body: u.Body})
				}
			}
		}
		bin := refage.BuildFile(fileKey, sts, nonce, pt)
		e := base
		e.Writer = "refage"
		add(fmt.Sprintf("%03d-ref-%s-%d.age", si, strings.Join(sp.list, "_"), sp.length), bin, e)
		e.Armored = true
		add(fmt.Sprintf("%03d-ref-%s-%d-armor.age", si, strings.Join(sp.list, "_"), sp.length), refage.Armor(bin, "\n"), e)
		if sp.length <= 1000 {
			e.Note += " (CRLF armor)"
			add(fmt.Sprintf("%03d-ref-%s-%d-armor-crlf.age", si, strings.Join(sp.list, "_"), sp.length), refage.Armor(bin, "\r\n"), e)
		}
	}
	// cross-check before freezing: every file must open with BOTH implementations
	for _, e := range ents {
		file, _ := os.ReadFile(filepath.Join(dir, e.File))
		res := decryptHeldAnyhow(file, e.Armored, keys.P(e.Identity).Identity)
		h := sha256.Sum256(res.Plain)
		if !res.Clean() || hex.EncodeToString(h[:]) != e.PlainHash {
			panic("corpus cross-check (age) failed for " + e.File + ": " + res.String())
		}
		bin := file
		if e.Armored {
			var err error
			if bin, err = refage.Dearmor(file); err != nil {
				panic("corpus cross-check (refage armor) failed for " + e.File)
			}
		}
		o, err := refage.Decrypt(bin, keys.P(e.Identity).Ref)
		if err != nil || len(o.Plaintext) != e.PlainLen {
			panic(fmt.Sprintf("corpus cross-check (refage) failed for %s: %v", e.File, err))
		}
	}
	b, _ := json.MarshalIndent(ents, "", " ")
	os.WriteFile(filepath.Join(dir, "manifest.json"), append(b, '\n'), 0o644)
	fmt.Printf("corpus: %d files written to %s\n", len(ents), dir)
}

// collidingValuesSide: nothing in the format forbids two valid files from
// sharing a salt, an ephemeral share, a file key or a payload nonce (a
// replayed random tape, a deterministic generator). Such files, written by
// the reference, are opened one after the other with the SAME identity
// objects in one goroutine: each must still decrypt to its plaintext.
func collidingValuesSide(r *mon.Run) {
	type cf struct {
		name string
		file []byte
		pt   []byte
		id   string
	}
	var files []cf
	mk := func(name, id string, fileKey, nonce []byte, st refage.Stanza, n int) {
		pt := mon.DetBytes("c05-collide-"+name, n)
		files = append(files, cf{name, refage.BuildFile(fileKey, []refage.Stanza{st}, nonce, pt), pt, id})
	}
	salt := mon.DetBytes("c05-collide-salt", 16)
	salt2 := mon.DetBytes("c05-collide-salt2", 16)
	fk := mon.DetBytes("c05-collide-fk", 16)
	nonce := mon.DetBytes("c05-collide-nonce", 16)
	eph := mon.DetBytes("c05-collide-eph", 32)
	s1 := keys.P("S1")
	// one salt, work factors up and down, a second salt in between
	for _, w := range []int{10, 11, 10, 12, 1, 2, 12, 11, 5, 10} {
		mk(fmt.Sprintf("scrypt-same-salt-wf%d", w), "S1", mon.DetBytes(fmt.Sprintf("c05-collide-fk-%d-%d", w, len(files)), 16), mon.DetBytes(fmt.Sprintf("c05-collide-n-%d", len(files)), 16),
			refage.ScryptWrap(mon.DetBytes(fmt.Sprintf("c05-collide-fk-%d-%d", w, len(files)), 16), s1.Pass, salt, w), 40+w)
		if w%5 == 0 {
			k := mon.DetBytes(fmt.Sprintf("c05-collide-fk2-%d", len(files)), 16)
			mk(fmt.Sprintf("scrypt-other-salt-wf%d", w), "S1", k, nonce, refage.ScryptWrap(k, s1.Pass, salt2, w), 7)
		}
	}
	// same salt AND same file key at two work factors; same everything twice
	mk("scrypt-same-salt-same-key-wf3", "S1", fk, nonce, refage.ScryptWrap(fk, s1.Pass, salt, 3), 100)
	mk("scrypt-same-salt-same-key-wf4", "S1", fk, nonce, refage.ScryptWrap(fk, s1.Pass, salt, 4), 100)
	mk("scrypt-same-salt-same-key-wf4-again", "S1", fk, nonce, refage.ScryptWrap(fk, s1.Pass, salt, 4), 100)
	// one ephemeral secret for different recipients and files; one file key and
	// one nonce across recipient types
	for _, n := range []string{"X1", "X2", "X1", "X3"} {
		st, err := refage.X25519Wrap(fk, keys.P(n).Ref.(refage.X25519Key).Public(), eph)
		if err == nil {
			mk("x25519-same-ephemeral-"+n, n, fk, mon.DetBytes("c05-collide-nx-"+n+fmt.Sprint(len(files)), 16), st, 65536+len(files))
		}
	}
	for _, n := range []string{"E1", "E2", "E1"} {
		st, err := refage.SSHEd25519Wrap(fk, keys.P(n).Ref.(refage.EdKey).Pub, eph)
		if err == nil {
			mk("ssh-ed25519-same-ephemeral-"+n, n, fk, nonce, st, 300+len(files))
		}
	}
	for i, n := range []string{"R1", "R5", "R1"} {
		st, err := refage.SSHRSAWrap(fk, &keys.P(n).Ref.(refage.RSAKey).Priv.PublicKey, mon.NewRNG(1, "c05-collide-oaep"))
		if err == nil {
			mk(fmt.Sprintf("ssh-rsa-same-seed-%s-%d", n, i), n, fk, nonce, st, 10)
		}
	}
	// twice through the list: the second pass meets every value a second time
	for pass := 0; pass < 2; pass++ {
		for _, f := range files {
			res := ax.Decrypt(bytes.NewReader(f.file), false, 0, keys.P(f.id).Identity)
			r.Eval(1)
			r.Distinct(fmt.Sprintf("collide:%s:pass%d", f.name, pass))
			if !res.Clean() || !bytes.Equal(res.Plain, f.pt) {
				r.Violate("ref-file-rejected:colliding-values:"+strings.SplitN(f.name, "-wf", 2)[0],
					fmt.Sprintf("a valid reference-written file (%s, pass %d) that shares a salt / ephemeral / file key / nonce with files opened earlier by the same identity object is not decrypted to its plaintext: %s", f.name, pass, res),
					map[string]any{"file": f.name, "pass": pass})
				continue
			}
			r.Count("colliding_value_files_decrypted", 1)
		}
	}
	if r.Counter("colliding_value_files_decrypted") == 0 {
		r.Inconclusive("no file with colliding values was decrypted")
	}
}
