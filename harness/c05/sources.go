package main

import (
	"sync/atomic"

	"filippo.io/age"
	"filippo.io/age/zverif/ax"
)

var heldIn atomic.Int64

// decryptHeldAnyhow decrypts an in-memory file held in a reader whose kind
// rotates from call to call (bytes.Reader, *os.File, bufio of several sizes in
// front of or behind the de-armoring reader, one-byte and data-with-EOF
// readers, a pipe …): an existing file must decrypt whatever the caller keeps
// it in.
func decryptHeldAnyhow(file []byte, armored bool, ids ...age.Identity) *ax.Result {
	kind := ax.SourceKindsOwnFiles[int(heldIn.Add(1))%len(ax.SourceKindsOwnFiles)]
	if len(file) > 4<<20 {
		kind = "bytes.Reader"
	}
	return ax.DecryptFrom(file, armored, kind, 0, ids...)
}
