package main

import (
	"crypto/sha256"
	"encoding/hex"
	"encoding/json"
	"fmt"
	"os"
	"path/filepath"
	"sync"

	"filippo.io/age"
	"filippo.io/age/zverif/ax"
	"filippo.io/age/zverif/keys"
	"filippo.io/age/zverif/mon"
	"filippo.io/age/zverif/refage"
)

// retaining is a caller-side identity of the kind put in front of an
// expensive or interactive one (a passphrase, a hardware token): it remembers
// the file key it obtained for a header and hands the SAME slice out again
// the next time it is shown the same stanzas. Its inner identity is the real
// one of the library.
type retaining struct {
	inner age.Identity
	mu    sync.Mutex
	memo  map[[32]byte][]byte
	hits  int
}

func (m *retaining) Unwrap(stanzas []*age.Stanza) ([]byte, error) {
	h := sha256.New()
	for _, s := range stanzas {
		fmt.Fprintf(h, "%q %q %x\n", s.Type, s.Args, s.Body)
	}
	var k [32]byte
	h.Sum(k[:0])
	m.mu.Lock()
	defer m.mu.Unlock()
	if fk, ok := m.memo[k]; ok {
		m.hits++
		return fk, nil
	}
	fk, err := m.inner.Unwrap(stanzas)
	if err != nil {
		return nil, err
	}
	m.memo[k] = fk
	return fk, nil
}

// retainedKeysSide: existing files keep decrypting through such an identity
// when, in the same process and with the same identity object, a DAMAGED copy
// of the file (header MAC altered; cut right behind the header; cut inside the
// payload nonce; last chunk altered) was refused a moment earlier. The
// refusals are not judged here; the intact file is.
func retainedKeysSide(r *mon.Run) {
	b, err := os.ReadFile(filepath.Join(corpusDir(r), "manifest.json"))
	if err != nil {
		return // corpusSide reports it
	}
	var ents []corpusEntry
	if json.Unmarshal(b, &ents) != nil {
		return
	}
	type damage struct {
		name string
		make func(f []byte, he int) []byte
	}
	damages := []damage{
		{"header MAC altered", func(f []byte, he int) []byte {
			g := append([]byte(nil), f...)
			if g[he-10] == 'A' {
				g[he-10] = 'B'
			} else {
				g[he-10] = 'A'
			}
			return g
		}},
		{"cut right behind the header", func(f []byte, he int) []byte { return append([]byte(nil), f[:he]...) }},
		{"cut inside the payload nonce", func(f []byte, he int) []byte { return append([]byte(nil), f[:he+7]...) }},
		{"last byte altered", func(f []byte, he int) []byte {
			g := append([]byte(nil), f...)
			g[len(g)-1] ^= 1
			return g
		}},
	}
	var mu sync.Mutex
	done := map[string]int{}
	mon.Par(len(ents), func(i int) {
		e := ents[i]
		if e.Armored || e.PlainLen > 200000 {
			return
		}
		cls := fmt.Sprintf("%c:%s", e.Identity[0], e.Writer)
		mu.Lock()
		done[cls]++
		n := done[cls]
		mu.Unlock()
		if n > r.Pick(6, 60) {
			return
		}
		file, err := os.ReadFile(filepath.Join(corpusDir(r), e.File))
		if err != nil {
			return
		}
		he := refage.HeaderEnd(file)
		if he < 20 || he+16 > len(file) {
			return
		}
		r.Guard("retaining:"+e.File, func() {
			for di, dmg := range damages {
				for _, warm := range []bool{false, true} {
					id := &retaining{inner: keys.P(e.Identity).Identity, memo: map[[32]byte][]byte{}}
					if warm {
						// the file was open a moment ago
						if res := ax.DecryptBytes(file, false, id); !res.Clean() {
							r.Violate("retaining-identity:first-open:"+cls, fmt.Sprintf("corpus file %s does not decrypt through an identity that remembers its file keys: %s", e.File, res), map[string]any{"file": e.File})
							return
						}
					}
					bad := ax.DecryptBytes(dmg.make(file, he), false, id)
					r.Eval(1)
					if bad.Clean() {
						r.Count("retaining_damaged_copy_accepted_not_judged_here", 1)
					}
					res := ax.DecryptBytes(file, false, id)
					r.Eval(1)
					r.Distinct(fmt.Sprintf("retaining %s %s warm=%v", e.File, dmg.name, warm))
					got := sha256.Sum256(res.Plain)
					if !res.Clean() || hex.EncodeToString(got[:]) != e.PlainHash || len(res.Plain) != e.PlainLen {
						r.Violate(fmt.Sprintf("retaining-identity:after-refused-copy:%s:%d", cls, di),
							fmt.Sprintf("frozen corpus file %s no longer decrypts, through an identity that remembers the file key it returned, after a copy with %s was refused (opened before: %v; identity answered %d times from memory): %s", e.File, dmg.name, warm, id.hits, res),
							map[string]any{"file": e.File, "damage": dmg.name, "opened_before": warm})
						return
					}
					r.Count("corpus_files_decrypted_after_a_refused_copy_with_a_retaining_identity", 1)
					r.Tab("retaining_identity", cls+":"+dmg.name)
				}
			}
		})
	})
}
