package main

import (
	"bytes"
	"fmt"
	"strings"

	"filippo.io/age/zverif/keys"
	"filippo.io/age/zverif/mon"
	"filippo.io/age/zverif/refage"
)

// stanzaShapesSide: files written by the reference implementation in which a
// stanza of somebody else (a plugin, a future recipient type) has an unusual
// but legal SHAPE — 0 to 1000 arguments, arguments and types of 1 to 4000
// characters, bodies of every length around the 48-byte line — and stands
// before or after the stanza of a real identity. Every such file is a valid
// age v1 file and must decrypt with that identity.
func stanzaShapesSide(r *mon.Run) {
	var shapes []refage.Stanza
	arg := func(i, n int) string {
		s := fmt.Sprintf("a%d", i)
		for len(s) < n {
			s += "abcdefghijklmnopqrstuvwxyz0123456789+/=~!"
		}
		if n > 0 {
			s = s[:max(n, 1)]
		}
		return s
	}
	for _, n := range []int{0, 1, 2, 3, 7, 8, 9, 13, 14, 15, 16, 17, 20, 31, 32, 33, 40, 63, 64, 65, 100, 255, 256, 257, 500, 1000} {
		var a []string
		for i := 0; i < n; i++ {
			a = append(a, arg(i, 0))
		}
		shapes = append(shapes, refage.Stanza{Type: "many-args", Args: a, Body: mon.DetBytes(fmt.Sprintf("shape-%d", n), n%50)})
	}
	for _, l := range []int{1, 2, 63, 64, 65, 100, 127, 128, 129, 1000, 4000} {
		shapes = append(shapes,
			refage.Stanza{Type: "long-arg", Args: []string{arg(0, l)}, Body: nil},
			refage.Stanza{Type: "long-args", Args: []string{arg(0, l), "x", arg(2, l)}, Body: make([]byte, 48)},
			refage.Stanza{Type: strings.Repeat("t", l), Args: []string{"1"}, Body: []byte{1}})
	}
	for _, l := range []int{0, 1, 46, 47, 48, 49, 63, 64, 65, 95, 96, 97, 1000, 5000} {
		shapes = append(shapes, refage.Stanza{Type: "body", Args: []string{fmt.Sprint(l)}, Body: mon.DetBytes("shape-body", l)})
	}
	n := 0
	for si, sh := range shapes {
		for _, who := range []string{"X1", "E1"} {
			if who == "E1" && si%3 != 0 {
				continue
			}
			for pos := 0; pos < 2; pos++ {
				fk := mon.DetBytes(fmt.Sprintf("shape-fk-%d-%s-%d", si, who, pos), 16)
				var own refage.Stanza
				var err error
				p := keys.P(who)
				if who == "X1" {
					own, err = refage.X25519Wrap(fk, keys.NewX("X1").Public, mon.DetBytes(fmt.Sprintf("shape-eph-%d", si), 32))
				} else {
					e := keys.LoadEd("ed1")
					own, err = refage.SSHEd25519Wrap(fk, e.Ref.Pub, mon.DetBytes(fmt.Sprintf("shape-eph-%d", si), 32))
				}
				if err != nil {
					r.Inconclusive("stanza shapes: reference wrap failed: %v", err)
					return
				}
				st := []refage.Stanza{sh, own}
				if pos == 1 {
					st = []refage.Stanza{own, sh}
				}
				pt := mon.DetBytes(fmt.Sprintf("shape-pt-%d", si), 10+si)
				file := refage.BuildFile(fk, st, mon.DetBytes("shape-nonce", 16), pt)
				desc := fmt.Sprintf("stanza %q with %d arguments (longest %d), %d body bytes, %s the stanza of %s", mon.Trunc([]byte(sh.Type), 12), len(sh.Args), longest(sh.Args), len(sh.Body), []string{"before", "after"}[pos], who)
				if h, _, err := refage.ParseHeader(file); err != nil || !h.WellFormed() {
					r.Inconclusive("stanza shapes: %s: the reference does not take its own file for well-formed (%v)", desc, err)
					continue
				}
				res := decryptHeldAnyhow(file, false, p.Identity)
				r.Eval(1)
				r.DistinctBytes(file)
				n++
				if !res.Clean() || !bytes.Equal(res.Plain, pt) {
					r.Violate(fmt.Sprintf("reference-file:stanza-shape:%s", sh.Type[:min(len(sh.Type), 12)]),
						fmt.Sprintf("a valid file written by the reference (%s) does not decrypt: %s", desc, res), map[string]any{"case": desc})
					continue
				}
				r.Tab("stanza_shapes", sh.Type[:min(len(sh.Type), 12)])
			}
		}
	}
	r.Count("reference_files_with_unusual_stanza_shapes_decrypted", int64(n))
}

func longest(a []string) int {
	m := 0
	for _, s := range a {
		m = max(m, len(s))
	}
	return m
}
