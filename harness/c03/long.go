package main

import (
	"fmt"
	"strconv"
	"strings"

	"filippo.io/age/zverif/mon"
	"filippo.io/age/zverif/refage"
)

// Resource-shaped unknown stanzas: third-party and plugin recipients put key
// handles, credential ids and the like into stanza fields, so a header can
// hold a type or an argument far longer than anything a native stanza has
// (43 characters), hundreds of arguments, or a body of many lines. The header
// MAC must cover every byte of them. Symbols:
//
//	La<n>  one argument of n characters (then a short one)
//	Lt<n>  a stanza type of n characters
//	Ln<n>  n arguments of 1-3 characters
//	Lb<n>  a body of n bytes (and an 80-character argument)
//	Lw<n>  two different arguments of n characters each
const alnum = "abcdefghijklmnopqrstuvwxyzABCDEFGHIJKLMNOPQRSTUVWXYZ0123456789"

func detText(label string, n int) string {
	b := mon.DetBytes("c03-long-"+label, n)
	for i := range b {
		b[i] = alnum[int(b[i])%len(alnum)]
	}
	return string(b)
}

func isLong(sym string) bool { return len(sym) > 2 && sym[0] == 'L' }

func isUnknown(sym string) bool { return sym == "U" || sym == "U48" || isLong(sym) }

func longStanza(sym string) refage.Stanza {
	n, err := strconv.Atoi(sym[2:])
	if err != nil {
		panic("c03: bad symbol " + sym)
	}
	switch sym[:2] {
	case "La":
		return refage.Stanza{Type: "res-handle", Args: []string{detText(sym, n), "tail"}, Body: mon.DetBytes("c03-long-body-"+sym, 20)}
	case "Lt":
		return refage.Stanza{Type: "res/" + detText(sym, n-4), Args: []string{"v1"}, Body: mon.DetBytes("c03-long-body-"+sym, 20)}
	case "Ln":
		args := make([]string, n)
		for i := range args {
			args[i] = detText(fmt.Sprintf("%s-%d", sym, i), 1+i%3)
		}
		return refage.Stanza{Type: "res-list", Args: args, Body: mon.DetBytes("c03-long-body-"+sym, 20)}
	case "Lb":
		return refage.Stanza{Type: "res-blob", Args: []string{detText(sym, 80)}, Body: mon.DetBytes("c03-long-body-"+sym, n)}
	case "Lw":
		return refage.Stanza{Type: "res-pair", Args: []string{detText(sym+"-a", n), detText(sym+"-b", n)}, Body: mon.DetBytes("c03-long-body-"+sym, 20)}
	}
	panic("c03: bad symbol " + sym)
}

// longMixes: every resource-shaped stanza next to a real opener (X / E / R),
// before and after it. Each is built by the reference encoder and written by
// the real age.Encrypt (there with Em in place of Rm, see main).
var longMixes = [][]string{
	{"Xm", "La63"}, {"La64", "Xm"}, {"Em", "La65"}, {"La100", "Em"}, {"Xm", "La255"}, {"La256", "Em"}, {"Xm", "La1000"}, {"La5000", "Xm"},
	{"Xm", "Lt64"}, {"Lt65", "Em"}, {"Rm", "Lt200"}, {"Xm", "Lt4200"},
	{"Ln50", "Xm"}, {"Em", "Ln300"},
	{"Xm", "Lb0"}, {"Lb48", "Em"}, {"Xm", "Lb4800"}, {"Lb70000", "Xm"},
	{"Xm", "Lw100"}, {"Lw300", "Em"}, {"Em", "Lw100", "La255"},
}

var longMixesThorough = [][]string{
	{"Em", "La5000"}, {"Rm", "La1000"}, {"La64", "Em", "Xo"}, {"Xo", "Lt200", "Xm"}, {"Lw300", "Rm"}, {"Xm", "Ln300", "Em"},
}

// fieldPos names one character of a long field.
type fieldPos struct {
	stanza, arg int // arg == -1: the type
	off         int
}

func (o *original) field(st, arg int) string {
	if arg < 0 {
		return o.stanzas[st].Type
	}
	return o.stanzas[st].Args[arg]
}

// fieldPositions lists the characters the field sweep visits: every position
// of a type of >= 64 characters and of every argument of a stanza that has an
// argument of >= 63 characters or >= 50 arguments. In the quick tier fields
// longer than 1200 characters are thinned to every 7th position plus
// positions 0..130 and the last 70.
func fieldPositions(o *original, thorough bool) []fieldPos {
	var out []fieldPos
	visit := func(st, arg int, f string) {
		for k := 0; k < len(f); k++ {
			if !thorough && len(f) > 1200 && k%7 != 0 && k > 130 && k < len(f)-70 {
				continue
			}
			out = append(out, fieldPos{st, arg, k})
		}
	}
	for i, s := range o.stanzas {
		if !isLong(o.mix[i]) {
			continue
		}
		if len(s.Type) >= 64 {
			visit(i, -1, s.Type)
		}
		long := len(s.Args) >= 50
		for _, a := range s.Args {
			long = long || len(a) >= 63
		}
		if long {
			for j, a := range s.Args {
				visit(i, j, a)
			}
		}
	}
	return out
}

func offBucket(off int) string {
	switch {
	case off >= 4096:
		return "4096+"
	case off >= 64:
		return "64+"
	case off == 63:
		return "63"
	}
	return "<63"
}

func fieldName(st, arg int) string {
	if arg < 0 {
		return fmt.Sprintf("s%d.type", st)
	}
	return fmt.Sprintf("s%d.arg%d", st, arg)
}

func (o *original) withField(st, arg int, v string) []refage.Stanza {
	c := cloneStanzas(o.stanzas)
	if arg < 0 {
		c[st].Type = v
	} else {
		c[st].Args[arg] = v
	}
	return c
}

// fieldSweepEdits: one bit flip and one substitution at each listed position.
func fieldSweepEdits(o *original, ps []fieldPos) []edit {
	var out []edit
	for _, p := range ps {
		f := o.field(p.stanza, p.arg)
		reg := fmt.Sprintf("%s@%s", fieldName(p.stanza, p.arg), offBucket(p.off))
		b := []byte(f)
		bit := uint(p.off % 7)
		b[p.off] ^= 1 << bit
		out = append(out, edit{class: "field-bit", region: reg,
			desc:  fmt.Sprintf("%s: bit %d of character %d of %d flipped (%q -> %q)", fieldName(p.stanza, p.arg), bit, p.off, len(f), f[p.off], b[p.off]),
			hdr:   encodeHeader(o.withField(p.stanza, p.arg, string(b)), o.mac),
			isArg: p.arg >= 0, isType: p.arg < 0, off: p.off})
		b = []byte(f)
		b[p.off] = alnum[(strings.IndexByte(alnum, f[p.off])+1+p.off%5)%len(alnum)]
		if b[p.off] == f[p.off] {
			b[p.off] = '#'
		}
		out = append(out, edit{class: "field-sub", region: reg,
			desc:  fmt.Sprintf("%s: character %d of %d replaced (%q -> %q)", fieldName(p.stanza, p.arg), p.off, len(f), f[p.off], b[p.off]),
			hdr:   encodeHeader(o.withField(p.stanza, p.arg, string(b)), o.mac),
			isArg: p.arg >= 0, isType: p.arg < 0, off: p.off})
	}
	return out
}

// fieldShapeEdits: truncation and extension of long fields at 63/64/65 and at
// the end, changes confined to the tail past 64 characters, and swaps between
// the tails of two long arguments.
func fieldShapeEdits(o *original) []edit {
	var out []edit
	type ref struct{ st, arg int }
	var longArgs []ref
	add := func(class string, st, arg, off int, desc string, v string) {
		out = append(out, edit{class: class, region: fmt.Sprintf("%s@%s", fieldName(st, arg), offBucket(off)),
			desc: fmt.Sprintf("%s (%d characters): %s", fieldName(st, arg), len(o.field(st, arg)), desc),
			hdr:  encodeHeader(o.withField(st, arg, v), o.mac), isArg: arg >= 0, isType: arg < 0, off: off})
	}
	for i, s := range o.stanzas {
		if !isLong(o.mix[i]) {
			continue
		}
		for arg := -1; arg < len(s.Args); arg++ {
			f := o.field(i, arg)
			if len(f) < 63 {
				continue
			}
			if arg >= 0 && len(f) >= 65 {
				longArgs = append(longArgs, ref{i, arg})
			}
			for _, n := range []int{62, 63, 64, 65, 66, len(f) - 1} {
				if n < len(f) {
					add("field-cut", i, arg, n, fmt.Sprintf("cut to %d characters", n), f[:n])
				}
			}
			add("field-extend", i, arg, len(f), "one character appended", f+"Q")
			add("field-extend", i, arg, len(f), "64 characters appended", f+detText("ext", 64))
			if len(f) > 64 {
				add("field-tail", i, arg, 64, "tail from character 64 replaced by other characters", f[:64]+detText("tail-"+f[:8], len(f)-64))
				add("field-tail", i, arg, 63, "tail from character 63 replaced by other characters", f[:63]+detText("tail-"+f[:8], len(f)-63))
				add("field-tail", i, arg, len(f)-1, "last character replaced", f[:len(f)-1]+string(alnum[(strings.IndexByte(alnum, f[len(f)-1])+1)%len(alnum)]))
				add("field-tail", i, arg, 64, "character 64 removed and one appended (same length)", f[:64]+f[65:]+"Z")
			}
			if len(f) > 66 {
				add("field-tail", i, arg, 64, "tail from character 64 reversed", f[:64]+reverse(f[64:]))
			}
			if len(f) > 4100 {
				add("field-tail", i, arg, 4096, "tail from character 4096 replaced by other characters", f[:4096]+detText("tail4k-"+f[:8], len(f)-4096))
				add("field-cut", i, arg, 4096, "cut to 4096 characters", f[:4096])
			}
		}
	}
	for x := 0; x < len(longArgs); x++ {
		for y := x + 1; y < len(longArgs); y++ {
			a, b := longArgs[x], longArgs[y]
			fa, fb := o.field(a.st, a.arg), o.field(b.st, b.arg)
			for _, at := range []int{64, 63, 70} {
				if at >= len(fa) || at >= len(fb) || fa[at:] == fb[at:] {
					continue
				}
				c := cloneStanzas(o.stanzas)
				c[a.st].Args[a.arg] = fa[:at] + fb[at:]
				c[b.st].Args[b.arg] = fb[:at] + fa[at:]
				out = append(out, edit{class: "field-tail-swap", region: fmt.Sprintf("%s@%s", fieldName(a.st, a.arg), offBucket(at)),
					desc: fmt.Sprintf("tails from character %d of %s and %s swapped", at, fieldName(a.st, a.arg), fieldName(b.st, b.arg)),
					hdr:  encodeHeader(c, o.mac), isArg: true, off: at})
			}
		}
	}
	return out
}

func reverse(s string) string {
	b := []byte(s)
	for l, r := 0, len(b)-1; l < r; l, r = l+1, r-1 {
		b[l], b[r] = b[r], b[l]
	}
	if string(b) == s {
		b[0] = '#'
	}
	return string(b)
}

// fastParseable decides the same question as refage.ParseHeader(file) == nil
// — is the edited header still inside the strict grammar — in linear time.
// The reference parser splits an argument line in quadratic time, which for
// the 5000-character fields above costs milliseconds per case. It is used
// only for the "parseable" LABEL of headers longer than 2000 bytes, and is
// cross-checked against the reference on a sample (see runEdit); a header
// that is accepted is always re-parsed by the reference itself.
func fastParseable(file []byte) bool {
	line := func() ([]byte, bool) {
		for i, c := range file {
			if c == '\n' {
				l := file[:i]
				file = file[i+1:]
				return l, true
			}
		}
		return nil, false
	}
	l, ok := line()
	if !ok || string(l)+"\n" != refage.Intro {
		return false
	}
	for {
		l, ok := line()
		if !ok {
			return false
		}
		if len(l) >= 3 && string(l[:3]) == "---" {
			if len(l) < 5 || l[3] != ' ' {
				return false
			}
			mac, err := refage.UnB64(string(l[4:]))
			return err == nil && len(mac) == 32
		}
		if len(l) < 3 || string(l[:3]) != "-> " {
			return false
		}
		run := 0
		for _, c := range l[3:] {
			if c == ' ' {
				if run == 0 {
					return false
				}
				run = 0
			} else if c < 33 || c > 126 {
				return false
			} else {
				run++
			}
		}
		if run == 0 {
			return false
		}
		for {
			bl, ok := line()
			if !ok || len(bl) > 64 {
				return false
			}
			if _, err := refage.UnB64(string(bl)); err != nil {
				return false
			}
			if len(bl) < 64 {
				break
			}
		}
	}
}
