package main

import (
	"bytes"
	"crypto/hmac"
	"crypto/sha256"
	"fmt"
	"math/rand"
	"strings"

	"filippo.io/age/zverif/keys"
	"filippo.io/age/zverif/mon"
	"filippo.io/age/zverif/refage"
)

// edit is one altered header (complete, through the newline of the MAC line).
type edit struct {
	class  string // edit class (coverage tables, violation keys)
	region string // where in the header (violation keys)
	desc   string // exact description (replay)
	hdr    []byte
	// skip lists openers for which the generator itself established that the
	// edited header is a consistently rebuilt one (stanzas and MAC agree on
	// the file key that opener obtains): a new valid header, not an alteration
	// the MAC is there to detect (DESIGN §4 C03, soundness).
	skip map[string]bool
	// for edits of one character range of a long field: which kind of field
	// and the lowest offset changed (vacuity guard of the long-field sweep)
	isArg, isType bool
	off           int
	junkKey       string // junk.go: inserted byte string and kind of position
}

const b64alphabet = "ABCDEFGHIJKLMNOPQRSTUVWXYZabcdefghijklmnopqrstuvwxyz0123456789+/"

// flipChar flips one bit of c so that the result is still a base64 character
// if possible, else still a VCHAR.
func flipChar(c byte) byte {
	for b := uint(0); b < 7; b++ {
		d := c ^ 1<<b
		if strings.IndexByte(b64alphabet, d) >= 0 {
			return d
		}
	}
	for b := uint(0); b < 7; b++ {
		d := c ^ 1<<b
		if d >= 33 && d <= 126 {
			return d
		}
	}
	return c ^ 1
}

func swapCase(s string) string {
	b := []byte(s)
	for i, c := range b {
		switch {
		case c >= 'a' && c <= 'z':
			b[i] = c - 32
		case c >= 'A' && c <= 'Z':
			b[i] = c + 32
		}
	}
	return string(b)
}

func hmacOver(key, data []byte) []byte {
	h := hmac.New(sha256.New, key)
	h.Write(data)
	return h.Sum(nil)
}

// yields returns the file key the reference obtains from stz for the identity
// list ids (age's rule: identities in order, each trying the stanzas in
// order, first success wins, a hard error aborts), or nil.
func yields(stz []refage.Stanza, ids []*keys.Party) []byte {
	for _, id := range ids {
		if id.Ref == nil {
			continue
		}
		for _, s := range stz {
			fk, err := id.Ref.Unwrap(s)
			if err == refage.ErrNoMatch {
				continue
			}
			if err != nil {
				return nil
			}
			return fk
		}
	}
	return nil
}

// consistent reports whether (stz, mac) is a header whose MAC is valid under
// the file key it yields to ids — i.e. a valid header in its own right.
func consistent(stz []refage.Stanza, mac []byte, ids []*keys.Party) bool {
	fk := yields(stz, ids)
	return fk != nil && hmac.Equal(refage.HeaderMAC(fk, stz), mac)
}

// structuralEdits enumerates the edits of the parsed header of o: per-field
// substitutions, insertions at every position, deletions, all permutations,
// MAC replacements, and a few non-canonical re-encodings.
func structuralEdits(o *original, rng *rand.Rand) []edit {
	var out []edit
	n := len(o.stanzas)
	otherKey := mon.DetBytes("c03-otherkey-"+o.name, 16) // K' != K
	add := func(class, region, desc string, stz []refage.Stanza, mac []byte, crafted bool) {
		e := edit{class: class, region: region, desc: desc, hdr: encodeHeader(stz, mac)}
		if crafted {
			for _, p := range o.openers {
				if consistent(stz, mac, []*keys.Party{p}) {
					if e.skip == nil {
						e.skip = map[string]bool{}
					}
					e.skip[p.Name] = true
				}
			}
		}
		out = append(out, e)
	}
	addRaw := func(class, region, desc string, hdr []byte) {
		out = append(out, edit{class: class, region: region, desc: desc, hdr: hdr})
	}
	with := func(i int, f func(s *refage.Stanza)) []refage.Stanza {
		c := cloneStanzas(o.stanzas)
		f(&c[i])
		return c
	}

	// ---- per-field substitutions ------------------------------------------
	for i := 0; i < n; i++ {
		s := o.stanzas[i]
		reg := fmt.Sprintf("s%d.type", i)
		add("sub-type-bit", reg, fmt.Sprintf("stanza %d: one bit of the type flipped", i),
			with(i, func(s *refage.Stanza) {
				b := []byte(s.Type)
				k := rng.Intn(len(b))
				b[k] = flipChar(b[k])
				s.Type = string(b)
			}), o.mac, false)
		add("sub-type-append", reg, fmt.Sprintf("stanza %d: type + \"x\"", i), with(i, func(s *refage.Stanza) { s.Type += "x" }), o.mac, false)
		if len(s.Type) > 1 {
			add("sub-type-trunc", reg, fmt.Sprintf("stanza %d: last character of the type removed", i),
				with(i, func(s *refage.Stanza) { s.Type = s.Type[:len(s.Type)-1] }), o.mac, false)
		}
		if swapCase(s.Type) != s.Type {
			add("sub-type-case", reg, fmt.Sprintf("stanza %d: case of the type swapped", i),
				with(i, func(s *refage.Stanza) { s.Type = swapCase(s.Type) }), o.mac, false)
		}
		for j := i + 1; j < n; j++ {
			if o.stanzas[j].Type != s.Type {
				c := cloneStanzas(o.stanzas)
				c[i].Type, c[j].Type = c[j].Type, c[i].Type
				add("sub-type-swap", reg, fmt.Sprintf("types of stanzas %d and %d swapped", i, j), c, o.mac, false)
			}
		}
		// arguments
		for a := range s.Args {
			a := a
			reg := fmt.Sprintf("s%d.arg%d", i, a)
			add("sub-arg-bit", reg, fmt.Sprintf("stanza %d argument %d: one bit flipped", i, a),
				with(i, func(s *refage.Stanza) {
					b := []byte(s.Args[a])
					k := rng.Intn(len(b))
					b[k] = flipChar(b[k])
					s.Args[a] = string(b)
				}), o.mac, false)
			add("sub-arg-append", reg, fmt.Sprintf("stanza %d argument %d: \"A\" appended", i, a),
				with(i, func(s *refage.Stanza) { s.Args[a] += "A" }), o.mac, false)
			if len(s.Args[a]) > 1 {
				add("sub-arg-trunc", reg, fmt.Sprintf("stanza %d argument %d: last character removed", i, a),
					with(i, func(s *refage.Stanza) { s.Args[a] = s.Args[a][:len(s.Args[a])-1] }), o.mac, false)
			}
			add("sub-arg-drop", reg, fmt.Sprintf("stanza %d argument %d removed", i, a),
				with(i, func(s *refage.Stanza) { s.Args = append(s.Args[:a:a], s.Args[a+1:]...) }), o.mac, false)
			add("sub-arg-empty", reg, fmt.Sprintf("stanza %d argument %d emptied (two spaces in a row)", i, a),
				with(i, func(s *refage.Stanza) { s.Args[a] = "" }), o.mac, false)
		}
		reg = fmt.Sprintf("s%d.args", i)
		add("sub-arg-add", reg, fmt.Sprintf("stanza %d: extra argument appended", i),
			with(i, func(s *refage.Stanza) { s.Args = append(s.Args, "extra") }), o.mac, false)
		if len(s.Args) >= 2 && s.Args[0] != s.Args[len(s.Args)-1] {
			add("sub-arg-reverse", reg, fmt.Sprintf("stanza %d: arguments reversed", i),
				with(i, func(s *refage.Stanza) {
					for l, r := 0, len(s.Args)-1; l < r; l, r = l+1, r-1 {
						s.Args[l], s.Args[r] = s.Args[r], s.Args[l]
					}
				}), o.mac, false)
		}
		for j := i + 1; j < n; j++ {
			if strings.Join(o.stanzas[j].Args, " ") != strings.Join(s.Args, " ") {
				c := cloneStanzas(o.stanzas)
				c[i].Args, c[j].Args = c[j].Args, c[i].Args
				add("sub-arg-swap", reg, fmt.Sprintf("argument lists of stanzas %d and %d swapped", i, j), c, o.mac, false)
			}
		}
		// body
		reg = fmt.Sprintf("s%d.body", i)
		if len(s.Body) > 0 {
			add("sub-body-bit", reg, fmt.Sprintf("stanza %d: one bit of the body flipped", i),
				with(i, func(s *refage.Stanza) { k := rng.Intn(len(s.Body) * 8); s.Body[k/8] ^= 1 << uint(k%8) }), o.mac, false)
			add("sub-body-trunc", reg, fmt.Sprintf("stanza %d: last body byte removed", i),
				with(i, func(s *refage.Stanza) { s.Body = s.Body[:len(s.Body)-1] }), o.mac, false)
			add("sub-body-empty", reg, fmt.Sprintf("stanza %d: body emptied", i),
				with(i, func(s *refage.Stanza) { s.Body = nil }), o.mac, false)
			add("sub-body-random", reg, fmt.Sprintf("stanza %d: body replaced by random bytes of the same length", i),
				with(i, func(s *refage.Stanza) { s.Body = mon.Bytes(rng, len(s.Body)) }), o.mac, false)
		}
		add("sub-body-append", reg, fmt.Sprintf("stanza %d: one byte appended to the body", i),
			with(i, func(s *refage.Stanza) { s.Body = append(s.Body, byte(rng.Intn(256))) }), o.mac, false)
		add("sub-body-extend48", reg, fmt.Sprintf("stanza %d: 48 bytes (one full line) appended to the body", i),
			with(i, func(s *refage.Stanza) { s.Body = append(s.Body, mon.Bytes(rng, 48)...) }), o.mac, false)
		for j := i + 1; j < n; j++ {
			if !bytes.Equal(o.stanzas[j].Body, s.Body) {
				c := cloneStanzas(o.stanzas)
				c[i].Body, c[j].Body = c[j].Body, c[i].Body
				add("sub-body-swap", reg, fmt.Sprintf("bodies of stanzas %d and %d swapped", i, j), c, o.mac, false)
			}
		}
		// whole stanza replaced by validly made material
		reg = fmt.Sprintf("s%d", i)
		if sym := o.mix[i]; !isUnknown(sym) {
			p := partiesOf(sym)[0]
			add("sub-foreign", reg, fmt.Sprintf("stanza %d replaced by the stanza for the same recipient of another valid file", i),
				with(i, func(s *refage.Stanza) { *s = cloneStanza(o.sibStanzas[i]) }), o.mac, true)
			add("sub-foreign+mac-foreign", reg, fmt.Sprintf("stanza %d and the MAC replaced by those of another valid file for the same recipients", i),
				with(i, func(s *refage.Stanza) { *s = cloneStanza(o.sibStanzas[i]) }), o.sibMAC, true)
			add("sub-rewrap-samekey", reg, fmt.Sprintf("stanza %d replaced by a fresh wrap of the SAME file key to %s", i, p.Name),
				with(i, func(s *refage.Stanza) { *s = wrapFor(p, o.fileKey, fmt.Sprintf("rewrap-%s-%d", o.name, i)) }), o.mac, true)
			add("sub-rewrap-otherkey", reg, fmt.Sprintf("stanza %d replaced by a valid wrap of a DIFFERENT file key to %s", i, p.Name),
				with(i, func(s *refage.Stanza) { *s = wrapFor(p, otherKey, fmt.Sprintf("rewrapo-%s-%d", o.name, i)) }), o.mac, true)
		}
	}

	// ---- insertions at every position -------------------------------------
	insert := func(p int, s refage.Stanza) []refage.Stanza {
		c := cloneStanzas(o.stanzas[:p])
		c = append(c, cloneStanza(s))
		return append(c, cloneStanzas(o.stanzas[p:])...)
	}
	grease := []struct {
		class string
		s     refage.Stanza
	}{
		{"ins-grease-empty", refage.Stanza{Type: "xq-grease"}},
		{"ins-grease-body", refage.Stanza{Type: "j7-grease", Args: []string{"r4nd0m"}, Body: mon.DetBytes("c03-grease-30", 30)}},
		{"ins-grease-48", refage.Stanza{Type: "p2/grease", Args: []string{"a", "b", "c"}, Body: mon.DetBytes("c03-grease-48", 48)}},
	}
	for p := 0; p <= n; p++ {
		reg := fmt.Sprintf("pos%d", p)
		for _, g := range grease {
			add(g.class, reg, fmt.Sprintf("grease stanza %q inserted at position %d", g.s.Type, p), insert(p, g.s), o.mac, false)
		}
		for j := 0; j < n; j++ {
			add("ins-duplicate", reg, fmt.Sprintf("copy of stanza %d inserted at position %d", j, p), insert(p, o.stanzas[j]), o.mac, false)
		}
		for _, v := range o.openers {
			atk := wrapFor(v, otherKey, fmt.Sprintf("atk-%s-%s-%d", o.name, v.Name, p))
			st := insert(p, atk)
			add("ins-attacker", reg, fmt.Sprintf("attacker-made stanza validly wrapping a different file key to %s inserted at position %d", v.Name, p), st, o.mac, true)
			add("ins-attacker+mac-attackerkey", reg,
				fmt.Sprintf("attacker-made stanza (different file key, to %s) at position %d, MAC recomputed under the attacker's key", v.Name, p),
				st, refage.HeaderMAC(otherKey, st), true)
			add("ins-attacker+mac-realkey", reg,
				fmt.Sprintf("attacker-made stanza (different file key, to %s) at position %d, MAC recomputed under the real key", v.Name, p),
				st, refage.HeaderMAC(o.fileKey, st), true)
			same := insert(p, wrapFor(v, o.fileKey, fmt.Sprintf("same-%s-%s-%d", o.name, v.Name, p)))
			add("ins-rewrap-samekey", reg, fmt.Sprintf("additional stanza wrapping the SAME file key to %s inserted at position %d", v.Name, p), same, o.mac, true)
		}
		// a stanza of the sibling file (first stanza of a mine symbol)
		for i, sym := range o.mix {
			if isMine(sym) {
				add("ins-foreign", reg, fmt.Sprintf("stanza %d of another valid file inserted at position %d", i, p), insert(p, o.sibStanzas[i]), o.mac, true)
				break
			}
		}
		st := insert(p, grease[1].s)
		add("ins-grease+mac-otherkey", reg, fmt.Sprintf("grease stanza at position %d, MAC recomputed under a different key", p), st, refage.HeaderMAC(otherKey, st), true)
	}

	// ---- deletions ---------------------------------------------------------
	for i := 0; i < n; i++ {
		c := cloneStanzas(o.stanzas[:i])
		c = append(c, cloneStanzas(o.stanzas[i+1:])...)
		add("del", fmt.Sprintf("s%d", i), fmt.Sprintf("stanza %d deleted", i), c, o.mac, false)
		if n >= 3 {
			add("del-allbut", fmt.Sprintf("s%d", i), fmt.Sprintf("every stanza except %d deleted", i), cloneStanzas(o.stanzas[i:i+1]), o.mac, false)
		}
	}

	// ---- all permutations ---------------------------------------------------
	perm := make([]int, n)
	for i := range perm {
		perm[i] = i
	}
	var permute func(k int)
	permute = func(k int) {
		if k == n {
			ident := true
			for i, p := range perm {
				if p != i {
					ident = false
				}
			}
			if ident {
				return
			}
			c := make([]refage.Stanza, n)
			for i, p := range perm {
				c[i] = cloneStanza(o.stanzas[p])
			}
			ps := strings.Trim(strings.ReplaceAll(fmt.Sprint(perm), " ", ","), "[]")
			add("perm", ps, "stanzas reordered to "+ps, c, o.mac, false)
			return
		}
		for i := k; i < n; i++ {
			perm[k], perm[i] = perm[i], perm[k]
			permute(k + 1)
			perm[k], perm[i] = perm[i], perm[k]
		}
	}
	permute(0)

	// ---- MAC replacement ------------------------------------------------------
	noMAC := refage.EncodeNoMAC(o.stanzas)
	mac := func(class, desc string, m []byte) { add(class, "mac", desc, o.stanzas, m, true) }
	// replacements algebraically related to the true MAC (a comparison that
	// counts or sums differences instead of testing equality may wrap or cancel)
	{
		rel := func(class, desc string, f func(m []byte)) {
			m := append([]byte(nil), o.mac...)
			f(m)
			add(class, "mac", desc, o.stanzas, m, false)
		}
		rel("mac-complement", "MAC replaced by its bitwise complement (all 256 bits differ)", func(m []byte) {
			for i := range m {
				m[i] = ^m[i]
			}
		})
		for _, x := range []byte{0x55, 0xAA, 0x80, 0x01, 0x0F, 0xF0} {
			x := x
			rel(fmt.Sprintf("mac-xor-%02x", x), fmt.Sprintf("every MAC byte XOR 0x%02x", x), func(m []byte) {
				for i := range m {
					m[i] ^= x
				}
			})
		}
		rel("mac-complement-first16", "first 16 MAC bytes complemented", func(m []byte) {
			for i := 0; i < 16; i++ {
				m[i] = ^m[i]
			}
		})
		rel("mac-complement-last16", "last 16 MAC bytes complemented", func(m []byte) {
			for i := 16; i < 32; i++ {
				m[i] = ^m[i]
			}
		})
		rel("mac-reversed", "MAC bytes in reverse order", func(m []byte) {
			for l, r := 0, len(m)-1; l < r; l, r = l+1, r-1 {
				m[l], m[r] = m[r], m[l]
			}
		})
		rel("mac-rotate-byte-left", "MAC rotated left by one byte", func(m []byte) {
			f := m[0]
			copy(m, m[1:])
			m[len(m)-1] = f
		})
		rel("mac-rotate-byte-right", "MAC rotated right by one byte", func(m []byte) {
			l := m[len(m)-1]
			copy(m[1:], m[:len(m)-1])
			m[0] = l
		})
		rel("mac-rotate-bit-left", "MAC rotated left by one bit", func(m []byte) {
			top := m[0] >> 7
			for i := 0; i < len(m); i++ {
				next := top
				if i+1 < len(m) {
					next = m[i+1] >> 7
				}
				m[i] = m[i]<<1 | next
			}
		})
		rel("mac-rotate-bit-right", "MAC rotated right by one bit", func(m []byte) {
			low := m[len(m)-1] & 1
			for i := len(m) - 1; i >= 0; i-- {
				prev := low
				if i > 0 {
					prev = m[i-1] & 1
				}
				m[i] = m[i]>>1 | prev<<7
			}
		})
		rel("mac-plus-one", "MAC + 1 as a 256-bit big-endian integer", func(m []byte) {
			for i := len(m) - 1; i >= 0; i-- {
				m[i]++
				if m[i] != 0 {
					break
				}
			}
		})
		rel("mac-minus-one", "MAC - 1 as a 256-bit big-endian integer", func(m []byte) {
			for i := len(m) - 1; i >= 0; i-- {
				m[i]--
				if m[i] != 0xff {
					break
				}
			}
		})
		rel("mac-halves-swapped", "the two 16-byte halves of the MAC swapped", func(m []byte) {
			h := append([]byte(nil), m[:16]...)
			copy(m, m[16:])
			copy(m[16:], h)
		})
		rel("mac-all-ff", "MAC replaced by 32 0xFF bytes", func(m []byte) {
			for i := range m {
				m[i] = 0xff
			}
		})
		rel("mac-zero-first16", "first 16 MAC bytes zeroed", func(m []byte) {
			for i := 0; i < 16; i++ {
				m[i] = 0
			}
		})
		rel("mac-zero-last16", "last 16 MAC bytes zeroed", func(m []byte) {
			for i := 16; i < 32; i++ {
				m[i] = 0
			}
		})
		rel("mac-negated", "MAC replaced by its two's complement (0 - MAC mod 2^256)", func(m []byte) {
			carry := byte(1)
			for i := len(m) - 1; i >= 0; i-- {
				m[i] = ^m[i] + carry
				if m[i] != 0 {
					carry = 0
				}
			}
		})
	}
	mac("mac-random", "MAC replaced by 32 random bytes", mon.Bytes(rng, 32))
	mac("mac-zero", "MAC replaced by 32 zero bytes", make([]byte, 32))
	mac("mac-otherfile", "MAC replaced by the MAC of another valid file for the same recipients", o.sibMAC)
	mac("mac-otherkey", "MAC recomputed over the same header under a different file key", refage.HeaderMAC(otherKey, o.stanzas))
	mac("mac-rawkey", "HMAC of the header keyed with the file key itself (no HKDF)", hmacOver(o.fileKey, noMAC))
	mac("mac-wronglabel", "HMAC of the header under HKDF(file key, info \"payload\")", hmacOver(refage.HKDF(o.fileKey, nil, []byte("payload"), 32), noMAC))
	mac("mac-unkeyed", "MAC replaced by SHA-256 of the header", func() []byte { h := sha256.Sum256(noMAC); return h[:] }())
	{
		st := insert(n, grease[0].s)
		mac("mac-realkey-otherheader", "MAC valid under the real key for the header plus a grease stanza", refage.HeaderMAC(o.fileKey, st))
		if n > 1 {
			mac("mac-realkey-shorterheader", "MAC valid under the real key for the header without its last stanza", refage.HeaderMAC(o.fileKey, o.stanzas[:n-1]))
		}
		mac("mac-realkey-withmac", "HMAC under the real key over the header including the old MAC line",
			hmacOver(refage.HKDF(o.fileKey, nil, []byte("header"), 32), o.header))
	}
	{
		m := append([]byte(nil), o.mac...)
		copy(m[8:], mon.Bytes(rng, 24))
		if m[8] == o.mac[8] {
			m[8] ^= 1
		}
		mac("mac-keep-first8", "first 8 MAC bytes kept, the other 24 randomised", m)
		m = append([]byte(nil), o.mac...)
		copy(m[:16], mon.Bytes(rng, 16))
		if m[0] == o.mac[0] {
			m[0] ^= 1
		}
		mac("mac-keep-last16", "last 16 MAC bytes kept, the first 16 randomised", m)
		// (last byte incremented: mac-plus-one above)
		m = append([]byte(nil), o.mac...)
		m[0] ^= 0x80
		mac("mac-firstbit", "first MAC bit flipped", m)
		mac("mac-short31", "MAC cut to 31 bytes", o.mac[:31])
		mac("mac-long33", "MAC extended to 33 bytes", append(append([]byte(nil), o.mac...), 0))
		mac("mac-half16", "MAC cut to its first 16 bytes", o.mac[:16])
		mac("mac-empty", "MAC emptied", nil)
	}

	// ---- non-canonical spellings of the same header ----------------------------
	// These do not parse under the strict grammar; a parser lenient about them
	// would hand the MAC check the same canonical bytes as the original, so
	// they must fail like everything else.
	hdr := o.header
	footer := bytes.LastIndex(hdr, []byte("\n--- ")) + 1
	addRaw("syn-crlf", "header", "every line ending of the header replaced by CRLF", bytes.ReplaceAll(hdr, []byte("\n"), []byte("\r\n")))
	addRaw("syn-mac-pad", "mac", "\"=\" appended to the MAC", append(append(append([]byte(nil), hdr[:len(hdr)-1]...), '='), '\n'))
	addRaw("syn-mac-trailing-bits", "mac", "unused low bits of the last MAC column set", func() []byte {
		h := append([]byte(nil), hdr...)
		k := len(h) - 2
		v := strings.IndexByte(b64alphabet, h[k])
		h[k] = b64alphabet[v|1]
		if v&1 == 1 {
			h[k] = b64alphabet[v|2]
		}
		return h
	}())
	addRaw("syn-footer-extra-arg", "footer", "extra argument after the MAC", append(append(append([]byte(nil), hdr[:len(hdr)-1]...), " x"...), '\n'))
	addRaw("syn-footer-two-spaces", "footer", "two spaces before the MAC", append(append(append([]byte(nil), hdr[:footer+3]...), ' '), hdr[footer+3:]...))
	addRaw("syn-footer-trailing-space", "footer", "space after the MAC", append(append(append([]byte(nil), hdr[:len(hdr)-1]...), ' '), '\n'))
	addRaw("syn-intro-space", "intro", "space after the version line", append([]byte("age-encryption.org/v1 \n"), hdr[len(refage.Intro):]...))
	addRaw("syn-intro-crlf", "intro", "version line ended by CRLF", append([]byte("age-encryption.org/v1\r\n"), hdr[len(refage.Intro):]...))
	addRaw("syn-blank-before-footer", "footer", "empty line before the footer", append(append(append([]byte(nil), hdr[:footer]...), '\n'), hdr[footer:]...))
	// per stanza
	for i := 0; i < n; i++ {
		i := i
		respell := func(f func(enc []byte) []byte) []byte {
			var b bytes.Buffer
			b.WriteString(refage.Intro)
			for j, s := range o.stanzas {
				e := s.Encode()
				if j == i {
					e = f(e)
				}
				b.Write(e)
			}
			b.Write(hdr[footer:])
			return b.Bytes()
		}
		reg := fmt.Sprintf("s%d", i)
		addRaw("syn-args-trailing-space", reg, fmt.Sprintf("stanza %d: space at the end of the argument line", i), respell(func(e []byte) []byte {
			k := bytes.IndexByte(e, '\n')
			return append(append(append([]byte(nil), e[:k]...), ' '), e[k:]...)
		}))
		addRaw("syn-args-two-spaces", reg, fmt.Sprintf("stanza %d: two spaces after the arrow", i), respell(func(e []byte) []byte {
			return append([]byte("->  "), e[3:]...)
		}))
		addRaw("syn-args-tab", reg, fmt.Sprintf("stanza %d: tab after the arrow", i), respell(func(e []byte) []byte {
			return append([]byte("->\t"), e[3:]...)
		}))
		addRaw("syn-args-crlf", reg, fmt.Sprintf("stanza %d: argument line ended by CRLF", i), respell(func(e []byte) []byte {
			k := bytes.IndexByte(e, '\n')
			return append(append(append([]byte(nil), e[:k]...), '\r'), e[k:]...)
		}))
		body := o.stanzas[i].Body
		if len(body)%3 != 0 {
			addRaw("syn-body-pad", reg, fmt.Sprintf("stanza %d: body padded with \"=\"", i), respell(func(e []byte) []byte {
				pad := strings.Repeat("=", 3-len(body)%3)
				return append(append(append([]byte(nil), e[:len(e)-1]...), pad...), '\n')
			}))
			addRaw("syn-body-trailing-bits", reg, fmt.Sprintf("stanza %d: unused low bits of the last body column set", i), respell(func(e []byte) []byte {
				h := append([]byte(nil), e...)
				k := len(h) - 2
				v := strings.IndexByte(b64alphabet, h[k])
				h[k] = b64alphabet[v|1]
				if v&1 == 1 {
					h[k] = b64alphabet[v|2]
				}
				return h
			}))
		}
		addRaw("syn-body-crlf", reg, fmt.Sprintf("stanza %d: last body line ended by CRLF", i), respell(func(e []byte) []byte {
			return append(append(append([]byte(nil), e[:len(e)-1]...), '\r'), '\n')
		}))
		addRaw("syn-body-extra-empty-line", reg, fmt.Sprintf("stanza %d: extra empty line after the body", i), respell(func(e []byte) []byte {
			return append(append([]byte(nil), e...), '\n')
		}))
		if len(body) >= 48 {
			addRaw("syn-body-rewrap", reg, fmt.Sprintf("stanza %d: first body line split in two", i), respell(func(e []byte) []byte {
				k := bytes.IndexByte(e, '\n') + 1 + 32
				return append(append(append([]byte(nil), e[:k]...), '\n'), e[k:]...)
			}))
			if len(body)%48 == 0 {
				addRaw("syn-body-no-short-line", reg, fmt.Sprintf("stanza %d: final empty body line removed", i), respell(func(e []byte) []byte {
					return append([]byte(nil), e[:len(e)-1]...)
				}))
			}
		} else if len(body) >= 6 {
			addRaw("syn-body-rewrap", reg, fmt.Sprintf("stanza %d: body line split in two", i), respell(func(e []byte) []byte {
				k := bytes.IndexByte(e, '\n') + 1 + 4
				return append(append(append([]byte(nil), e[:k]...), '\n'), e[k:]...)
			}))
		}
		if len(body) > 48 {
			addRaw("syn-body-joined", reg, fmt.Sprintf("stanza %d: first two body lines joined into one over-long line", i), respell(func(e []byte) []byte {
				k := bytes.IndexByte(e, '\n') + 1 + 64
				return append(append([]byte(nil), e[:k]...), e[k+1:]...)
			}))
		}
	}
	return out
}
