package main

import (
	"bytes"
	"fmt"
	"os"
	"path/filepath"
	"strings"

	"filippo.io/age/zverif/cli"
	"filippo.io/age/zverif/keys"
	"filippo.io/age/zverif/mon"
	"filippo.io/age/zverif/refage"
)

// cliStage: the command-line tool decrypts through identity wrappers of its
// own (the lazy passphrase identity, the passphrase-protected identity file,
// the "reject scrypt" guard in front of -i identities). They sit between
// Decrypt and the header, so the property must also hold through them: any
// alteration of a valid file's header makes `age -d` fail and write nothing.
// Originals: a passphrase file (decrypted with no -i, prompt on a pty), a
// native file decrypted with a plain key file, and the same native file
// decrypted with a passphrase-protected identity file (itself an age file
// whose header is edited in a third group).
func cliStage(r *mon.Run) {
	age := os.Getenv("AGE_BIN")
	if age == "" {
		r.Count("cli_stage_skipped_no_binary", 1)
		return
	}
	work, err := os.MkdirTemp(os.Getenv("VERIF_SCRATCH"), "c03cli.")
	if err != nil {
		return
	}
	defer os.RemoveAll(work)
	const pass, idpass = "c03 file passphrase", "c03 identity passphrase"
	x1 := keys.NewX("X1")
	pt := []byte("c03 cli plaintext\n")

	fkS := mon.DetBytes("c03cli-fk-s", 16)
	scryptFile := refage.BuildFile(fkS, []refage.Stanza{refage.ScryptWrap(fkS, pass, mon.DetBytes("c03cli-salt", 16), 10)}, mon.DetBytes("c03cli-nonce-s", 16), pt)
	fkX := mon.DetBytes("c03cli-fk-x", 16)
	sx, _ := refage.X25519Wrap(fkX, x1.Public, mon.DetBytes("c03cli-eph", 32))
	xFile := refage.BuildFile(fkX, []refage.Stanza{{Type: "grease-x", Args: []string{"1"}, Body: []byte{1, 2}}, sx}, mon.DetBytes("c03cli-nonce-x", 16), pt)
	fkI := mon.DetBytes("c03cli-fk-i", 16)
	encID := refage.BuildFile(fkI, []refage.Stanza{refage.ScryptWrap(fkI, idpass, mon.DetBytes("c03cli-salt-i", 16), 10)}, mon.DetBytes("c03cli-nonce-i", 16), []byte(x1.SecretStr+"\n"))
	os.WriteFile(filepath.Join(work, "x1.key"), []byte(x1.SecretStr+"\n"), 0o600)
	os.WriteFile(filepath.Join(work, "x1copy.key"), []byte("# copy\n"+x1.SecretStr+"\n"), 0o600)
	os.WriteFile(filepath.Join(work, "x4.key"), []byte(keys.NewX("X4").SecretStr+"\n"), 0o600)

	type group struct {
		name   string
		victim []byte // the file whose header is edited
		run    func(dir string, edited []byte, env []string) *cli.Result
	}
	groups := []group{
		{"passphrase-file", scryptFile, func(dir string, ed []byte, env []string) *cli.Result {
			os.WriteFile(filepath.Join(dir, "in.age"), ed, 0o600)
			return cli.Run(&cli.Cmd{Argv: []string{age, "-d", "-o", "out", "in.age"}, Dir: dir, Env: env, TTY: true,
				Script: []cli.TTYStep{{Expect: "Enter passphrase", Send: pass + "\n"}}})
		}},
		{"native-file-plain-key", xFile, func(dir string, ed []byte, env []string) *cli.Result {
			os.WriteFile(filepath.Join(dir, "in.age"), ed, 0o600)
			return cli.Run(&cli.Cmd{Argv: []string{age, "-d", "-i", filepath.Join(work, "x1.key"), "-o", "out", "in.age"}, Dir: dir, Env: env})
		}},
		// the same key file named twice: two identities of one Decrypt call
		// open the file (also a key file next to a copy of it)
		{"native-file-plain-key-twice", xFile, func(dir string, ed []byte, env []string) *cli.Result {
			os.WriteFile(filepath.Join(dir, "in.age"), ed, 0o600)
			return cli.Run(&cli.Cmd{Argv: []string{age, "-d", "-i", filepath.Join(work, "x1.key"), "-i", filepath.Join(work, "x1.key"), "-o", "out", "in.age"}, Dir: dir, Env: env})
		}},
		{"native-file-key-and-copy-behind-other", xFile, func(dir string, ed []byte, env []string) *cli.Result {
			os.WriteFile(filepath.Join(dir, "in.age"), ed, 0o600)
			return cli.Run(&cli.Cmd{Argv: []string{age, "-d", "-i", filepath.Join(work, "x4.key"), "-i", filepath.Join(work, "x1.key"), "-i", filepath.Join(work, "x1copy.key"), "-o", "out", "in.age"}, Dir: dir, Env: env})
		}},
		{"native-file-encrypted-identity", xFile, func(dir string, ed []byte, env []string) *cli.Result {
			os.WriteFile(filepath.Join(dir, "in.age"), ed, 0o600)
			os.WriteFile(filepath.Join(dir, "id.age"), encID, 0o600)
			return cli.Run(&cli.Cmd{Argv: []string{age, "-d", "-i", "id.age", "-o", "out", "in.age"}, Dir: dir, Env: env, TTY: true,
				Script: []cli.TTYStep{{Expect: "Enter passphrase for identity file", Send: idpass + "\n"}}})
		}},
		{"encrypted-identity-file-itself", encID, func(dir string, ed []byte, env []string) *cli.Result {
			os.WriteFile(filepath.Join(dir, "in.age"), xFile, 0o600)
			os.WriteFile(filepath.Join(dir, "id.age"), ed, 0o600)
			return cli.Run(&cli.Cmd{Argv: []string{age, "-d", "-i", "id.age", "-o", "out", "in.age"}, Dir: dir, Env: env, TTY: true,
				Script: []cli.TTYStep{{Expect: "Enter passphrase for identity file", Send: idpass + "\n"}}})
		}},
	}
	type job struct {
		g    int
		name string
		data []byte
		env  string // environment pass: "NAME=value" handed to the tool, else ""
	}
	var jobs []job
	for gi, g := range groups {
		// control first: the unedited file must decrypt
		dir := filepath.Join(work, fmt.Sprintf("ctl%d", gi))
		os.MkdirAll(dir, 0o755)
		res := g.run(dir, g.victim, nil)
		got, _ := os.ReadFile(filepath.Join(dir, "out"))
		if res.Err != nil || res.Exit != 0 || !bytes.Equal(got, pt) {
			r.Inconclusive("C03 CLI control %s did not decrypt: %v %s", g.name, res.Err, res)
			continue
		}
		he := refage.HeaderEnd(g.victim)
		hdr, _, _ := refage.ParseHeader(g.victim)
		add := func(name string, ed []byte) {
			if !bytes.Equal(ed, g.victim) {
				jobs = append(jobs, job{gi, name, ed, ""})
			}
		}
		// every single-bit flip of the header (quick: every 3rd bit, all bits of argument lines)
		for i := 0; i < he; i++ {
			for b := 0; b < 8; b++ {
				if !r.Thorough() && (i*8+b)%3 != 0 && !(g.victim[i] >= '0' && g.victim[i] <= '9') {
					continue
				}
				if !r.Thorough() && strings.HasPrefix(g.name, "native-file-key-and-copy") && (i*8+b)%9 != 0 {
					continue
				}
				ed := append([]byte(nil), g.victim...)
				ed[i] ^= 1 << uint(b)
				add(fmt.Sprintf("bitflip@%d.%d", i, b), ed)
			}
		}
		// re-spellings of every argument and structural edits, MAC untouched
		rebuild := func(sts []refage.Stanza) []byte {
			h := &refage.Header{Stanzas: sts, MAC: hdr.MAC}
			return append(h.Encode(), g.victim[he:]...)
		}
		for si, s := range hdr.Stanzas {
			for ai, a := range s.Args {
				for _, alt := range respell(a) {
					sts := cliCloneStanzas(hdr.Stanzas)
					sts[si].Args[ai] = alt
					add(fmt.Sprintf("respell:s%d.arg%d:%q", si, ai, alt), rebuild(sts))
				}
			}
			sts := cliCloneStanzas(hdr.Stanzas)
			sts[si].Args = append(sts[si].Args, "x")
			add(fmt.Sprintf("extra-arg:s%d", si), rebuild(sts))
			sts = cliCloneStanzas(hdr.Stanzas)
			sts = append(sts[:si+1], append([]refage.Stanza{sts[si]}, sts[si+1:]...)...)
			add(fmt.Sprintf("dup-adjacent:s%d", si), rebuild(sts))
			sts = cliCloneStanzas(hdr.Stanzas)
			sts = append([]refage.Stanza{{Type: "grease-new", Args: []string{"z"}, Body: nil}}, sts...)
			add("ins-grease-front", rebuild(sts))
			sts = append(cliCloneStanzas(hdr.Stanzas), refage.Stanza{Type: "grease-new", Args: nil, Body: []byte{9}})
			add("ins-grease-back", rebuild(sts))
			if len(hdr.Stanzas) > 1 {
				sts = cliCloneStanzas(hdr.Stanzas)
				sts = append(sts[:si], sts[si+1:]...)
				add(fmt.Sprintf("delete:s%d", si), rebuild(sts))
				sts = cliCloneStanzas(hdr.Stanzas)
				sts[0], sts[len(sts)-1] = sts[len(sts)-1], sts[0]
				add("swap-ends", rebuild(sts))
			}
		}
		// textual re-spellings the reference encoder cannot express
		text := string(g.victim[:he])
		for _, t := range []struct{ name, old, new string }{
			{"crlf-first-line", "age-encryption.org/v1\n", "age-encryption.org/v1\r\n"},
			{"double-space", "-> ", "->  "},
			{"trailing-space-args", " 10\n", " 10 \n"},
			{"tab-separator", "-> scrypt ", "-> scrypt\t"},
			{"mac-trailing-space", "\n--- ", "\n---  "},
		} {
			if strings.Contains(text, t.old) {
				add("text:"+t.name, append([]byte(strings.Replace(text, t.old, t.new, 1)), g.victim[he:]...))
			}
		}
	}
	// environment pass: every group once more under each setting the tree
	// reads (mon.EnvSettings), on a thinned edit set: all non-bit-flip edits
	// and every 8th of the bit flips above. The unedited file must still
	// decrypt under the setting.
	base := len(jobs)
	for _, set := range mon.EnvSettings() {
		okGroup := map[int]bool{}
		for gi, g := range groups {
			dir := filepath.Join(work, fmt.Sprintf("ctl%d-%s", gi, set.Value))
			os.MkdirAll(dir, 0o755)
			res := g.run(dir, g.victim, []string{set.String()})
			got, _ := os.ReadFile(filepath.Join(dir, "out"))
			if res.Err != nil || res.Exit != 0 || !bytes.Equal(got, pt) {
				r.Inconclusive("C03 CLI control %s did not decrypt with %s set: %v %s", g.name, set, res.Err, res)
				continue
			}
			okGroup[gi] = true
		}
		nflip := 0
		for _, j := range jobs[:base] {
			if !okGroup[j.g] {
				continue
			}
			if strings.HasPrefix(j.name, "bitflip@") {
				nflip++
				if nflip%8 != 0 {
					continue
				}
			}
			jobs = append(jobs, job{j.g, j.name, j.data, set.String()})
		}
	}
	r.Set("cli_stage_edits", len(jobs))
	mon.ParN(12, len(jobs), func(i int) {
		j := jobs[i]
		g := groups[j.g]
		dir := filepath.Join(work, fmt.Sprintf("j%06d", i))
		os.MkdirAll(dir, 0o755)
		defer os.RemoveAll(dir)
		var env []string
		envKey := ""
		if j.env != "" {
			env = []string{j.env}
			envKey = ":env=" + j.env
			noteEnvCLI(j.env)
			r.Tab("env_setting_cli", j.env)
		}
		res := g.run(dir, j.data, env)
		r.Eval(1)
		r.Distinct("cli:" + g.name + ":" + j.name + envKey)
		r.Count("cli_stage_runs", 1)
		r.Count("cases/cli", 1)
		if res.Err != nil {
			r.Inconclusive("C03 CLI %s %s: driver error %v", g.name, j.name, res.Err)
			return
		}
		out, statErr := os.ReadFile(filepath.Join(dir, "out"))
		cls := j.name
		if k := strings.IndexAny(cls, "@:"); k > 0 {
			cls = cls[:k]
		}
		replay := map[string]any{"group": g.name, "edit": j.name, "environment": j.env, "edited_header": string(mon.Trunc(j.data, 400))}
		if res.Exit == 0 {
			r.Violate("cli-header-edit-accepted:"+g.name+":"+cls+envKey, fmt.Sprintf("age -d (%s)%s accepted a file whose header was altered (%s) and wrote %q", g.name, envKey, j.name, mon.Trunc(out, 60)), replay)
		} else if statErr == nil {
			r.Violate("cli-output-on-header-refusal:"+g.name+":"+cls+envKey, fmt.Sprintf("age -d (%s)%s refused the altered header (%s) but created the output (%d bytes)", g.name, envKey, j.name, len(out)), replay)
		} else {
			r.Count("cli_stage_refusals", 1)
		}
	})
}

func cliCloneStanzas(in []refage.Stanza) []refage.Stanza {
	out := make([]refage.Stanza, len(in))
	for i, s := range in {
		out[i] = refage.Stanza{Type: s.Type, Args: append([]string(nil), s.Args...), Body: append([]byte(nil), s.Body...)}
	}
	return out
}

// respell returns other spellings a lenient reader might map to the same value.
func respell(a string) []string {
	var out []string
	isNum := a != ""
	for i := 0; i < len(a); i++ {
		if a[i] < '0' || a[i] > '9' {
			isNum = false
		}
	}
	if isNum {
		out = append(out, "0"+a, "00"+a, "+"+a, "+0"+a, a+".0", "0x"+fmt.Sprintf("%x", atoi(a)), "0o"+fmt.Sprintf("%o", atoi(a)), a+"e0")
	} else {
		out = append(out, a+"=", a+"A", strings.ToLower(a), strings.ToUpper(a), strings.TrimRight(a, "A")+"")
		if len(a) > 1 {
			out = append(out, a[:len(a)-1])
		}
	}
	return out
}

func atoi(s string) int {
	n := 0
	for i := 0; i < len(s); i++ {
		n = n*10 + int(s[i]-'0')
	}
	return n
}
