package main

import (
	"crypto/rsa"
	"crypto/sha256"
	"encoding/binary"
	"math/big"

	"filippo.io/age/zverif/refage"
)

// detRSAWrap is a fully deterministic ssh-rsa wrap: RSAES-OAEP (SHA-256, MGF1
// SHA-256, label "age-encryption.org/v1/ssh-rsa") written out by hand with an
// explicit 32-byte seed. crypto/rsa.EncryptOAEP cannot be used for replayable
// originals because it consumes a random extra byte from its reader
// (randutil.MaybeReadByte). Every stanza made here is checked afterwards by
// opening the original with the real identity and with refage.
func detRSAWrap(fileKey []byte, pub *rsa.PublicKey, seed []byte) refage.Stanza {
	const label = "age-encryption.org/v1/ssh-rsa"
	k := (pub.N.BitLen() + 7) / 8
	hLen := sha256.Size
	lHash := sha256.Sum256([]byte(label))
	db := make([]byte, k-hLen-1)
	copy(db, lHash[:])
	db[len(db)-len(fileKey)-1] = 1
	copy(db[len(db)-len(fileKey):], fileKey)
	xor(db, mgf1(seed, len(db)))
	ms := append([]byte(nil), seed[:hLen]...)
	xor(ms, mgf1(db, hLen))
	em := append(append([]byte{0}, ms...), db...)
	c := new(big.Int).Exp(new(big.Int).SetBytes(em), big.NewInt(int64(pub.E)), pub.N)
	return refage.Stanza{Type: "ssh-rsa", Args: []string{refage.SSHTag(refage.SSHRSAWire(pub))}, Body: c.FillBytes(make([]byte, k))}
}

func mgf1(seed []byte, n int) []byte {
	var out []byte
	for ctr := uint32(0); len(out) < n; ctr++ {
		var c [4]byte
		binary.BigEndian.PutUint32(c[:], ctr)
		h := sha256.Sum256(append(append([]byte(nil), seed...), c[:]...))
		out = append(out, h[:]...)
	}
	return out[:n]
}

func xor(dst, mask []byte) {
	for i := range dst {
		dst[i] ^= mask[i]
	}
}
