package main

import (
	"bytes"
	"fmt"
	"strings"

	"filippo.io/age"
	"filippo.io/age/zverif/ax"
	"filippo.io/age/zverif/keys"
	"filippo.io/age/zverif/mon"
	"filippo.io/age/zverif/refage"
)

// The stanza alphabet of DESIGN §4 C03. "m" = addressed to an identity the
// monitor decrypts with ("mine"), "o" = addressed to somebody else.
var symbols = []string{"Xm", "Xo", "Em", "Eo", "Rm", "U", "U48"}

var symParty = map[string]string{"Xm": "X1", "Xo": "X2", "Em": "E1", "Eo": "E2", "Rm": "R1"}

func isMine(s string) bool {
	_, v := valueOpeners[s]
	return v || (len(s) == 2 && s[1] == 'm')
}

func hasMine(mix []string) bool {
	for _, s := range mix {
		if isMine(s) {
			return true
		}
	}
	return false
}

// sequences returns every ordered mix of length k with at least one "mine".
func sequences(k int) [][]string {
	var out [][]string
	cur := make([]string, k)
	var rec func(i int)
	rec = func(i int) {
		if i == k {
			if hasMine(cur) {
				out = append(out, append([]string(nil), cur...))
			}
			return
		}
		for _, s := range symbols {
			cur[i] = s
			rec(i + 1)
		}
	}
	rec(0)
	return out
}

// multisets returns every multiset of size k (as a sorted sequence) with at
// least one "mine".
func multisets(k int) [][]string {
	var out [][]string
	cur := make([]string, k)
	var rec func(i, from int)
	rec = func(i, from int) {
		if i == k {
			if hasMine(cur) {
				out = append(out, append([]string(nil), cur...))
			}
			return
		}
		for j := from; j < len(symbols); j++ {
			cur[i] = symbols[j]
			rec(i+1, j)
		}
	}
	rec(0, 0)
	return out
}

var (
	greaseU   = refage.Stanza{Type: "grease-verif"}
	greaseU48 = refage.Stanza{Type: "unknown-1", Args: []string{"a", "bb"}, Body: mon.DetBytes("c03-u48-body", 48)}
)

// wrapFor makes a stanza that validly wraps fileKey to party p, with every
// random input taken from label.
func wrapFor(p *keys.Party, fileKey []byte, label string) refage.Stanza {
	eph := mon.DetBytes("c03-eph-"+label, 32)
	var s refage.Stanza
	var err error
	switch k := p.Ref.(type) {
	case refage.X25519Key:
		s, err = refage.X25519Wrap(fileKey, k.Public(), eph)
	case refage.EdKey:
		s, err = refage.SSHEd25519Wrap(fileKey, k.Pub, eph)
	case refage.RSAKey:
		s = detRSAWrap(fileKey, &k.Priv.PublicKey, eph)
	default:
		panic("c03: cannot wrap to " + p.Name)
	}
	if err != nil {
		panic(fmt.Sprintf("c03: wrap to %s: %v", p.Name, err))
	}
	return s
}

func stanzaFor(sym string, fileKey []byte, label string) refage.Stanza {
	switch sym {
	case "U":
		return cloneStanza(greaseU)
	case "U48":
		return cloneStanza(greaseU48)
	}
	if isLong(sym) {
		return longStanza(sym)
	}
	if _, ok := valueOpeners[sym]; ok {
		return valueStanza(sym, fileKey, label)
	}
	return wrapFor(keys.P(symParty[sym]), fileKey, label)
}

func cloneStanza(s refage.Stanza) refage.Stanza {
	return refage.Stanza{Type: s.Type, Args: append([]string(nil), s.Args...), Body: append([]byte(nil), s.Body...)}
}

func cloneStanzas(in []refage.Stanza) []refage.Stanza {
	out := make([]refage.Stanza, len(in))
	for i, s := range in {
		out[i] = cloneStanza(s)
	}
	return out
}

func encodeHeader(stz []refage.Stanza, mac []byte) []byte {
	return (&refage.Header{Stanzas: stz, MAC: mac}).Encode()
}

// original is one valid file whose header the monitor edits.
type original struct {
	idx     int
	builder string // "refage" (deterministic reference encoder) or "age" (the real age.Encrypt under a deterministic random tape)
	mix     []string
	name    string
	doFlip  bool
	doEdit  bool
	doField bool // long-field sweep (long.go)
	// macAgrees: the reference computes the same header MAC (always true for
	// reference-built originals)
	macAgrees bool

	fileKey []byte
	stanzas []refage.Stanza
	mac     []byte
	header  []byte
	payload []byte // nonce || STREAM
	plain   []byte
	spans   []span

	openers []*keys.Party // distinct parties that open it
	// sibling: another valid file for the same mix under a different file key
	sibKey     []byte
	sibStanzas []refage.Stanza
	sibMAC     []byte
}

func mixName(builder string, mix []string) string {
	n := strings.Join(mix, ",")
	if builder == "age" {
		return "age:" + n
	}
	return n
}

func (o *original) finish() {
	o.header = encodeHeader(o.stanzas, o.mac)
	o.spans = layout(o.stanzas, o.mac)
	seen := map[string]bool{}
	for _, s := range o.mix {
		if isMine(s) && !seen[s] {
			seen[s] = true
			for _, p := range partiesOf(s) {
				dup := false
				for _, q := range o.openers {
					dup = dup || q.Name == p.Name
				}
				if !dup {
					o.openers = append(o.openers, p)
				}
			}
		}
	}
	lbl := fmt.Sprintf("sib-%s", o.name)
	o.sibKey = mon.DetBytes("c03-fk-"+lbl, 16)
	for i, s := range o.mix {
		o.sibStanzas = append(o.sibStanzas, stanzaFor(s, o.sibKey, fmt.Sprintf("%s-%d", lbl, i)))
	}
	o.sibMAC = refage.HeaderMAC(o.sibKey, o.sibStanzas)
}

func (o *original) file() []byte { return append(append([]byte(nil), o.header...), o.payload...) }

// buildRef assembles an original with the reference encoder.
func buildRef(seed int64, mix []string) *original {
	o := &original{builder: "refage", mix: mix, name: mixName("refage", mix)}
	lbl := fmt.Sprintf("%d-%s", seed, o.name)
	o.fileKey = mon.DetBytes("c03-fk-"+lbl, 16)
	for i, s := range mix {
		o.stanzas = append(o.stanzas, stanzaFor(s, o.fileKey, fmt.Sprintf("%s-%d", lbl, i)))
	}
	o.mac = refage.HeaderMAC(o.fileKey, o.stanzas)
	o.macAgrees = true
	o.plain = mon.DetBytes("c03-pt-"+lbl, 20+len(mix))
	nonce := mon.DetBytes("c03-nonce-"+lbl, 16)
	o.payload = append(append([]byte(nil), nonce...), refage.StreamEncrypt(refage.StreamKey(o.fileKey, nonce), o.plain)...)
	o.finish()
	return o
}

// buildAge produces an original with the real age.Encrypt. The caller has a
// deterministic random tape installed and calls this sequentially.
func buildAge(seed int64, mix []string) (*original, error) {
	o := &original{builder: "age", mix: mix, name: mixName("age", mix)}
	var rcpts []age.Recipient
	var first *keys.Party
	for _, s := range mix {
		switch s {
		case "U":
			rcpts = append(rcpts, &keys.Unknown{Stanzas: []*age.Stanza{{Type: greaseU.Type}}})
		case "U48":
			rcpts = append(rcpts, &keys.Unknown{Stanzas: []*age.Stanza{{Type: greaseU48.Type, Args: greaseU48.Args, Body: greaseU48.Body}}})
		default:
			if isLong(s) {
				ls := longStanza(s)
				rcpts = append(rcpts, &keys.Unknown{Stanzas: []*age.Stanza{{Type: ls.Type, Args: ls.Args, Body: ls.Body}}})
				continue
			}
			p := keys.P(symParty[s])
			if first == nil && isMine(s) {
				first = p
			}
			rcpts = append(rcpts, p.Recipient)
		}
	}
	o.plain = mon.DetBytes(fmt.Sprintf("c03-pt-%d-%s", seed, o.name), 20+len(mix))
	file, err := ax.Encrypt(o.plain, false, rcpts...)
	if err != nil {
		return nil, err
	}
	// Structure and file key come from the reference parser and unwrap; the
	// MAC the tree wrote is kept as is. If the reference computes another MAC
	// for this header the tree deviates from the format (a C05 matter): that
	// is noted, and the C03 sweep still runs on the file, which is valid by the
	// tree's own standard (it must open it, see checkOriginal).
	hdr, rest, err := refage.ParseHeader(file)
	if err != nil {
		return nil, fmt.Errorf("reference cannot parse the header age wrote: %v", err)
	}
	fk := yields(hdr.Stanzas, []*keys.Party{first})
	if fk == nil || len(rest) < 16 {
		return nil, fmt.Errorf("reference cannot unwrap the file key from the file age wrote")
	}
	if pt, _, err := refage.StreamDecrypt(refage.StreamKey(fk, rest[:16]), rest[16:]); err != nil || !bytes.Equal(pt, o.plain) {
		return nil, fmt.Errorf("reference cannot decrypt the payload age wrote: %v", err)
	}
	o.macAgrees = bytes.Equal(refage.HeaderMAC(fk, hdr.Stanzas), hdr.MAC)
	o.fileKey, o.stanzas, o.mac = fk, hdr.Stanzas, hdr.MAC
	o.payload = rest
	o.finish()
	if !bytes.Equal(o.header, file[:len(file)-len(rest)]) {
		return nil, fmt.Errorf("reference does not re-serialise the header age wrote byte-identically")
	}
	if len(o.stanzas) != len(mix) {
		return nil, fmt.Errorf("age wrote %d stanzas for %d recipients", len(o.stanzas), len(mix))
	}
	return o, nil
}

// span names a byte range of the encoded header (for violation keys and
// coverage of the bit-flip sweep).
type span struct {
	from, to int
	name     string
}

// layout computes the regions of the canonical encoding of (stz, mac); the
// caller checks that the lengths agree with the real encoding.
func layout(stz []refage.Stanza, mac []byte) []span {
	var sp []span
	pos := 0
	add := func(n int, name string) {
		if n > 0 {
			sp = append(sp, span{pos, pos + n, name})
			pos += n
		}
	}
	add(len(refage.Intro), "intro")
	for i, s := range stz {
		add(3, fmt.Sprintf("s%d.syntax", i)) // "-> "
		add(len(s.Type), fmt.Sprintf("s%d.type", i))
		for j, a := range s.Args {
			add(1, fmt.Sprintf("s%d.syntax", i))
			add(len(a), fmt.Sprintf("s%d.arg%d", i, j))
		}
		add(1, fmt.Sprintf("s%d.syntax", i))
		b := len(refage.B64(s.Body))
		for b >= 64 {
			add(64, fmt.Sprintf("s%d.body", i))
			add(1, fmt.Sprintf("s%d.syntax", i))
			b -= 64
		}
		add(b, fmt.Sprintf("s%d.body", i))
		add(1, fmt.Sprintf("s%d.syntax", i))
	}
	add(4, "footer.syntax") // "--- "
	// 43 base64 columns of the MAC, in groups of 8 MAC bytes
	m := len(refage.B64(mac))
	for c := 0; c < m; c++ {
		byteIdx := c * 6 / 8
		g := byteIdx / 8 * 8
		add(1, fmt.Sprintf("mac[%d:%d)", g, g+8))
	}
	add(1, "footer.syntax")
	return sp
}

func regionOf(sp []span, off int) string {
	for _, s := range sp {
		if off >= s.from && off < s.to {
			return s.name
		}
	}
	return "?"
}
