package main

import (
	"bytes"
	"encoding/hex"
	"fmt"
	"io"
	"os"
	"sort"
	"strings"

	"filippo.io/age"
	"filippo.io/age/zverif/keys"
	"filippo.io/age/zverif/mon"
	"filippo.io/age/zverif/refage"
)

// Meddling identities. An Identity is caller-supplied code that is handed the
// stanzas of the header; nothing in the Identity contract forbids it to
// rearrange the slice it was given (look at the native stanzas first, move
// its own type to the front, compact duplicates) or to touch it otherwise.
// The header MAC is over the bytes of the file, so whatever an identity does
// with its argument must not change what is authenticated: an altered file
// must be rejected even if an identity's handling of its argument happens to
// UNDO the alteration. The wrappers below delegate to the real identities
// after operating on the []*age.Stanza they received; they are crossed with
// the alterations their operation would undo (every permutation, duplicated
// stanzas, one field changed) and with a few unrelated ones.
//
// Two groups of operations:
//   - on the SLICE (its slots, length, spare capacity): sort, reverse, swap,
//     restore the original order, overwrite a slot with another, compact
//     duplicates, nil out foreign slots afterwards, append within capacity;
//   - through the ELEMENT POINTERS (fields of the *age.Stanza values): put
//     Type / Args / Body back to the original value, by assignment or byte by
//     byte in place. These are reported under their own keys
//     (identity-pointer-write-reaches-mac:...), because whether the library
//     owes the caller a deep copy is a separate question from the slice.

type meddler struct {
	inner age.Identity
	op    string
	orig  []refage.Stanza // the original (unaltered) stanza list, for the "restore" operations
}

func stanzaKey(s *age.Stanza) string {
	if s == nil {
		return "<nil>"
	}
	return s.Type + " " + strings.Join(s.Args, " ") + "\n" + string(s.Body)
}

func refKey(s refage.Stanza) string {
	return s.Type + " " + strings.Join(s.Args, " ") + "\n" + string(s.Body)
}

func native(t string) int {
	switch t {
	case "X25519":
		return 0
	case "ssh-ed25519":
		return 1
	case "ssh-rsa":
		return 2
	}
	return 3
}

var (
	sliceOps   = []string{"restore-order", "sort-native-first", "reverse", "swap-first-two", "swap-ends", "rotate-left", "overwrite-slot", "compact-duplicates", "nil-foreign-after", "append-within-capacity"}
	pointerOps = []string{"restore-fields-by-assignment", "restore-bytes-in-place"}
)

func (m *meddler) Unwrap(st []*age.Stanza) ([]byte, error) {
	n := len(st)
	switch m.op {
	case "restore-order":
		// selection sort of the slots into the original order (by content)
		for i := 0; i < n && i < len(m.orig); i++ {
			want := refKey(m.orig[i])
			for k := i; k < n; k++ {
				if stanzaKey(st[k]) == want {
					st[i], st[k] = st[k], st[i]
					break
				}
			}
		}
	case "sort-native-first":
		sort.SliceStable(st, func(a, b int) bool { return native(st[a].Type) < native(st[b].Type) })
	case "reverse":
		for l, r := 0, n-1; l < r; l, r = l+1, r-1 {
			st[l], st[r] = st[r], st[l]
		}
	case "swap-first-two":
		if n >= 2 {
			st[0], st[1] = st[1], st[0]
		}
	case "swap-ends":
		if n >= 2 {
			st[0], st[n-1] = st[n-1], st[0]
		}
	case "rotate-left":
		if n >= 2 {
			f := st[0]
			copy(st, st[1:])
			st[n-1] = f
		}
	case "overwrite-slot":
		// slot of the first stanza that is not where the original has it := the one that should be there
		for i := 0; i < n && i < len(m.orig); i++ {
			if stanzaKey(st[i]) != refKey(m.orig[i]) {
				for k := 0; k < n; k++ {
					if stanzaKey(st[k]) == refKey(m.orig[i]) {
						st[i] = st[k]
						break
					}
				}
			}
		}
	case "compact-duplicates":
		w := 0
		for i := 0; i < n; i++ {
			dup := false
			for k := 0; k < w; k++ {
				dup = dup || stanzaKey(st[k]) == stanzaKey(st[i])
			}
			if !dup {
				st[w] = st[i]
				w++
			}
		}
		st = st[:w]
	case "append-within-capacity":
		if cap(st) > n {
			_ = append(st, &age.Stanza{Type: "appended", Body: []byte{1}})
		}
		st = append(st[:n:n], &age.Stanza{Type: "appended-copy"})[:n]
	case "restore-fields-by-assignment":
		for i := 0; i < n && i < len(m.orig); i++ {
			o := m.orig[i]
			if st[i].Type != o.Type {
				st[i].Type = o.Type
			}
			if strings.Join(st[i].Args, " ") != strings.Join(o.Args, " ") {
				st[i].Args = append([]string(nil), o.Args...)
			}
			if !bytes.Equal(st[i].Body, o.Body) {
				st[i].Body = append([]byte(nil), o.Body...)
			}
		}
	case "restore-bytes-in-place":
		for i := 0; i < n && i < len(m.orig); i++ {
			o := m.orig[i]
			if len(st[i].Args) == len(o.Args) {
				for k := range o.Args {
					st[i].Args[k] = o.Args[k]
				}
			}
			if len(st[i].Body) == len(o.Body) {
				copy(st[i].Body, o.Body)
			}
		}
	}
	fk, err := m.inner.Unwrap(st)
	if m.op == "nil-foreign-after" {
		for i := range st {
			if native(st[i].Type) == 3 {
				st[i] = nil
			}
		}
	}
	return fk, err
}

// meddleEdits: the alterations crossed with the wrappers.
func meddleEdits(o *original) []edit {
	var out []edit
	n := len(o.stanzas)
	add := func(class, region, desc string, stz []refage.Stanza, mac []byte) {
		out = append(out, edit{class: class, region: region, desc: desc, hdr: encodeHeader(stz, mac)})
	}
	// every permutation
	perm := make([]int, n)
	for i := range perm {
		perm[i] = i
	}
	var rec func(k int)
	rec = func(k int) {
		if k == n {
			c := make([]refage.Stanza, n)
			for i, p := range perm {
				c[i] = cloneStanza(o.stanzas[p])
			}
			ps := strings.Trim(strings.ReplaceAll(fmt.Sprint(perm), " ", ","), "[]")
			add("perm", ps, "stanzas reordered to "+ps, c, o.mac)
			return
		}
		for i := k; i < n; i++ {
			perm[k], perm[i] = perm[i], perm[k]
			rec(k + 1)
			perm[k], perm[i] = perm[i], perm[k]
		}
	}
	rec(0)
	// duplicates: a copy of stanza j right after it, at the front, at the end
	for jx := 0; jx < n; jx++ {
		for _, p := range []int{jx + 1, 0, n} {
			c := cloneStanzas(o.stanzas[:p])
			c = append(c, cloneStanza(o.stanzas[jx]))
			c = append(c, cloneStanzas(o.stanzas[p:])...)
			add("ins-duplicate", fmt.Sprintf("pos%d", p), fmt.Sprintf("copy of stanza %d inserted at position %d", jx, p), c, o.mac)
		}
	}
	// one field of one stanza changed (same lengths, so that an in-place restore can undo it)
	for i := 0; i < n; i++ {
		s := o.stanzas[i]
		c := cloneStanzas(o.stanzas)
		b := []byte(s.Type)
		b[len(b)-1] = flipChar(b[len(b)-1])
		c[i].Type = string(b)
		add("sub-type-bit", fmt.Sprintf("s%d.type", i), fmt.Sprintf("stanza %d: last character of the type changed", i), c, o.mac)
		for a := range s.Args {
			c := cloneStanzas(o.stanzas)
			b := []byte(s.Args[a])
			b[len(b)/2] = flipChar(b[len(b)/2])
			c[i].Args[a] = string(b)
			add("sub-arg-bit", fmt.Sprintf("s%d.arg%d", i, a), fmt.Sprintf("stanza %d argument %d: one character changed", i, a), c, o.mac)
		}
		if len(s.Body) > 0 {
			c := cloneStanzas(o.stanzas)
			c[i].Body[len(s.Body)/2] ^= 0x10
			add("sub-body-bit", fmt.Sprintf("s%d.body", i), fmt.Sprintf("stanza %d: one body bit flipped", i), c, o.mac)
		}
	}
	// unrelated alterations: nothing an identity does may rescue them either
	m := append([]byte(nil), o.mac...)
	m[5] ^= 4
	add("mac-bit", "mac", "one MAC bit flipped", o.stanzas, m)
	if n > 1 {
		add("del", fmt.Sprintf("s%d", n-1), "last stanza deleted", cloneStanzas(o.stanzas[:n-1]), o.mac)
	}
	c := append(cloneStanzas(o.stanzas), refage.Stanza{Type: "zz-grease", Args: []string{"g"}, Body: []byte{7}})
	add("ins-grease-body", fmt.Sprintf("pos%d", n), "grease stanza appended", c, o.mac)
	return out
}

var meddleSeen = map[string]int{} // op -> cases (under shapeMu)

// Element-pointer writes. age.Decrypt converts the parsed header's
// []*format.Stanza to []*age.Stanza pointer by pointer, so the identities see
// the header's OWN Stanza values: an identity that assigns to s.Type / s.Args /
// s.Body (or writes into the Args slice or the Body bytes) changes the header
// that headerMAC authenticates afterwards. On the pinned tree such a wrapper
// does rescue an altered file. No identity in the tree writes through these
// pointers, and whether the library owes its callers a deep copy is not
// settled by the property text ("every identity able to open the original
// file" — here the identity rewrites the header itself), so by default these
// acceptances are REPORTED (a NOTE line, evidence key
// identity_pointer_writes_reaching_mac with samples) and do not fail the
// check. VERIF_C03_STRICT_POINTER_WRITES=1 turns them into violations with
// one stable key per operation and edit class
// (identity-pointer-write-reaches-mac:<op>:<class>).
var (
	strictPointerWrites = os.Getenv("VERIF_C03_STRICT_POINTER_WRITES") == "1"
	pointerWrites       = map[string]int{}
)

func notePointerWrite(r *mon.Run, o *original, e edit, op, shape, opener string) {
	k := op + "/" + e.class
	shapeMu.Lock()
	pointerWrites[k]++
	first := pointerWrites[k] == 1
	shapeMu.Unlock()
	if first {
		r.SampleN("pointer-write/"+k, 1, map[string]any{"kind": "NOTE: identity write through an element pointer reached the header MAC",
			"mix": o.name, "edit": e.desc, "identity_operation": op, "identity_list": shape, "opener": opener,
			"result":        "Decrypt returned a reader: the wrapper's write changed the header that was authenticated",
			"edited_header": string(mon.Trunc(e.hdr, 300))})
	}
}

// runMeddle is the job: every meddle edit x every operation x identity lists
// [meddler(opener)], [non-matching, meddler(opener)], [meddler(non-matching), opener].
func runMeddle(r *mon.Run, j *job) {
	o := j.o
	file0 := o.file()
	ops := append(append([]string(nil), sliceOps...), pointerOps...)
	// precondition: the wrappers do not stop the ORIGINAL from opening (an
	// operation that rearranges a valid header back to itself is a no-op)
	usableOp := map[string]bool{}
	for _, op := range ops {
		okAll := true
		for _, p := range o.openers {
			rd, err, panicked := safeDecrypt(file0, &meddler{inner: p.Identity, op: op, orig: o.stanzas})
			if err != nil || rd == nil || panicked != "" {
				okAll = false
			}
		}
		usableOp[op] = okAll
		if !okAll {
			r.Tab("meddle_op_unusable_on_original", op)
		}
	}
	filler := keys.P("X4")
	for ei, e := range meddleEdits(o) {
		if bytes.Equal(e.hdr, o.header) {
			continue
		}
		file := append(append([]byte(nil), e.hdr...), o.payload...)
		for oi, op := range ops {
			if !usableOp[op] {
				continue
			}
			// the operations that cannot relate to this alteration run on a third of the edits
			related := (e.class == "perm" && oi < 7) || (e.class == "ins-duplicate" && (op == "compact-duplicates" || op == "overwrite-slot")) ||
				(strings.HasPrefix(e.class, "sub-") && oi >= len(sliceOps))
			if !related && (ei+oi+o.idx)%3 != 0 {
				continue
			}
			for _, p := range o.openers {
				if p.Kind == 'R' && o.idx%4 != 0 {
					continue // ssh-rsa costs 1.5 ms per case: a quarter of the originals
				}
				med := &meddler{inner: p.Identity, op: op, orig: o.stanzas}
				lists := []struct {
					shape string
					ids   []age.Identity
					ref   []*keys.Party
				}{
					{"meddling-opener", []age.Identity{med}, []*keys.Party{p}},
					{"nonmatching+meddling-opener", []age.Identity{filler.Identity, med}, []*keys.Party{filler, p}},
					{"meddling-nonmatching+opener", []age.Identity{&meddler{inner: filler.Identity, op: op, orig: o.stanzas}, p.Identity}, []*keys.Party{filler, p}},
				}
				for li, l := range lists {
					if li == 2 && op == "nil-foreign-after" {
						// Decrypt hands ONE slice to all identities in turn: slots a
						// first identity nils out would be dereferenced by the next
						// one — the caller's identities tripping each other up, not
						// a matter of the header
						continue
					}
					rd, err, panicked := safeDecrypt(file, l.ids...)
					r.Eval(1)
					r.Count("cases/meddle", 1)
					r.Count("cases_meddling_identity", 1)
					r.Tab("meddle_op_x_edit", op+"/"+e.class)
					r.Tab("meddle_list_shape", l.shape)
					shapeMu.Lock()
					meddleSeen[op]++
					shapeMu.Unlock()
					r.DistinctBytes([]byte(fmt.Sprintf("meddle|%d|%s|%s|%s|%x", o.idx, op, l.shape, p.Name, e.hdr)))
					if panicked == "" && rd == nil && err != nil {
						r.Tab("error_class", errClass(err))
						r.SampleN("meddle/"+op, 1, map[string]any{"kind": "meddling identity", "mix": o.name, "edit": e.desc, "identity_operation": op,
							"identity_list": l.shape, "opener": p.Name, "result": "nil reader, error: " + trunc(err.Error(), 100)})
						continue
					}
					if h, _, perr := refage.ParseHeader(file); perr == nil && consistent(h.Stanzas, h.MAC, l.ref) {
						r.Count("guard_consistent_header_accepted", 1)
						continue
					}
					if oi >= len(sliceOps) {
						// see the note above notePointerWrite: reported, not failed,
						// unless strict; then one violation per operation and edit class
						notePointerWrite(r, o, e, op, l.shape, p.Name)
						if strictPointerWrites {
							r.Violate(fmt.Sprintf("identity-pointer-write-reaches-mac:%s:%s", op, e.class),
								fmt.Sprintf("an identity that performs %q on the *Stanza values it is handed made Decrypt accept an altered header (%s) of a file for [%s] (identity list %s, opener %s)", op, e.desc, o.name, l.shape, p.Name),
								map[string]any{"mix": o.mix, "edit": e.desc, "identity_operation": op, "identity_list": l.shape, "opener": p.Name,
									"original_header": string(o.header), "edited_header_hex": hex.EncodeToString(e.hdr), "payload_hex": hex.EncodeToString(o.payload)})
						}
						continue
					}
					j.nCands++
					cls := "meddle-" + op
					have := 0
					for _, c := range j.cands {
						if c.class == cls {
							have++
						}
					}
					if have >= 2 || len(j.cands) >= 10 {
						continue
					}
					released := "no reader"
					if rd != nil {
						pt, rerr := io.ReadAll(rd)
						released = fmt.Sprintf("reading it released %d bytes (equal to the original plaintext: %v) then %v", len(pt), bytes.Equal(pt, o.plain), rerr)
					}
					key := fmt.Sprintf("header-edit-accepted:%s@%s:mix=%s:id=%s:%s:identity-op=%s", e.class, e.region, o.name, p.Name, l.shape, op)
					what := fmt.Sprintf("Decrypt returned reader!=nil:%v err=%v panic=%q for an altered header (%s) of a file for [%s]; identity list %s, where the wrapper around %s performs %q on the []*Stanza it is handed before delegating to the real identity; %s",
						rd != nil, err, panicked, e.desc, o.name, l.shape, p.Name, op, released)
					j.cands = append(j.cands, cand{class: cls, region: e.region, key: key, what: what, replay: map[string]any{
						"builder": o.builder, "mix": o.mix, "class": e.class, "edit": e.desc, "identity_operation": op, "identity_list": l.shape, "opener": p.Name,
						"original_header": string(o.header), "edited_header_hex": hex.EncodeToString(e.hdr), "payload_hex": hex.EncodeToString(o.payload),
					}})
				}
			}
		}
	}
}

// safeDecrypt runs Decrypt and turns a panic into a value (an identity that
// nils out slots can make a tree that shares the slice dereference nil).
func safeDecrypt(file []byte, ids ...age.Identity) (rd io.Reader, err error, panicked string) {
	defer func() {
		if x := recover(); x != nil {
			panicked = fmt.Sprint(x)
		}
	}()
	rd, err = age.Decrypt(bytes.NewReader(file), ids...)
	return
}
