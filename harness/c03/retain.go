package main

import (
	"bytes"
	"encoding/hex"
	"errors"
	"fmt"
	"io"
	"strings"
	"sync"

	"filippo.io/age"
	"filippo.io/age/zverif/keys"
	"filippo.io/age/zverif/mon"
	"filippo.io/age/zverif/refage"
)

// Retaining identities and guessable file keys. A caller-side identity put in
// front of an expensive or interactive one (passphrase, token) remembers the
// file key it obtained for a stanza and hands the SAME slice out again when it
// is shown that stanza once more. The slice an identity returns stays the
// identity's; the library only reads it (assumption stated in the evidence).
// History per original: Decrypt(original) through the retaining identity
// (must succeed), then altered headers whose MAC was recomputed under a
// GUESSABLE file key (sixteen 0x00, sixteen 0xFF, 00..0f, the empty key, the
// first 16 bytes of a stanza body), opened with the same identity object (must
// be refused), then Decrypt(original) again (control).

type retainer struct {
	inner age.Identity
	mu    sync.Mutex
	memo  map[string][]byte
	hits  int
}

func (m *retainer) Unwrap(stanzas []*age.Stanza) ([]byte, error) {
	m.mu.Lock()
	defer m.mu.Unlock()
	for _, s := range stanzas {
		if fk, ok := m.memo[stanzaKey(s)]; ok {
			m.hits++
			return fk, nil
		}
	}
	for _, s := range stanzas {
		fk, err := m.inner.Unwrap([]*age.Stanza{s})
		if err == nil {
			m.memo[stanzaKey(s)] = fk
			return fk, nil
		}
		if !errors.Is(err, age.ErrIncorrectIdentity) {
			return nil, err
		}
	}
	return nil, age.ErrIncorrectIdentity
}

var retainMixes = []string{"Xm", "Em,Xo", "Rm", "Em,U48,Xo,Xo", "Xm,Xo,U48,Eo,Em", "Xo,U,Eo,U48,Xm", "age:Eo,Xm,U,Em", "Xm,Lw100", "Rz,Xo", "Xs,Xo", "Es,U48"}

var (
	retainMu    sync.Mutex
	retainGuess = map[string]int{}
)

func isRetainMix(name string) bool {
	for _, n := range retainMixes {
		if n == name {
			return true
		}
	}
	return false
}

func runRetain(r *mon.Run, j *job) {
	o := j.o
	n := len(o.stanzas)
	type alt struct {
		class, desc string
		stz         []refage.Stanza
	}
	alts := []alt{{"mac-only", "header unchanged", o.stanzas}}
	grease := refage.Stanza{Type: "kq-grease", Args: []string{"x"}, Body: []byte{1, 2, 3}}
	alts = append(alts, alt{"ins-grease-body", "grease stanza inserted at position 0", append([]refage.Stanza{grease}, cloneStanzas(o.stanzas)...)},
		alt{"ins-grease-body", "grease stanza appended", append(cloneStanzas(o.stanzas), grease)})
	for i := 0; i < n; i++ {
		c := cloneStanzas(o.stanzas[:i])
		alts = append(alts, alt{"del", fmt.Sprintf("stanza %d deleted", i), append(c, cloneStanzas(o.stanzas[i+1:])...)})
		c = cloneStanzas(o.stanzas)
		c[i].Type += "x"
		alts = append(alts, alt{"sub-type-append", fmt.Sprintf("stanza %d: type + \"x\"", i), c})
		c = cloneStanzas(o.stanzas)
		c[i].Args = append(c[i].Args, "extra")
		alts = append(alts, alt{"sub-arg-add", fmt.Sprintf("stanza %d: extra argument", i), c})
		c = cloneStanzas(o.stanzas)
		c[i].Body = append(c[i].Body, 0x42)
		alts = append(alts, alt{"sub-body-append", fmt.Sprintf("stanza %d: one byte appended to the body", i), c})
		c = append(cloneStanzas(o.stanzas[:i+1]), cloneStanzas(o.stanzas[i:])...)
		alts = append(alts, alt{"ins-duplicate", fmt.Sprintf("stanza %d duplicated", i), c})
	}
	if n >= 2 {
		c := cloneStanzas(o.stanzas)
		c[0], c[n-1] = c[n-1], c[0]
		alts = append(alts, alt{"perm", "first and last stanza swapped", c})
		c = cloneStanzas(o.stanzas)
		for l, rr := 0, n-1; l < rr; l, rr = l+1, rr-1 {
			c[l], c[rr] = c[rr], c[l]
		}
		alts = append(alts, alt{"perm", "stanzas reversed", c})
	}
	seq := make([]byte, 16)
	for i := range seq {
		seq[i] = byte(i)
	}
	type guess struct {
		name string
		key  []byte
	}
	guesses := []guess{{"sixteen-zero-bytes", make([]byte, 16)}, {"sixteen-ff-bytes", bytes.Repeat([]byte{0xff}, 16)}, {"bytes-00-to-0f", seq}, {"empty-key", nil}}
	for i, s := range o.stanzas {
		if len(s.Body) >= 16 {
			guesses = append(guesses, guess{fmt.Sprintf("first-16-bytes-of-body-%d", i), append([]byte(nil), s.Body[:16]...)})
			if len(guesses) >= 6 {
				break
			}
		}
	}
	file0 := o.file()
	open := func(ids ...age.Identity) ([]byte, error) {
		rd, err, p := safeDecrypt(file0, ids...)
		if p != "" {
			return nil, errors.New("panic: " + p)
		}
		if err != nil {
			return nil, err
		}
		return io.ReadAll(rd)
	}
	for _, p := range o.openers {
		if p.Name == "REenc" {
			continue
		}
		ret := &retainer{inner: p.Identity, memo: map[string][]byte{}}
		if pt, err := open(ret); err != nil || !bytes.Equal(pt, o.plain) {
			r.Inconclusive("retaining identity: original %s does not open as %s: %v", o.name, p.Name, err)
			continue
		}
		for _, a := range alts {
			for _, g := range guesses {
				hdr := encodeHeader(a.stz, refage.HeaderMAC(g.key, a.stz))
				if bytes.Equal(hdr, o.header) {
					continue
				}
				file := append(append([]byte(nil), hdr...), o.payload...)
				for li, ids := range [][]age.Identity{{ret}, {keys.P("X4").Identity, ret}} {
					shape := []string{"retaining-opener", "nonmatching+retaining-opener"}[li]
					rd, err, panicked := safeDecrypt(file, ids...)
					r.Eval(1)
					r.Count("cases/retain", 1)
					r.Count("cases_retaining_identity", 1)
					r.Tab("retain_guess_x_edit", strings.SplitN(g.name, "-of-body", 2)[0]+"/"+a.class)
					r.Tab("opener_x_mode", fmt.Sprintf("%c/%s", p.Kind, shape))
					retainMu.Lock()
					retainGuess[strings.SplitN(g.name, "-of-body", 2)[0]]++
					retainMu.Unlock()
					r.DistinctBytes([]byte(fmt.Sprintf("retain|%d|%s|%s|%x", o.idx, p.Name, shape, hdr)))
					if panicked == "" && rd == nil && err != nil {
						r.Tab("error_class", errClass(err))
						r.SampleN("retain/"+g.name, 1, map[string]any{"kind": "retaining identity, MAC under a guessable key", "mix": o.name, "edit": a.desc,
							"mac_key": g.name, "identities": shape, "opener": p.Name, "result": "nil reader, error: " + trunc(err.Error(), 100)})
						continue
					}
					j.nCands++
					cls := "retain-" + strings.SplitN(g.name, "-of-body", 2)[0]
					have := 0
					for _, c := range j.cands {
						if c.class == cls {
							have++
						}
					}
					if have >= 2 || len(j.cands) >= 10 {
						continue
					}
					released := "no reader"
					if rd != nil {
						pt, rerr := io.ReadAll(rd)
						released = fmt.Sprintf("reading it released %d bytes (equal to the original plaintext: %v) then %v", len(pt), bytes.Equal(pt, o.plain), rerr)
					}
					j.cands = append(j.cands, cand{class: cls, region: "mac",
						key: fmt.Sprintf("header-edit-accepted:%s+mac-under-%s:mix=%s:id=%s:%s:after-decrypting-the-original", a.class, g.name, o.name, p.Name, shape),
						what: fmt.Sprintf("after a successful Decrypt of the original through an identity that hands the same file-key slice out again, Decrypt returned reader!=nil:%v err=%v panic=%q for an altered header (%s; MAC recomputed under the guessable key %s) of a file for [%s], identity list %s; %s",
							rd != nil, err, panicked, a.desc, g.name, o.name, shape, released),
						replay: map[string]any{"mix": o.mix, "edit": a.desc, "mac_key": g.name, "mac_key_hex": hex.EncodeToString(g.key), "opener": p.Name, "identities": shape,
							"original_header": string(o.header), "edited_header_hex": hex.EncodeToString(hdr), "payload_hex": hex.EncodeToString(o.payload)}})
				}
			}
		}
		// control: the identity still returns the right key for the original
		if pt, err := open(ret); err != nil || !bytes.Equal(pt, o.plain) {
			r.Count("retain_control_failed", 1)
			r.Inconclusive("retaining identity: after the sweep the ORIGINAL %s no longer opens as %s through the same identity object (%v): something wrote into the file-key slice the identity returned (not a C03 matter in itself)", o.name, p.Name, err)
		} else {
			r.Count("retain_control_ok", 1)
		}
	}
}
