package main

import (
	"fmt"
	"math/big"
	"sync"

	"filippo.io/age"
	"filippo.io/age/agessh"
	"filippo.io/age/zverif/keys"
	"filippo.io/age/zverif/mon"
	"filippo.io/age/zverif/refage"
	"golang.org/x/crypto/chacha20poly1305"
)

// Value-shaped originals and the edits a NORMALISING reader would undo.
//
//   - Rz / Rzz: an ssh-rsa stanza (to the key stored in the passphrase-protected
//     file enc_rsa1) whose OAEP ciphertext begins with one / two 0x00 bytes
//     (crafted by trying seeds: 1 in 256 / 65536). crypto/rsa reads a ciphertext
//     shorter than the modulus as the same integer, so the edit "leading zero
//     bytes dropped" still unwraps; conversely zero bytes can be prepended to
//     any body. Opened by the plain RSAIdentity, by an EncryptedSSHIdentity
//     that is already unlocked, and (a few cases) by a fresh one.
//   - Xs / Es: an X25519 / ssh-ed25519 stanza whose ephemeral share is the
//     u-coordinate 9, built from the recipient's side. It has the two other
//     encodings RFC 7748 decodes to the same point: top bit set, and the
//     unreduced p+9. Swapping one of them in leaves the shared secret alone.
//   - for every original: top bit of every X25519 / ssh-ed25519 share set,
//     0x00 prepended to every body, leading 0x00 of a body dropped
//     (valueEdits, part of the structural edits).
//
// Each of these must be rejected like any other alteration: the MAC is over
// the bytes of the file, not over the values they decode to.

var (
	valueOnce sync.Once
	localP    = map[string]*keys.Party{}
	freshRE   func() age.Identity // a new, locked EncryptedSSHIdentity for the RE key
)

func initValue() {
	valueOnce.Do(func() {
		dec := keys.DecryptedRSA("enc_rsa1")
		plain, err := agessh.NewRSAIdentity(dec.Priv)
		if err != nil {
			panic(err)
		}
		plain2, _ := agessh.NewRSAIdentity(dec.Priv)
		rcpt, err := agessh.NewRSARecipient(dec.SSHPub)
		if err != nil {
			panic(err)
		}
		mkEnc := func() age.Identity {
			id, err := agessh.NewEncryptedSSHIdentity(dec.SSHPub, keys.Data("enc_rsa1"), func() ([]byte, error) { return []byte(keys.Passphrase), nil })
			if err != nil {
				panic(err)
			}
			return id
		}
		freshRE = mkEnc
		unlocked := mkEnc()
		localP["RE"] = &keys.Party{Name: "RE", Kind: 'R', Recipient: rcpt, Identity: plain, Ref: dec.Ref}
		localP["REenc"] = &keys.Party{Name: "REenc", Kind: 'R', Recipient: rcpt, Identity: unlocked, Ref: dec.Ref}
		p2 := *localP["RE"]
		p2.Identity = plain2
		second["RE"] = &p2
		second["REenc"] = localP["RE"]
		// unlock the shared EncryptedSSHIdentity once, sequentially (it caches the key)
		s := detRSAWrap(mon.DetBytes("c03-unlock", 16), &dec.Priv.PublicKey, mon.DetBytes("c03-unlock-seed", 32))
		if _, err := unlocked.Unwrap([]*age.Stanza{{Type: s.Type, Args: s.Args, Body: s.Body}}); err != nil {
			panic(fmt.Sprintf("c03: cannot unlock enc_rsa1: %v", err))
		}
	})
}

// symbols of value-shaped stanzas -> the parties that open them
var valueOpeners = map[string][]string{"Rz": {"RE", "REenc"}, "Rzz": {"RE", "REenc"}, "Xs": {"X1"}, "Es": {"E1"}}

func partyByName(n string) *keys.Party {
	if p := localP[n]; p != nil {
		return p
	}
	return keys.P(n)
}

// partiesOf returns the parties that can open a stanza for sym (nil: nobody the monitor has).
func partiesOf(sym string) []*keys.Party {
	if ns, ok := valueOpeners[sym]; ok {
		initValue()
		var out []*keys.Party
		for _, n := range ns {
			out = append(out, partyByName(n))
		}
		return out
	}
	if n, ok := symParty[sym]; ok {
		return []*keys.Party{keys.P(n)}
	}
	return nil
}

var p25519v = func() *big.Int {
	p := new(big.Int).Lsh(big.NewInt(1), 255)
	return p.Sub(p, big.NewInt(19))
}()

func le32v(v *big.Int) []byte {
	b := v.Bytes()
	out := make([]byte, 32)
	for i := range b {
		out[i] = b[len(b)-1-i]
	}
	return out
}

func sealFileKey(wrapKey, fileKey []byte) []byte {
	a, err := chacha20poly1305.New(wrapKey)
	if err != nil {
		panic(err)
	}
	return a.Seal(nil, make([]byte, 12), fileKey, nil)
}

// valueStanza builds the stanza for a value-shaped symbol.
func valueStanza(sym string, fileKey []byte, label string) refage.Stanza {
	initValue()
	switch sym {
	case "Rz", "Rzz":
		zeros := len(sym) - 1
		pub := &localP["RE"].Ref.(refage.RSAKey).Priv.PublicKey
		for c := 0; ; c++ {
			s := detRSAWrap(fileKey, pub, mon.DetBytes(fmt.Sprintf("c03-eph-%s-try%d", label, c), 32))
			ok := true
			for z := 0; z < zeros; z++ {
				ok = ok && s.Body[z] == 0
			}
			if ok {
				return s
			}
		}
	case "Xs":
		k := keys.P("X1").Ref.(refage.X25519Key)
		share := le32v(big.NewInt(9))
		shared, err := refage.X25519(k.Secret, share)
		if err != nil {
			panic(err)
		}
		wk := refage.HKDF(shared, append(append([]byte{}, share...), k.Public()...), []byte("age-encryption.org/v1/X25519"), 32)
		return refage.Stanza{Type: "X25519", Args: []string{refage.B64(share)}, Body: sealFileKey(wk, fileKey)}
	case "Es":
		k := keys.P("E1").Ref.(refage.EdKey)
		const info = "age-encryption.org/v1/ssh-ed25519"
		share := le32v(big.NewInt(9))
		wire := refage.SSHEd25519Wire(k.Pub)
		scalar := refage.EdSeedToScalar(k.Seed)
		shared, err := refage.X25519(scalar, share)
		if err != nil {
			panic(err)
		}
		tweak := refage.HKDF(nil, wire, []byte(info), 32)
		if shared, err = refage.X25519(tweak, shared); err != nil {
			panic(err)
		}
		wk := refage.HKDF(shared, append(append([]byte{}, share...), refage.X25519Public(scalar)...), []byte(info), 32)
		return refage.Stanza{Type: "ssh-ed25519", Args: []string{refage.SSHTag(wire), refage.B64(share)}, Body: sealFileKey(wk, fileKey)}
	}
	panic("c03: bad value symbol " + sym)
}

// valueMixes: value-shaped stanzas alone, next to other recipients, and next
// to another opener.
var valueMixes = [][]string{
	{"Rz"}, {"Rz", "Xo"}, {"Xm", "Rz", "U48"},
	{"Xs"}, {"Xs", "Xo"}, {"Eo", "Xs", "Em"},
	{"Es"}, {"Es", "U48"}, {"Xo", "Es", "Xm"},
}

var valueMixesThorough = [][]string{{"Eo", "Rz"}, {"Rzz"}, {"Rzz", "Xo", "Em"}, {"Rz", "Rz"}, {"Xs", "Es"}}

// valueEdits: the re-encodings of field VALUES, for every stanza of o.
func valueEdits(o *original) []edit {
	var out []edit
	add := func(class, region, desc string, stz []refage.Stanza) {
		out = append(out, edit{class: class, region: region, desc: desc, hdr: encodeHeader(stz, o.mac)})
	}
	for i, s := range o.stanzas {
		// bodies: leading zero bytes dropped / prepended
		if len(s.Body) > 0 {
			z := 0
			for z < len(s.Body) && s.Body[z] == 0 {
				z++
				c := cloneStanzas(o.stanzas)
				c[i].Body = c[i].Body[z:]
				add("value-body-drop-leading-zeros", fmt.Sprintf("s%d.body", i), fmt.Sprintf("stanza %d: %d leading 0x00 byte(s) of the body dropped", i, z), c)
				if z >= 3 {
					break
				}
			}
			for _, n := range []int{1, 2} {
				c := cloneStanzas(o.stanzas)
				c[i].Body = append(make([]byte, n), c[i].Body...)
				add("value-body-prepend-zeros", fmt.Sprintf("s%d.body", i), fmt.Sprintf("stanza %d: %d 0x00 byte(s) prepended to the body", i, n), c)
			}
		}
		// shares: other encodings of the same u-coordinate
		a := -1
		switch {
		case s.Type == "X25519" && len(s.Args) == 1:
			a = 0
		case s.Type == "ssh-ed25519" && len(s.Args) == 2:
			a = 1
		}
		if a < 0 {
			continue
		}
		share, err := refage.UnB64(s.Args[a])
		if err != nil || len(share) != 32 {
			continue
		}
		reg := fmt.Sprintf("s%d.arg%d", i, a)
		withShare := func(b []byte) []refage.Stanza {
			c := cloneStanzas(o.stanzas)
			c[i].Args[a] = refage.B64(b)
			return c
		}
		top := append([]byte(nil), share...)
		top[31] ^= 0x80
		add("value-share-top-bit", reg, fmt.Sprintf("stanza %d: top bit of the ephemeral share toggled (same point for X25519)", i), withShare(top))
		// the unreduced encoding exists for u < 19
		be := make([]byte, 32)
		for k := range share {
			be[31-k] = share[k] & map[bool]byte{true: 0x7f, false: 0xff}[k == 31]
		}
		if u := new(big.Int).SetBytes(be); u.Cmp(big.NewInt(19)) < 0 {
			pu := le32v(new(big.Int).Add(p25519v, u))
			add("value-share-unreduced", reg, fmt.Sprintf("stanza %d: ephemeral share %v re-encoded as p+%v", i, u, u), withShare(pu))
			pu2 := append([]byte(nil), pu...)
			pu2[31] |= 0x80
			add("value-share-unreduced", reg, fmt.Sprintf("stanza %d: ephemeral share %v re-encoded as p+%v with the top bit set", i, u, u), withShare(pu2))
		}
	}
	return out
}

// runFreshEncrypted: the value edits of an Rz original opened by a NEW
// EncryptedSSHIdentity per case (each unlock costs a bcrypt, so few cases).
func runFreshEncrypted(r *mon.Run, j *job) {
	o := j.o
	n := 0
	for _, e := range valueEdits(o) {
		if n >= 6 {
			break
		}
		if len(e.hdr) == len(o.header) && string(e.hdr) == string(o.header) {
			continue
		}
		n++
		file := append(append([]byte(nil), e.hdr...), o.payload...)
		rd, err, panicked := safeDecrypt(file, freshRE())
		r.Eval(1)
		r.Count("cases/"+e.class, 1)
		r.Count("cases_fresh_encrypted_ssh_identity", 1)
		r.Tab("opener_x_mode", "R/fresh-encrypted-ssh-identity")
		r.DistinctBytes([]byte(fmt.Sprintf("fresh|%d|%x", o.idx, e.hdr)))
		if panicked == "" && rd == nil && err != nil {
			r.Tab("error_class", errClass(err))
			continue
		}
		if h, _, perr := refage.ParseHeader(file); perr == nil && consistent(h.Stanzas, h.MAC, []*keys.Party{localP["RE"]}) {
			continue
		}
		j.nCands++
		j.cands = append(j.cands, cand{class: e.class, region: e.region,
			key:    fmt.Sprintf("header-edit-accepted:%s@%s:mix=%s:id=REenc:fresh-encrypted-ssh-identity", e.class, e.region, o.name),
			what:   fmt.Sprintf("Decrypt returned reader!=nil:%v err=%v panic=%q for an altered header (%s) of a file for [%s], opened with a fresh EncryptedSSHIdentity", rd != nil, err, panicked, e.desc, o.name),
			replay: map[string]any{"mix": o.mix, "class": e.class, "edit": e.desc, "original_header": string(o.header), "edited_header": string(e.hdr)}})
	}
}
