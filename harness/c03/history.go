package main

import (
	"bytes"
	"fmt"
	"os"
	"strings"
	"sync"
	"sync/atomic"
	"time"

	"filippo.io/age/plugin"
	"filippo.io/age/zverif/mon"
	"filippo.io/age/zverif/plug"
	"filippo.io/age/zverif/refage"
)

// History pass. The property quantifies over altered headers, not over what the
// process did before: a long-lived process that has talked to plugins (one
// conversation, overlapping conversations on two goroutines, a conversation
// still open while another goroutine decrypts) must reject an altered header
// exactly as a fresh one does. Each stage re-runs the thinned alteration sweep
// of the environment pass plus the non-canonical Base64 family on every body
// and on the MAC line (b64TailEdits). Same oracle. Time is used only to shape
// the workload (how long the scripted plugin holds its connection open, how
// far apart two conversations start); whether two conversations overlapped is
// read off the order of call/return events, not off a clock.

var histText = map[string]string{
	"after-one-conversation":          "one complete plugin conversation (Wrap through a plugin recipient)",
	"after-overlapping-conversations": "pairs of plugin conversations on two goroutines that overlapped (start A, start B, end A, end B)",
	"conversation-open":               "a plugin conversation still open on another goroutine",
}

var (
	convOpen  atomic.Int32 // plugin conversations between call and return of Wrap
	histMu    sync.Mutex
	histCases = map[string]int{}
	histOpen  int // cases of stage "conversation-open" that ran entirely while the conversation was open
)

func noteHistCase(stage string, whileOpen bool) {
	histMu.Lock()
	histCases[stage]++
	if stage == "conversation-open" && whileOpen {
		histOpen++
	}
	histMu.Unlock()
}

// b64TailEdits: other spellings of the same bytes in the last Base64 column of
// every stanza body and of the MAC (unused trailing bits set in every
// combination) and "=" padding appended to those lines. A strict parser
// rejects all of them; a lenient one hands the MAC check the original header.
func b64TailEdits(o *original) []edit {
	var out []edit
	lines := bytes.SplitAfter(o.header, []byte("\n"))
	rebuild := func(k int, l []byte) []byte {
		var b bytes.Buffer
		for i, x := range lines {
			if i == k {
				b.Write(l)
			} else {
				b.Write(x)
			}
		}
		return b.Bytes()
	}
	stanza := -1
	for k, l := range lines {
		if len(l) == 0 {
			continue
		}
		text := string(bytes.TrimSuffix(l, []byte("\n")))
		var payload, prefix, reg string
		switch {
		case strings.HasPrefix(text, "-> "):
			stanza++
			continue
		case strings.HasPrefix(text, "--- "):
			prefix, payload, reg = "--- ", text[4:], "mac"
		case k == 0:
			continue
		default:
			payload, reg = text, fmt.Sprintf("s%d.body", stanza)
			if len(payload) == 64 {
				continue // not the last line of the body
			}
		}
		unused := map[int]int{2: 4, 3: 2}[len(payload)%4]
		if unused > 0 && len(payload) > 0 {
			last := payload[len(payload)-1]
			v := strings.IndexByte(b64alphabet, last)
			for m := 1; m < 1<<uint(unused); m++ {
				alt := payload[:len(payload)-1] + string(b64alphabet[v|m])
				out = append(out, edit{class: "b64-trailing-bits", region: reg,
					desc: fmt.Sprintf("%s: last Base64 column %q -> %q (unused trailing bits %0*b)", reg, last, b64alphabet[v|m], unused, m),
					hdr:  rebuild(k, []byte(prefix+alt+"\n"))})
			}
		}
		for _, pad := range []string{"=", "==", "==="} {
			out = append(out, edit{class: "b64-padding", region: reg,
				desc: fmt.Sprintf("%s: %q appended to the line", reg, pad), hdr: rebuild(k, []byte(prefix+payload+pad+"\n"))})
		}
	}
	return out
}

// histSweep runs the thinned sweep once, labelled with the history stage.
func histSweep(r *mon.Run, byName map[string]*original, stage string) []*job {
	var jobs []*job
	for _, n := range envMixes {
		o := byName[n]
		if o == nil {
			continue
		}
		kinds := []string{"edit"}
		if envFlipMixes[n] {
			kinds = append(kinds, "flipsample")
		}
		for _, k := range kinds {
			jobs = append(jobs, &job{o: o, kind: k, hist: stage, extra: true, label: fmt.Sprintf("history:%s/%s/%s/0", stage, o.name, k)})
		}
	}
	mon.Par(len(jobs), func(i int) {
		j := jobs[i]
		r.Guard("job:"+j.label, func() { runJob(r, j) })
	})
	return jobs
}

func historyStage(r *mon.Run, origs []*original, ok []bool) []*job {
	byName := map[string]*original{}
	for i, o := range origs {
		if ok[i] {
			byName[o.name] = o
		}
	}
	oldPath, oldDir := os.Getenv("PATH"), os.Getenv("FAKEPLUGIN_DIR")
	penv, err := plug.Setup()
	if err != nil {
		r.Inconclusive("history pass: plugin environment: %v", err)
		return nil
	}
	defer func() {
		os.Setenv("PATH", oldPath)
		if oldDir == "" {
			os.Unsetenv("FAKEPLUGIN_DIR")
		} else {
			os.Setenv("FAKEPLUGIN_DIR", oldDir)
		}
		os.RemoveAll(penv.Dir)
	}()
	saved := os.Stderr
	if null, err := os.OpenFile(os.DevNull, os.O_WRONLY, 0); err == nil {
		os.Stderr = null
		defer func() { os.Stderr = saved; null.Close() }()
	}

	// events: the order of call/return of the conversations, appended under a lock
	var evMu sync.Mutex
	var events []string
	logEv := func(s string) { evMu.Lock(); events = append(events, s); evMu.Unlock() }
	// converse runs one complete conversation with plugin `name`, which holds
	// its connection open for holdMs before answering.
	converse := func(name string, holdMs int) error {
		penv.Install(name)
		penv.SetScript(name, &plug.Script{Steps: []plug.Step{
			{Send: plug.Stanza("recipient-stanza", []string{"0", "hist-" + name}, []byte("0123456789abcdef0123456789abcdef")), DelayMs: holdMs},
			{Send: plug.Stanza("done", nil, nil), NoReply: true},
		}})
		rc, err := plugin.NewRecipient(refage.Bech32Encode("age1"+name, []byte{1, 2, 3}), &plugin.ClientUI{})
		if err != nil {
			return err
		}
		convOpen.Add(1)
		logEv("call " + name)
		st, err := rc.Wrap(mon.DetBytes("c03-hist-fk-"+name, 16))
		logEv("return " + name)
		convOpen.Add(-1)
		if err != nil {
			return err
		}
		if len(st) != 1 {
			return fmt.Errorf("plugin %s: %d stanzas", name, len(st))
		}
		r.Count("history_conversations_completed", 1)
		return nil
	}

	t0 := time.Now()
	defer func() { r.Set("history_stage_wall_s", float64(int(time.Since(t0).Seconds()*10))/10) }()
	var all []*job
	// (2) one complete conversation, then the sweep
	if err := converse("hista", 0); err != nil {
		r.Inconclusive("history pass: plugin conversation failed: %v", err)
		return nil
	}
	all = append(all, histSweep(r, byName, "after-one-conversation")...)

	// (3) pairs of conversations that overlap without nesting, then the sweep
	overlapped := 0
	for pair := 0; pair < 4; pair++ {
		evMu.Lock()
		events = nil
		evMu.Unlock()
		var wg sync.WaitGroup
		errs := make([]error, 2)
		for g, name := range []string{"hista", "histb"} {
			wg.Add(1)
			go func(g int, name string) {
				defer wg.Done()
				time.Sleep(time.Duration(g*(50+10*pair)) * time.Millisecond) // stagger (shape only)
				errs[g] = converse(name, 140)
			}(g, name)
		}
		wg.Wait()
		if errs[0] != nil || errs[1] != nil {
			r.Inconclusive("history pass: overlapping conversations failed: %v %v", errs[0], errs[1])
			continue
		}
		if strings.Join(events, ",") == "call hista,call histb,return hista,return histb" {
			overlapped++
		}
		r.Tab("history_conversation_pair_order", strings.Join(events, ","))
	}
	r.Count("history_overlapping_pairs_observed", int64(overlapped))
	if overlapped == 0 {
		r.Inconclusive("history pass vacuous: no pair of plugin conversations overlapped (start A, start B, end A, end B)")
	}
	all = append(all, histSweep(r, byName, "after-overlapping-conversations")...)

	// (4) the sweep while a slow conversation is open on another goroutine
	done := make(chan error, 1)
	go func() { done <- converse("hists", 900) }()
	for i := 0; i < 400 && !started(penv, "hists"); i++ { // wait for the plugin process to be up (shape only)
		time.Sleep(5 * time.Millisecond)
	}
	all = append(all, histSweep(r, byName, "conversation-open")...)
	if err := <-done; err != nil {
		r.Inconclusive("history pass: slow plugin conversation failed: %v", err)
	}
	histMu.Lock()
	r.Set("history_cases", histCases)
	r.Count("history_cases_while_conversation_open", int64(histOpen))
	for _, st := range []string{"after-one-conversation", "after-overlapping-conversations", "conversation-open"} {
		if histCases[st] < 3000 {
			r.Inconclusive("history pass too thin: stage %s ran %d cases (min 3000)", st, histCases[st])
		}
	}
	if histOpen < 1000 {
		r.Inconclusive("history pass: only %d cases ran while the plugin conversation was open (min 1000)", histOpen)
	}
	histMu.Unlock()
	return all
}

func started(e *plug.Env, name string) bool {
	for _, s := range e.Starts() {
		if s.Name == name || strings.HasSuffix(s.Name, "-"+name) {
			return true
		}
	}
	return false
}
