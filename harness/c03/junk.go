package main

import (
	"bytes"
	"fmt"
	"sort"
	"strings"
	"sync"
)

// Insertions of bytes that a lenient text layer might strip (ill-formed
// UTF-8, well-formed non-ASCII, C0 controls and DEL) into the header lines:
// the version line, every stanza opening line (between the arrow and the
// type, at the start / middle / end of the type and of the arguments, before
// the line feed), the first and last body line of every stanza, and the MAC
// line (before, inside and after the MAC). Unlike a substitution an inserted
// byte that the parser drops leaves the parsed header equal to the original,
// so the MAC would still verify: every such edit must be rejected.

type junk struct{ family, bytes string }

var junkBytes = []junk{
	{"illformed-utf8", "\xff"}, {"illformed-utf8", "\x80"}, {"illformed-utf8", "\xbf"}, {"illformed-utf8", "\xc0"}, {"illformed-utf8", "\xc3"},
	{"illformed-utf8", "\xe2\x82"}, {"illformed-utf8", "\xf0\x9f\x98"}, {"illformed-utf8", "\xed\xa0\x80"},
	{"nonascii", "\u00e9"}, {"nonascii", "\ufeff"}, {"nonascii", "\u200b"}, {"nonascii", "\u00a0"}, {"nonascii", "\u2028"},
	{"control", "\x00"}, {"control", "\x08"}, {"control", "\x0b"}, {"control", "\x0c"}, {"control", "\x1b"}, {"control", "\x7f"},
}

type junkPos struct {
	off          int
	kind, region string
}

// junkPositions lists the insertion points of a header.
func junkPositions(hdr []byte) []junkPos {
	var out []junkPos
	seen := map[int]bool{}
	add := func(off int, kind, region string) {
		if !seen[off] {
			seen[off] = true
			out = append(out, junkPos{off, kind, region})
		}
	}
	three := func(from, n int, what, region string) {
		add(from, what+"-start", region)
		if n > 1 {
			add(from+n/2, what+"-middle", region)
		}
		add(from+n, what+"-end", region)
	}
	lines := bytes.SplitAfter(hdr, []byte("\n"))
	off, stanza := 0, -1
	bodyFirst := false
	for k, l := range lines {
		n := len(l) - 1 // without LF
		if len(l) == 0 {
			break
		}
		text := string(l[:n])
		switch {
		case k == 0:
			three(off, n, "intro", "intro")
		case strings.HasPrefix(text, "-> "):
			stanza++
			bodyFirst = true
			add(off+2, "arrow-gap", fmt.Sprintf("s%d.syntax", stanza))
			toks := strings.Split(text[3:], " ")
			p := off + 3
			for t, tok := range toks {
				switch {
				case t == 0:
					three(p, len(tok), "type", fmt.Sprintf("s%d.type", stanza))
				case t <= 2 || t == len(toks)-1: // first two and last argument
					three(p, len(tok), "arg", fmt.Sprintf("s%d.arg%d", stanza, t-1))
				}
				p += len(tok) + 1
			}
			// (the position before the line feed is the end of the last token)
		case strings.HasPrefix(text, "--- "):
			add(off+3, "mac-gap", "footer.syntax")
			three(off+4, n-4, "mac", "mac")
		default:
			// body line: the first one and the last one of a stanza
			last := n < 64
			if bodyFirst || last {
				three(off, n, "body", fmt.Sprintf("s%d.body", stanza))
			}
			bodyFirst = false
		}
		off += len(l)
	}
	return out
}

var (
	junkMu   sync.Mutex
	junkSeen = map[string]bool{} // "bytes|kind" combinations that ran in the main sweep
)

// junkInsertEdits builds the insertion edits of o. full: every byte string at
// every position; otherwise one byte string per position, rotating (rot
// varies between originals and between stages).
func junkInsertEdits(o *original, full bool, rot int) []edit {
	var out []edit
	for pi, p := range junkPositions(o.header) {
		for ji, jb := range junkBytes {
			if !full && (pi+rot)%len(junkBytes) != ji {
				continue
			}
			hdr := make([]byte, 0, len(o.header)+4)
			hdr = append(append(append(hdr, o.header[:p.off]...), jb.bytes...), o.header[p.off:]...)
			out = append(out, edit{class: "junk-" + jb.family, region: p.region, junkKey: fmt.Sprintf("%q|%s", jb.bytes, p.kind),
				desc: fmt.Sprintf("%q inserted at header byte %d (%s of %s)", jb.bytes, p.off, p.kind, p.region), hdr: hdr})
		}
	}
	return out
}

func noteJunk(key string) {
	junkMu.Lock()
	junkSeen[key] = true
	junkMu.Unlock()
}

// junkMissing lists byte-string x position-kind combinations that never ran.
func junkMissing() []string {
	kinds := []string{"intro-start", "intro-middle", "intro-end", "arrow-gap", "type-start", "type-middle", "type-end",
		"arg-start", "arg-middle", "arg-end", "body-start", "body-middle", "body-end", "mac-gap", "mac-start", "mac-middle", "mac-end"}
	var miss []string
	for _, jb := range junkBytes {
		for _, k := range kinds {
			if !junkSeen[fmt.Sprintf("%q|%s", jb.bytes, k)] {
				miss = append(miss, fmt.Sprintf("%q at %s", jb.bytes, k))
			}
		}
	}
	sort.Strings(miss)
	return miss
}
