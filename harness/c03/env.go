package main

import (
	"fmt"
	"os"
	"sort"
	"strings"
	"sync"

	"filippo.io/age/zverif/mon"
)

// Environment pass. Which variables and values to try comes from
// mon.EnvSettings() (a scan of the sources of the tree under test for
// os.Getenv / os.LookupEnv); what is right under a setting is decided by the
// same oracle as everywhere else: an altered header must make Decrypt return a
// nil reader and an error, whatever the environment says.

// envMixes: the originals of the thinned sweep — single openers of each kind,
// multi-stanza mixes with the opener first / last / in the middle, an
// age-written file, and long-field originals (reference-built and age-written).
var envMixes = []string{
	"Xm", "Em,Xo", "Rm",
	"Em,U48,Xo,Xo", "Xm,Xo,U48,Eo,Em", "Xo,U,Eo,U48,Xm",
	"age:Eo,Xm,U,Em",
	"Xm,Lw100", "age:Em,La65",
}

// envFlipMixes get the sampled bit flips as well (incl. every bit of the MAC line).
var envFlipMixes = map[string]bool{"Xm": true, "Em,Xo": true, "Xo,U,Eo,U48,Xm": true, "age:Eo,Xm,U,Em": true, "age:Em,La65": true}

const envMinCases = 3000 // per setting, library sweep

var (
	envMu    sync.Mutex
	envCases = map[string]int{}
	envCLI   = map[string]int{}
)

func noteEnvCase(setting string) {
	envMu.Lock()
	envCases[setting]++
	envMu.Unlock()
}

func noteEnvCLI(setting string) {
	envMu.Lock()
	envCLI[setting]++
	envMu.Unlock()
}

// envStage runs the thinned library sweep once per setting and returns its
// jobs (they carry candidate violations for the common report).
func envStage(r *mon.Run, origs []*original, ok []bool) []*job {
	settings := mon.EnvSettings()
	var names []string
	for _, s := range settings {
		names = append(names, s.String())
	}
	r.Set("env_settings", names)
	byName := map[string]*original{}
	for i, o := range origs {
		if ok[i] {
			byName[o.name] = o
		}
	}
	// whatever the library prints to stderr under a debug setting is not the
	// subject here; keep the check's output readable
	saved := os.Stderr
	if null, err := os.OpenFile(os.DevNull, os.O_WRONLY, 0); err == nil {
		os.Stderr = null
		defer func() { os.Stderr = saved; null.Close() }()
	}
	var all []*job
	for _, set := range settings {
		var jobs []*job
		for _, n := range envMixes {
			o := byName[n]
			if o == nil {
				continue
			}
			kinds := []string{"edit"}
			if o.doField {
				kinds = append(kinds, "fieldshape")
			}
			if envFlipMixes[n] {
				kinds = append(kinds, "flipsample")
			}
			for _, k := range kinds {
				jobs = append(jobs, &job{o: o, kind: k, env: set.String(), extra: true,
					label: fmt.Sprintf("env:%s/%s/%s/0", set, o.name, k)})
			}
		}
		old, had := os.LookupEnv(set.Name)
		os.Setenv(set.Name, set.Value)
		mon.Par(len(jobs), func(i int) {
			j := jobs[i]
			r.Guard("job:"+j.label, func() { runJob(r, j) })
		})
		if had {
			os.Setenv(set.Name, old)
		} else {
			os.Unsetenv(set.Name)
		}
		all = append(all, jobs...)
	}
	return all
}

// envVacuity: the pass must have run under at least one setting, and under
// each with a minimum of library cases and CLI runs.
func envVacuity(r *mon.Run) {
	settings := mon.EnvSettings()
	if len(settings) == 0 {
		r.Inconclusive("environment pass vacuous: no environment variable read by the tree under test was found")
	}
	var low []string
	for _, s := range settings {
		if envCases[s.String()] < envMinCases {
			low = append(low, fmt.Sprintf("%s: %d library cases (min %d)", s, envCases[s.String()], envMinCases))
		}
		if os.Getenv("AGE_BIN") != "" && envCLI[s.String()] < 100 {
			low = append(low, fmt.Sprintf("%s: %d CLI runs (min 100)", s, envCLI[s.String()]))
		}
	}
	sort.Strings(low)
	if len(low) > 0 {
		r.Inconclusive("environment pass too thin: %s", strings.Join(low, "; "))
	}
	r.Set("env_cases_library", envCases)
	r.Set("env_runs_cli", envCLI)
}

func isEnvMix(name string) bool {
	for _, n := range envMixes {
		if n == name {
			return true
		}
	}
	return false
}
