package main

import (
	"errors"
	"fmt"
	"math"
	"math/big"
	"math/rand"
	"sort"
	"strconv"
	"strings"
)

// nonCanonicalArgs: work-factor arguments that are not canonical positive
// decimals (DESIGN §4 C10 list, plus neighbours). Those whose lenient reading
// is above inProcMax are routed to the child automatically.
var nonCanonicalArgs = []string{
	"0", "00", "01", "010", "+10", "-10", "1e1", "0x0a", "0b1010", "10 ", " 10", "１０", "١٠", "1_0", "",
	"001", "0010", "+1", "-1", "+01", "012", "0xa", "0xA", "0o12", "10.0", "10.", "1E1", "1e+1", "10e0", "\t10", "10\n", "10\r", "10\x00", "1 0", "10,", "1,0",
	"۱۰", "१०", "٠١٠", "１", "a", "A", "ten", "x", "-", "+", "--10", "++10", "+-10", "-0", "+0", "0e0", "1/1", "10;", "(10)", "10#", "0d10", "10d", "10L", "10u",
	"09", "05", "0x5", "5.0", "5e0", "+5", " 5", "5 ", "５", "٥",
	// lenient readings above inProcMax: only ever offered in the child
	"020", "+20", "0x14", "2e1", "030", " 30", "025", "+18", "022", "２２",
}

// overflowArgs: digit strings that match the canonical pattern but are far
// above any maximum or overflow an integer type. Always child cases.
var overflowArgs = []string{
	"40", "62", "63", "64", "65", "100", "127", "128", "255", "256", "257", "1000", "65536", "65546",
	"2147483647", "2147483648", "2147483658", "4294967295", "4294967296", "4294967297", "4294967306",
	"9223372036854775807", "9223372036854775808", "9223372036854775818",
	"18446744073709551615", "18446744073709551616", "18446744073709551617", "18446744073709551626",
	"1000000000000000000000000000000000000010", // 40 digits
	"340282366920938463463374607431768211466",  // 2^128 + 10
}

var uniDigits = map[rune]int{}

func init() {
	for _, zero := range []rune{'０', '٠', '۰', '०'} {
		for d := 0; d < 10; d++ {
			uniDigits[zero+rune(d)] = d
		}
	}
}

// lenientValues returns the positive integers that some tolerant parser could
// read out of arg (decimal with sign / leading zeros / surrounding space /
// separators, base prefixes, float syntax, non-ASCII digits, a leading digit
// run, wrap-around at 32 and 64 bits). The monitor uses it only to choose what
// work factor to seal the stanza at (so that a tree reading arg leniently
// really obtains the file key) and to keep anything a broken tree might read
// as a large work factor out of the monitor process.
func lenientValues(arg string) []int64 {
	seen := map[int64]bool{}
	add := func(v int64) {
		if v > 0 {
			seen[v] = true
		}
	}
	s := strings.TrimSpace(strings.Trim(arg, "\x00"))
	s = strings.Map(func(r rune) rune {
		if d, ok := uniDigits[r]; ok {
			return '0' + rune(d)
		}
		return r
	}, s)
	variants := []string{s, strings.NewReplacer("_", "", ",", "", " ", "").Replace(s)}
	// leading digit run ("10abc" read by a scanf-like parser)
	t := strings.TrimLeft(s, "+-")
	run := 0
	for run < len(t) && t[run] >= '0' && t[run] <= '9' {
		run++
	}
	if run > 0 {
		variants = append(variants, t[:run])
	}
	mask64 := new(big.Int).SetUint64(math.MaxUint64)
	for _, v := range variants {
		for _, t := range []string{v, strings.TrimLeft(v, "+-"), strings.Trim(v, "()#;/LuUd")} {
			if n, err := strconv.ParseInt(t, 10, 64); err == nil {
				add(n)
			} else if errors.Is(err, strconv.ErrRange) {
				add(math.MaxInt64)
			}
			if n, err := strconv.ParseInt(t, 0, 64); err == nil {
				add(n)
			}
			if f, err := strconv.ParseFloat(t, 64); err == nil && f >= 1 {
				if f < 1e18 {
					add(int64(f))
				} else {
					add(math.MaxInt64)
				}
			}
			if b, ok := new(big.Int).SetString(t, 10); ok && b.Sign() > 0 {
				low := new(big.Int).And(b, mask64).Uint64()
				add(int64(low & math.MaxInt64))
				add(int64(uint32(low)))
				if b.BitLen() > 31 {
					add(math.MaxInt64)
				}
			}
		}
	}
	out := make([]int64, 0, len(seen))
	for v := range seen {
		out = append(out, v)
	}
	sort.Slice(out, func(i, j int) bool { return out[i] < out[j] })
	return out
}

// randomNonCanonical draws a decorated work-factor string whose lenient
// reading is a small value (so it can be sealed genuinely at that value and
// offered inside the monitor process). All results are valid UTF-8.
func randomNonCanonical(rng *rand.Rand) string {
	n := 1 + rng.Intn(12)
	if rng.Intn(4) == 0 {
		n = 10
	}
	dec := strconv.Itoa(n)
	pick := func(l ...string) string { return l[rng.Intn(len(l))] }
	switch rng.Intn(12) {
	case 0:
		return strings.Repeat("0", 1+rng.Intn(4)) + dec
	case 1:
		return pick("+", "-", "++", "+0", "-0", " +") + dec
	case 2:
		return dec + pick(" ", "\t", "\n", "\r\n", "\x00", ".", ".0", ".00", "e0", "E0", "_", ",", ";", "L", "u", "d", "#", "/1", "\u00a0", "\u2003", "\ufeff")
	case 3:
		return pick(" ", "\t", "\n", "\u00a0", "\u2003", "\ufeff", "  ") + dec
	case 4:
		zero := []rune{'０', '٠', '۰', '०'}[rng.Intn(4)]
		var sb strings.Builder
		for _, c := range dec {
			sb.WriteRune(zero + (c - '0'))
		}
		if rng.Intn(3) == 0 && len(dec) == 2 { // mixed scripts
			return dec[:1] + string(zero+rune(dec[1]-'0'))
		}
		return sb.String()
	case 5:
		return pick("0x", "0X") + strconv.FormatInt(int64(n), 16)
	case 6:
		return pick("0b", "0B") + strconv.FormatInt(int64(n), 2)
	case 7:
		return pick("0o", "0O", "0") + strconv.FormatInt(int64(n), 8)
	case 8:
		if n >= 10 {
			return fmt.Sprintf("%d.%de1", n/10, n%10)
		}
		return fmt.Sprintf("%de0", n)
	case 9:
		if len(dec) == 2 {
			return dec[:1] + pick("_", ",", " ", "'", ".") + dec[1:]
		}
		return dec + pick("_", "'")
	case 10:
		// short printable junk
		const alpha = "0123456789+-eExXbo_., abcdef"
		l := 1 + rng.Intn(4)
		b := make([]byte, l)
		for i := range b {
			b[i] = alpha[rng.Intn(len(alpha))]
		}
		return string(b)
	default:
		return pick("(", "[", "\"", "'", "<") + dec + pick(")", "]", "\"", "'", ">")
	}
}
