package main

import (
	"fmt"

	"filippo.io/age"
	"filippo.io/age/zverif/keys"
	"filippo.io/age/zverif/mon"
	"filippo.io/age/zverif/refage"
)

// Long recipient lists: n other recipients (native X25519, ssh-ed25519,
// ssh-rsa, unknown-stanza and group recipients, in a few mixes) with ONE fresh
// passphrase recipient (work factor 1) at EVERY index 0..n, and two passphrase
// recipients at the index pairs (0,n), (15,16), (16,32). Oracle as the
// property states: Encrypt refuses and dst received nothing. Control: the n
// other recipients alone are accepted and the header has as many stanzas as
// they emit.

// group is a harness-defined recipient standing for several members: it
// emits the stanzas of all of them (and no labels).
type group struct{ members []age.Recipient }

func (g *group) Wrap(fileKey []byte) ([]*age.Stanza, error) {
	var out []*age.Stanza
	for _, m := range g.members {
		st, err := m.Wrap(fileKey)
		if err != nil {
			return nil, err
		}
		out = append(out, st...)
	}
	return out, nil
}

func encryptLongSide(r *mon.Run) {
	type member struct {
		rec     age.Recipient
		stanzas int
	}
	P := func(n string, k int) member { return member{keys.P(n).Recipient, k} }
	grp := member{&group{[]age.Recipient{keys.P("X2").Recipient, keys.P("X3").Recipient, keys.P("E2").Recipient}}, 3}
	mixes := []struct {
		name  string
		cycle []member
	}{
		{"X", []member{P("X1", 1), P("X2", 1), P("X3", 1), P("X4", 1)}},
		{"X+ssh+unknown", []member{P("X1", 1), P("E1", 1), P("R1", 1), P("U1", 1), P("U2", 3)}},
		{"unknown", []member{P("U1", 1), P("U0", 1), P("U3", 1)}},
		{"group+X", []member{grp, P("X1", 1), P("E1", 1)}},
	}
	ns := []int{9, 15, 16, 17, 31, 32, 33, 47, 48, 49, 64, 65}
	if r.Thorough() {
		ns = append(ns, 127, 128, 129, 255, 256, 257)
	}
	type lc struct {
		mix   int
		n     int
		pos   []int // indexes (in the final list) of the passphrase recipients
		same  bool  // two positions: the same object twice
		label string
	}
	var cases []lc
	for mi := range mixes {
		for _, n := range ns {
			for p := 0; p <= n; p++ {
				if n > 70 && !(p%7 == 0 || p%8 == 0 || p == n || p == n-1 || p == 1) {
					continue
				}
				cases = append(cases, lc{mix: mi, n: n, pos: []int{p}})
			}
			for _, pr := range [][2]int{{0, n}, {15, 16}, {16, 32}} {
				if pr[1] > n+1 || pr[0] >= pr[1] {
					continue
				}
				// a list of n others plus two passphrase recipients has n+2 elements
				cases = append(cases, lc{mix: mi, n: n, pos: []int{pr[0], pr[1]}}, lc{mix: mi, n: n, pos: []int{pr[0], pr[1]}, same: true})
			}
		}
	}
	for i := range cases {
		c := &cases[i]
		c.label = fmt.Sprintf("long:mix=%s:others=%d:passphrase-at=%v", mixes[c.mix].name, c.n, c.pos)
		if c.same {
			c.label += ":same-object"
		}
	}
	r.Set("encrypt_long_cases", len(cases))

	// controls: the others alone
	for mi, mx := range mixes {
		for _, n := range ns {
			var recs []age.Recipient
			want := 0
			for k := 0; k < n; k++ {
				m := mx.cycle[k%len(mx.cycle)]
				recs = append(recs, m.rec)
				want += m.stanzas
			}
			ow := &mon.ObservingWriter{}
			_, err := age.Encrypt(ow, recs...)
			r.Eval(1)
			if err != nil {
				r.Inconclusive("control: %d recipients of mix %s alone are refused: %v", n, mx.name, err)
				continue
			}
			hdr, _, perr := refage.ParseHeader(ow.Buf)
			if perr != nil || len(hdr.Stanzas) != want {
				got := -1
				if hdr != nil {
					got = len(hdr.Stanzas)
				}
				r.Inconclusive("control: header for %d recipients of mix %s has %d stanzas, want %d (%v)", n, mx.name, got, want, perr)
				continue
			}
			r.Count("encrypt_long_controls_ok", 1)
			_ = mi
		}
	}

	pend := make([][]pendingViolation, len(cases))
	lastAt := make([]int, len(cases)) // index at which a lone passphrase recipient stood as the last element, or -1
	mon.Par(len(cases), func(i int) {
		c := cases[i]
		lastAt[i] = -1
		r.Guard("encrypt-"+c.label, func() {
			total := c.n + len(c.pos)
			recs := make([]age.Recipient, 0, total)
			s := keys.ScryptRecipient(passA, 1)
			s2 := s
			if !c.same {
				s2 = keys.ScryptRecipient(passB, 2)
			}
			k := 0
			for idx := 0; idx < total; idx++ {
				switch {
				case idx == c.pos[0]:
					recs = append(recs, s)
				case len(c.pos) > 1 && idx == c.pos[1]:
					recs = append(recs, s2)
				default:
					recs = append(recs, mixes[c.mix].cycle[k%len(mixes[c.mix].cycle)].rec)
					k++
				}
			}
			ow := &mon.ObservingWriter{}
			_, err := age.Encrypt(ow, recs...)
			r.Eval(1)
			r.Distinct("encrypt-" + c.label)
			r.Tab("encrypt_long_others", fmt.Sprint(c.n))
			if len(c.pos) == 1 && c.pos[0] == c.n {
				lastAt[i] = c.n
			}
			replay := map[string]any{"side": "encrypt-long", "mix": mixes[c.mix].name, "others": c.n, "passphrase_at": c.pos, "same_object": c.same, "list_length": total, "passphrase_work_factor": 1}
			cls := "long/" + mixes[c.mix].name
			switch {
			case err == nil:
				pend[i] = append(pend[i], pendingViolation{"encrypt-accepted/" + cls, "encrypt-accepted:" + c.label,
					fmt.Sprintf("age.Encrypt accepted a list of %d recipients with passphrase recipient(s) at index %v next to %d other recipients (%d bytes written)", total, c.pos, c.n, ow.Len()), replay})
			case ow.Len() != 0:
				pend[i] = append(pend[i], pendingViolation{"encrypt-wrote-on-refusal/" + cls, "encrypt-wrote-on-refusal:" + c.label,
					fmt.Sprintf("age.Encrypt refused %s (%v) after writing %d bytes to dst", c.label, err, ow.Len()), replay})
			default:
				r.Count("encrypt_long_refused_zero_bytes", 1)
			}
			r.SampleN("encrypt-long", 2, map[string]any{"side": "encrypt-long", "case": c.label, "error": fmt.Sprint(err), "bytes_written": ow.Len()})
		})
	})
	rep.flush(pend)
	stood := map[int]bool{}
	for _, at := range lastAt {
		if at >= 0 {
			stood[at] = true
		}
	}
	for _, at := range []int{16, 32, 48, 64} {
		if !stood[at] {
			r.Inconclusive("vacuous: no list with a passphrase recipient as the last element at index %d was run", at)
		}
	}
}
