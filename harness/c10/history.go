package main

import (
	"fmt"
	"math/rand"
	"strings"

	"filippo.io/age/zverif/keys"
	"filippo.io/age/zverif/mon"
	"filippo.io/age/zverif/refage"
)

// History side: the property quantifies over headers and configurations, not
// over fresh identity objects. Here every case is a short sequence of calls on
// ONE ScryptIdentity value (or, in the "other-object" variant, on a second
// object with the same passphrase after a first one succeeded):
//
//	prime     a genuine lone stanza is opened (control: must succeed)
//	bad       (a) the same salt and body with the work-factor argument
//	              rewritten to a non-canonical or over-limit string — at the
//	              Unwrap level, and through Decrypt with a reference-built
//	              header whose MAC matches the rewritten header;
//	          (b) the maximum lowered below the stanza's work factor, then the
//	              same stanza / file again;
//	          (c) the same stanza among other stanzas (valid MAC);
//	genuine   the genuine stanza again (control), and for (c) the bad header
//	          once more.
//
// plus seeded long histories mixing all of these. The bad step must be
// rejected, and where the avoided derivation is >= 1 MiB without allocating
// 256 KiB. Everything runs single-threaded; anything a broken tree could read
// as a work factor above inProcMax is executed in the child.

type hstep struct {
	step
	accept  bool // the model accepts this step (control)
	metered bool // a rejection carries the "no derivation" claim
	fk, pt  []byte
	kind    string // prime | genuine | wf | lowered | multi | restore
	desc    string
	k       string // own stable key (batched histories); empty: the history's key
	class   string // own listing class; empty: the history's class
	config  bool   // configuration only (no call): nothing to judge
	ignore  bool   // executed, but only a panic is judged
	hard    bool   // the rejection must not be of the "not for this identity" class
	// wantPanic: a guarded configuration call with an illegal value; it must
	// panic (and, by the model, leave the object exactly as it was)
	wantPanic bool
}

type histCase struct {
	scenario string // wf | lowered | multi | long
	k        string // stable key
	class    string // listing class
	max      int
	steps    []hstep
	child    bool
	slowC    bool
}

func (h *histCase) key() string { return h.k }
func (h *histCase) slow() bool  { return h.slowC }

func (h *histCase) job() *job {
	j := &job{Name: h.k, Pass: passA, Max: h.max}
	for _, s := range h.steps {
		j.Steps = append(j.Steps, s.step)
	}
	return j
}

func (h *histCase) judge(r *mon.Run, o *outcome, died string) (violated bool) {
	where := "in-process"
	if h.child {
		where = "child"
	}
	r.Tab("history_scenario_x_where", h.scenario+" "+where)
	var descs []string
	for _, s := range h.steps {
		descs = append(descs, s.desc)
	}
	replay := map[string]any{"side": "history", "scenario": h.scenario, "passphrase": passA, "initial_max": h.max, "steps": h.job().Steps, "step_descriptions": descs, "where": where}
	if died != "" {
		r.Eval(1)
		r.Distinct("history:" + h.k)
		rep.violate(pendingViolation{"hist-child-died/" + h.class, "hist-child-died:" + h.k,
			fmt.Sprintf("the process under the memory limit died (twice) during the history %s — the tree tried to derive a key: %s", strings.Join(descs, " ; "), firstLines(died, 3)), replay})
		return true
	}
	if len(o.Sub) != len(h.steps) {
		r.Inconclusive("history %s: %d outcomes for %d steps (%s)", h.k, len(o.Sub), len(h.steps), o.Err)
		return false
	}
	nBad := 0
	for _, s := range h.steps {
		if !s.accept && !s.config && !s.ignore {
			nBad++
		}
	}
	for i, s := range h.steps {
		if s.config {
			if s.wantPanic {
				r.Count("config_illegal_calls", 1)
				if cp := o.Sub[i].CfgPanicked; len(cp) != 1 || !cp[0] {
					rep.violate(pendingViolation{"config-illegal-value-accepted/identity", "config-illegal-value-accepted:identity:" + s.desc,
						fmt.Sprintf("%s did not panic (history %s)", s.desc, h.k), replay})
					violated = true
				}
			}
			continue
		}
		so := &o.Sub[i]
		sk, cls := h.k, h.class
		if s.k != "" {
			sk = s.k
		} else if nBad > 1 {
			sk = fmt.Sprintf("%s:step=%d:%s", h.k, i, s.desc)
		}
		if s.class != "" {
			cls = s.class
		}
		if !s.accept && !s.ignore {
			r.Eval(1)
			r.Distinct("history:" + sk)
		}
		if so.Panic != "" {
			rep.violate(pendingViolation{"panic/history", "panic:history:" + sk, so.Panic, replay})
			violated = true
			continue
		}
		if s.ignore {
			continue
		}
		if s.accept {
			if !acceptedRight(so, s.Route, s.fk, s.pt) {
				// every failing control makes the run inconclusive; only the
				// first few are spelled out
				if failedControls++; failedControls <= 5 {
					r.Inconclusive("control: history %s step %d (%s) should have been opened: accepted=%v err=%q", h.k, i, s.desc, so.Accepted, so.Err)
				} else if failedControls == 6 {
					r.Inconclusive("control: further history controls failed (see counter history_controls_failed)")
				}
				r.Count("history_controls_failed", 1)
			} else {
				r.Count("history_controls_opened", 1)
			}
			continue
		}
		r.Tab("history_bad_step", s.kind+" via "+s.Route)
		if so.Accepted {
			rep.violate(pendingViolation{"hist-" + s.kind + "-accepted/" + cls, "hist-" + s.kind + "-accepted:" + sk,
				fmt.Sprintf("after [%s] the passphrase identity returned a file key through %s for step %d: %s (alloc delta %d)", strings.Join(descs[:i], " ; "), s.Route, i, s.desc, so.Delta), replay})
			violated = true
			continue
		}
		if s.hard && so.Soft {
			rep.violate(pendingViolation{"hist-" + s.kind + "-soft-error/" + cls, "hist-" + s.kind + "-soft-error:" + sk,
				fmt.Sprintf("after [%s] step %d (%s) was answered through %s with the \"not for this identity\" class of error (%s) instead of a refusal of the over-limit work factor", strings.Join(descs[:i], " ; "), i, s.desc, s.Route, so.Err), replay})
			violated = true
			continue
		}
		if s.metered {
			if so.Delta > maxRejectDelta {
				maxRejectDelta = so.Delta
			}
			if so.Delta >= rejectThreshold {
				rep.violate(pendingViolation{"hist-" + s.kind + "-derived-on-reject/" + cls, "hist-" + s.kind + "-derived-on-reject:" + sk,
					fmt.Sprintf("after [%s] step %d (%s) was rejected through %s (%s) only after allocating %d bytes — a key derivation was performed", strings.Join(descs[:i], " ; "), i, s.desc, s.Route, so.Err, so.Delta), replay})
				violated = true
				continue
			}
			r.Count("history_rejected_metered", 1)
		} else {
			r.Count("history_rejected_functional_only", 1)
		}
		r.Tab("history_error", errClass(so.Err))
	}
	if !violated {
		r.SampleN("history-"+h.scenario+where, 1, map[string]any{"side": "history", "scenario": h.scenario, "where": where, "initial_max": h.max, "steps": descs,
			"errors": func() []string {
				var e []string
				for _, so := range o.Sub {
					e = append(e, so.Err)
				}
				return e
			}()})
	}
	return violated
}

var failedControls int

// genuine builds a lone stanza genuinely sealed at work factor w.
func genuine(tag string, w int) *sealedStanza {
	s := &sealedStanza{arg: fmt.Sprint(w), sealedAt: w, class: "canonical", inHeader: true}
	t := fmt.Sprintf("c10-hist-%s-%d", tag, w)
	s.fk = mon.DetBytes(t+"-fk", 16)
	s.pt = mon.DetBytes(t+"-pt", 29)
	s.st = refage.ScryptWrap(s.fk, passA, mon.DetBytes(t+"-salt", 16), w)
	s.file = refage.BuildFile(s.fk, []refage.Stanza{s.st}, mon.DetBytes(t+"-nonce", 16), s.pt)
	return s
}

func (g *sealedStanza) stepGenuine(route, kind string) hstep {
	return hstep{step: step{Route: route, Stanzas: []refage.Stanza{g.st}, File: g.file, Meter: true}, accept: true, fk: g.fk, pt: g.pt, kind: kind,
		desc: fmt.Sprintf("%s genuine lone stanza wf=%d", route, g.sealedAt)}
}

// stepRewritten: same salt and body, work-factor argument rewritten; the file
// carries a MAC computed by the reference over the rewritten header.
func (g *sealedStanza) stepRewritten(route, arg string) hstep {
	st := g.st
	st.Args = []string{g.st.Args[0], arg}
	file := refage.BuildFile(g.fk, []refage.Stanza{st}, mon.DetBytes("c10-hist-nonce-"+arg, 16), g.pt)
	return hstep{step: step{Route: route, Stanzas: []refage.Stanza{st}, File: file, Meter: true}, metered: g.sealedAt >= meterFloor, fk: g.fk, pt: g.pt, kind: "wf",
		desc: fmt.Sprintf("%s same salt+body with wf=%q", route, arg)}
}

func objName(other bool) string {
	if other {
		return "other-object"
	}
	return "same-object"
}

func mStr(m int) string {
	if m == 0 {
		return "default"
	}
	return fmt.Sprint(m)
}

func argDanger(arg string) (danger, slow bool) {
	if v, ok := refage.CanonicalWorkFactor(arg); ok {
		return v > inProcMax, v > inProcMax && v < 20
	}
	for _, v := range lenientValues(arg) {
		if v > int64(inProcMax) {
			danger = true
			if v < 20 {
				slow = true
			}
		}
	}
	if len(arg) > 9 { // long digit strings: never in process
		danger = true
	}
	return danger, slow
}

func historySide(r *mon.Run, specs []*sealedStanza) {
	var cases []*histCase
	routes := []string{"Unwrap", "Decrypt"}

	// ---- (a) rewritten work factor after a success ---------------------------
	type cfg struct{ m0, w int }
	cfgs := []cfg{{12, 10}, {10, 10}, {0, 10}, {30, 10}, {8, 5}, {1, 1}}
	if r.Thorough() {
		cfgs = append(cfgs, cfg{15, 12}, cfg{22, 10}, cfg{5, 5}, cfg{2, 1}, cfg{14, 14})
	}
	rng := r.RNG("history-strings")
	var randomArgs []string
	for i := 0; i < r.Pick(150, 1500); i++ {
		a := randomNonCanonical(rng)
		if _, ok := refage.CanonicalWorkFactor(a); !ok {
			randomArgs = append(randomArgs, a)
		}
	}
	for ci, c := range cfgs {
		g := genuine(fmt.Sprintf("a%d", ci), c.w)
		eff := c.m0
		if eff == 0 {
			eff = 22
		}
		type ba struct{ arg, class string }
		var bad []ba
		full := ci == 0 || r.Thorough()
		for v := eff + 1; v <= 33; v++ {
			if full || v <= eff+3 || v == 16 || v == 20 || v == 25 || v == 31 {
				bad = append(bad, ba{fmt.Sprint(v), "over-limit"})
			}
		}
		for _, a := range overflowArgs {
			if v, ok := refage.CanonicalWorkFactor(a); ok && v <= eff {
				continue
			}
			if full || a == "4294967297" || a == "18446744073709551626" || len(a) == 40 {
				bad = append(bad, ba{a, "overflow"})
			}
		}
		for i, a := range nonCanonicalArgs {
			if _, ok := refage.CanonicalWorkFactor(a); ok {
				continue
			}
			if full || i < 15 { // the first 15 are the list of DESIGN §4 C10
				bad = append(bad, ba{a, "noncanonical"})
			}
		}
		if ci == 0 {
			for _, a := range randomArgs {
				bad = append(bad, ba{a, "noncanonical"})
			}
		}
		seen := map[string]bool{}
		// in-process cases are batched: one prime, up to batchLen bad steps
		// (each with its own key), one closing genuine step. Child cases stay
		// one bad step per history so that a death names its input.
		const batchLen = 8
		batches := map[string]*histCase{}
		var order []string
		for _, b := range bad {
			if seen[b.arg] {
				continue
			}
			seen[b.arg] = true
			danger, slow := argDanger(b.arg)
			for _, prime := range routes {
				for _, route := range routes {
					if route == "Decrypt" && !vchar(b.arg) {
						continue
					}
					for _, other := range []bool{false, true} {
						if ci == 0 && b.class == "noncanonical" && !contains(nonCanonicalArgs, b.arg) && (prime != "Unwrap" || other) {
							continue // seeded strings: one prime route, same object
						}
						if (!full || danger) && (prime != route || (other && route != "Unwrap")) {
							continue // reduced configurations and child cases: no cross-route pairs
						}
						badStep := g.stepRewritten(route, b.arg)
						badStep.NewID = other
						badStep.class = b.class
						badStep.k = fmt.Sprintf("prime=%s:%s:%s:M=%s:sealed=%d:wf=%q", prime, route, objName(other), mStr(c.m0), c.w, b.arg)
						if danger {
							cases = append(cases, &histCase{scenario: "wf", class: b.class, max: c.m0, child: true, slowC: slow, k: badStep.k,
								steps: []hstep{g.stepGenuine(prime, "prime"), badStep, g.stepGenuine(route, "genuine")}})
							continue
						}
						bk := fmt.Sprintf("%s/%s/%v", prime, route, other)
						h := batches[bk]
						if h == nil || len(h.steps) > batchLen {
							if h != nil {
								h.steps = append(h.steps, g.stepGenuine(strings.Split(bk, "/")[1], "genuine"))
							}
							h = &histCase{scenario: "wf", class: "batch", max: c.m0, k: fmt.Sprintf("batch:%s:M=%s:sealed=%d:#%d", bk, mStr(c.m0), c.w, len(order)),
								steps: []hstep{g.stepGenuine(prime, "prime")}}
							batches[bk] = h
							order = append(order, bk)
							cases = append(cases, h)
						}
						h.steps = append(h.steps, badStep)
					}
				}
			}
		}
		for bk, h := range batches {
			h.steps = append(h.steps, g.stepGenuine(strings.Split(bk, "/")[1], "genuine"))
		}
	}

	// ---- (b) maximum lowered after a success ---------------------------------
	ws := []int{2, 5, 10, 12}
	if r.Thorough() {
		ws = append(ws, 15)
	}
	for _, w := range ws {
		g := genuine("b", w)
		for _, m0 := range []int{w, w + 2, 0} {
			for _, l := range uniqInts(w-1, 1, (w+1)/2) {
				for _, prime := range routes {
					for _, route := range routes {
						for _, other := range []bool{false, true} {
							low := g.stepGenuine(route, "lowered")
							low.accept, low.SetMax, low.NewID = false, l, other
							low.metered = w >= meterFloor
							low.desc = fmt.Sprintf("SetMaxWorkFactor(%d) then %s genuine lone stanza wf=%d", l, route, w)
							restoreTo := m0
							if restoreTo == 0 {
								restoreTo = 22
							}
							again := g.stepGenuine(route, "restore")
							again.SetMax = restoreTo
							again.desc = fmt.Sprintf("SetMaxWorkFactor(%d) then %s", restoreTo, again.desc)
							cases = append(cases, &histCase{scenario: "lowered", class: "lowered", max: m0,
								k:     fmt.Sprintf("prime=%s:%s:%s:wf=%d:M0=%s:lowered-to=%d", prime, route, objName(other), w, mStr(m0), l),
								steps: []hstep{g.stepGenuine(prime, "prime"), low, again}})
						}
					}
				}
			}
		}
	}

	// ---- (c) the opened stanza later among others -----------------------------
	x1 := keys.NewX("X1")
	kinds := []string{"X", "U", "Ss", "Sd"}
	var shapes [][]string
	for _, a := range kinds {
		shapes = append(shapes, []string{"G", a}, []string{a, "G"})
		for _, b := range kinds {
			shapes = append(shapes, []string{"G", a, b}, []string{a, "G", b}, []string{a, b, "G"})
		}
	}
	shapes = append(shapes, []string{"G", "U0"}, []string{"U0", "G"}, []string{"U0", "G", "U0"}, []string{"Ea", "G"}, []string{"G", "Ea", "U0"},
		[]string{"G", "G"}, []string{"G", "G", "G"}, []string{"X", "G", "G"}, []string{"U", "U", "U", "G"}, []string{"G", "X", "U", "Ss"})
	for _, w := range []int{4, 10} {
		g := genuine("c", w)
		for _, shape := range shapes {
			if w == 10 && len(shape) > 2 && !r.Thorough() {
				continue
			}
			label := "[" + strings.Join(shape, ",") + "]"
			var st []refage.Stanza
			for k, kind := range shape {
				tag := fmt.Sprintf("c10-hist-c-%d-%s-%d", w, label, k)
				switch kind {
				case "G":
					st = append(st, g.st)
				case "Ss":
					st = append(st, refage.ScryptWrap(g.fk, passA, mon.DetBytes(tag+"-salt", 16), 3))
				case "Sd":
					st = append(st, refage.ScryptWrap(g.fk, passB, mon.DetBytes(tag+"-salt", 16), 3))
				case "X":
					s, err := refage.X25519Wrap(g.fk, x1.Public, mon.DetBytes(tag+"-eph", 32))
					if err != nil {
						panic(err)
					}
					st = append(st, s)
				case "U":
					st = append(st, refage.Stanza{Type: "unknown-1", Args: []string{"a", "bb"}, Body: mon.DetBytes(tag+"-u", 32)})
				case "U0":
					st = append(st, refage.Stanza{Type: "grease-verif"})
				case "Ea":
					st = append(st, refage.Stanza{Type: "empty-args", Args: []string{"a", "bb"}})
				}
			}
			file := refage.BuildFile(g.fk, st, mon.DetBytes("c10-hist-c-nonce-"+label, 16), g.pt)
			for _, prime := range routes {
				for _, route := range routes {
					for _, other := range []bool{false, true} {
						multi := hstep{step: step{Route: route, Stanzas: st, File: file, Meter: true, NewID: other}, kind: "multi", fk: g.fk, pt: g.pt,
							desc: fmt.Sprintf("%s header %s (G = the stanza opened before)", route, label)}
						multi2 := multi
						multi2.NewID = false
						cases = append(cases, &histCase{scenario: "multi", class: fmt.Sprintf("n=%d", len(shape)), max: 12,
							k:     fmt.Sprintf("prime=%s:%s:%s:wf=%d:%s", prime, route, objName(other), w, label),
							steps: []hstep{g.stepGenuine(prime, "prime"), multi, g.stepGenuine(route, "genuine"), multi2}})
					}
				}
			}
		}
	}

	// ---- seeded long histories on one identity value --------------------------
	g10 := genuine("long", 10)
	var safeArgs []string
	for _, a := range append(append([]string(nil), nonCanonicalArgs...), "11", "12", "13", "14", "15") {
		if _, ok := refage.CanonicalWorkFactor(a); ok && len(a) != 2 {
			continue
		}
		if d, _ := argDanger(a); !d {
			safeArgs = append(safeArgs, a)
		}
	}
	gfile := g10.st
	multiSt := []refage.Stanza{gfile, {Type: "unknown-1", Args: []string{"a"}, Body: mon.DetBytes("c10-hist-long-u", 32)}}
	multiFile := refage.BuildFile(g10.fk, multiSt, mon.DetBytes("c10-hist-long-nonce", 16), g10.pt)
	lrng := r.RNG("history-long")
	for n := 0; n < r.Pick(40, 400); n++ {
		h := &histCase{scenario: "long", class: "long", max: 10, k: fmt.Sprintf("long#%d", n)}
		cur := 10
		pickRoute := func(rg *rand.Rand) string { return routes[rg.Intn(2)] }
		h.steps = append(h.steps, g10.stepGenuine(pickRoute(lrng), "prime"))
		for len(h.steps) < 16 {
			route := pickRoute(lrng)
			switch lrng.Intn(5) {
			case 0: // genuine at the current maximum
				s := g10.stepGenuine(route, "genuine")
				if cur < 10 {
					s.accept, s.metered, s.kind = false, true, "lowered"
					s.desc += fmt.Sprintf(" under maximum %d", cur)
				}
				h.steps = append(h.steps, s)
			case 1, 2: // rewritten argument
				a := safeArgs[lrng.Intn(len(safeArgs))]
				if route == "Decrypt" && !vchar(a) {
					route = "Unwrap"
				}
				h.steps = append(h.steps, g10.stepRewritten(route, a))
			case 3: // the stanza among others
				h.steps = append(h.steps, hstep{step: step{Route: route, Stanzas: multiSt, File: multiFile, Meter: true}, kind: "multi", fk: g10.fk, pt: g10.pt,
					desc: route + " header [G,U]"})
			case 4: // move the maximum
				cur = []int{1, 5, 9, 10, 10, 10}[lrng.Intn(6)]
				s := g10.stepGenuine(route, "genuine")
				s.SetMax = cur
				s.desc = fmt.Sprintf("SetMaxWorkFactor(%d) then %s", cur, s.desc)
				if cur < 10 {
					s.accept, s.metered, s.kind = false, true, "lowered"
				}
				h.steps = append(h.steps, s)
			}
		}
		cases = append(cases, h)
	}

	r.Set("history_cases", len(cases))
	var childCases []childCase
	for _, h := range cases {
		if h.child {
			childCases = append(childCases, h)
			continue
		}
		o := execute(h.job())
		h.judge(r, &o, "")
	}
	runChildCases(r, "history", childCases)
	_ = specs
}

func contains(l []string, s string) bool {
	for _, x := range l {
		if x == s {
			return true
		}
	}
	return false
}

func uniqInts(v ...int) []int {
	var out []int
	seen := map[int]bool{}
	for _, x := range v {
		if x >= 1 && !seen[x] {
			seen[x] = true
			out = append(out, x)
		}
	}
	return out
}
