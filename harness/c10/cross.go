package main

import (
	"fmt"
	"sync"
	"sync/atomic"

	"filippo.io/age/zverif/keys"
	"filippo.io/age/zverif/mon"
	"filippo.io/age/zverif/refage"
)

// Cross-object stage: an identity's configured maximum is ITS OWN. A victim
// identity (maximum Mv, or left at the library default of 22) and an unrelated
// other identity (same or different passphrase, maximum Mo) live in one
// process; the other is configured after the victim ("victim-first") or
// created and configured before the victim even exists ("other-first": future
// identities); optionally the other unwraps the stanza itself; then the victim
// is shown a lone stanza genuinely sealed at w with the victim's passphrase.
//
//	w >  victim's maximum: rejected, by a hard error (not the "not for this
//	      identity" class), and where >= 1 MiB is avoided without allocating
//	      256 KiB
//	w <= victim's maximum: opens (control)
//
// Work factors above inProcMax (default victim after another identity was set
// to 30, ...) are sealed at 10 and offered in the child only.
func crossSide(r *mon.Run) {
	type combo struct {
		order     string // victim-first | other-first
		samePass  bool
		otherUses bool // the other identity unwraps the stanza before the victim does
		routes    []string
	}
	combos := []combo{
		{"victim-first", true, false, []string{"Unwrap", "Decrypt"}},
		{"victim-first", false, false, []string{"Unwrap", "Decrypt"}},
		{"victim-first", true, true, []string{"Unwrap"}},
		{"other-first", true, false, []string{"Unwrap", "Decrypt"}},
		{"other-first", false, false, []string{"Unwrap", "Decrypt"}},
		{"other-first", true, true, []string{"Decrypt"}},
	}
	if r.Thorough() {
		for i := range combos {
			combos[i].routes = []string{"Unwrap", "Decrypt"}
		}
		combos = append(combos, combo{"victim-first", false, true, []string{"Unwrap", "Decrypt"}}, combo{"other-first", false, true, []string{"Unwrap", "Decrypt"}})
	}
	mvs := []int{1, 5, 10, 12, 14, 0} // 0: the victim is left at the default (22)
	mos := []int{1, 5, 10, 12, 14, 15, 22, 30}
	gen := map[int]*sealedStanza{}
	for w := 1; w <= inProcMax; w++ {
		gen[w] = genuine("cross", w)
	}
	// labelled-only stanzas for the child: sealed at 10, argument w
	labelled := func(w int) *sealedStanza {
		g := genuine(fmt.Sprintf("cross-l%d", w), 10)
		s := *g
		s.arg = fmt.Sprint(w)
		s.st.Args = []string{g.st.Args[0], s.arg}
		s.file = refage.BuildFile(g.fk, []refage.Stanza{s.st}, mon.DetBytes(fmt.Sprintf("c10-cross-nonce-%d", w), 16), g.pt)
		return &s
	}
	guard := map[string]int{}
	var cases []*histCase
	for _, mv := range mvs {
		effV := mv
		if effV == 0 {
			effV = 22
		}
		for _, mo := range mos {
			ws := map[int]bool{}
			for _, w := range []int{effV, effV + 1, effV + 2, mo - 1, mo, mo + 1, 10} {
				if w >= 1 && w <= 31 {
					ws[w] = true
				}
			}
			for w := 1; w <= 31; w++ {
				if !ws[w] {
					continue
				}
				accept := w <= effV
				child := w > inProcMax
				if child && accept {
					continue // a legitimate, expensive acceptance: not a case
				}
				var s *sealedStanza
				if child {
					s = labelled(w)
				} else {
					s = gen[w]
				}
				for ci, cb := range combos {
					for _, route := range cb.routes {
						// derivations at 13..15 cost 8..32 MiB each: such expensive
						// acceptances (controls) are kept for one combination only
						if w > 12 && !r.Thorough() && ((accept && (ci != 0 || route != "Unwrap")) || (cb.otherUses && cb.samePass && w <= mo)) {
							continue
						}
						otherPass := passA
						pn := "same-passphrase"
						if !cb.samePass {
							otherPass, pn = passB, "other-passphrase"
						}
						cfgV := hstep{step: step{ID: 1, Pass: passA, SetMax: mv}, config: true, desc: fmt.Sprintf("victim := NewScryptIdentity; SetMaxWorkFactor(%s)", mStr(mv))}
						if mv == 0 {
							cfgV.desc = "victim := NewScryptIdentity (default maximum)"
						}
						cfgO := hstep{step: step{ID: 2, Pass: otherPass, SetMax: mo}, config: true, desc: fmt.Sprintf("other := NewScryptIdentity(%s); SetMaxWorkFactor(%d)", pn, mo)}
						var useO []hstep
						if cb.otherUses && !child {
							u := hstep{step: step{ID: 2, Pass: otherPass, Route: "Unwrap", Stanzas: []refage.Stanza{s.st}, File: s.file, Meter: true}, kind: "cross-other",
								fk: s.fk, pt: s.pt, desc: fmt.Sprintf("other.Unwrap of the wf=%d stanza", w)}
							switch {
							case !cb.samePass:
								u.ignore = true
							case w <= mo:
								u.accept = true
							default:
								u.metered, u.hard = w >= meterFloor, true
							}
							useO = append(useO, u)
						}
						call := hstep{step: step{ID: 1, Pass: passA, Route: route, Stanzas: []refage.Stanza{s.st}, File: s.file, Meter: true}, kind: "cross", fk: s.fk, pt: s.pt,
							accept: accept, metered: !accept && w >= meterFloor, hard: !accept,
							desc: fmt.Sprintf("victim.%s of a lone stanza wf=%d (sealed at %d)", route, w, s.sealedAt)}
						var steps []hstep
						if cb.order == "victim-first" {
							steps = append(append([]hstep{cfgV, cfgO}, useO...), call)
						} else {
							steps = append(append([]hstep{cfgO}, useO...), cfgV, call)
						}
						tag := ""
						if cb.otherUses {
							tag = ":other-unwrapped-first"
						}
						h := &histCase{scenario: "cross", class: cb.order, max: 0, child: child, slowC: child && w < 20,
							k:     fmt.Sprintf("%s:%s%s:%s:Mv=%s:Mo=%d:wf=%d", cb.order, pn, tag, route, mStr(mv), mo, w),
							steps: steps}
						cases = append(cases, h)
						if !accept && mo >= w {
							guard[cb.order]++
						}
					}
				}
			}
		}
	}
	r.Set("cross_object_cases", len(cases))
	for _, o := range []string{"victim-first", "other-first"} {
		if guard[o] == 0 {
			r.Inconclusive("vacuous: no cross-object case with the other identity's maximum at or above w and the victim's below w in creation order %s", o)
		}
	}
	r.Set("cross_object_guard", guard)
	var childCases []childCase
	for _, h := range cases { // "future identities" first: the child phase is capped on a broken tree
		if h.child && h.class == "other-first" {
			childCases = append(childCases, h)
		}
	}
	for _, h := range cases {
		if h.child {
			if h.class != "other-first" {
				childCases = append(childCases, h)
			}
			continue
		}
		o := execute(h.job())
		h.judge(r, &o, "")
	}
	runChildCases(r, "cross", childCases)
	crossConcurrent(r)
}

// crossConcurrent: goroutine A keeps configuring another identity with a high
// maximum while B uses a victim capped below the stanza's work factor
// (functional result only; the two goroutines never touch the same object).
func crossConcurrent(r *mon.Run) {
	g := genuine("cross-conc", 12)
	st := toAge([]refage.Stanza{g.st})
	for _, mv := range []int{10, 0} {
		victim := keys.ScryptIdentity(passA, mv) // 0: default maximum, never configured
		wantAccept := mv == 0
		other := keys.ScryptIdentity(passB, 14)
		var stop atomic.Bool
		var wg sync.WaitGroup
		wg.Add(1)
		go func() {
			defer wg.Done()
			for i := 0; !stop.Load(); i++ {
				if wantAccept {
					other.SetMaxWorkFactor(1 + i%5) // low maxima must not starve a default victim
				} else {
					other.SetMaxWorkFactor(14 + i%3)
				}
			}
		}()
		accepted, rejected := 0, 0
		var firstErr string
		n := r.Pick(150, 1500)
		if wantAccept {
			n = r.Pick(25, 200) // every iteration of the control derives at 12
		}
		for i := 0; i < n; i++ {
			var fk []byte
			var err error
			r.Guard("cross-concurrent", func() { fk, err = victim.Unwrap(st) })
			if err == nil && fk != nil {
				accepted++
			} else {
				rejected++
				if firstErr == "" {
					firstErr = fmt.Sprint(err)
				}
			}
		}
		stop.Store(true)
		wg.Wait()
		r.Eval(n)
		key := fmt.Sprintf("concurrent:Mv=%s:other-keeps-setting:wf=%d", mStr(mv), g.sealedAt)
		r.Distinct("cross:" + key)
		r.Tab("history_scenario_x_where", "cross-concurrent in-process")
		if wantAccept {
			if rejected > 0 {
				r.Inconclusive("control: a default victim refused a wf=12 stanza %d/%d times while another identity was being configured: %s", rejected, n, firstErr)
			}
			continue
		}
		if accepted > 0 {
			rep.violate(pendingViolation{"hist-cross-accepted/concurrent", "hist-cross-accepted:" + key,
				fmt.Sprintf("a victim identity capped at %d returned the file key of a wf=12 stanza %d/%d times while another goroutine kept calling SetMaxWorkFactor(14..16) on a different identity", mv, accepted, n),
				map[string]any{"side": "history", "scenario": "cross-concurrent", "victim_max": mv, "stanza": g.st}})
		} else {
			r.Count("cross_concurrent_rejected", int64(rejected))
		}
	}
}
