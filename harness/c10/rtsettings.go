package main

import (
	"fmt"
	"math"
	"runtime"
	"runtime/debug"
	"strings"

	"filippo.io/age/zverif/mon"
	"filippo.io/age/zverif/refage"
)

// Go RUNTIME SETTINGS of the process while the work-factor maximum is
// enforced. The identity's configured maximum is the limit whatever the soft
// memory limit, the GC target or GOMAXPROCS of the process are. A thinned
// maxima sweep (M in {1, 10, 13}: genuinely sealed stanzas M-1..M+2, all
// <= inProcMax) is repeated in process under each setting, which is restored
// afterwards (single-threaded stage); M = 15 and the default maximum, whose
// over-limit stanzas are only labelled (sealed at 10), run in child batches
// started with the settings in their environment, under RLIMIT_AS.
func runtimeSettingsSide(r *mon.Run) {
	gen := map[int]*sealedStanza{}
	for w := 1; w <= inProcMax; w++ {
		gen[w] = genuine("rt", w)
	}
	labelled := func(w int) *sealedStanza {
		g := genuine(fmt.Sprintf("rt-l%d", w), 10)
		s := *g
		s.arg = fmt.Sprint(w)
		s.st.Args = []string{g.st.Args[0], s.arg}
		s.file = refage.BuildFile(g.fk, []refage.Stanza{s.st}, mon.DetBytes(fmt.Sprintf("c10-rt-nonce-%d", w), 16), g.pt)
		return &s
	}
	mk := func(setting, route string, m, w int) *histCase {
		eff := m
		if eff == 0 {
			eff = 22
		}
		accept := w <= eff
		var s *sealedStanza
		child := false
		if w <= inProcMax {
			s = gen[w]
		} else {
			if accept {
				return nil
			}
			s, child = labelled(w), true
		}
		return &histCase{scenario: "runtime", class: "runtime/" + strings.SplitN(setting, "=", 2)[0], max: m, child: child, slowC: child && w < 20,
			k: fmt.Sprintf("%s:%s:M=%s:wf=%d", setting, route, mStr(m), w),
			steps: []hstep{{step: step{Route: route, Stanzas: []refage.Stanza{s.st}, File: s.file, Meter: true}, kind: "runtime", fk: s.fk, pt: s.pt,
				accept: accept, metered: !accept && w >= meterFloor, hard: !accept,
				desc: fmt.Sprintf("under %s: identity with maximum %s, %s of a lone stanza wf=%d (sealed at %d)", setting, mStr(m), route, w, s.sealedAt)}}}
	}

	type setting struct {
		name  string
		apply func() (restore func())
	}
	var settings []setting
	for _, l := range []int64{64 << 20, 512 << 20, 4 << 30, 64 << 30, math.MaxInt64} {
		l := l
		n := fmt.Sprintf("SetMemoryLimit=%d", l)
		if l == math.MaxInt64 {
			n = "SetMemoryLimit=none"
		}
		settings = append(settings, setting{n, func() func() { old := debug.SetMemoryLimit(l); return func() { debug.SetMemoryLimit(old) } }})
	}
	for _, g := range []int{-1, 10, 400} {
		g := g
		settings = append(settings, setting{fmt.Sprintf("SetGCPercent=%d", g), func() func() { old := debug.SetGCPercent(g); return func() { debug.SetGCPercent(old) } }})
	}
	for _, p := range []int{1, 2} {
		p := p
		settings = append(settings, setting{fmt.Sprintf("GOMAXPROCS=%d", p), func() func() { old := runtime.GOMAXPROCS(p); return func() { runtime.GOMAXPROCS(old) } }})
	}
	ranAbove := map[string]int{}
	for _, st := range settings {
		restore := st.apply()
		for _, m := range []int{1, 10, 13} {
			for _, w := range []int{m - 1, m, m + 1, m + 2} {
				if w < 1 {
					continue
				}
				for _, route := range []string{"Unwrap", "Decrypt"} {
					h := mk(st.name, route, m, w)
					o := execute(h.job())
					h.judge(r, &o, "")
					if w > m {
						ranAbove[st.name]++
					}
				}
			}
		}
		restore()
	}
	for _, st := range settings {
		if ranAbove[st.name] == 0 {
			r.Inconclusive("vacuous: no over-limit stanza was offered under %s", st.name)
		}
	}

	// child batches with the settings in the environment
	for _, env := range [][]string{{"GOMEMLIMIT=64MiB"}, {"GOMEMLIMIT=4GiB"}, {"GOMEMLIMIT=64GiB"}, {"GOGC=off"}, {"GODEBUG=madvdontneed=1"}, {"GOMEMLIMIT=64GiB", "GOGC=off"}} {
		name := "env:" + strings.Join(env, ",")
		var cc []childCase
		for _, route := range []string{"Unwrap", "Decrypt"} {
			for _, mw := range [][2]int{{10, 10}, {10, 11}, {10, 12}, {15, 16}, {15, 17}, {0, 12}, {0, 23}, {0, 24}, {1, 2}} {
				if h := mk(name, route, mw[0], mw[1]); h != nil {
					h.child = true
					cc = append(cc, h)
				}
			}
		}
		childExtraEnv = env
		runChildCases(r, "runtime", cc)
		childExtraEnv = nil
	}
}
