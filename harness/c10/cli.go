package main

import (
	"bytes"
	"fmt"
	"os"
	"path/filepath"
	"strings"

	"filippo.io/age/zverif/cli"
	"filippo.io/age/zverif/keys"
	"filippo.io/age/zverif/mon"
	"filippo.io/age/zverif/refage"
)

// cliSide drives the real `age -d` on a pseudo terminal with reference-built
// files: a passphrase stanza that is not alone must be refused (whether a
// prompt appeared first is recorded, not judged); an over-limit or non-canonical work factor on a stanza
// genuinely sealed with the right passphrase must be refused (after the
// prompt) without the process dying of the work it would have cost.
func cliSide(r *mon.Run) {
	age := os.Getenv("AGE_BIN")
	if age == "" {
		r.Count("cli_side_skipped_no_binary", 1)
		return
	}
	work, err := os.MkdirTemp(os.Getenv("VERIF_SCRATCH"), "c10cli.")
	if err != nil {
		return
	}
	defer os.RemoveAll(work)
	const pass = "c10 cli passphrase"
	x1 := keys.NewX("X1")
	build := func(tag string, kinds []string, wfArg string, sealedAt int) []byte {
		fk := mon.DetBytes("c10cli-fk-"+tag, 16)
		var sts []refage.Stanza
		for i, k := range kinds {
			switch k {
			case "S":
				sts = append(sts, refage.ScryptWrapArg(fk, pass, mon.DetBytes(fmt.Sprintf("c10cli-salt-%s-%d", tag, i), 16), sealedAt, wfArg))
			case "X":
				s, _ := refage.X25519Wrap(fk, x1.Public, mon.DetBytes(fmt.Sprintf("c10cli-eph-%s-%d", tag, i), 32))
				sts = append(sts, s)
			case "U":
				sts = append(sts, refage.Stanza{Type: "unknown-x", Args: []string{"a"}, Body: make([]byte, 20)})
			case "U0": // what keys.P("U0") emits: no arguments, nil body
				sts = append(sts, refage.Stanza{Type: "grease-verif"})
			case "Ea": // arguments only, empty body
				sts = append(sts, refage.Stanza{Type: "empty-args", Args: []string{"a", "bb"}})
			case "La": // arguments only, one long argument
				sts = append(sts, refage.Stanza{Type: "long-arg", Args: []string{strings.Repeat("A", 3000)}})
			case "B1":
				sts = append(sts, refage.Stanza{Type: "one-byte", Args: []string{"x"}, Body: []byte{0x42}})
			default:
				if strings.HasPrefix(k, "T:") { // a companion with this type name
					sts = append(sts, refage.Stanza{Type: k[2:], Args: []string{"a"}, Body: make([]byte, 20)})
				}
			}
		}
		return refage.BuildFile(fk, sts, mon.DetBytes("c10cli-nonce-"+tag, 16), []byte("cli plaintext"))
	}
	type cc struct {
		name        string
		file        []byte
		mustPrompt  bool // the refusal can only come after the passphrase was asked for
		memoryLimit bool
	}
	var cases []cc
	for _, kinds := range [][]string{{"S", "X"}, {"X", "S"}, {"U", "S"}, {"S", "U"}, {"S", "S"}, {"X", "S", "U"}, {"U", "U", "S"}, {"S", "X", "X", "U"}} {
		cases = append(cases, cc{name: "multi[" + strings.Join(kinds, ",") + "]", file: build(strings.Join(kinds, ""), kinds, "10", 10)})
	}
	// resource-degenerate neighbours (empty bodies): the CLI's lazy passphrase
	// identity must see them as neighbours too, at every position
	emptyCases := 0
	for _, kinds := range [][]string{{"S", "U0"}, {"U0", "S"}, {"U0", "S", "U0"}, {"Ea", "S"}, {"S", "La"}, {"U0", "Ea", "S"}, {"S", "U0", "U0", "Ea"}, {"B1", "S"}} {
		cases = append(cases, cc{name: "multi[" + strings.Join(kinds, ",") + "]", file: build("e"+strings.Join(kinds, ""), kinds, "10", 10)})
		if !strings.Contains(strings.Join(kinds, ","), "B1") {
			emptyCases++ // every neighbour of S has an empty body
		}
	}
	// companion type names: the tool's own lazy identity must not look past them
	for _, kinds := range [][]string{{"T:x-grease", "S"}, {"S", "T:X25519-grease"}, {"T:scrypt-grease", "S", "T:grease"}, {"T:padding", "S"}, {"T:Scrypt", "S"}, {"S", "T:age-grease"}} {
		cases = append(cases, cc{name: "multi[" + strings.Join(kinds, ",") + "]", file: build("t"+strings.Join(kinds, ""), kinds, "10", 10)})
	}
	if emptyCases < 7 {
		r.Inconclusive("vacuous: CLI stage holds only %d empty-body-neighbour cases", emptyCases)
	}
	for _, wf := range []string{"23", "24", "30", "31", "64", "010", "+10", "0x0a", "1e1", "10 ", "4294967306", "18446744073709551626"} {
		if strings.ContainsAny(wf, " ") {
			continue // a space cannot be carried inside one argument
		}
		cases = append(cases, cc{name: "wf[" + wf + "]", file: build("wf"+wf, []string{"S"}, wf, 10), mustPrompt: true, memoryLimit: true})
	}
	// control: the lone, canonical stanza decrypts with the prompt
	ctl := build("ctl", []string{"S"}, "10", 10)
	os.WriteFile(filepath.Join(work, "ctl.age"), ctl, 0o600)
	res := cli.Run(&cli.Cmd{Argv: []string{age, "-d", "-o", "ctl.out", "ctl.age"}, Dir: work, TTY: true,
		Script: []cli.TTYStep{{Expect: "Enter passphrase", Send: pass + "\n"}}})
	got, _ := os.ReadFile(filepath.Join(work, "ctl.out"))
	if res.Err != nil || res.Exit != 0 || !bytes.Equal(got, []byte("cli plaintext")) {
		r.Inconclusive("C10 CLI control (lone canonical passphrase stanza) did not decrypt: %v %s", res.Err, res)
		return
	}
	for i, c := range cases {
		in := filepath.Join(work, fmt.Sprintf("in%d.age", i))
		os.WriteFile(in, c.file, 0o600)
		outp := filepath.Join(work, fmt.Sprintf("out%d", i))
		// the same request in the tool's alternative spellings, rotating
		dec := []string{"-d", "--decrypt", "-decrypt", "-d=true"}[i%4]
		argv := [][]string{{age, dec, "-o", outp, in}, {age, dec, "--output", outp, in}, {age, "--output=" + outp, dec, in}}[i%3]
		if c.memoryLimit {
			// a tree that derives at the offered work factor needs >= 8 GiB
			argv = append([]string{"prlimit", "--as=3221225472", "--"}, argv...)
		}
		res := cli.Run(&cli.Cmd{Argv: argv, Dir: work, TTY: true,
			Script: []cli.TTYStep{{Expect: "Enter passphrase", Send: pass + "\n"}}})
		r.Eval(1)
		r.Distinct("cli:" + c.name)
		r.Count("cli_cases", 1)
		if res.Err != nil {
			r.Inconclusive("C10 CLI case %s: driver error %v", c.name, res.Err)
			continue
		}
		prompted := bytes.Contains(res.TTYOut, []byte("Enter passphrase"))
		replay := map[string]any{"case": c.name, "argv": argv}
		_, statErr := os.Stat(outp)
		switch {
		case res.Exit == 0:
			r.Violate("cli-accepted:"+classOfCLI(c.name), fmt.Sprintf("age -d accepted %s (exit 0)", c.name), replay)
		case res.Exit < 0 || bytes.Contains(res.Stderr, []byte("fatal error")) || bytes.Contains(res.Stderr, []byte("out of memory")) || res.TimedOut:
			r.Violate("cli-died-of-work:"+classOfCLI(c.name), fmt.Sprintf("age -d on %s did not refuse cleanly: %s", c.name, res), replay)
		case statErr == nil:
			r.Violate("cli-output-created-on-refusal", fmt.Sprintf("age -d refused %s but created the -o file", c.name), replay)
		default:
			r.Count("cli_refusals_clean", 1)
			if !c.mustPrompt && prompted {
				// the property demands the refusal, not the absence of a
				// prompt: observed and counted, not alarmed on
				r.Count("cli_prompted_before_refusing_non_lone_stanza", 1)
			}
		}
	}
	cliEncryptSide(r, age, work)
}

func classOfCLI(name string) string {
	if strings.HasPrefix(name, "multi") {
		return "multi-stanza"
	}
	return "work-factor"
}
