package main

import (
	"fmt"

	"filippo.io/age/zverif/keys"
	"filippo.io/age/zverif/mon"
	"filippo.io/age/zverif/refage"
)

// Companion stanza NAMES. "A passphrase stanza stands alone" holds whatever the
// neighbour is called or carries: grease-like, padding-like, comment-like and
// scrypt-look-alike type names, with arguments and a body, with neither, and
// with a real X25519 wrapping of the same file key in the body — at [c,S],
// [S,c] and [c,S,c], through ScryptIdentity.Unwrap and age.Decrypt with the
// right passphrase. The scrypt stanza is sealed at 10, so every refusal carries
// an alloc-meter reading (< 256 KiB: no key was derived). Single-threaded.
var companionTypes = []string{"x-grease", "grease", "X25519-grease", "scrypt-grease", "grease-x", "age-grease", "-grease", "padding", "comment", "ignore",
	"reserved", "x-ignore", "_", "x", "Scrypt", "SCRYPT", "scrypt-", "scryptx", "X25519", "x25519", "ssh-ed25519-grease", "grease-verif"}

func namesSide(r *mon.Run) {
	x1 := keys.NewX("X1")
	fk := mon.DetBytes("c10-names-fk", 16)
	pt := mon.DetBytes("c10-names-pt", 31)
	S := refage.ScryptWrap(fk, passA, mon.DetBytes("c10-names-salt", 16), 10)
	lone := refage.BuildFile(fk, []refage.Stanza{S}, mon.DetBytes("c10-names-nonce", 16), pt)
	for _, route := range []string{"Unwrap", "Decrypt"} {
		o := execute(&job{Pass: passA, Max: 12, Route: route, Stanzas: []refage.Stanza{S}, File: lone, Meter: true})
		r.Eval(1)
		if !acceptedRight(&o, route, fk, pt) {
			r.Inconclusive("control: the lone scrypt stanza of the companion-name stage does not open through %s: %s", route, o.Err)
			return
		}
	}
	xw, err := refage.X25519Wrap(fk, x1.Public, mon.DetBytes("c10-names-eph", 32))
	if err != nil {
		panic(err)
	}
	forms := []struct {
		name string
		mk   func(t string) refage.Stanza
	}{
		{"args+body", func(t string) refage.Stanza {
			return refage.Stanza{Type: t, Args: []string{"a", "bb"}, Body: mon.DetBytes("c10-names-body-"+t, 32)}
		}},
		{"empty", func(t string) refage.Stanza { return refage.Stanza{Type: t} }},
		{"real-X25519-wrap", func(t string) refage.Stanza { return refage.Stanza{Type: t, Args: xw.Args, Body: xw.Body} }},
	}
	ran := map[string]int{}
	for _, t := range companionTypes {
		for _, f := range forms {
			c := f.mk(t)
			for _, shape := range []string{"[c,S]", "[S,c]", "[c,S,c]"} {
				var st []refage.Stanza
				switch shape {
				case "[c,S]":
					st = []refage.Stanza{c, S}
				case "[S,c]":
					st = []refage.Stanza{S, c}
				default:
					st = []refage.Stanza{c, S, c}
				}
				file := refage.BuildFile(fk, st, mon.DetBytes("c10-names-nonce-"+t+f.name+shape, 16), pt)
				for _, route := range []string{"Unwrap", "Decrypt"} {
					o := execute(&job{Pass: passA, Max: 12, Route: route, Stanzas: st, File: file, Meter: true})
					r.Eval(1)
					key := fmt.Sprintf("%s:type=%q:form=%s:%s", route, t, f.name, shape)
					r.Distinct("companion:" + key)
					r.Tab("companion_form_x_shape", f.name+" "+shape)
					ran[shape]++
					replay := map[string]any{"side": "companion-names", "type": t, "form": f.name, "shape": shape, "route": route, "file": file, "passphrase": passA, "max": 12, "scrypt_work_factor": 10}
					switch {
					case o.Panic != "":
						rep.violate(pendingViolation{"panic/companion", "panic:companion:" + key, o.Panic, replay})
					case o.Accepted:
						rep.violate(pendingViolation{"companion-accepted/" + f.name, "companion-accepted:" + key,
							fmt.Sprintf("a passphrase identity returned a file key through %s for the header %s whose companion stanza c has type %q (%s): the scrypt stanza is not alone", route, shape, t, f.name), replay})
					case o.Delta >= rejectThreshold:
						rep.violate(pendingViolation{"companion-derived-on-reject/" + f.name, "companion-derived-on-reject:" + key,
							fmt.Sprintf("the header %s with companion type %q (%s) was refused through %s (%s) only after allocating %d bytes — a key was derived", shape, t, f.name, route, o.Err, o.Delta), replay})
					default:
						if o.Delta > maxRejectDelta {
							maxRejectDelta = o.Delta
						}
						r.Count("companion_rejected_metered", 1)
					}
				}
			}
		}
	}
	for _, shape := range []string{"[c,S]", "[S,c]", "[c,S,c]"} {
		if ran[shape] < 2*len(companionTypes) {
			r.Inconclusive("vacuous: companion-name stage ran only %d cases of shape %s", ran[shape], shape)
		}
	}
}
