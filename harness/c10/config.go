package main

import (
	"fmt"
	"math"
	"strings"

	"filippo.io/age/zverif/mon"
	"filippo.io/age/zverif/refage"
)

// Configuration calls that fail. SetMaxWorkFactor / SetWorkFactor have no
// error return: they panic for values outside 1..30, and a program that takes
// the value from configuration guards the call with recover. Model: the panic
// is required, and a call that panicked leaves the object exactly as it was.
//
// Identity side (in process: only stanzas genuinely sealed at <= inProcMax are
// offered; labelled over-limit stanzas go to the child): sequences
//
//	new -> Set(M) -> Set(illegal) -> calls at w around M
//	new -> Set(illegal) -> calls (the default, 22, must stay in force)
//	new -> Set(M) -> Set(illegal) -> Set(illegal') -> calls
//	new -> Set(illegal) -> Set(M) -> calls ; Set(M) -> Set(illegal) -> Set(M') -> calls
//	two objects: an illegal call on one must not touch the other
//
// judged per object against ITS OWN last legal maximum (hard error, alloc meter
// where >= 1 MiB is avoided). Recipient side (always in the child: a refused
// huge value must never lead to a derivation in the monitor process): the
// recipient must keep sealing at its previous / default work factor, read back
// from the stanza's argument and confirmed by a reference decryption.

var illegalValues = []int64{0, -1, 31, 32, 64, 1 << 20, math.MaxInt, math.MinInt}

func illName(v int64) string {
	switch v {
	case math.MaxInt:
		return "MaxInt"
	case math.MinInt:
		return "MinInt"
	case 1 << 20:
		return "1<<20"
	}
	return fmt.Sprint(v)
}

func configSide(r *mon.Run) {
	gen := map[int]*sealedStanza{}
	for w := 1; w <= inProcMax; w++ {
		gen[w] = genuine("config", w)
	}
	labelled := func(w int) *sealedStanza {
		g := genuine(fmt.Sprintf("config-l%d", w), 10)
		s := *g
		s.arg = fmt.Sprint(w)
		s.st.Args = []string{g.st.Args[0], s.arg}
		s.file = refage.BuildFile(g.fk, []refage.Stanza{s.st}, mon.DetBytes(fmt.Sprintf("c10-config-nonce-%d", w), 16), g.pt)
		return &s
	}
	guard := map[string]int{} // "<hi|lo> <above|below>" cells executed
	routes := []string{"Unwrap", "Decrypt"}

	// a history under construction, tracking the model's maximum per object
	type builder struct {
		h     *histCase
		cur   map[int]int // object -> last legal maximum (0: default)
		names []string
		lastI map[int]string // object -> "hi"/"lo" if an illegal call happened since the last legal one... kept for the guard
	}
	newB := func() *builder {
		return &builder{h: &histCase{scenario: "config", class: "config", max: 0}, cur: map[int]int{}, lastI: map[int]string{}}
	}
	objN := func(id int) string {
		if id == 1 {
			return "id"
		}
		return "other"
	}
	legal := func(b *builder, id, m int) {
		b.cur[id] = m
		b.h.steps = append(b.h.steps, hstep{step: step{ID: id, SetMax: m}, config: true, desc: fmt.Sprintf("%s.SetMaxWorkFactor(%d)", objN(id), m)})
		b.names = append(b.names, fmt.Sprintf("%s.Set(%d)", objN(id), m))
	}
	illegal := func(b *builder, id int, v int64) {
		vv := v
		b.h.steps = append(b.h.steps, hstep{step: step{ID: id, BadMax: &vv}, config: true, wantPanic: true, desc: fmt.Sprintf("SetMaxWorkFactor(%s)", illName(v))})
		b.names = append(b.names, fmt.Sprintf("%s.Set(%s)!", objN(id), illName(v)))
		if v > 30 {
			b.lastI[id] = "hi"
		} else {
			b.lastI[id] = "lo"
		}
	}
	call := func(b *builder, id int, route string, w int) {
		eff := b.cur[id]
		if eff == 0 {
			eff = 22
		}
		accept := w <= eff
		var s *sealedStanza
		if w <= inProcMax {
			s = gen[w]
		} else {
			if accept {
				return // an expensive legitimate acceptance is not a case
			}
			s = labelled(w)
			b.h.child = true
			if w < 20 {
				b.h.slowC = true
			}
		}
		seq := strings.Join(b.names, ",")
		b.h.steps = append(b.h.steps, hstep{step: step{ID: id, Route: route, Stanzas: []refage.Stanza{s.st}, File: s.file, Meter: true}, kind: "config", fk: s.fk, pt: s.pt,
			accept: accept, metered: !accept && w >= meterFloor, hard: !accept, class: "config",
			k:    fmt.Sprintf("[%s]:%s.%s:wf=%d", seq, objN(id), route, w),
			desc: fmt.Sprintf("%s.%s of a lone stanza wf=%d (sealed at %d)", objN(id), route, w, s.sealedAt)})
		if cl := b.lastI[id]; cl != "" {
			side := "below"
			if !accept {
				side = "above"
			}
			guard[cl+" "+side]++
		}
	}
	var cases []*histCase
	done := func(b *builder) {
		b.h.k = "config:[" + strings.Join(b.names, ",") + "]:" + fmt.Sprint(len(cases))
		cases = append(cases, b.h)
	}
	around := func(m int) []int {
		var ws []int
		for _, w := range []int{m - 1, m, m + 1, m + 2} {
			if w >= 1 && w <= inProcMax {
				ws = append(ws, w)
			}
		}
		return ws
	}

	for _, route := range routes {
		for _, v := range illegalValues {
			for _, m := range []int{10, 12, 5} {
				// Set(M), Set(illegal), calls around M
				b := newB()
				legal(b, 1, m)
				illegal(b, 1, v)
				for _, w := range around(m) {
					call(b, 1, route, w)
				}
				done(b)
			}
			// illegal as the first configuration call: the default stays
			b := newB()
			illegal(b, 1, v)
			call(b, 1, route, 10)
			call(b, 1, route, 12)
			done(b)
			b = newB() // ... and what the default refuses is still refused (child)
			illegal(b, 1, v)
			call(b, 1, route, 23)
			done(b)
			// illegal then legal; legal, illegal, legal
			b = newB()
			illegal(b, 1, v)
			legal(b, 1, 10)
			for _, w := range around(10) {
				call(b, 1, route, w)
			}
			done(b)
			b = newB()
			legal(b, 1, 12)
			illegal(b, 1, v)
			legal(b, 1, 9)
			for _, w := range around(9) {
				call(b, 1, route, w)
			}
			done(b)
			// over-limit far above, after the refused call (child)
			b = newB()
			legal(b, 1, 10)
			illegal(b, 1, v)
			call(b, 1, route, 25)
			done(b)
			// two objects: the refused call on one must not touch the other
			b = newB()
			legal(b, 1, 10)
			legal(b, 2, 12)
			illegal(b, 1, v)
			call(b, 2, route, 13)
			call(b, 2, route, 12)
			call(b, 1, route, 11)
			call(b, 1, route, 10)
			done(b)
			b = newB()
			legal(b, 1, 10)
			illegal(b, 2, v) // the other object is at its default
			call(b, 1, route, 11)
			call(b, 1, route, 10)
			call(b, 2, route, 12)
			done(b)
		}
		// two illegal calls in a row
		for _, pr := range [][2]int64{{31, 0}, {-1, 64}, {1 << 20, math.MinInt}, {32, math.MaxInt}} {
			b := newB()
			legal(b, 1, 10)
			illegal(b, 1, pr[0])
			illegal(b, 1, pr[1])
			for _, w := range around(10) {
				call(b, 1, route, w)
			}
			done(b)
		}
	}
	r.Set("config_identity_histories", len(cases))
	for _, cell := range []string{"hi above", "hi below", "lo above", "lo below"} {
		if guard[cell] == 0 {
			r.Inconclusive("vacuous: no refused configuration value (%s the legal range) was followed by a call %s the legal limit", map[string]string{"hi": "above", "lo": "below"}[cell[:2]], cell[3:])
		}
	}
	r.Set("config_guard_cells", guard)
	var childCases []childCase
	for _, h := range cases {
		if h.child {
			childCases = append(childCases, h)
			continue
		}
		o := execute(h.job())
		h.judge(r, &o, "")
	}

	// ---- recipient side: always in the child -----------------------------------
	type seq struct {
		cfg  []int64
		want int
	}
	var seqs []seq
	for _, v := range illegalValues {
		seqs = append(seqs, seq{[]int64{2, v}, 2}, seq{[]int64{v, 4}, 4})
	}
	firstOnly := []int64{0, 31}
	if r.Thorough() {
		firstOnly = illegalValues
	}
	for _, v := range firstOnly {
		seqs = append(seqs, seq{[]int64{v}, 18}) // the library default (18) stays: one real derivation each
	}
	seqs = append(seqs, seq{[]int64{3, 31, 0}, 3}, seq{[]int64{3, -1, 64}, 3}, seq{[]int64{2, 31, 5}, 5}, seq{[]int64{2, 0, 5}, 5},
		seq{[]int64{1}, 1}, seq{[]int64{6}, 6}, seq{[]int64{30, 2}, 2})
	// own child phase: the caps that bound a broken tree's identity cases must
	// not starve the recipient cases
	var recCases []childCase
	for _, s := range seqs {
		recCases = append(recCases, &recCase{cfg: s.cfg, want: s.want})
	}
	r.Set("config_recipient_sequences", len(seqs))
	runChildCases(r, "config", childCases)
	runChildCases(r, "config_recipient", recCases)
}

// recCase: guarded SetWorkFactor calls on a fresh recipient, then a lone
// encryption, executed in the child.
type recCase struct {
	cfg  []int64
	want int
}

func (c *recCase) seq() string {
	s := make([]string, len(c.cfg))
	for i, v := range c.cfg {
		s[i] = illName(v)
		if v < 1 || v > 30 {
			s[i] += "!"
		}
	}
	return "[" + strings.Join(s, ",") + "]"
}

func (c *recCase) key() string { return "recipient:SetWorkFactor" + c.seq() }
func (c *recCase) slow() bool  { return false }
func (c *recCase) job() *job {
	return &job{Name: c.key(), Pass: passA, Route: "RecipientEncrypt", Configs: c.cfg}
}

func (c *recCase) judge(r *mon.Run, o *outcome, died string) (violated bool) {
	r.Eval(1)
	r.Distinct("config:" + c.key())
	r.Tab("history_scenario_x_where", "config-recipient child")
	replay := map[string]any{"side": "config-recipient", "calls": c.seq(), "expected_work_factor": c.want, "passphrase": passA}
	hasIllegal := false
	for _, v := range c.cfg {
		if v < 1 || v > 30 {
			hasIllegal = true
		}
	}
	bad := func(what string) bool {
		if !hasIllegal {
			r.Inconclusive("control: recipient after legal calls %s: %s", c.seq(), what)
			return false
		}
		rep.violate(pendingViolation{"config-refused-value-stored/recipient", "config-refused-value-stored:" + c.key(),
			fmt.Sprintf("after the guarded calls SetWorkFactor%s (! = illegal, recovered) the recipient must still seal at work factor %d: %s", c.seq(), c.want, what), replay})
		return true
	}
	if died != "" {
		return bad("the process under the memory limit died (twice) while it encrypted: " + firstLines(died, 3))
	}
	if len(o.CfgPanicked) != len(c.cfg) {
		r.Inconclusive("recipient case %s: %d panic records for %d calls (%s)", c.key(), len(o.CfgPanicked), len(c.cfg), o.Err)
		return false
	}
	for i, v := range c.cfg {
		ill := v < 1 || v > 30
		switch {
		case ill && !o.CfgPanicked[i]:
			rep.violate(pendingViolation{"config-illegal-value-accepted/recipient", fmt.Sprintf("config-illegal-value-accepted:recipient:SetWorkFactor(%s)", illName(v)),
				fmt.Sprintf("SetWorkFactor(%s) did not panic (sequence %s)", illName(v), c.seq()), replay})
			violated = true
		case !ill && o.CfgPanicked[i]:
			r.Inconclusive("control: SetWorkFactor(%d) panicked (sequence %s)", v, c.seq())
			return violated
		case ill:
			r.Count("config_illegal_calls", 1)
		}
	}
	if o.Panic != "" {
		return bad("Encrypt panicked: "+firstLines(o.Panic, 1)) || violated
	}
	if !o.Accepted {
		return bad("Encrypt failed: "+o.Err) || violated
	}
	hdr, _, err := refage.ParseHeader(o.Plain)
	if err != nil || len(hdr.Stanzas) != 1 || hdr.Stanzas[0].Type != "scrypt" || len(hdr.Stanzas[0].Args) != 2 {
		return bad(fmt.Sprintf("the file does not have a lone scrypt stanza (%v)", err)) || violated
	}
	if got := hdr.Stanzas[0].Args[1]; got != fmt.Sprint(c.want) {
		return bad(fmt.Sprintf("the stanza says work factor %q", got)) || violated
	}
	if c.want <= 12 { // the reference derivation at the default (18) would cost 256 MiB a case
		if op, err := refage.Decrypt(o.Plain, refage.ScryptKey{Pass: passA, MaxLogN: 22}); err != nil || string(op.Plaintext) != "recipient configuration" {
			return bad(fmt.Sprintf("the reference cannot open the file at work factor %d: %v", c.want, err)) || violated
		}
	}
	r.Count("config_recipient_sealed_as_model", 1)
	r.SampleN("config-recipient", 2, map[string]any{"side": "config-recipient", "calls": c.seq(), "stanza_work_factor": c.want, "panicked": o.CfgPanicked})
	return violated
}
