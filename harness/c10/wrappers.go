package main

import (
	"bytes"
	"fmt"
	"strings"
	"sync"

	"filippo.io/age"
	"filippo.io/age/zverif/ax"
	"filippo.io/age/zverif/keys"
	"filippo.io/age/zverif/mon"
	"filippo.io/age/zverif/refage"
)

// Passphrase recipients / identities reached through caller-defined WRAPPER
// types. A passphrase recipient stands alone however it is wrapped, as long as
// the wrapper forwards or promotes its labels:
//
//	embed     struct{ *age.ScryptRecipient }: Wrap and WrapWithLabels promoted
//	forward   struct{ age.Recipient } plus an explicit forwarding WrapWithLabels
//	counting  a logging wrapper forwarding both methods
//	hidden    struct{ age.Recipient }: only Wrap is visible — the labels are
//	          lost, the clause does not apply; executed and recorded, not judged
//
// next to: another wrapped passphrase recipient, a plain one, X25519, SSH,
// unknown, a harness recipient announcing the label a probe ScryptRecipient
// returned just before (replay), and one announcing a label collected from
// passphrase recipients earlier in this process. Encrypt must refuse and write
// nothing; whatever was written is parsed with refage and must never hold an
// scrypt stanza next to another stanza. Whether labels differ between calls /
// objects is recorded only.

type embedRecipient struct{ *age.ScryptRecipient }

type hiddenRecipient struct{ age.Recipient }

type forwardRecipient struct{ age.Recipient }

func (f forwardRecipient) WrapWithLabels(fileKey []byte) ([]*age.Stanza, []string, error) {
	return f.Recipient.(age.RecipientWithLabels).WrapWithLabels(fileKey)
}

type countingRecipient struct {
	inner *age.ScryptRecipient
	mu    sync.Mutex
	calls []string
}

func (c *countingRecipient) Wrap(fileKey []byte) ([]*age.Stanza, error) {
	c.mu.Lock()
	c.calls = append(c.calls, "Wrap")
	c.mu.Unlock()
	return c.inner.Wrap(fileKey)
}

func (c *countingRecipient) WrapWithLabels(fileKey []byte) ([]*age.Stanza, []string, error) {
	c.mu.Lock()
	c.calls = append(c.calls, "WrapWithLabels")
	c.mu.Unlock()
	return c.inner.WrapWithLabels(fileKey)
}

type embedIdentity struct{ *age.ScryptIdentity }

type ifaceIdentity struct{ age.Identity }

type countingIdentity struct {
	inner *age.ScryptIdentity
	calls int
}

func (c *countingIdentity) Unwrap(st []*age.Stanza) ([]byte, error) {
	c.calls++
	return c.inner.Unwrap(st)
}

func wrapRecipient(kind string, s *age.ScryptRecipient) age.Recipient {
	switch kind {
	case "embed":
		return embedRecipient{s}
	case "forward":
		return forwardRecipient{s}
	case "counting":
		return &countingRecipient{inner: s}
	case "hidden":
		return hiddenRecipient{s}
	}
	panic("wrapRecipient: " + kind)
}

func wrappersSide(r *mon.Run) {
	// labels passphrase recipients hand out, collected before anything else
	var collected [][]string
	distinct := map[string]bool{}
	for i := 0; i < 6; i++ {
		s := keys.ScryptRecipient(fmt.Sprintf("label probe %d", i%3), 1)
		for k := 0; k < 2; k++ {
			_, l, err := s.WrapWithLabels(make([]byte, 16))
			if err == nil {
				collected = append(collected, l)
				distinct[strings.Join(l, "\x00")] = true
			}
		}
	}
	r.Set("scrypt_label_sets_collected", len(collected))
	r.Set("scrypt_label_sets_distinct", len(distinct)) // recorded, judged only through Encrypt
	if len(collected) == 0 {
		r.Inconclusive("wrappers: could not collect any label from a passphrase recipient")
		return
	}

	wrapKinds := []string{"embed", "forward", "counting", "hidden"}
	otherKinds := []string{"wS", "S", "X1", "E1", "R1", "U1", "replay", "collected"}
	type wc struct {
		wrap   string
		slots  []string // "W" marks the wrapped passphrase recipient under test
		judged bool
	}
	var cases []wc
	var gen func(wrap string, n, pos int, cur []string)
	gen = func(wrap string, n, pos int, cur []string) {
		if len(cur) == n {
			cases = append(cases, wc{wrap: wrap, slots: append([]string(nil), cur...), judged: wrap != "hidden"})
			return
		}
		if len(cur) == pos {
			gen(wrap, n, pos, append(cur, "W"))
			return
		}
		for _, k := range otherKinds {
			gen(wrap, n, pos, append(cur, k))
		}
	}
	for _, wk := range wrapKinds {
		for n := 2; n <= 3; n++ {
			for pos := 0; pos < n; pos++ {
				gen(wk, n, pos, nil)
			}
		}
	}
	rng := r.RNG("wrappers-4")
	for _, wk := range wrapKinds {
		for i := 0; i < r.Pick(150, 1500); i++ {
			pos := rng.Intn(4)
			sl := make([]string, 4)
			for k := range sl {
				if k == pos {
					sl[k] = "W"
				} else {
					sl[k] = otherKinds[rng.Intn(len(otherKinds))]
				}
			}
			cases = append(cases, wc{wrap: wk, slots: sl, judged: wk != "hidden"})
		}
	}
	r.Set("wrapper_encrypt_cases", len(cases))

	// controls: every wrapper alone encrypts a file its passphrase opens
	for _, wk := range wrapKinds {
		file, err := ax.Encrypt([]byte("wrapped alone"), false, wrapRecipient(wk, keys.ScryptRecipient(passA, 1)))
		r.Eval(1)
		if err != nil {
			r.Inconclusive("control: wrapper %s alone is refused: %v", wk, err)
			continue
		}
		if res := ax.DecryptBytes(file, false, keys.ScryptIdentity(passA, 5)); !res.Clean() || string(res.Plain) != "wrapped alone" {
			r.Inconclusive("control: file of wrapper %s alone does not decrypt: %s", wk, res)
			continue
		}
		r.Count("wrapper_controls_ok", 1)
	}

	pend := make([][]pendingViolation, len(cases))
	cover := make([]string, len(cases))
	mon.Par(len(cases), func(i int) {
		c := cases[i]
		name := fmt.Sprintf("wrapper=%s:[%s]", c.wrap, strings.Join(c.slots, ","))
		r.Guard("encrypt-"+name, func() {
			var recs []age.Recipient
			for k, s := range c.slots {
				switch s {
				case "W":
					recs = append(recs, wrapRecipient(c.wrap, keys.ScryptRecipient(passA, 1)))
				case "wS":
					recs = append(recs, wrapRecipient(c.wrap, keys.ScryptRecipient(passB, 1)))
				case "S":
					recs = append(recs, keys.ScryptRecipient(passB, 1))
				case "replay":
					// the label a passphrase recipient of the third party's own returned just before
					l := probeLabels(1)
					recs = append(recs, &adversary{inner: keys.P("X1").Recipient, labels: func() []string { return l }})
				case "collected":
					l := collected[(i+k)%len(collected)]
					recs = append(recs, &adversary{inner: keys.P("X1").Recipient, labels: func() []string { return l }})
				default:
					recs = append(recs, keys.P(s).Recipient)
				}
			}
			ow := &mon.ObservingWriter{}
			_, err := age.Encrypt(ow, recs...)
			r.Eval(1)
			r.Distinct("encrypt-" + name)
			r.Tab("wrapper_x_len", fmt.Sprintf("%s n=%d", c.wrap, len(c.slots)))
			cover[i] = c.wrap
			if !c.judged {
				if err == nil {
					r.Count("wrapper_hidden_labels_accepted_not_judged", 1)
				}
				return
			}
			header := ""
			if ow.Len() > 0 {
				if hdr, _, perr := refage.ParseHeader(ow.Buf); perr == nil {
					var types []string
					hasS := false
					for _, st := range hdr.Stanzas {
						types = append(types, st.Type)
						hasS = hasS || st.Type == "scrypt"
					}
					header = fmt.Sprintf("; header written: [%s]", strings.Join(types, ","))
					if hasS && len(hdr.Stanzas) > 1 {
						header += " — an scrypt stanza next to other stanzas"
					}
				} else if bytes.HasPrefix(ow.Buf, []byte("age-encryption.org/")) {
					header = "; a partial header was written"
				}
			}
			replay := map[string]any{"side": "encrypt-wrappers", "wrapper": c.wrap, "list": c.slots, "passphrase_work_factor": 1}
			cls := fmt.Sprintf("wrapper-%s/n=%d", c.wrap, len(c.slots))
			switch {
			case err == nil:
				pend[i] = append(pend[i], pendingViolation{"encrypt-accepted/" + cls, "encrypt-accepted:" + name,
					fmt.Sprintf("age.Encrypt accepted a list in which a passphrase recipient wrapped in a caller-defined type (%s, labels forwarded) stands next to other recipients: %v (%d bytes written%s)",
						c.wrap, c.slots, ow.Len(), header), replay})
			case ow.Len() != 0:
				pend[i] = append(pend[i], pendingViolation{"encrypt-wrote-on-refusal/" + cls, "encrypt-wrote-on-refusal:" + name,
					fmt.Sprintf("age.Encrypt refused %s (%v) after writing %d bytes%s", name, err, ow.Len(), header), replay})
			default:
				r.Count("wrapper_encrypt_refused_zero_bytes", 1)
			}
			r.SampleN("encrypt-wrapper-"+c.wrap, 1, map[string]any{"side": "encrypt-wrappers", "case": name, "error": fmt.Sprint(err), "bytes_written": ow.Len()})
		})
	})
	rep.flush(pend)
	ran := map[string]int{}
	for i, c := range cases {
		if cover[i] == "" {
			continue
		}
		for _, s := range c.slots {
			if s == "wS" || s == "replay" || s == "collected" || s == "S" {
				ran[fmt.Sprintf("%s %s n=%d", c.wrap, s, len(c.slots))]++
			}
		}
	}
	for _, wk := range []string{"embed", "forward", "counting"} {
		for _, s := range []string{"wS", "S", "replay", "collected"} {
			for n := 2; n <= 3; n++ {
				if ran[fmt.Sprintf("%s %s n=%d", wk, s, n)] == 0 {
					r.Inconclusive("vacuous: wrapper %s never stood next to %s in a list of %d", wk, s, n)
				}
			}
		}
	}

	wrappedIdentities(r)
}

// wrappedIdentities: the decryption clauses through wrapper types around
// *age.ScryptIdentity, via age.Decrypt.
func wrappedIdentities(r *mon.Run) {
	x1 := keys.NewX("X1")
	fk := mon.DetBytes("c10-wrap-id-fk", 16)
	pt := []byte("wrapped identity plaintext")
	S := refage.ScryptWrap(fk, passA, mon.DetBytes("c10-wrap-id-salt", 16), 4)
	S9 := refage.ScryptWrap(fk, passA, mon.DetBytes("c10-wrap-id-salt9", 16), 9)
	X, err := refage.X25519Wrap(fk, x1.Public, mon.DetBytes("c10-wrap-id-eph", 32))
	if err != nil {
		panic(err)
	}
	U := refage.Stanza{Type: "unknown-1", Args: []string{"a"}, Body: mon.DetBytes("c10-wrap-id-u", 32)}
	U0 := refage.Stanza{Type: "grease-verif"}
	S2 := refage.ScryptWrap(fk, passB, mon.DetBytes("c10-wrap-id-salt2", 16), 3)
	headers := []struct {
		name   string
		st     []refage.Stanza
		accept bool
	}{
		{"[S]", []refage.Stanza{S}, true},
		{"[S,X]", []refage.Stanza{S, X}, false}, {"[X,S]", []refage.Stanza{X, S}, false}, {"[U,S,U]", []refage.Stanza{U, S, U}, false},
		{"[S,U0]", []refage.Stanza{S, U0}, false}, {"[U0,S]", []refage.Stanza{U0, S}, false}, {"[S,S']", []refage.Stanza{S, S2}, false},
		{"[X,U,S]", []refage.Stanza{X, U, S}, false}, {"[S wf=9 over the limit 8]", []refage.Stanza{S9}, false},
	}
	mk := map[string]func() age.Identity{
		"embed":    func() age.Identity { return embedIdentity{keys.ScryptIdentity(passA, 8)} },
		"iface":    func() age.Identity { return ifaceIdentity{keys.ScryptIdentity(passA, 8)} },
		"counting": func() age.Identity { return &countingIdentity{inner: keys.ScryptIdentity(passA, 8)} },
	}
	for _, wk := range []string{"embed", "iface", "counting"} {
		for _, h := range headers {
			file := refage.BuildFile(fk, h.st, mon.DetBytes("c10-wrap-id-nonce"+h.name, 16), pt)
			name := fmt.Sprintf("identity-wrapper=%s:%s", wk, h.name)
			r.Guard("decrypt-"+name, func() {
				res := ax.DecryptBytes(file, false, mk[wk]())
				r.Eval(1)
				r.Distinct("decrypt-" + name)
				r.Tab("identity_wrapper", wk)
				opened := res.DecErr == nil
				switch {
				case h.accept && (!res.Clean() || !bytes.Equal(res.Plain, pt)):
					r.Inconclusive("control: wrapped identity %s did not open a lone stanza: %s", wk, res)
				case !h.accept && opened:
					rep.violate(pendingViolation{"wrapped-identity-accepted/" + wk, "wrapped-identity-accepted:" + name,
						fmt.Sprintf("age.Decrypt with a passphrase identity wrapped in a caller-defined type (%s) opened the header %s", wk, h.name),
						map[string]any{"side": "decrypt-wrappers", "wrapper": wk, "header": h.name, "file": file, "passphrase": passA, "max": 8}})
				default:
					r.Count("wrapped_identity_as_model", 1)
				}
			})
		}
	}
}
