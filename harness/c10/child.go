package main

import (
	"bufio"
	"bytes"
	"encoding/json"
	"errors"
	"fmt"
	"io"
	"os"
	"os/exec"
	"path/filepath"
	"strconv"
	"strings"
	"sync"
	"syscall"
	"time"
)

// Child mode. The monitor re-executes its own binary with childEnv set; the
// child caps its address space (RLIMIT_AS = current size + headroom, so the Go
// runtime's own reservations are not what hits the limit), announces itself
// and then executes one job per input line. A tree that derives a key for a
// huge over-limit work factor dies here with "fatal error: out of memory"
// (or returns a meter reading) instead of taking the monitor down.
const (
	childEnv       = "VERIF_C10_CHILD"
	headroomEnv    = "VERIF_C10_HEADROOM_MB"
	defaultHeadMiB = 1024 // scrypt at work factor >= 20 (>= 1 GiB) cannot be allocated
)

type hello struct {
	Ready    bool   `json:"ready"`
	VmSizeKB uint64 `json:"vmsize_kb"`
	LimitKB  uint64 `json:"limit_kb"`
	LimitErr string `json:"limit_err,omitempty"`
}

func vmSizeKB() uint64 {
	b, err := os.ReadFile("/proc/self/status")
	if err != nil {
		return 0
	}
	for _, l := range strings.Split(string(b), "\n") {
		if strings.HasPrefix(l, "VmSize:") {
			f := strings.Fields(l)
			if len(f) >= 2 {
				n, _ := strconv.ParseUint(f[1], 10, 64)
				return n
			}
		}
	}
	return 0
}

func childMain() {
	head := uint64(defaultHeadMiB)
	if s := os.Getenv(headroomEnv); s != "" {
		if n, err := strconv.ParseUint(s, 10, 64); err == nil && n > 0 {
			head = n
		}
	}
	h := hello{Ready: true, VmSizeKB: vmSizeKB()}
	base := h.VmSizeKB
	if base == 0 {
		base = 3 << 20 // unknown: fall back to an absolute 3 GiB + headroom
	}
	h.LimitKB = base + head<<10
	lim := syscall.Rlimit{Cur: h.LimitKB << 10, Max: h.LimitKB << 10}
	if err := syscall.Setrlimit(syscall.RLIMIT_AS, &lim); err != nil {
		h.LimitErr = err.Error()
	}
	out := bufio.NewWriter(os.Stdout)
	enc := json.NewEncoder(out)
	enc.Encode(h)
	out.Flush()
	in := bufio.NewReaderSize(os.Stdin, 1<<20)
	for {
		line, err := in.ReadBytes('\n')
		if len(bytes.TrimSpace(line)) > 0 {
			var j job
			if jerr := json.Unmarshal(line, &j); jerr != nil {
				fmt.Fprintf(os.Stderr, "child: bad job: %v\n", jerr)
				os.Exit(3)
			}
			o := execute(&j)
			enc.Encode(o)
			out.Flush()
		}
		if err != nil {
			return
		}
	}
}

// childProc is the parent's handle on one child.
type childProc struct {
	cmd    *exec.Cmd
	stdin  io.WriteCloser
	lines  chan []byte // one per output line; closed at EOF
	stderr *tailBuf
	hello  hello
}

type tailBuf struct {
	mu sync.Mutex
	b  []byte
}

func (t *tailBuf) Write(p []byte) (int, error) {
	t.mu.Lock()
	t.b = append(t.b, p...)
	if len(t.b) > 1<<16 {
		t.b = t.b[len(t.b)-1<<15:]
	}
	t.mu.Unlock()
	return len(p), nil
}

func (t *tailBuf) String() string {
	t.mu.Lock()
	defer t.mu.Unlock()
	return string(t.b)
}

var errChildDied = errors.New("child died")
var errChildHung = errors.New("child watchdog")

// caseWatchdog is a generous wall-clock bound per child job; it never decides
// a verdict (a firing watchdog is inconclusive).
const caseWatchdog = 120 * time.Second

// childExtraEnv is added to the environment of every child started while it is
// set (Go runtime settings for the runtime-settings stage).
var childExtraEnv []string

func startChild() (*childProc, error) {
	exe, err := os.Executable()
	if err != nil {
		exe = os.Args[0]
	}
	cmd := exec.Command(exe)
	cmd.Env = append(append(os.Environ(), childEnv+"=1", "GOTRACEBACK=single"), childExtraEnv...)
	c := &childProc{cmd: cmd, stderr: &tailBuf{}, lines: make(chan []byte, 4)}
	cmd.Stderr = c.stderr
	if c.stdin, err = cmd.StdinPipe(); err != nil {
		return nil, err
	}
	stdout, err := cmd.StdoutPipe()
	if err != nil {
		return nil, err
	}
	if err := cmd.Start(); err != nil {
		return nil, err
	}
	go func() {
		rd := bufio.NewReaderSize(stdout, 1<<20)
		for {
			line, err := rd.ReadBytes('\n')
			if len(bytes.TrimSpace(line)) > 0 {
				c.lines <- line
			}
			if err != nil {
				close(c.lines)
				return
			}
		}
	}()
	line, err := c.recv()
	if err != nil {
		c.kill()
		return nil, fmt.Errorf("no greeting from child: %v; stderr: %s", err, c.stderr.String())
	}
	if err := json.Unmarshal(line, &c.hello); err != nil || !c.hello.Ready {
		c.kill()
		return nil, fmt.Errorf("bad greeting from child: %q", line)
	}
	return c, nil
}

func (c *childProc) recv() ([]byte, error) {
	select {
	case line, ok := <-c.lines:
		if !ok {
			return nil, errChildDied
		}
		return line, nil
	case <-time.After(caseWatchdog):
		return nil, errChildHung
	}
}

// run sends one job and waits for its outcome.
func (c *childProc) run(j *job) (*outcome, error) {
	b, err := json.Marshal(j)
	if err != nil {
		return nil, err
	}
	if _, err := c.stdin.Write(append(b, '\n')); err != nil {
		// the child is gone; its exit is reported by the caller through wait()
		return nil, errChildDied
	}
	line, err := c.recv()
	if err != nil {
		return nil, err
	}
	var o outcome
	if err := json.Unmarshal(line, &o); err != nil {
		return nil, fmt.Errorf("bad outcome line %q: %v", line, err)
	}
	return &o, nil
}

func (c *childProc) kill() {
	c.stdin.Close()
	if c.cmd.Process != nil {
		c.cmd.Process.Kill()
	}
	c.cmd.Wait()
}

// wait closes the child's input and returns how it ended.
func (c *childProc) wait() string {
	c.stdin.Close()
	done := make(chan error, 1)
	go func() { done <- c.cmd.Wait() }()
	select {
	case err := <-done:
		if err == nil {
			return "exit status 0"
		}
		return err.Error()
	case <-time.After(caseWatchdog):
		c.cmd.Process.Kill()
		<-done
		return "killed by the monitor's watchdog"
	}
}

// oomDeath reports whether the stderr of a dead child shows the Go runtime
// failing to obtain memory (the signature of a derivation that hit the limit).
func oomDeath(stderr string) bool {
	return strings.Contains(stderr, "out of memory") || strings.Contains(stderr, "cannot allocate")
}

// journal records every job before it is handed to a child, so that the input
// that killed a child (or, in the worst case, the monitor) is on disk.
type journal struct {
	f    *os.File
	path string
}

func openJournal() (*journal, error) {
	dir := os.Getenv("VERIF_SCRATCH")
	if dir == "" {
		dir = os.TempDir()
	}
	p := filepath.Join(dir, fmt.Sprintf("c10-journal-%d.jsonl", os.Getpid()))
	f, err := os.OpenFile(p, os.O_CREATE|os.O_WRONLY|os.O_APPEND, 0o644)
	if err != nil {
		return nil, err
	}
	return &journal{f: f, path: p}, nil
}

func (jn *journal) record(seq int, j *job) error {
	b, _ := json.Marshal(map[string]any{"seq": seq, "job": j})
	if _, err := jn.f.Write(append(b, '\n')); err != nil {
		return err
	}
	return jn.f.Sync()
}

func (jn *journal) close(remove bool) {
	jn.f.Close()
	if remove {
		os.Remove(jn.path)
	}
}
