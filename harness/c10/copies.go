package main

import (
	"fmt"
	"strings"

	"filippo.io/age/zverif/mon"
	"filippo.io/age/zverif/refage"
)

// Values obtained by STRUCT COPY. ScryptIdentity and ScryptRecipient are plain
// structs: `b := *a` is legal Go and yields an independent value. Configuring
// one afterwards (accepted or refused) must not change what the other does, in
// any order: copy before / after a's own configuration, copy of a copy, the
// copy configured higher or lower, copies taken after a was used.
//
// Model: every value has its own limit = the last accepted Set on THAT value,
// inherited at copy time. Identity histories run in process (only stanzas
// genuinely sealed at <= inProcMax with the right passphrase, so an over-limit
// derivation would really release the file key; hard error and alloc meter as
// elsewhere; labelled over-limit stanzas in the child). Recipient histories
// run in the child: the stanza written must carry the value's own factor.

func copiesSide(r *mon.Run) {
	gen := map[int]*sealedStanza{}
	for w := 1; w <= inProcMax; w++ {
		gen[w] = genuine("copies", w)
	}
	l23 := func() *sealedStanza {
		g := genuine("copies-l23", 10)
		s := *g
		s.arg = "23"
		s.st.Args = []string{g.st.Args[0], "23"}
		s.file = refage.BuildFile(g.fk, []refage.Stanza{s.st}, mon.DetBytes("c10-copies-nonce-23", 16), g.pt)
		return &s
	}()
	names := map[int]string{1: "a", 2: "b", 3: "c"}
	guard := map[string]int{}

	type builder struct {
		h   *histCase
		cur map[int]int // value -> its own limit (0: default)
		seq []string
	}
	newB := func() *builder {
		return &builder{h: &histCase{scenario: "copies", class: "copies"}, cur: map[int]int{}}
	}
	create := func(b *builder, id int) {
		b.h.steps = append(b.h.steps, hstep{step: step{ID: id}, config: true, desc: names[id] + " := NewScryptIdentity"})
	}
	set := func(b *builder, id, m int) {
		b.cur[id] = m
		b.h.steps = append(b.h.steps, hstep{step: step{ID: id, SetMax: m}, config: true, desc: fmt.Sprintf("%s.SetMaxWorkFactor(%d)", names[id], m)})
		b.seq = append(b.seq, fmt.Sprintf("%s.Set(%d)", names[id], m))
	}
	bad := func(b *builder, id int, v int64) {
		vv := v
		b.h.steps = append(b.h.steps, hstep{step: step{ID: id, BadMax: &vv}, config: true, wantPanic: true, desc: fmt.Sprintf("%s.SetMaxWorkFactor(%s)", names[id], illName(v))})
		b.seq = append(b.seq, fmt.Sprintf("%s.Set(%s)!", names[id], illName(v)))
	}
	cp := func(b *builder, id, from int) {
		f := from
		b.cur[id] = b.cur[from]
		b.h.steps = append(b.h.steps, hstep{step: step{ID: id, CopyFrom: &f}, config: true, desc: fmt.Sprintf("%s := *%s", names[id], names[from])})
		b.seq = append(b.seq, fmt.Sprintf("%s:=*%s", names[id], names[from]))
	}
	eff := func(b *builder, id int) int {
		if b.cur[id] == 0 {
			return 22
		}
		return b.cur[id]
	}
	use := func(b *builder, id int, route string, ws ...int) {
		for _, w := range ws {
			accept := w <= eff(b, id)
			s := gen[w]
			if w > inProcMax {
				if accept || w != 23 {
					continue
				}
				s = l23
				b.h.child = true
			}
			b.h.steps = append(b.h.steps, hstep{step: step{ID: id, Route: route, Stanzas: []refage.Stanza{s.st}, File: s.file, Meter: true}, kind: "copy", fk: s.fk, pt: s.pt,
				accept: accept, metered: !accept && w >= meterFloor, hard: !accept, class: "copies",
				k:    fmt.Sprintf("[%s]:%s.%s:wf=%d", strings.Join(b.seq, ","), names[id], route, w),
				desc: fmt.Sprintf("%s.%s of a lone stanza wf=%d (sealed at %d)", names[id], route, w, s.sealedAt)})
			// guard: this value refuses w although a related value would accept it, or the reverse
			for oid := range b.cur {
				if oid == id {
					continue
				}
				switch {
				case !accept && w <= eff(b, oid):
					guard["refused here, allowed on a related value"]++
				case accept && w > eff(b, oid):
					guard["allowed here, refused on a related value"]++
				}
			}
		}
	}
	var cases []*histCase
	done := func(b *builder) {
		b.h.k = fmt.Sprintf("copies:[%s]:%d", strings.Join(b.seq, ","), len(cases))
		cases = append(cases, b.h)
	}
	pairs := [][2]int{{10, 12}, {12, 10}, {5, 8}, {8, 5}}
	if r.Thorough() {
		pairs = append(pairs, [2]int{10, 14}, [2]int{14, 9}, [2]int{1, 2}, [2]int{12, 13})
	}
	for _, route := range []string{"Unwrap", "Decrypt"} {
		for _, p := range pairs {
			x, y := p[0], p[1]
			ws := []int{x, x + 1, y, y + 1}
			// copy, then configure the copy
			b := newB()
			set(b, 1, x)
			cp(b, 2, 1)
			set(b, 2, y)
			use(b, 1, route, ws...)
			use(b, 2, route, ws...)
			done(b)
			// copy, then reconfigure the original
			b = newB()
			set(b, 1, x)
			cp(b, 2, 1)
			set(b, 1, y)
			use(b, 2, route, ws...)
			use(b, 1, route, ws...)
			done(b)
			// copy taken before the original was ever configured
			b = newB()
			create(b, 1)
			cp(b, 2, 1)
			set(b, 1, x)
			use(b, 2, route, x+1, 12, 23) // the copy keeps the default
			use(b, 1, route, x, x+1)
			set(b, 2, y)
			use(b, 1, route, ws...)
			use(b, 2, route, ws...)
			done(b)
			// copy of a copy
			b = newB()
			set(b, 1, x)
			cp(b, 2, 1)
			cp(b, 3, 2)
			set(b, 3, y)
			use(b, 1, route, ws...)
			use(b, 2, route, ws...)
			use(b, 3, route, ws...)
			done(b)
			// copy taken after the original has been used
			b = newB()
			set(b, 1, x)
			use(b, 1, route, x, x+1)
			cp(b, 2, 1)
			set(b, 2, y)
			use(b, 1, route, ws...)
			use(b, 2, route, ws...)
			set(b, 1, y) // and both moved again, the other way round
			set(b, 2, x)
			use(b, 1, route, ws...)
			use(b, 2, route, ws...)
			done(b)
			// a second copy taken after the first copy was configured
			b = newB()
			set(b, 1, x)
			cp(b, 2, 1)
			set(b, 2, y)
			cp(b, 3, 1)
			use(b, 3, route, ws...)
			use(b, 1, route, ws...)
			done(b)
		}
		// refused configuration of a copy / of the original
		for _, v := range []int64{31, 0, 1 << 20, -1} {
			b := newB()
			set(b, 1, 10)
			cp(b, 2, 1)
			bad(b, 2, v)
			use(b, 1, route, 10, 11, 12)
			use(b, 2, route, 10, 11)
			bad(b, 1, v)
			use(b, 2, route, 10, 11)
			done(b)
		}
	}
	r.Set("copies_identity_histories", len(cases))
	for _, cell := range []string{"refused here, allowed on a related value", "allowed here, refused on a related value"} {
		if guard[cell] == 0 {
			r.Inconclusive("vacuous: struct-copy stage never ran a call that is %s", cell)
		}
	}
	r.Set("copies_guard_cells", guard)
	var childCases []childCase
	for _, h := range cases {
		if h.child {
			childCases = append(childCases, h)
			continue
		}
		o := execute(h.job())
		h.judge(r, &o, "")
	}
	runChildCases(r, "copies", childCases)

	// ---- recipients (child) --------------------------------------------------
	S := func(id int, v int64) recOp { return recOp{Op: "set", ID: id, Val: v} }
	C := func(id, from int) recOp { return recOp{Op: "copy", ID: id, From: from} }
	W := func(id int) recOp { return recOp{Op: "wrap", ID: id} }
	hists := [][]recOp{
		{S(0, 2), C(1, 0), S(1, 4), W(0), W(1)},
		{S(0, 3), C(1, 0), S(0, 1), W(1), W(0)},
		{S(0, 2), C(1, 0), C(2, 1), S(2, 5), W(0), W(1), W(2)},
		{S(0, 2), W(0), C(1, 0), S(1, 3), W(0), W(1), S(0, 4), W(1), W(0)},
		{S(0, 2), C(1, 0), S(1, 31), W(0), W(1), S(0, 0), W(1), W(0)},
		{S(0, 2), C(1, 0), S(1, 1<<20), W(0), W(1)},
		{S(0, 3), C(1, 0), S(1, 6), C(2, 0), W(2), W(0), W(1)},
		{C(1, 0), S(0, 2), W(0), S(1, 3), W(0), W(1)},
	}
	var recCases []childCase
	for _, ops := range hists {
		recCases = append(recCases, &recHist{ops: ops})
	}
	r.Set("copies_recipient_histories", len(hists))
	runChildCases(r, "copies_recipient", recCases)
}

// recHist is a recipient history over struct copies, executed in the child.
type recHist struct{ ops []recOp }

func (c *recHist) seq() string {
	n := map[int]string{0: "a", 1: "b", 2: "c"}
	var s []string
	for _, op := range c.ops {
		switch op.Op {
		case "set":
			t := fmt.Sprintf("%s.Set(%s)", n[op.ID], illName(op.Val))
			if op.Val < 1 || op.Val > 30 {
				t += "!"
			}
			s = append(s, t)
		case "copy":
			s = append(s, fmt.Sprintf("%s:=*%s", n[op.ID], n[op.From]))
		case "wrap":
			s = append(s, n[op.ID]+".Wrap")
		}
	}
	return "[" + strings.Join(s, ",") + "]"
}

func (c *recHist) key() string { return "recipient-copies:" + c.seq() }
func (c *recHist) slow() bool  { return false }
func (c *recHist) job() *job {
	return &job{Name: c.key(), Pass: passA, Route: "RecipientHistory", RecOps: c.ops}
}

func (c *recHist) judge(r *mon.Run, o *outcome, died string) (violated bool) {
	r.Eval(1)
	r.Distinct("copies:" + c.key())
	r.Tab("history_scenario_x_where", "copies-recipient child")
	replay := map[string]any{"side": "copies-recipient", "operations": c.seq(), "passphrase": passA}
	if died != "" {
		rep.violate(pendingViolation{"copy-recipient-wrong-factor/died", "copy-recipient-died:" + c.key(),
			"the process under the memory limit died (twice) during the recipient history " + c.seq() + ": " + firstLines(died, 3), replay})
		return true
	}
	if len(o.Sub) != len(c.ops) {
		r.Inconclusive("recipient history %s: %d outcomes for %d operations (%s)", c.seq(), len(o.Sub), len(c.ops), o.Err)
		return false
	}
	n := map[int]string{0: "a", 1: "b", 2: "c"}
	cur := map[int]int{0: 18}
	for i, op := range c.ops {
		so := &o.Sub[i]
		switch op.Op {
		case "copy":
			cur[op.ID] = cur[op.From]
		case "set":
			ill := op.Val < 1 || op.Val > 30
			p := len(so.CfgPanicked) == 1 && so.CfgPanicked[0]
			switch {
			case ill && !p:
				rep.violate(pendingViolation{"config-illegal-value-accepted/recipient", fmt.Sprintf("config-illegal-value-accepted:recipient:SetWorkFactor(%s)", illName(op.Val)),
					fmt.Sprintf("SetWorkFactor(%s) did not panic (history %s)", illName(op.Val), c.seq()), replay})
				violated = true
			case !ill && p:
				r.Inconclusive("control: SetWorkFactor(%d) panicked (history %s)", op.Val, c.seq())
				return violated
			case !ill:
				cur[op.ID] = int(op.Val)
			}
		case "wrap":
			want := cur[op.ID]
			k := fmt.Sprintf("copy-recipient-wrong-factor:%s:op=%d:%s.Wrap", c.seq(), i, n[op.ID])
			fail := func(what string) {
				rep.violate(pendingViolation{"copy-recipient-wrong-factor", k,
					fmt.Sprintf("in the history %s, operation %d (%s.Wrap) must seal at that value's own work factor %d: %s", c.seq(), i, n[op.ID], want, what), replay})
				violated = true
			}
			if so.Panic != "" {
				fail("Encrypt panicked: " + firstLines(so.Panic, 1))
				continue
			}
			if !so.Accepted {
				fail("Encrypt failed: " + so.Err)
				continue
			}
			hdr, _, err := refage.ParseHeader(so.Plain)
			if err != nil || len(hdr.Stanzas) != 1 || hdr.Stanzas[0].Type != "scrypt" || len(hdr.Stanzas[0].Args) != 2 {
				fail(fmt.Sprintf("no lone scrypt stanza in the file (%v)", err))
				continue
			}
			if got := hdr.Stanzas[0].Args[1]; got != fmt.Sprint(want) {
				fail(fmt.Sprintf("the stanza says work factor %q", got))
				continue
			}
			if want <= 12 {
				if op2, err := refage.Decrypt(so.Plain, refage.ScryptKey{Pass: passA, MaxLogN: 22}); err != nil || string(op2.Plaintext) != "recipient configuration" {
					fail(fmt.Sprintf("the reference cannot open the file: %v", err))
					continue
				}
			}
			r.Count("copies_recipient_wraps_as_model", 1)
		}
	}
	if !violated {
		r.SampleN("copies-recipient", 1, map[string]any{"side": "copies-recipient", "operations": c.seq()})
	}
	return violated
}
