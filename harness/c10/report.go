package main

import (
	"fmt"
	"sort"

	"filippo.io/age/zverif/mon"
)

// A broken tree typically fails hundreds of enumerated cases of one class.
// Violations are therefore listed individually (own key, own replay file) only
// up to listCap per class, in enumeration order so that the listed set is the
// same on every run; the remainder of a class is reported by one further
// violation "<class>:and-more" carrying the count, so nothing is dropped
// silently and the exit status does not depend on which cases were listed.
const listCap = 12

type pendingViolation struct {
	class, key, what string
	replay           any
}

type reporter struct {
	r      *mon.Run
	listed map[string]int
	more   map[string]int
	first  map[string]string
	seen   map[string]bool // keys already handled: a repeat neither uses up the listing cap nor counts as "more"
}

func newReporter(r *mon.Run) *reporter {
	return &reporter{r: r, listed: map[string]int{}, more: map[string]int{}, first: map[string]string{}, seen: map[string]bool{}}
}

// violate must be called from one goroutine, in enumeration order.
func (rp *reporter) violate(v pendingViolation) {
	if rp.seen[v.key] {
		rp.r.Count("violations_repeated", 1)
		return
	}
	rp.seen[v.key] = true
	if rp.listed[v.class] < listCap {
		rp.listed[v.class]++
		rp.r.Violate(v.key, v.what, v.replay)
		return
	}
	if rp.more[v.class] == 0 {
		rp.first[v.class] = v.key
	}
	rp.more[v.class]++
	rp.r.Count("violations_not_listed_individually", 1)
}

// flush reports what the workers of a parallel phase collected, slot by slot.
func (rp *reporter) flush(slots [][]pendingViolation) {
	for _, s := range slots {
		for _, v := range s {
			rp.violate(v)
		}
	}
}

func (rp *reporter) finish() {
	classes := make([]string, 0, len(rp.more))
	for c := range rp.more {
		classes = append(classes, c)
	}
	sort.Strings(classes)
	for _, c := range classes {
		rp.r.Violate(c+":and-more", fmt.Sprintf("%d further cases of class %q violated in the same way and are not listed individually (first of them: %s)", rp.more[c], c, rp.first[c]),
			map[string]any{"class": c, "not_listed": rp.more[c], "first_not_listed": rp.first[c]})
	}
}
