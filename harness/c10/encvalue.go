package main

import (
	"fmt"
	"strconv"
	"strings"

	"filippo.io/age"
	"filippo.io/age/zverif/keys"
	"filippo.io/age/zverif/mon"
)

// Encryption sweep with VALUE IDENTITY and HISTORY of the passphrase
// recipients as dimensions (the list sweep of encryptSide shares a few
// long-lived recipient objects between thousands of parallel cases, so it
// never holds two passphrase recipient values in the same state).
//
// Every case builds its own fresh recipient objects:
//
//	a  the same object repeated
//	b  distinct fresh objects, same passphrase
//	c  distinct fresh objects, different passphrases
//	d  distinct objects first brought to equal use counts (k = 1, 2, 3
//	   successful lone encryptions each)
//	e  one used object, the others fresh
//
// and an adversarial harness-defined age.RecipientWithLabels next to one real
// passphrase recipient, announcing labels built only from information of
// EARLIER calls:
//
//	i    the labels a probe ScryptRecipient of its own returned just before
//	ii   the labels the very passphrase recipient of the list returned in a
//	     previous Encrypt call (recorded by a delegating spy recipient)
//	iii  guesses derived from those (same prefix, counter moved by 1 or 2;
//	     last hex digit moved)
//
// Oracle (as the property states): Encrypt refuses, and dst received nothing.

type evCase struct {
	variant string // a..e, i, ii, iii
	name    string // stable description, also the key
	n       int
	build   func() (recs []age.Recipient, rest []age.Recipient, err error)
}

// adversary announces fixed labels and wraps the file key for X1, so that an
// accepted list really yields a "passphrase file" a key holder can open too.
type adversary struct {
	inner  age.Recipient
	labels func() []string
}

func (a *adversary) Wrap(fileKey []byte) ([]*age.Stanza, error) { return a.inner.Wrap(fileKey) }

func (a *adversary) WrapWithLabels(fileKey []byte) ([]*age.Stanza, []string, error) {
	st, err := a.inner.Wrap(fileKey)
	return st, a.labels(), err
}

// spy delegates to a passphrase recipient and records the labels it returns.
type spy struct {
	inner *age.ScryptRecipient
	seen  [][]string
}

func (s *spy) Wrap(fileKey []byte) ([]*age.Stanza, error) { return s.inner.Wrap(fileKey) }

func (s *spy) WrapWithLabels(fileKey []byte) ([]*age.Stanza, []string, error) {
	st, l, err := s.inner.WrapWithLabels(fileKey)
	s.seen = append(s.seen, append([]string(nil), l...))
	return st, l, err
}

// useAlone performs k successful lone encryptions with s.
func useAlone(s *age.ScryptRecipient, k int) error {
	for i := 0; i < k; i++ {
		ow := &mon.ObservingWriter{}
		w, err := age.Encrypt(ow, s)
		if err != nil {
			return fmt.Errorf("lone encryption %d refused: %v", i+1, err)
		}
		if _, err := w.Write([]byte("x")); err != nil {
			return err
		}
		if err := w.Close(); err != nil {
			return err
		}
		if ow.Len() == 0 {
			return fmt.Errorf("lone encryption %d wrote nothing", i+1)
		}
	}
	return nil
}

// probeLabels asks a fresh passphrase recipient of the adversary's own for
// labels `calls` times and returns the last answer.
func probeLabels(calls int) []string {
	p := keys.ScryptRecipient("adversary's own passphrase", 1)
	var l []string
	for i := 0; i < calls; i++ {
		_, l, _ = p.WrapWithLabels(make([]byte, 16))
	}
	return l
}

// guesses derives label sets from an observed one: trailing decimal counter
// moved by d, or (no counter) the last hex digit moved by d.
func guess(obs []string, d int) []string {
	out := make([]string, len(obs))
	for i, l := range obs {
		j := len(l)
		for j > 0 && l[j-1] >= '0' && l[j-1] <= '9' {
			j--
		}
		if sep := j > 0 && j < len(l) && strings.ContainsRune("-_.:/#", rune(l[j-1])); sep {
			if n, err := strconv.ParseInt(l[j:], 10, 64); err == nil && n+int64(d) >= 0 {
				out[i] = l[:j] + strconv.FormatInt(n+int64(d), 10)
				continue
			}
		}
		if l == "" {
			out[i] = l
			continue
		}
		const hexd = "0123456789abcdef"
		k := strings.IndexByte(hexd, l[len(l)-1])
		if k < 0 {
			out[i] = l + strconv.Itoa(d)
			continue
		}
		out[i] = l[:len(l)-1] + string(hexd[((k+d)%16+16)%16])
	}
	return out
}

func encryptValueSide(r *mon.Run) {
	fill := []string{"X1", "U1"}
	if r.Thorough() {
		fill = []string{"X1", "U1", "E1", "R1"}
	}
	var cases []evCase

	// ---- value identity and history among passphrase recipients --------------
	type valueVariant struct {
		v, name string
		mk      func(m int) ([]*age.ScryptRecipient, error) // the m passphrase recipients of a list
	}
	fresh := func(pass string) *age.ScryptRecipient { return keys.ScryptRecipient(pass, 1) }
	variants := []valueVariant{
		{"a", "same-object", func(m int) ([]*age.ScryptRecipient, error) {
			s := fresh(passA)
			out := make([]*age.ScryptRecipient, m)
			for i := range out {
				out[i] = s
			}
			return out, nil
		}},
		{"b", "distinct-fresh-same-passphrase", func(m int) ([]*age.ScryptRecipient, error) {
			out := make([]*age.ScryptRecipient, m)
			for i := range out {
				out[i] = fresh(passA)
			}
			return out, nil
		}},
		{"c", "distinct-fresh-different-passphrases", func(m int) ([]*age.ScryptRecipient, error) {
			out := make([]*age.ScryptRecipient, m)
			for i := range out {
				out[i] = fresh(fmt.Sprintf("%s #%d", passA, i))
			}
			return out, nil
		}},
	}
	for _, k := range []int{1, 2, 3} {
		k := k
		variants = append(variants, valueVariant{"d", fmt.Sprintf("distinct-each-used-%d-times", k), func(m int) ([]*age.ScryptRecipient, error) {
			out := make([]*age.ScryptRecipient, m)
			for i := range out {
				out[i] = fresh(fmt.Sprintf("%s #%d", passA, i))
				if err := useAlone(out[i], k); err != nil {
					return nil, err
				}
			}
			return out, nil
		}})
	}
	for _, k := range []int{1, 2} {
		for _, which := range []string{"first", "last"} {
			k, which := k, which
			variants = append(variants, valueVariant{"e", fmt.Sprintf("%s-used-%d-times-others-fresh", which, k), func(m int) ([]*age.ScryptRecipient, error) {
				out := make([]*age.ScryptRecipient, m)
				for i := range out {
					out[i] = fresh(fmt.Sprintf("%s #%d", passA, i))
				}
				u := out[0]
				if which == "last" {
					u = out[m-1]
				}
				return out, useAlone(u, k)
			}})
		}
	}
	// list shapes: n = 2..4, the positions holding passphrase recipients (>= 2
	// of them), every filling of the remaining positions
	type shape struct {
		slots []string // "S" or a filler name
	}
	var shapes []shape
	maxN := r.Pick(4, 5)
	var genShape func(n int, cur []string, ns int)
	genShape = func(n int, cur []string, ns int) {
		if len(cur) == n {
			if ns >= 2 {
				shapes = append(shapes, shape{append([]string(nil), cur...)})
			}
			return
		}
		genShape(n, append(cur, "S"), ns+1)
		for _, f := range fill {
			genShape(n, append(cur, f), ns)
		}
	}
	for n := 2; n <= maxN; n++ {
		genShape(n, nil, 0)
	}
	for _, sh := range shapes {
		for _, vv := range variants {
			sh, vv := sh, vv
			cases = append(cases, evCase{variant: vv.v, n: len(sh.slots),
				name: fmt.Sprintf("values=%s:[%s]", vv.name, strings.Join(sh.slots, ",")),
				build: func() ([]age.Recipient, []age.Recipient, error) {
					m := strings.Count(strings.Join(sh.slots, ","), "S")
					ss, err := vv.mk(m)
					if err != nil {
						return nil, nil, err
					}
					var recs, rest []age.Recipient
					for _, s := range sh.slots {
						if s == "S" {
							recs = append(recs, ss[0])
							ss = ss[1:]
						} else {
							recs = append(recs, keys.P(s).Recipient)
							rest = append(rest, keys.P(s).Recipient)
						}
					}
					return recs, rest, nil
				}})
		}
	}

	// ---- adversarial recipient next to one real passphrase recipient ----------
	type advVariant struct {
		v, name string
		labels  func(victim *age.ScryptRecipient) (func() []string, error) // prepared before the Encrypt under test
	}
	var advs []advVariant
	for _, calls := range []int{1, 2, 3} {
		calls := calls
		advs = append(advs, advVariant{"i", fmt.Sprintf("echo-probe-after-%d-probe-calls", calls), func(*age.ScryptRecipient) (func() []string, error) {
			// asked just before the Encrypt call under test, from a recipient
			// value of the adversary's own
			l := probeLabels(calls)
			return func() []string { return l }, nil
		}})
	}
	observe := func(victim *age.ScryptRecipient) ([]string, error) {
		sp := &spy{inner: victim}
		ow := &mon.ObservingWriter{}
		if _, err := age.Encrypt(ow, sp); err != nil {
			return nil, fmt.Errorf("lone encryption through the spy refused: %v", err)
		}
		if len(sp.seen) != 1 {
			return nil, fmt.Errorf("spy saw %d label sets", len(sp.seen))
		}
		return sp.seen[0], nil
	}
	advs = append(advs, advVariant{"ii", "echo-victims-previous-labels", func(victim *age.ScryptRecipient) (func() []string, error) {
		l, err := observe(victim)
		return func() []string { return l }, err
	}})
	for _, d := range []int{1, -1, 2} {
		d := d
		advs = append(advs, advVariant{"iii", fmt.Sprintf("guess-from-victims-previous-labels%+d", d), func(victim *age.ScryptRecipient) (func() []string, error) {
			l, err := observe(victim)
			g := guess(l, d)
			return func() []string { return g }, err
		}})
		advs = append(advs, advVariant{"iii", fmt.Sprintf("guess-from-probe%+d", d), func(*age.ScryptRecipient) (func() []string, error) {
			l := guess(probeLabels(1), d)
			return func() []string { return l }, nil
		}})
	}
	for n := 2; n <= 4; n++ {
		for vpos := 0; vpos < n; vpos++ {
			for _, restKind := range []string{"A", "X1"} { // remaining positions: more adversaries, or an ordinary recipient
				if n == 2 && restKind == "X1" {
					continue
				}
				for _, used := range []int{0, 1, 2} {
					for _, av := range advs {
						n, vpos, restKind, used, av := n, vpos, restKind, used, av
						slots := make([]string, n)
						apos := (vpos + 1) % n
						for k := range slots {
							switch {
							case k == vpos:
								slots[k] = "S"
							case k == apos:
								slots[k] = "A"
							default:
								slots[k] = restKind
							}
						}
						cases = append(cases, evCase{variant: av.v, n: n,
							name: fmt.Sprintf("adversary=%s:victim-used=%d:[%s]", av.name, used, strings.Join(slots, ",")),
							build: func() ([]age.Recipient, []age.Recipient, error) {
								victim := fresh(passA)
								if err := useAlone(victim, used); err != nil {
									return nil, nil, err
								}
								lf, err := av.labels(victim)
								if err != nil {
									return nil, nil, err
								}
								var recs, rest []age.Recipient
								for _, s := range slots {
									switch s {
									case "S":
										recs = append(recs, victim)
									case "A":
										a := &adversary{inner: keys.P("X1").Recipient, labels: lf}
										recs = append(recs, a)
										rest = append(rest, a)
									default:
										recs = append(recs, keys.P(s).Recipient)
									}
								}
								if restKind != "A" {
									rest = nil // adversaries and ordinary recipients do not agree among themselves
								}
								return recs, rest, nil
							}})
					}
				}
			}
		}
	}

	r.Set("encrypt_value_cases", len(cases))
	pend := make([][]pendingViolation, len(cases))
	ran := make([]bool, len(cases))
	mon.Par(len(cases), func(i int) {
		c := cases[i]
		r.Guard("encrypt-values:"+c.name, func() {
			recs, rest, err := c.build()
			if err != nil {
				r.Inconclusive("control: preparing %s failed: %v", c.name, err)
				return
			}
			ow := &mon.ObservingWriter{}
			_, eerr := age.Encrypt(ow, recs...)
			r.Eval(1)
			r.Distinct("encrypt-values:" + c.name)
			r.Tab("encrypt_values_variant_x_len", fmt.Sprintf("%s n=%d", c.variant, c.n))
			ran[i] = true
			replay := map[string]any{"side": "encrypt-values", "case": c.name, "variant": c.variant, "passphrase_work_factor": 1}
			cls := fmt.Sprintf("%s/n=%d", c.variant, c.n)
			switch {
			case eerr == nil:
				pend[i] = append(pend[i], pendingViolation{"encrypt-accepted/" + cls, "encrypt-accepted:" + c.name,
					fmt.Sprintf("age.Encrypt accepted a list in which a passphrase recipient stands with other recipients: %s (%d bytes written)", c.name, ow.Len()), replay})
			case ow.Len() != 0:
				pend[i] = append(pend[i], pendingViolation{"encrypt-wrote-on-refusal/" + cls, "encrypt-wrote-on-refusal:" + c.name,
					fmt.Sprintf("age.Encrypt refused %s (%v) after writing %d bytes to dst", c.name, eerr, ow.Len()), replay})
			default:
				r.Count("encrypt_values_refused_zero_bytes", 1)
			}
			r.SampleN("encrypt-values-"+c.variant, 1, map[string]any{"side": "encrypt-values", "case": c.name, "error": fmt.Sprint(eerr), "bytes_written": ow.Len()})
			if len(rest) > 0 {
				if _, cerr := age.Encrypt(&mon.ObservingWriter{}, rest...); cerr != nil {
					r.Inconclusive("control: %s without its passphrase recipients is refused too: %v", c.name, cerr)
				} else {
					r.Count("encrypt_values_control_rest_ok", 1)
				}
			}
		})
	})
	rep.flush(pend)

	// vacuity guard: every variant b..e and i..iii at every list length 2..4
	cover := map[string]int{}
	for i, c := range cases {
		if ran[i] {
			cover[fmt.Sprintf("%s n=%d", c.variant, c.n)]++
		}
	}
	for _, v := range []string{"b", "c", "d", "e", "i", "ii", "iii"} {
		for n := 2; n <= 4; n++ {
			if cover[fmt.Sprintf("%s n=%d", v, n)] == 0 {
				r.Inconclusive("vacuous: encryption variant (%s) never ran at list length %d", v, n)
			}
		}
	}
}
