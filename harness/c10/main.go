// C10 — passphrase files stand alone and bound the work they demand.
//
// Library-level monitor (the CLI/pty part of DESIGN §4 C10 lives elsewhere):
//
//	encrypt   S (a passphrase recipient) at every position in lists of 2..4
//	          over {X, E, R, U, a second passphrase recipient, an equal one,
//	          the same one again}: age.Encrypt must fail and dst must have
//	          received 0 bytes.
//	stanzas   headers built by refage (valid MAC, right passphrase, valid
//	          payload) with the scrypt stanza at every position among 1..4
//	          stanzas: ScryptIdentity.Unwrap and age.Decrypt must fail unless
//	          the stanza is alone.
//	work      for every configured maximum M every work factor 1..15 (18) sealed
//	          genuinely (a file key may come back only if <= M), a list of
//	          non-canonical work-factor strings attached to stanzas genuinely
//	          sealed at 10 (and at the value a lenient parser would read), and,
//	          in a child process under an address-space limit, over-limit
//	          values 16..33 and overflowing decimals. Every rejection whose
//	          avoided derivation is >= 1 MiB carries an alloc-meter reading
//	          (TotalAlloc delta, single-threaded): it must stay below 256 KiB.
package main

import (
	"bytes"
	"fmt"
	"os"
	"strings"
	"sync"
	"time"

	"filippo.io/age"
	"filippo.io/age/zverif/ax"
	"filippo.io/age/zverif/keys"
	"filippo.io/age/zverif/mon"
	"filippo.io/age/zverif/refage"
)

const (
	passA = "c10 right passphrase"
	passB = "c10 another passphrase"

	rejectThreshold = 256 << 10 // a rejection must allocate less than this
	meterFloor      = 10        // work factor from which "no derivation" is claimed (>= 1 MiB avoided)
)

// inProcMax is the largest work factor a broken tree may be led to derive
// inside the monitor process: 15 (32 MiB) in quick, 18 (256 MiB) in thorough.
// Anything that could be read as a larger one is offered only in the child.
var inProcMax = 15

func main() {
	if os.Getenv(childEnv) != "" {
		childMain()
		return
	}
	r := mon.Start("C10", "exploration")
	r.Rule = "case = (side, configuration, route): encrypt = literal recipient list; stanzas = (stanza kinds in order, position of the passphrase stanza, identity, route); " +
		"work = (configured maximum, work-factor argument, work factor the stanza was really sealed at, route); history = (route of the earlier successful call, route, same / other identity object, configured maximum, bad step: rewritten argument | lowered maximum | stanza among others). non-trivial = the real Encrypt / ScryptIdentity.Unwrap / Decrypt " +
		"was executed on it and its result (and, where claimed, its alloc-meter reading) was compared with the model; distinct by that tuple"
	r.Assumptions = []string{
		"the CLI route (age -d on a pty, LazyScryptIdentity) is exercised on a small set of reference-built files: no prompt for a non-lone passphrase stanza, clean refusal of over-limit and non-canonical work factors under an address-space limit",
		"'without deriving a key' is measured only where the avoided derivation is >= 1 MiB (offered or sealed work factor >= 10): TotalAlloc delta < 256 KiB; below that the functional half (no file key although the passphrase is right) decides alone",
		"histories on one identity value are short (one success, one to eight bad steps, one success) plus seeded 16-step mixtures; longer or differently ordered histories are not explored",
		"headers have 1..4 stanzas (1..5 in thorough); recipient lists 2..4 (2..5 in thorough)",
		"over-limit work factors are explored up to 33 plus overflowing decimals; values above 15 (quick) / 18 (thorough) are attached to a stanza sealed at 10 and run in a child under RLIMIT_AS",
		"acceptance of work factors <= maximum is a control (it shows the passphrase and header are right), not part of the property: a failing control makes the run inconclusive",
	}
	r.MinEvals, r.MinDistinct = int64(r.Pick(8000, 70000)), r.Pick(7000, 65000)
	inProcMax = r.Pick(15, 18)

	if n, err := refage.SelfCheck(); err != nil {
		fmt.Fprintf(os.Stderr, "INCONCLUSIVE: refage self-check failed after %d vectors: %v\n", n, err)
		os.Exit(2)
	}

	rep = newReporter(r)
	encryptSide(r)
	encryptValueSide(r)
	encryptLongSide(r)
	wrappersSide(r)
	stanzaSide(r)
	// The metered part runs alone: every worker of the parallel parts above has
	// returned (mon.Par waits), nothing else allocates.
	workSide(r)
	cliSide(r)
	rep.finish()
	r.Finish()
}

var rep *reporter

// ---------------------------------------------------------------------------
// encrypt side

type encItem struct {
	name string
	rec  age.Recipient
}

func encryptSide(r *mon.Run) {
	s0 := keys.ScryptRecipient(passA, 1)
	others := []encItem{
		{"X1", keys.P("X1").Recipient},
		{"E1", keys.P("E1").Recipient},
		{"R1", keys.P("R1").Recipient},
		{"U1", keys.P("U1").Recipient},
		{"S'", keys.ScryptRecipient(passB, 1)}, // a second passphrase recipient
		{"S~", keys.ScryptRecipient(passA, 1)}, // another object with the same passphrase
		{"S", s0},                              // the very same recipient again
	}
	if r.Thorough() {
		others = append(others,
			encItem{"X2", keys.P("X2").Recipient}, encItem{"U0", keys.P("U0").Recipient},
			encItem{"U2", keys.P("U2").Recipient}, encItem{"R2", keys.P("R2").Recipient},
			encItem{"S9", keys.ScryptRecipient(passA, 9)})
	}
	maxLen := 4
	var lists [][]encItem
	var gen func(n, pos int, cur []encItem)
	gen = func(n, pos int, cur []encItem) {
		if len(cur) == n {
			lists = append(lists, append([]encItem(nil), cur...))
			return
		}
		if len(cur) == pos {
			gen(n, pos, append(cur, encItem{"S", s0}))
			return
		}
		for _, o := range others {
			gen(n, pos, append(cur, o))
		}
	}
	for n := 2; n <= maxLen; n++ {
		for pos := 0; pos < n; pos++ {
			gen(n, pos, nil)
		}
	}
	if r.Thorough() {
		// lists of 5: S at every position, the other four drawn by the seed
		rng := r.RNG("encrypt-5")
		for i := 0; i < 4000; i++ {
			pos := rng.Intn(5)
			var l []encItem
			for k := 0; k < 5; k++ {
				if k == pos {
					l = append(l, encItem{"S", s0})
				} else {
					l = append(l, others[rng.Intn(len(others))])
				}
			}
			lists = append(lists, l)
		}
	}
	// de-duplicate (S standing for "the same one" makes some lists coincide)
	seen := map[string]bool{}
	uniq := lists[:0]
	for _, l := range lists {
		k := names(l)
		if !seen[k] {
			seen[k] = true
			uniq = append(uniq, l)
		}
	}
	lists = uniq
	r.Set("encrypt_lists", len(lists))

	// controls: S alone is accepted; every list with its passphrase recipients
	// removed is accepted (so the refusal is due to the passphrase recipient).
	ctl, err := ax.Encrypt([]byte("control"), false, s0)
	r.Eval(1)
	if err != nil {
		r.Inconclusive("control: Encrypt to the passphrase recipient alone failed: %v", err)
	} else if res := ax.DecryptBytes(ctl, false, keys.ScryptIdentity(passA, 5)); !res.Clean() || string(res.Plain) != "control" {
		r.Inconclusive("control: file for the passphrase recipient alone does not decrypt: %s", res)
	} else {
		r.Count("encrypt_control_alone_ok", 1)
	}

	pend := make([][]pendingViolation, len(lists))
	defer func() { rep.flush(pend) }()
	mon.Par(len(lists), func(i int) {
		l := lists[i]
		key := names(l)
		r.Guard("encrypt:"+key, func() {
			recs := make([]age.Recipient, len(l))
			var rest []age.Recipient
			pos := -1
			for k, it := range l {
				recs[k] = it.rec
				if strings.HasPrefix(it.name, "S") {
					if it.rec == age.Recipient(s0) && pos < 0 {
						pos = k
					}
				} else {
					rest = append(rest, it.rec)
				}
			}
			ow := &mon.ObservingWriter{}
			w, err := age.Encrypt(ow, recs...)
			r.Eval(1)
			r.Distinct("encrypt:" + key)
			r.Tab("encrypt_len_x_pos", fmt.Sprintf("n=%d pos=%d", len(l), pos))
			for _, it := range l[0:] {
				r.Tab("encrypt_companions", it.name)
			}
			replay := map[string]any{"side": "encrypt", "list": key, "passphrase_work_factor": 1}
			if err == nil {
				pend[i] = append(pend[i], pendingViolation{fmt.Sprintf("encrypt-accepted/n=%d", len(l)), "encrypt-accepted:" + key,
					fmt.Sprintf("age.Encrypt accepted the recipient list %s, which contains a passphrase recipient together with other recipients (%d bytes written)", key, ow.Len()), replay})
				_ = w
			} else if ow.Len() != 0 {
				pend[i] = append(pend[i], pendingViolation{fmt.Sprintf("encrypt-wrote-on-refusal/n=%d", len(l)), "encrypt-wrote-on-refusal:" + key,
					fmt.Sprintf("age.Encrypt refused %s (%v) but had already written %d bytes to dst", key, err, ow.Len()), replay})
			} else {
				r.Count("encrypt_refused_zero_bytes", 1)
			}
			r.SampleN("encrypt", 2, map[string]any{"side": "encrypt", "list": key, "error": fmt.Sprint(err), "bytes_written": ow.Len()})
			if len(rest) > 0 {
				if _, cerr := age.Encrypt(&mon.ObservingWriter{}, rest...); cerr != nil {
					r.Inconclusive("control: list %s without its passphrase recipients is refused too: %v", key, cerr)
				} else {
					r.Count("encrypt_control_rest_ok", 1)
				}
			}
		})
	})
}

func names(l []encItem) string {
	s := make([]string, len(l))
	for i, it := range l {
		s[i] = it.name
	}
	return "[" + strings.Join(s, ",") + "]"
}

// ---------------------------------------------------------------------------
// stanza side

type msCase struct {
	kinds []string // "S" marks the passphrase stanza under test
	pos   int
}

func stanzaSide(r *mon.Run) {
	// Neighbour alphabet. Ss: second scrypt stanza, same passphrase; Sd:
	// different passphrase; then the resource-degenerate neighbours: U0 = what
	// keys.P("U0") emits (type grease-verif, no arguments, nil body), Ea = empty
	// body with arguments only, La = arguments only with one long argument,
	// B1 = body of one byte.
	kinds := []string{"X", "U", "Ss", "Sd", "U0", "Ea", "La", "B1"}
	maxN := 4
	if r.Thorough() {
		kinds = append(kinds, "E", "R")
		maxN = 5
	}
	emptyBody := map[string]bool{"U0": true, "Ea": true, "La": true}
	var guardMu sync.Mutex
	guard := map[string]int{} // empty-body-neighbour classes exercised through age.Decrypt
	var cases []msCase
	var gen func(n, pos int, cur []string)
	gen = func(n, pos int, cur []string) {
		if len(cur) == n {
			cases = append(cases, msCase{append([]string(nil), cur...), pos})
			return
		}
		if len(cur) == pos {
			gen(n, pos, append(cur, "S"))
			return
		}
		for _, k := range kinds {
			gen(n, pos, append(cur, k))
		}
	}
	for n := 1; n <= maxN; n++ {
		for pos := 0; pos < n; pos++ {
			gen(n, pos, nil)
		}
	}
	r.Set("stanza_headers", len(cases))
	x1 := keys.NewX("X1")
	ed := keys.LoadEd("ed1")
	rs := keys.LoadRSA("rsa1")

	pend := make([][]pendingViolation, len(cases))
	defer func() { rep.flush(pend) }()
	mon.Par(len(cases), func(i int) {
		c := cases[i]
		label := "[" + strings.Join(c.kinds, ",") + "]"
		r.Guard("stanzas:"+label, func() {
			tag := fmt.Sprintf("c10-ms-%s-%d", label, c.pos)
			fk := mon.DetBytes(tag+"-fk", 16)
			pt := mon.DetBytes(tag+"-pt", 40)
			var st []refage.Stanza
			hasX, hasSd := false, false
			for k, kind := range c.kinds {
				salt := mon.DetBytes(fmt.Sprintf("%s-salt-%d", tag, k), 16)
				switch kind {
				case "S", "Ss":
					st = append(st, refage.ScryptWrap(fk, passA, salt, 4))
				case "Sd":
					hasSd = true
					st = append(st, refage.ScryptWrap(fk, passB, salt, 3))
				case "X":
					hasX = true
					s, err := refage.X25519Wrap(fk, x1.Public, mon.DetBytes(fmt.Sprintf("%s-eph-%d", tag, k), 32))
					if err != nil {
						panic(err)
					}
					st = append(st, s)
				case "E":
					s, err := refage.SSHEd25519Wrap(fk, ed.Pub, mon.DetBytes(fmt.Sprintf("%s-eph-%d", tag, k), 32))
					if err != nil {
						panic(err)
					}
					st = append(st, s)
				case "R":
					s, err := refage.SSHRSAWrap(fk, &rs.Priv.PublicKey, mon.NewDetStream(fmt.Sprintf("%s-oaep-%d", tag, k)))
					if err != nil {
						panic(err)
					}
					st = append(st, s)
				case "U":
					st = append(st, refage.Stanza{Type: "unknown-1", Args: []string{"a", "bb"}, Body: mon.DetBytes(tag+"-u", 32)})
				case "U0":
					st = append(st, refage.Stanza{Type: "grease-verif"})
				case "Ea":
					st = append(st, refage.Stanza{Type: "empty-args", Args: []string{"a", "bb"}})
				case "La":
					st = append(st, refage.Stanza{Type: "long-arg", Args: []string{strings.Repeat("A", 3000)}})
				case "B1":
					st = append(st, refage.Stanza{Type: "one-byte", Args: []string{"x"}, Body: []byte{0x42}})
				}
			}
			file := refage.BuildFile(fk, st, mon.DetBytes(tag+"-nonce", 16), pt)
			alone := len(c.kinds) == 1

			// control: the header is one the tree can open when the rule does
			// not apply (X identity ignores scrypt stanzas).
			if hasX {
				res := ax.DecryptBytes(file, false, x1.Identity())
				if !res.Clean() || !bytes.Equal(res.Plain, pt) {
					r.Inconclusive("control: header %s built by the reference does not open with its X25519 identity: %s", label, res)
				} else {
					r.Count("stanza_control_x_opens", 1)
				}
			}
			ids := []struct{ name, pass string }{{"A", passA}}
			if hasSd {
				ids = append(ids, struct{ name, pass string }{"B", passB})
			}
			for _, id := range ids {
				for _, route := range []string{"Unwrap", "Decrypt"} {
					j := &job{Name: label, Pass: id.pass, Max: 10, Route: route, Stanzas: st, File: file}
					o := execute(j)
					r.Eval(1)
					key := fmt.Sprintf("%s:id=%s:%s", route, id.name, label)
					r.Distinct("stanzas:" + key)
					r.Tab("stanzas_n_x_pos", fmt.Sprintf("n=%d pos=%d", len(c.kinds), c.pos))
					r.Tab("stanzas_route", route)
					replay := map[string]any{"side": "stanzas", "kinds": c.kinds, "pos": c.pos, "identity_passphrase": id.pass, "route": route,
						"file": file, "file_key": fk, "scrypt_work_factor": 4}
					if o.Panic != "" {
						pend[i] = append(pend[i], pendingViolation{"panic/stanzas", "panic:stanzas:" + key, o.Panic, replay})
						continue
					}
					if alone {
						if !acceptedRight(&o, route, fk, pt) {
							r.Inconclusive("control: a lone scrypt stanza with the right passphrase was not opened (%s): %s", key, o.Err)
						} else {
							r.Count("stanza_control_alone_opens", 1)
						}
						continue
					}
					// which empty-body-neighbour class this header belongs to
					nbClass, nbKind := "other", ""
					if allEmpty, same := neighbourClass(c.kinds, emptyBody); allEmpty {
						nbClass, nbKind = "only-empty-body-neighbours", same
					}
					if route == "Decrypt" && id.name == "A" && nbClass != "other" {
						guardMu.Lock()
						guard[fmt.Sprintf("any n=%d pos=%d", len(c.kinds), c.pos)]++
						if nbKind != "" {
							guard[fmt.Sprintf("%s n=%d pos=%d", nbKind, len(c.kinds), c.pos)]++
						}
						guardMu.Unlock()
						r.Tab("stanzas_empty_body_neighbours_only", fmt.Sprintf("n=%d pos=%d", len(c.kinds), c.pos))
					}
					if o.Accepted {
						pend[i] = append(pend[i], pendingViolation{fmt.Sprintf("multi-stanza-accepted/n=%d/%s", len(c.kinds), nbClass), "multi-stanza-accepted:" + key,
							fmt.Sprintf("passphrase identity %s through %s returned a file key for the %d-stanza header %s (passphrase stanza at position %d is not alone)",
								id.name, route, len(c.kinds), label, c.pos), replay})
					} else {
						r.Count("stanza_rejected", 1)
						r.Tab("stanzas_error", errClass(o.Err))
					}
					r.SampleN("stanzas-"+route, 2, map[string]any{"side": "stanzas", "header": label, "identity": id.name, "route": route, "error": o.Err})
				}
			}
		})
	})

	// Vacuity guard: the "stands alone" rule must have been exercised through
	// age.Decrypt with nothing but empty-body neighbours (and with each kind
	// of empty-body neighbour on its own) at every position of the passphrase
	// stanza, for every header length of the sweep up to 4.
	for n := 2; n <= 4; n++ {
		for pos := 0; pos < n; pos++ {
			for _, k := range []string{"any", "U0", "Ea", "La"} {
				if cell := fmt.Sprintf("%s n=%d pos=%d", k, n, pos); guard[cell] == 0 {
					r.Inconclusive("vacuous: no header with only empty-body neighbours (%s) was decided through age.Decrypt", cell)
				}
			}
		}
	}
	r.Set("empty_body_neighbour_cells_exercised", len(guard))
}

// neighbourClass reports whether every neighbour of the passphrase stanza S
// has an empty body, and, if they are all of one kind, that kind.
func neighbourClass(kinds []string, empty map[string]bool) (allEmpty bool, same string) {
	allEmpty = len(kinds) > 1
	for _, k := range kinds {
		if k == "S" {
			continue
		}
		if !empty[k] {
			return false, ""
		}
		if same == "" {
			same = k
		} else if same != k {
			same = "*"
		}
	}
	if same == "*" {
		same = ""
	}
	return allEmpty, same
}

func acceptedRight(o *outcome, route string, fk, pt []byte) bool {
	if !o.Accepted {
		return false
	}
	if route == "Unwrap" {
		return bytes.Equal(o.Key, fk)
	}
	return o.ReadErr == "EOF" && bytes.Equal(o.Plain, pt)
}

func errClass(e string) string {
	for _, s := range []string{"must be the only one", "work factor too large", "work factor encoding invalid", "failed to parse scrypt work factor",
		"invalid scrypt work factor", "no identity matched", "incorrect identity", "failed to read header", "bad header MAC"} {
		if strings.Contains(e, s) {
			return s
		}
	}
	if e == "" {
		return "(none)"
	}
	return "other"
}

// ---------------------------------------------------------------------------
// work-factor side

// sealedStanza is one scrypt stanza (and the file around it) whose body is
// genuinely sealed at work factor sealedAt while its argument reads arg.
type sealedStanza struct {
	arg      string
	sealedAt int
	class    string // canonical | noncanonical | overflow
	st       refage.Stanza
	file     []byte
	fk, pt   []byte
	inHeader bool // arg can be written in a header (non-empty VCHAR string)
	child    bool // must not be offered to the tree inside the monitor process
}

type wfCase struct {
	s     *sealedStanza
	m     int // 0: default maximum (22)
	route string
}

func (c *wfCase) effMax() int {
	if c.m == 0 {
		return 22
	}
	return c.m
}

func (c *wfCase) mName() string {
	if c.m == 0 {
		return "default"
	}
	return fmt.Sprint(c.m)
}

func (c *wfCase) key() string {
	return fmt.Sprintf("%s:M=%s:wf=%q:sealed=%d", c.route, c.mName(), c.s.arg, c.s.sealedAt)
}

// expectAccept: the model. A stanza may be opened iff its argument is a
// canonical positive decimal not above the maximum (and then it was sealed at
// that value, so the right passphrase opens it).
func (c *wfCase) expectAccept() bool {
	v, ok := refage.CanonicalWorkFactor(c.s.arg)
	return ok && v <= c.effMax() && v == c.s.sealedAt
}

// metered: a rejection of this case is claimed to happen without a key
// derivation, because the derivation avoided would cost >= 1 MiB.
func (c *wfCase) metered() bool {
	if v, ok := refage.CanonicalWorkFactor(c.s.arg); ok {
		return v >= meterFloor
	}
	if c.s.class == "overflow" {
		return true
	}
	return c.s.sealedAt >= meterFloor
}

func (c *wfCase) job() *job {
	return &job{Name: c.key(), Pass: passA, Max: c.m, Route: c.route, Stanzas: []refage.Stanza{c.s.st}, File: c.s.file, Meter: true}
}

func vchar(s string) bool {
	if s == "" {
		return false
	}
	for i := 0; i < len(s); i++ {
		if s[i] < 33 || s[i] > 126 {
			return false
		}
	}
	return true
}

func workSide(r *mon.Run) {
	maxima := []int{1, 2, 5, 8, 10, 12, 22, 0, 30}
	if r.Thorough() {
		maxima = []int{1, 2, 3, 4, 5, 6, 7, 8, 9, 10, 11, 12, 13, 14, 15, 16, 18, 20, 22, 0, 25, 29, 30}
	}

	// --- stanzas -----------------------------------------------------------
	var specs []*sealedStanza
	have := map[string]bool{}
	add := func(arg string, sealedAt int, class string, child bool) {
		k := fmt.Sprintf("%q/%d", arg, sealedAt)
		if have[k] {
			return
		}
		have[k] = true
		specs = append(specs, &sealedStanza{arg: arg, sealedAt: sealedAt, class: class, child: child, inHeader: vchar(arg)})
	}
	// canonical values, sealed genuinely, safe in process
	for v := 1; v <= inProcMax; v++ {
		add(fmt.Sprint(v), v, "canonical", false)
	}
	// canonical over-limit values that would be expensive if derived: sealed at
	// 10, offered only in the child
	for v := inProcMax + 1; v <= 33; v++ {
		add(fmt.Sprint(v), 10, "canonical", true)
	}
	for _, a := range overflowArgs {
		add(a, 10, "overflow", true)
	}
	ncArgs := append([]string(nil), nonCanonicalArgs...)
	rng := r.RNG("wf-strings")
	for i := 0; i < r.Pick(400, 2500); i++ {
		ncArgs = append(ncArgs, randomNonCanonical(rng))
	}
	for _, a := range ncArgs {
		if _, ok := refage.CanonicalWorkFactor(a); ok {
			continue // generator slipped into the canonical language
		}
		lv := lenientValues(a)
		danger := false
		for _, v := range lv {
			if v > int64(inProcMax) {
				danger = true
			}
		}
		if danger {
			add(a, 10, "noncanonical", true)
			continue
		}
		add(a, 10, "noncanonical", false)
		for _, v := range lv {
			add(a, int(v), "noncanonical", false) // sealed at what a lenient parser would read
		}
	}
	mon.Par(len(specs), func(i int) {
		s := specs[i]
		tag := fmt.Sprintf("c10-wf-%q-%d", s.arg, s.sealedAt)
		s.fk = mon.DetBytes(tag+"-fk", 16)
		s.pt = mon.DetBytes(tag+"-pt", 33)
		s.st = refage.ScryptWrapArg(s.fk, passA, mon.DetBytes(tag+"-salt", 16), s.sealedAt, s.arg)
		s.file = refage.BuildFile(s.fk, []refage.Stanza{s.st}, mon.DetBytes(tag+"-nonce", 16), s.pt)
	})
	r.Set("work_factor_stanzas", len(specs))
	r.Set("configured_maxima", fmt.Sprint(maxima))

	var inproc, child []*wfCase
	for _, m := range maxima {
		for _, s := range specs {
			for _, route := range []string{"Unwrap", "Decrypt"} {
				if route == "Decrypt" && !s.inHeader {
					continue
				}
				c := &wfCase{s: s, m: m, route: route}
				if s.child {
					if v, ok := refage.CanonicalWorkFactor(s.arg); ok && v <= c.effMax() {
						continue // would be a legitimate (and expensive) acceptance: not a case
					}
					child = append(child, c)
				} else {
					inproc = append(inproc, c)
				}
			}
		}
	}

	// --- meter calibration ---------------------------------------------------
	if !calibrate(r, specs) {
		return
	}

	// --- in-process, sequential, metered --------------------------------------
	for _, c := range inproc {
		o := execute(c.job())
		judge(r, c, &o, "", &maxRejectDelta)
	}

	// --- child process ---------------------------------------------------------
	cc := make([]childCase, len(child))
	for i, c := range child {
		cc[i] = c
	}
	runChildCases(r, "work", cc)
	// the history side continues on the same single-threaded footing
	t0 := time.Now()
	historySide(r, specs)
	t1 := time.Now()
	crossSide(r)
	t2 := time.Now()
	configSide(r)
	copiesSide(r)
	namesSide(r)
	runtimeSettingsSide(r)
	// reporting only: no oracle looks at a clock
	r.Set("stage_wall_s", map[string]float64{"history": t1.Sub(t0).Seconds(), "cross": t2.Sub(t1).Seconds(), "config": time.Since(t2).Seconds()})
	r.Set("max_alloc_delta_on_metered_rejection_bytes", maxRejectDelta)
	r.Set("reject_threshold_bytes", rejectThreshold)
}

// calibrate checks the alloc meter on this process and tree: a derivation at
// work factor 10 must show >= 1 MiB, a garbage stanza next to nothing.
func calibrate(r *mon.Run, specs []*sealedStanza) bool {
	var ten *sealedStanza
	for _, s := range specs {
		if s.arg == "10" && s.sealedAt == 10 {
			ten = s
		}
	}
	c := &wfCase{s: ten, m: 12, route: "Unwrap"}
	o := execute(c.job())
	if !acceptedRight(&o, "Unwrap", ten.fk, ten.pt) || o.Delta < 1<<20 || o.Delta > 1<<20+rejectThreshold {
		r.Inconclusive("alloc meter calibration: accepted work factor 10 shows delta=%d accepted=%v err=%q (want a file key and 1 MiB <= delta < 1.25 MiB)", o.Delta, o.Accepted, o.Err)
		return false
	}
	j := c.job()
	j.Stanzas = []refage.Stanza{{Type: "X25519", Args: []string{"x"}, Body: make([]byte, 32)}}
	o = execute(j)
	if o.Accepted || o.Delta > 64<<10 {
		r.Inconclusive("alloc meter calibration: an unrelated stanza shows delta=%d accepted=%v", o.Delta, o.Accepted)
		return false
	}
	r.Set("meter_calibration", map[string]any{"accept_wf10_delta": 1 << 20, "idle_reject_delta": o.Delta})
	return true
}

// judge compares one executed work-factor case with the model. died != ""
// means the child died on it (confirmed) with that stderr.
func judge(r *mon.Run, c *wfCase, o *outcome, died string, maxRejectDelta *uint64) (violated bool) {
	r.Eval(1)
	key := c.key()
	r.Distinct("work:" + key)
	where := "in-process"
	if c.s.child {
		where = "child"
	}
	r.Tab("work_route_x_where", c.route+" "+where)
	replay := map[string]any{"side": "work", "max": c.mName(), "arg": c.s.arg, "sealed_at": c.s.sealedAt, "route": c.route, "passphrase": passA,
		"stanza": c.s.st, "file": c.s.file, "file_key": c.s.fk, "where": where}
	v, canon := refage.CanonicalWorkFactor(c.s.arg)
	cls := c.s.class
	if canon {
		switch d := v - c.effMax(); {
		case d <= 0:
			cls = "canonical<=M"
		case d <= 3:
			cls = fmt.Sprintf("canonical M+%d", d)
		default:
			cls = "canonical >M+3"
		}
	}
	r.Tab("work_class_x_max", fmt.Sprintf("M=%s %s", c.mName(), cls))
	cls = strings.ReplaceAll(cls, " ", "")

	if died != "" {
		rep.violate(pendingViolation{"wf-child-died/" + cls, "wf-child-died:" + key, fmt.Sprintf("the process under the memory limit died (twice) while a passphrase identity with maximum %s handled work factor %q through %s — the tree tried to derive a key: %s",
			c.mName(), c.s.arg, c.route, firstLines(died, 3)), replay})
		return true
	}
	if o.Panic != "" {
		rep.violate(pendingViolation{"panic/work", "panic:work:" + key, o.Panic, replay})
		return true
	}
	if c.expectAccept() {
		if !acceptedRight(o, c.route, c.s.fk, c.s.pt) {
			r.Inconclusive("control: work factor %q <= maximum %s sealed genuinely was not opened through %s: accepted=%v err=%q", c.s.arg, c.mName(), c.route, o.Accepted, o.Err)
			return false
		}
		r.Count("work_accepted_controls", 1)
		if v >= meterFloor {
			want := uint64(1) << (10 + uint(v))
			if o.Delta < want {
				r.Inconclusive("alloc meter: accepted work factor %d shows delta %d < %d", v, o.Delta, want)
			}
			r.Tab("meter", "accept: delta >= 2^w KiB")
			if o.Delta > 2*want {
				r.Count("accept_delta_above_twice_2^w_KiB", 1)
			}
		}
		r.SampleN("work-accept", 1, map[string]any{"side": "work", "max": c.mName(), "arg": c.s.arg, "route": c.route, "result": "file key", "alloc_delta": o.Delta})
		return false
	}
	// the model rejects
	if o.Accepted {
		rep.violate(pendingViolation{"wf-accepted/" + cls, "wf-accepted:" + key, fmt.Sprintf("passphrase identity with maximum %s returned a file key through %s for a stanza whose work factor argument is %q (sealed at %d, alloc delta %d)",
			c.mName(), c.route, c.s.arg, c.s.sealedAt, o.Delta), replay})
		return true
	}
	r.Tab("work_error", errClass(o.Err))
	if c.metered() {
		if o.Delta > *maxRejectDelta {
			*maxRejectDelta = o.Delta
		}
		if o.Delta >= rejectThreshold {
			rep.violate(pendingViolation{"wf-derived-on-reject/" + cls, "wf-derived-on-reject:" + key, fmt.Sprintf("passphrase identity with maximum %s rejected work factor %q through %s (%s) only after allocating %d bytes — a key derivation was performed (threshold %d)",
				c.mName(), c.s.arg, c.route, o.Err, o.Delta, rejectThreshold), replay})
			return true
		}
		r.Tab("meter", "reject: delta < 256 KiB (claimed)")
		r.Count("work_rejected_metered", 1)
	} else {
		r.Tab("meter", "reject: functional only (avoided derivation < 1 MiB)")
		r.Count("work_rejected_functional_only", 1)
	}
	r.SampleN("work-reject-"+c.s.class+where, 2, map[string]any{"side": "work", "max": c.mName(), "arg": c.s.arg, "sealed_at": c.s.sealedAt, "route": c.route,
		"where": where, "error": o.Err, "alloc_delta": o.Delta, "metered": c.metered()})
	return false
}

func firstLines(s string, n int) string {
	l := strings.Split(strings.TrimSpace(s), "\n")
	// the informative part of a Go fatal error is at the top
	if len(l) > n {
		l = l[:n]
	}
	return strings.Join(l, " | ")
}

// childCase is a case executed in the child process.
type childCase interface {
	job() *job
	key() string
	slow() bool // a broken tree could complete the derivation under the limit (slowly)
	judge(r *mon.Run, o *outcome, died string) (violated bool)
}

func (c *wfCase) slow() bool {
	v, ok := refage.CanonicalWorkFactor(c.s.arg)
	return ok && v < 20
}

func (c *wfCase) judge(r *mon.Run, o *outcome, died string) bool {
	return judge(r, c, o, died, &maxRejectDelta)
}

// maxRejectDelta is the largest alloc-meter reading seen on a rejection that
// carried the "no derivation" claim.
var maxRejectDelta uint64

func runChildCases(r *mon.Run, phase string, cases []childCase) {
	if len(cases) == 0 {
		return
	}
	jn, err := openJournal()
	if err != nil {
		r.Inconclusive("cannot open the child journal: %v", err)
		return
	}
	clean := true
	defer func() { jn.close(clean) }()

	// Positive control of the guard, independent of the tree under test: a
	// child asked to allocate 2 GiB must die with an out-of-memory report.
	// Without that the limit is not effective and the expensive cases are
	// not run at all.
	ctl := &job{Name: "limit-control", Pass: passA, Route: "LimitControl"}
	cp, err := startChild()
	if err != nil {
		r.Inconclusive("cannot start the child process: %v", err)
		return
	}
	if cp.hello.LimitErr != "" {
		cp.kill()
		r.Inconclusive("child could not set RLIMIT_AS: %s", cp.hello.LimitErr)
		return
	}
	jn.record(-1, ctl)
	if o, err := cp.run(ctl); err != errChildDied {
		cp.kill()
		r.Inconclusive("memory-limit control: a 2 GiB allocation did not kill the child (err=%v outcome=%+v); over-limit cases above %d not run", err, o, inProcMax)
		return
	}
	status := cp.wait()
	if !oomDeath(cp.stderr.String()) {
		r.Inconclusive("memory-limit control: child ended with %s but without an out-of-memory report: %s", status, firstLines(cp.stderr.String(), 3))
		return
	}
	r.Count("child_limit_control_killed", 1)
	r.Set("child_limit", map[string]any{"vmsize_kb_at_start": cp.hello.VmSizeKB, "rlimit_as_kb": cp.hello.LimitKB})

	cp = nil
	// Time on a broken tree is bounded by case counts: once a class of child
	// cases has violated this often, the rest of the class is skipped (and
	// counted). "slow" = a broken tree can complete the derivation under the
	// limit (work factors 16..19, up to 512 MiB); "fast" = everything else
	// (dies at once or is refused by scrypt's own parameter check).
	caps := map[string]int{"slow": 4, "fast": 8}
	violated := map[string]int{}
	ran := 0
	for i, c := range cases {
		cls := "fast"
		if c.slow() {
			cls = "slow"
		}
		if violated[cls] >= caps[cls] {
			r.Count("child_cases_skipped_after_violations", 1)
			continue
		}
		if cp == nil {
			if cp, err = startChild(); err != nil {
				r.Inconclusive("cannot start the child process: %v", err)
				return
			}
			r.Count("child_processes", 1)
		}
		j := c.job()
		if err := jn.record(i, j); err != nil {
			r.Inconclusive("cannot journal a child case: %v", err)
			cp.kill()
			return
		}
		ran++
		bad := false
		o, err := cp.run(j)
		switch err {
		case nil:
			bad = c.judge(r, o, "")
		case errChildDied:
			status := cp.wait()
			stderr := cp.stderr.String()
			cp = nil
			clean = false
			r.Count("child_deaths", 1)
			// confirm alone in a fresh child
			c2, err2 := startChild()
			if err2 != nil {
				r.Inconclusive("cannot start the child process: %v", err2)
				return
			}
			r.Count("child_processes", 1)
			o2, err3 := c2.run(j)
			switch err3 {
			case errChildDied:
				st2 := c2.wait()
				r.Count("child_deaths", 1)
				if oomDeath(c2.stderr.String()) && oomDeath(stderr) {
					bad = c.judge(r, &outcome{}, fmt.Sprintf("%s\n(%s; again: %s)", stderr, status, st2))
				} else {
					r.Inconclusive("child died twice on %s (%s / %s) without an out-of-memory report: %s", c.key(), status, st2, firstLines(stderr, 3))
				}
			case nil:
				c2.kill()
				bad = c.judge(r, o2, "")
				if !bad {
					// a death the case does not explain when run alone
					r.Inconclusive("child died on %s (%s: %s) but the case is handled correctly when repeated alone; journal kept at %s", c.key(), status, firstLines(stderr, 2), jn.path)
				}
			default:
				c2.kill()
				r.Inconclusive("child failed on %s: %v", c.key(), err3)
			}
		default:
			cp.kill()
			cp = nil
			clean = false
			r.Inconclusive("child did not answer on %s: %v (journal %s)", c.key(), err, jn.path)
		}
		if bad {
			violated[cls]++
			// a violating case leaves a large heap behind: continue in a fresh child
			if cp != nil {
				cp.kill()
				cp = nil
			}
		}
	}
	if cp != nil {
		if st := cp.wait(); st != "exit status 0" {
			r.Inconclusive("child ended with %s: %s", st, firstLines(cp.stderr.String(), 3))
		}
	}
	r.Count("child_cases_run", int64(ran))
	r.Count("child_cases_"+phase, int64(len(cases)))
}
