package main

import (
	"bytes"
	"errors"
	"fmt"
	"io"
	"runtime/debug"

	"filippo.io/age"
	"filippo.io/age/zverif/mon"
	"filippo.io/age/zverif/refage"
)

// job is one decryption attempt with a passphrase identity. It is executed by
// execute, either in the monitor process or (over-limit work factors that
// would be expensive if a broken tree derived them) in a child process under a
// memory limit; it therefore carries everything as plain data.
type job struct {
	Name    string          `json:"name"`
	Pass    string          `json:"pass"`
	Max     int             `json:"max"`   // 0: leave the identity's default maximum
	Route   string          `json:"route"` // "Unwrap" (ScryptIdentity.Unwrap) or "Decrypt" (age.Decrypt)
	Stanzas []refage.Stanza `json:"stanzas,omitempty"`
	File    []byte          `json:"file,omitempty"`
	Meter   bool            `json:"meter"`
	// Configs (Route "RecipientEncrypt"): SetWorkFactor calls made, each inside
	// a recover, on a fresh ScryptRecipient before it encrypts a file alone.
	Configs []int64 `json:"configs,omitempty"`
	RecOps  []recOp `json:"rec_ops,omitempty"`
	// Steps, when present, make the job a history: all steps run in order on
	// ONE identity value (unless a step asks for another object), and the
	// outcome of step i is outcome.Sub[i]. Route/Stanzas/File/Meter above are
	// then unused.
	Steps []step `json:"steps,omitempty"`
}

// step is one call in a history.
type step struct {
	Route   string          `json:"route"`
	Stanzas []refage.Stanza `json:"stanzas,omitempty"`
	File    []byte          `json:"file,omitempty"`
	SetMax  int             `json:"set_max,omitempty"` // > 0: SetMaxWorkFactor(SetMax) before the call
	NewID   bool            `json:"new_id,omitempty"`  // before the call, continue with another identity object (same passphrase, current maximum)
	Meter   bool            `json:"meter"`
	// ID selects the identity object the step acts on. Object 0 exists from the
	// start (job.Pass, job.Max); any other object is created, at the library's
	// default maximum, by the first step that names it (passphrase Pass, or
	// job.Pass). An empty Route makes the step configuration only.
	ID   int    `json:"id,omitempty"`
	Pass string `json:"pass,omitempty"`
	// BadMax: a configuration-only step that calls SetMaxWorkFactor(*BadMax)
	// inside a recover, the way a program taking the limit from configuration
	// guards a setter that has no error return. The harness's idea of the
	// object's configured maximum is NOT changed by it.
	BadMax *int64 `json:"bad_max,omitempty"`
	// CopyFrom: a configuration-only step that makes object ID a STRUCT COPY
	// (b := *a) of object *CopyFrom as it is now.
	CopyFrom *int `json:"copy_from,omitempty"`
}

// recOp is one operation of a recipient history (Route "RecipientHistory"):
// "set" = guarded SetWorkFactor(Val) on object ID; "copy" = object ID becomes a
// struct copy of object From; "wrap" = object ID encrypts a file alone.
type recOp struct {
	Op   string `json:"op"`
	ID   int    `json:"id"`
	From int    `json:"from,omitempty"`
	Val  int64  `json:"val,omitempty"`
}

// outcome is what the code under test did with a job.
type outcome struct {
	Accepted bool   `json:"accepted"` // the call returned a nil error
	Key      []byte `json:"key,omitempty"`
	Plain    []byte `json:"plain,omitempty"`
	ReadErr  string `json:"read_err,omitempty"` // error that ended reading the payload ("EOF" on a clean end)
	Err      string `json:"err,omitempty"`
	Delta    uint64 `json:"delta"` // growth of TotalAlloc across the call (Meter only)
	Panic    string `json:"panic,omitempty"`
	// Soft: the error is of the "not for this identity" class
	// (ErrIncorrectIdentity / NoIdentityMatchError), not a hard refusal.
	Soft bool `json:"soft,omitempty"`
	// CfgPanicked: the guarded configuration call(s) panicked (one entry per
	// call for RecipientEncrypt; a single entry for a BadMax step).
	CfgPanicked []bool `json:"cfg_panicked,omitempty"`

	Sub []outcome `json:"sub,omitempty"` // per step, for a history
}

var sink []byte

func softError(err error) bool {
	var nm *age.NoIdentityMatchError
	return errors.Is(err, age.ErrIncorrectIdentity) || errors.As(err, &nm)
}

func toAge(st []refage.Stanza) []*age.Stanza {
	out := make([]*age.Stanza, len(st))
	for i, s := range st {
		out[i] = &age.Stanza{Type: s.Type, Args: append([]string(nil), s.Args...), Body: append([]byte(nil), s.Body...)}
	}
	return out
}

// execute runs the real code on one job. Only the call that contains the
// identity's decision (Unwrap, or Decrypt up to the returned reader) is inside
// the metered region; reading the payload happens afterwards.
func execute(j *job) (o outcome) {
	newID := func(pass string, max int) (*age.ScryptIdentity, error) {
		id, err := age.NewScryptIdentity(pass)
		if err != nil {
			return nil, err
		}
		if max != 0 {
			id.SetMaxWorkFactor(max)
		}
		return id, nil
	}
	id, err := newID(j.Pass, j.Max)
	if err != nil {
		o.Err = "harness: " + err.Error()
		return o
	}
	if j.Route == "RecipientEncrypt" {
		return recipientEncrypt(j)
	}
	if j.Route == "RecipientHistory" {
		return recipientHistory(j)
	}
	if len(j.Steps) == 0 {
		return runCall(id, j.Route, j.Stanzas, j.File, j.Meter)
	}
	type obj struct {
		id   *age.ScryptIdentity
		pass string
		cur  int // configured maximum, 0 = never configured
	}
	objs := map[int]*obj{0: {id, j.Pass, j.Max}}
	for _, st := range j.Steps {
		if st.CopyFrom != nil {
			src := objs[*st.CopyFrom]
			if src == nil {
				o.Err = "harness: copy of an object that does not exist"
				return o
			}
			cp := *src.id // the struct copy under test
			objs[st.ID] = &obj{&cp, src.pass, src.cur}
			o.Sub = append(o.Sub, outcome{})
			continue
		}
		ob := objs[st.ID]
		if ob == nil {
			pass := st.Pass
			if pass == "" {
				pass = j.Pass
			}
			nid, err := newID(pass, 0)
			if err != nil {
				o.Err = "harness: " + err.Error()
				return o
			}
			ob = &obj{nid, pass, 0}
			objs[st.ID] = ob
		}
		if st.SetMax > 0 {
			ob.cur = st.SetMax
		}
		if st.NewID {
			if ob.id, err = newID(ob.pass, ob.cur); err != nil {
				o.Err = "harness: " + err.Error()
				return o
			}
		} else if st.SetMax > 0 {
			ob.id.SetMaxWorkFactor(st.SetMax)
		}
		if st.BadMax != nil {
			v := int(*st.BadMax)
			o.Sub = append(o.Sub, outcome{CfgPanicked: []bool{panics(func() { ob.id.SetMaxWorkFactor(v) })}})
			continue
		}
		if st.Route == "" {
			o.Sub = append(o.Sub, outcome{})
			continue
		}
		o.Sub = append(o.Sub, runCall(ob.id, st.Route, st.Stanzas, st.File, st.Meter))
	}
	return o
}

func panics(f func()) (p bool) {
	defer func() {
		if recover() != nil {
			p = true
		}
	}()
	f()
	return false
}

// loneEncrypt encrypts a small file to rcp alone and returns it in Plain.
func loneEncrypt(rcp *age.ScryptRecipient) (o outcome) {
	var buf bytes.Buffer
	run := func() {
		defer func() {
			if p := recover(); p != nil {
				o.Panic = fmt.Sprintf("%v\n%s", p, debug.Stack())
			}
		}()
		w, err := age.Encrypt(&buf, rcp)
		if err != nil {
			o.Err = err.Error()
			return
		}
		if _, err := w.Write([]byte("recipient configuration")); err != nil {
			o.Err = err.Error()
			return
		}
		if err := w.Close(); err != nil {
			o.Err = err.Error()
			return
		}
		o.Accepted = true
	}
	o.Delta = mon.AllocDelta(run)
	o.Plain = buf.Bytes()
	return o
}

// recipientHistory runs set / copy / wrap operations over several recipient
// values; object 0 is a fresh recipient, the others come from copies.
func recipientHistory(j *job) (o outcome) {
	first, err := age.NewScryptRecipient(j.Pass)
	if err != nil {
		o.Err = "harness: " + err.Error()
		return o
	}
	objs := map[int]*age.ScryptRecipient{0: first}
	for _, op := range j.RecOps {
		switch op.Op {
		case "copy":
			src := objs[op.From]
			if src == nil {
				o.Err = "harness: copy of a recipient that does not exist"
				return o
			}
			cp := *src // the struct copy under test
			objs[op.ID] = &cp
			o.Sub = append(o.Sub, outcome{})
		case "set":
			rcp, v := objs[op.ID], int(op.Val)
			o.Sub = append(o.Sub, outcome{CfgPanicked: []bool{panics(func() { rcp.SetWorkFactor(v) })}})
		case "wrap":
			o.Sub = append(o.Sub, loneEncrypt(objs[op.ID]))
		default:
			o.Err = "harness: unknown recipient operation " + op.Op
			return o
		}
	}
	return o
}

// recipientEncrypt: a fresh passphrase recipient, the guarded SetWorkFactor
// calls of the job, then a lone encryption whose output comes back in Plain.
func recipientEncrypt(j *job) (o outcome) {
	rcp, err := age.NewScryptRecipient(j.Pass)
	if err != nil {
		o.Err = "harness: " + err.Error()
		return o
	}
	for _, v := range j.Configs {
		v := int(v)
		o.CfgPanicked = append(o.CfgPanicked, panics(func() { rcp.SetWorkFactor(v) }))
	}
	var buf bytes.Buffer
	run := func() {
		defer func() {
			if p := recover(); p != nil {
				o.Panic = fmt.Sprintf("%v\n%s", p, debug.Stack())
			}
		}()
		w, err := age.Encrypt(&buf, rcp)
		if err != nil {
			o.Err = err.Error()
			return
		}
		if _, err := w.Write([]byte("recipient configuration")); err != nil {
			o.Err = err.Error()
			return
		}
		if err := w.Close(); err != nil {
			o.Err = err.Error()
			return
		}
		o.Accepted = true
	}
	o.Delta = mon.AllocDelta(run)
	o.Plain = buf.Bytes()
	return o
}

// runCall performs one Unwrap / Decrypt on the given identity value.
func runCall(id *age.ScryptIdentity, route string, stanzas []refage.Stanza, file []byte, meter bool) (o outcome) {
	var rd io.Reader
	var call func()
	switch route {
	case "Unwrap":
		st := toAge(stanzas)
		call = func() {
			fk, err := id.Unwrap(st)
			if err != nil {
				o.Err, o.Soft = err.Error(), softError(err)
				return
			}
			o.Accepted, o.Key = true, fk
		}
	case "Decrypt":
		src := bytes.NewReader(file)
		call = func() {
			r, err := age.Decrypt(src, id)
			if err != nil {
				o.Err, o.Soft = err.Error(), softError(err)
				return
			}
			o.Accepted, rd = true, r
		}
	case "LimitControl":
		// tree-independent proof that the address-space limit bites
		call = func() {
			limitProbe := uint64(2) << 30
			sink = make([]byte, limitProbe)
			sink[len(sink)-1] = 1
			o.Err = fmt.Sprintf("harness: allocated %d bytes under the limit", len(sink))
			sink = nil
		}
	default:
		o.Err = "harness: unknown route " + route
		return o
	}
	guarded := func() {
		defer func() {
			if p := recover(); p != nil {
				o.Panic = fmt.Sprintf("%v\n%s", p, debug.Stack())
			}
		}()
		call()
	}
	if meter {
		o.Delta = mon.AllocDelta(guarded)
	} else {
		guarded()
	}
	if rd != nil {
		func() {
			defer func() {
				if p := recover(); p != nil {
					o.Panic = fmt.Sprintf("%v\n%s", p, debug.Stack())
				}
			}()
			b, err := io.ReadAll(io.LimitReader(rd, 1<<20))
			o.Plain = b
			if err != nil {
				o.ReadErr = err.Error()
			} else {
				o.ReadErr = "EOF"
			}
		}()
	}
	return o
}
