package main

import (
	"bytes"
	"fmt"
	"io"
	"runtime/debug"

	"filippo.io/age"
	"filippo.io/age/zverif/mon"
	"filippo.io/age/zverif/refage"
)

// job is one decryption attempt with a passphrase identity. It is executed by
// execute, either in the monitor process or (over-limit work factors that
// would be expensive if a broken tree derived them) in a child process under a
// memory limit; it therefore carries everything as plain data.
type job struct {
	Name    string          `json:"name"`
	Pass    string          `json:"pass"`
	Max     int             `json:"max"`   // 0: leave the identity's default maximum
	Route   string          `json:"route"` // "Unwrap" (ScryptIdentity.Unwrap) or "Decrypt" (age.Decrypt)
	Stanzas []refage.Stanza `json:"stanzas,omitempty"`
	File    []byte          `json:"file,omitempty"`
	Meter   bool            `json:"meter"`
}

// outcome is what the code under test did with a job.
type outcome struct {
	Accepted bool   `json:"accepted"` // the call returned a nil error
	Key      []byte `json:"key,omitempty"`
	Plain    []byte `json:"plain,omitempty"`
	ReadErr  string `json:"read_err,omitempty"` // error that ended reading the payload ("EOF" on a clean end)
	Err      string `json:"err,omitempty"`
	Delta    uint64 `json:"delta"` // growth of TotalAlloc across the call (Meter only)
	Panic    string `json:"panic,omitempty"`
}

var sink []byte

func toAge(st []refage.Stanza) []*age.Stanza {
	out := make([]*age.Stanza, len(st))
	for i, s := range st {
		out[i] = &age.Stanza{Type: s.Type, Args: append([]string(nil), s.Args...), Body: append([]byte(nil), s.Body...)}
	}
	return out
}

// execute runs the real code on one job. Only the call that contains the
// identity's decision (Unwrap, or Decrypt up to the returned reader) is inside
// the metered region; reading the payload happens afterwards.
func execute(j *job) (o outcome) {
	id, err := age.NewScryptIdentity(j.Pass)
	if err != nil {
		o.Err = "harness: " + err.Error()
		return o
	}
	if j.Max != 0 {
		id.SetMaxWorkFactor(j.Max)
	}
	var rd io.Reader
	var call func()
	switch j.Route {
	case "Unwrap":
		st := toAge(j.Stanzas)
		call = func() {
			fk, err := id.Unwrap(st)
			if err != nil {
				o.Err = err.Error()
				return
			}
			o.Accepted, o.Key = true, fk
		}
	case "Decrypt":
		src := bytes.NewReader(j.File)
		call = func() {
			r, err := age.Decrypt(src, id)
			if err != nil {
				o.Err = err.Error()
				return
			}
			o.Accepted, rd = true, r
		}
	case "LimitControl":
		// tree-independent proof that the address-space limit bites
		call = func() {
			sink = make([]byte, 2<<30)
			sink[len(sink)-1] = 1
			o.Err = fmt.Sprintf("harness: allocated %d bytes under the limit", len(sink))
			sink = nil
		}
	default:
		o.Err = "harness: unknown route " + j.Route
		return o
	}
	guarded := func() {
		defer func() {
			if p := recover(); p != nil {
				o.Panic = fmt.Sprintf("%v\n%s", p, debug.Stack())
			}
		}()
		call()
	}
	if j.Meter {
		o.Delta = mon.AllocDelta(guarded)
	} else {
		guarded()
	}
	if rd != nil {
		func() {
			defer func() {
				if p := recover(); p != nil {
					o.Panic = fmt.Sprintf("%v\n%s", p, debug.Stack())
				}
			}()
			b, err := io.ReadAll(io.LimitReader(rd, 1<<20))
			o.Plain = b
			if err != nil {
				o.ReadErr = err.Error()
			} else {
				o.ReadErr = "EOF"
			}
		}()
	}
	return o
}
