package main

import (
	"bytes"
	"fmt"
	"os"
	"path/filepath"
	"strings"
	"sync"
	"time"

	"filippo.io/age/zverif/cli"
	"filippo.io/age/zverif/keys"
	"filippo.io/age/zverif/mon"
)

// cliEncryptSide: the encryption clause at the command line. Every spelling of
// the passphrase flag next to every spelling of another recipient source, in
// both orders (optionally with -a / -o FILE in between), with a terminal whose
// script WOULD answer the passphrase prompts (typed blindly after 1.5 s, so a
// tool that wrongly goes on gets its answer and writes its file) and without
// any terminal. The combination must be refused: exit status non-zero, no
// output file, nothing on stdout. Whether a prompt appeared is recorded only.
func cliEncryptSide(r *mon.Run, age, work string) {
	const pass = "c10 cli encryption passphrase"
	x1 := keys.NewX("X1")
	must := func(name, content string) {
		if err := os.WriteFile(filepath.Join(work, name), []byte(content), 0o600); err != nil {
			r.Inconclusive("C10 CLI encryption: cannot write %s: %v", name, err)
		}
	}
	must("recs.txt", "# recipients\n"+x1.PublicStr+"\n")
	must("key.txt", "# identity\n"+x1.SecretStr+"\n")
	must("in.txt", "cli encryption plaintext\n")

	passFlags := [][]string{{"-p"}, {"--passphrase"}, {"-passphrase"}, {"-p=true"}, {"--passphrase=true"}}
	type source struct {
		name string
		argv []string
		flag string // the source it is a spelling of
	}
	sources := []source{
		{"-r STR", []string{"-r", x1.PublicStr}, "recipient"},
		{"--recipient STR", []string{"--recipient", x1.PublicStr}, "recipient"},
		{"--recipient=STR", []string{"--recipient=" + x1.PublicStr}, "recipient"},
		{"-r=STR", []string{"-r=" + x1.PublicStr}, "recipient"},
		{"-R FILE", []string{"-R", "recs.txt"}, "recipients-file"},
		{"--recipients-file FILE", []string{"--recipients-file", "recs.txt"}, "recipients-file"},
		{"--recipients-file=FILE", []string{"--recipients-file=recs.txt"}, "recipients-file"},
		{"-recipients-file FILE", []string{"-recipients-file", "recs.txt"}, "recipients-file"},
		{"-R=FILE", []string{"-R=recs.txt"}, "recipients-file"},
		{"-e -i FILE", []string{"-e", "-i", "key.txt"}, "identity"},
		{"-e --identity FILE", []string{"-e", "--identity", "key.txt"}, "identity"},
		{"--encrypt --identity=FILE", []string{"--encrypt", "--identity=key.txt"}, "identity"},
		{"-e -j NAME", []string{"-e", "-j", "c10nonexistent"}, "plugin"},
	}
	script := []cli.TTYStep{
		{Expect: "Enter passphrase", Send: pass + "\n", Blind: 1500 * time.Millisecond},
		{Expect: "Confirm passphrase", Send: pass + "\n", Blind: 1500 * time.Millisecond},
	}

	// ---- positive controls -----------------------------------------------------
	for i, s := range sources {
		if s.flag == "plugin" {
			continue // no plugin is installed: -j alone cannot succeed
		}
		out := fmt.Sprintf("ctl-src%d.age", i)
		res := cli.Run(&cli.Cmd{Argv: append(append([]string{age}, s.argv...), "-o", out, "in.txt"), Dir: work, Timeout: 60 * time.Second})
		b, _ := os.ReadFile(filepath.Join(work, out))
		if res.Err != nil || res.Exit != 0 || !bytes.HasPrefix(b, []byte("age-encryption.org/v1\n-> X25519 ")) {
			r.Inconclusive("C10 CLI encryption control: source %q alone did not encrypt: %v %s", s.name, res.Err, res)
			return
		}
		r.Count("cli_encrypt_controls_ok", 1)
	}
	{
		res := cli.Run(&cli.Cmd{Argv: []string{age, "-p", "-o", "ctl-pass.age", "in.txt"}, Dir: work, TTY: true, Script: script, Timeout: 120 * time.Second})
		b, _ := os.ReadFile(filepath.Join(work, "ctl-pass.age"))
		if res.Err != nil || res.Exit != 0 || !bytes.HasPrefix(b, []byte("age-encryption.org/v1\n-> scrypt ")) {
			r.Inconclusive("C10 CLI encryption control: -p alone with a typed passphrase did not encrypt: %v %s", res.Err, res)
			return
		}
		r.Count("cli_encrypt_controls_ok", 1)
	}

	// ---- the conflict matrix ------------------------------------------------------
	type ec struct {
		pf     []string
		src    source
		order  string // pass-first | source-first
		mid    []string
		outArg string // name of the -o file, "" = stdout
		tty    bool
	}
	var cases []ec
	n := 0
	for _, tty := range []bool{true, false} {
		for _, pf := range passFlags {
			for _, s := range sources {
				for _, order := range []string{"pass-first", "source-first"} {
					c := ec{pf: pf, src: s, order: order, tty: tty}
					switch n % 3 {
					case 1:
						c.mid = []string{"-a"}
					case 2:
						c.outArg = fmt.Sprintf("enc%d.age", n)
						c.mid = []string{"-o", c.outArg}
					}
					n++
					cases = append(cases, c)
				}
			}
		}
	}
	pend := make([][]pendingViolation, len(cases))
	var mu sync.Mutex
	ranPair := map[string]int{}
	mon.ParN(12, len(cases), func(i int) {
		c := cases[i]
		var argv []string
		if c.order == "pass-first" {
			argv = append(append(append([]string{age}, c.pf...), c.mid...), c.src.argv...)
		} else {
			argv = append(append(append([]string{age}, c.src.argv...), c.mid...), c.pf...)
		}
		argv = append(argv, "in.txt")
		cmd := &cli.Cmd{Argv: argv, Dir: work, Timeout: 120 * time.Second}
		mode := "no-terminal"
		if c.tty {
			cmd.TTY, cmd.Script, mode = true, script, "pty"
		}
		res := cli.Run(cmd)
		name := fmt.Sprintf("pass=%s:source=%s:%s:%s", c.pf[0], c.src.name, c.order, mode)
		r.Eval(1)
		r.Distinct("cli-encrypt:" + name)
		r.Tab("cli_encrypt_source_x_mode", c.src.flag+" "+mode)
		if res.Err != nil {
			r.Inconclusive("C10 CLI encryption case %s: driver error %v", name, res.Err)
			return
		}
		if c.tty {
			mu.Lock()
			ranPair[c.pf[0]+"|"+c.src.name+"|"+c.order]++
			mu.Unlock()
		}
		created := false
		if c.outArg != "" {
			if _, err := os.Stat(filepath.Join(work, c.outArg)); err == nil {
				created = true
			}
		}
		prompted := bytes.Contains(res.TTYOut, []byte("passphrase"))
		replay := map[string]any{"side": "cli-encrypt", "argv": argv[1:], "terminal": c.tty, "exit": res.Exit, "prompted": prompted, "stderr": string(mon.Trunc(res.Stderr, 300))}
		cls := c.src.flag + "/" + mode
		switch {
		case res.Exit == 0:
			pend[i] = append(pend[i], pendingViolation{"cli-encrypt-accepted/" + cls, "cli-encrypt-accepted:" + name,
				fmt.Sprintf("age %s exited 0: the passphrase flag next to another recipient source was not refused (prompted=%v, output file created=%v, %d bytes on stdout)",
					strings.Join(argv[1:], " "), prompted, created, len(res.Stdout)), replay})
		case created || len(res.Stdout) != 0:
			pend[i] = append(pend[i], pendingViolation{"cli-encrypt-output-on-refusal/" + cls, "cli-encrypt-output-on-refusal:" + name,
				fmt.Sprintf("age %s exited %d but produced output (file created=%v, %d bytes on stdout)", strings.Join(argv[1:], " "), res.Exit, created, len(res.Stdout)), replay})
		default:
			r.Count("cli_encrypt_refusals_clean", 1)
			if prompted {
				r.Count("cli_encrypt_prompted_before_refusing", 1)
			}
		}
	})
	rep.flush(pend)
	for _, pf := range passFlags {
		for _, s := range sources {
			for _, order := range []string{"pass-first", "source-first"} {
				if ranPair[pf[0]+"|"+s.name+"|"+order] == 0 {
					r.Inconclusive("vacuous: CLI encryption pair (%s, %s) never ran in order %s on a terminal", pf[0], s.name, order)
				}
			}
		}
	}
	r.Set("cli_encrypt_matrix_cases", len(cases))
}
