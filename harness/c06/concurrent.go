package main

import (
	"bytes"
	"fmt"
	"runtime"
	"sync"

	"filippo.io/age"
	"filippo.io/age/zverif/keys"
	"filippo.io/age/zverif/mon"
	"filippo.io/age/zverif/refage"
)

// recordingRecipient captures the file key handed to Wrap (the file key is an
// argument of the Recipient interface, so this is observation at a boundary
// the caller owns) and emits a fixed stanza.
type recordingRecipient struct{ got *[]byte }

func (r recordingRecipient) Wrap(fileKey []byte) ([]*age.Stanza, error) {
	*r.got = append([]byte(nil), fileKey...)
	return []*age.Stanza{{Type: "verif-rec", Args: []string{"k"}, Body: nil}}, nil
}

// concurrentPhase: "no value shared between files" must also hold when files
// are written by many goroutines of one process at the same time. Provenance
// cannot be attributed per call here (draws interleave), so this phase decides
// conservation only: every file key, payload nonce, ephemeral share and salt
// observed in the whole process history (serial part included) is distinct.
func concurrentPhase(r *mon.Run, addSecret func([]byte, string)) {
	workers := runtime.GOMAXPROCS(0)
	perWorker := r.Pick(12000, 60000)
	x1, x2 := keys.P("X1"), keys.P("X2")
	var wg sync.WaitGroup
	var mu sync.Mutex
	nFiles := 0
	for w := 0; w < workers; w++ {
		wg.Add(1)
		go func(w int) {
			defer wg.Done()
			local, checked := 0, 0
			defer func() { r.Count("concurrent_payloads_opened_with_own_key", int64(checked)) }()
			for i := 0; i < perWorker; i++ {
				var fk []byte
				var buf bytes.Buffer
				var rs []age.Recipient
				kind := i % 4
				switch kind {
				case 0, 1:
					rs = []age.Recipient{recordingRecipient{&fk}}
				case 2:
					rs = []age.Recipient{recordingRecipient{&fk}, x1.Recipient}
				case 3:
					rs = []age.Recipient{x2.Recipient, recordingRecipient{&fk}, x1.Recipient}
				}
				wr, err := age.Encrypt(&buf, rs...)
				if err != nil {
					r.Violate("concurrent-encrypt-error", err.Error(), nil)
					return
				}
				// a plaintext of its own for every file; some callers are sloppy in
				// legal ways: an empty Write, Close called a second time
				pt := []byte(fmt.Sprintf("concurrent plaintext of worker %d file %d", w, i))
				if i%5 == 0 {
					wr.Write(nil)
				}
				wr.Write(pt)
				if err := wr.Close(); err != nil {
					r.Violate("concurrent-encrypt-error", err.Error(), nil)
					return
				}
				if i%3 == 0 {
					func() {
						defer func() {
							if p := recover(); p != nil {
								r.Violate("concurrent-second-close-panics", fmt.Sprint(p), nil)
							}
						}()
						wr.Close()
					}()
				}
				hdr, rest, err := refage.ParseHeader(buf.Bytes())
				if err != nil || len(rest) < 16 {
					r.Violate("concurrent-bad-file", fmt.Sprintf("worker %d file %d: %v", w, i, err), nil)
					return
				}
				where := func(role string) string { return fmt.Sprintf("concurrent-file#%d.%d %s", w, i, role) }
				// the file key was handed to the recording recipient: the payload
				// must be this file's own plaintext under this file's own key
				if i%4 == 0 {
					got, _, derr := refage.StreamDecrypt(refage.StreamKey(fk, rest[:16]), rest[16:])
					if derr != nil || !bytes.Equal(got, pt) {
						r.Violate("concurrent-payload-not-own-plaintext", fmt.Sprintf("worker %d file %d: the payload opens to %q (%v), want %q", w, i, mon.Trunc(got, 60), derr, pt), nil)
						return
					}
					checked++
				}
				addSecret(fk, where("file-key"))
				addSecret(rest[:16], where("nonce"))
				for k, s := range hdr.Stanzas {
					if s.Type == "X25519" && len(s.Args) == 1 {
						// equal shares <=> equal ephemeral secrets (mod clamping)
						if share, err := refage.UnB64(s.Args[0]); err == nil {
							addSecret(append([]byte("share:"), share...), where(fmt.Sprintf("x25519-ephemeral#%d", k)))
						}
					}
				}
				local++
			}
			mu.Lock()
			nFiles += local
			mu.Unlock()
		}(w)
	}
	wg.Wait()
	r.Eval(nFiles)
	r.Count("concurrent_files_checked_for_reuse", int64(nFiles))
	r.Set("concurrent_writers", workers)
	r.Distinct(fmt.Sprintf("concurrent-phase:%d-writers", workers))
}
