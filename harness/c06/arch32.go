package main

import (
	"encoding/json"
	"fmt"
	"os"
	"strings"
	"time"

	"filippo.io/age/zverif/mon"
)

// arch32Stage: the width of int is part of the build target, and a payload
// position kept in an int is right on every 64-bit machine. ./check builds
// cmd/arch32 from the tree under test for GOARCH=386 and runs it beside this
// monitor: one payload of more than 2 GiB (thorough: more than 4 GiB) through
// the real Encrypt and Decrypt of a 32-bit binary, the destination an online
// monitor that opens the chunks around every 2 GiB multiple (and a sample) at
// the nonce of their position. Here its report is judged.
func arch32Stage(r *mon.Run) {
	path := os.Getenv("VERIF_ARCH32_RESULT")
	if path == "" {
		return
	}
	deadline := time.Now().Add(40 * time.Minute) // watchdog only, never a verdict
	for {
		if _, err := os.Stat(path + ".done"); err == nil {
			break
		}
		if time.Now().After(deadline) {
			r.Inconclusive("the 32-bit run did not finish")
			return
		}
		time.Sleep(200 * time.Millisecond)
	}
	b, err := os.ReadFile(path)
	var res struct {
		IntBits          int      `json:"int_bits"`
		PlaintextBytes   uint64   `json:"plaintext_bytes"`
		Chunks           uint64   `json:"chunks"`
		ChunksOpened     uint64   `json:"chunks_opened_at_their_position"`
		Watched          []uint64 `json:"watched_chunk_indexes_sample"`
		DecryptedBytes   uint64   `json:"decrypted_bytes"`
		DecryptedMatches bool     `json:"decrypted_equals_plaintext"`
		EncryptErr       string   `json:"encrypt_error"`
		Violations       []string `json:"violations"`
	}
	if err != nil || json.Unmarshal(b, &res) != nil || res.IntBits != 32 {
		note, _ := os.ReadFile(path + ".err")
		r.Inconclusive("the 32-bit run left no usable report (%v): %s", err, mon.Trunc(note, 300))
		return
	}
	r.Eval(1)
	r.Set("arch32", map[string]any{
		"target": "GOARCH=386 (int has 32 bits)", "plaintext_bytes": res.PlaintextBytes, "chunks_written": res.Chunks,
		"chunks_opened_at_the_nonce_of_their_position": res.ChunksOpened, "watched_chunk_indexes_sample": res.Watched,
		"bytes_through_the_real_Decrypt": res.DecryptedBytes, "decrypted_equals_plaintext": res.DecryptedMatches,
	})
	replay := map[string]any{"how": "GOARCH=386 go build ./cmd/arch32 in /verif/harness, run with the plaintext length as argument", "plaintext_bytes": res.PlaintextBytes}
	if res.EncryptErr != "" {
		// a refusal is not a reused or misplaced nonce; but then nothing was observed
		r.Inconclusive("32-bit Encrypt failed: %s", res.EncryptErr)
		return
	}
	for _, v := range res.Violations {
		key := "arch32:" + strings.SplitN(v, " ", 2)[0]
		if strings.HasPrefix(v, "chunk ") {
			key = "arch32:chunk-nonce"
		}
		r.Violate(key, fmt.Sprintf("32-bit build, payload of %d bytes: %s", res.PlaintextBytes, v), replay)
	}
	if len(res.Violations) == 0 {
		r.Count("arch32_chunks_opened_at_their_position", int64(res.ChunksOpened))
		r.Count("arch32_chunks_written", int64(res.Chunks))
		if res.ChunksOpened < 30 || res.PlaintextBytes <= 1<<31 {
			r.Inconclusive("the 32-bit run watched only %d chunks of %d bytes", res.ChunksOpened, res.PlaintextBytes)
		}
	}
}
