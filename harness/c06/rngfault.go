package main

import (
	"errors"
	"fmt"
	"io"
	mrand "math/rand"

	"filippo.io/age/zverif/ax"
	"filippo.io/age/zverif/keys"
	"filippo.io/age/zverif/mon"
	"filippo.io/age/zverif/refage"
	"filippo.io/age/zverif/tape"
)

// failingSource passes reads through to the real CSPRNG except the k-th,
// which fails once (a transient failure of the system generator).
type failingSource struct {
	src    io.Reader
	failAt int
	n      int
	fired  bool
}

var errRNG = errors.New("verif: injected CSPRNG failure")

func (f *failingSource) Read(p []byte) (int, error) {
	idx := f.n
	f.n++
	if idx == f.failAt {
		f.fired = true
		return 0, errRNG
	}
	return f.src.Read(p)
}

// rngFaultPhase: the system CSPRNG may fail. Whenever an encryption still
// reports success after one of its draws failed, every secret of the file
// must nevertheless be a fresh CSPRNG value (traced to the tape as in the
// serial history) — a constant or zero value substituted for the failed draw
// is exactly what the property forbids. Fault position: every draw index of
// every recipient kind.
func rngFaultPhase(r *mon.Run, realRand io.Reader) {
	lists := [][]string{{"X1"}, {"S1"}, {"E1"}, {"R1"}, {"X1", "E1", "R1"}, {"X2", "X2"}}
	for li, l := range lists {
		for k := 0; k < 10; k++ {
			parties := keys.Ps(l...)
			src := &failingSource{src: realRand, failAt: k}
			t := mon.InstallTap(src)
			pt := mon.DetBytes(fmt.Sprintf("c06-rngfault-%d-%d", li, k), 100)
			var file []byte
			var err error
			func() {
				defer func() {
					if p := recover(); p != nil {
						err = fmt.Errorf("PANIC: %v", p)
					}
				}()
				file, err = ax.Encrypt(pt, false, keys.Recipients(parties)...)
			}()
			draws := t.Since(0)
			t.Uninstall()
			if !src.fired {
				continue
			}
			name := fmt.Sprintf("rng-fault list=%v failed-draw=%d", l, k)
			r.Eval(1)
			r.Distinct(name)
			r.Count("rng_fault_scenarios_fired", 1)
			if err != nil {
				if len(err.Error()) > 5 && err.Error()[:5] == "PANIC" {
					// a crash is not a reported success: nothing was written
					// under a stale value. Crashes are C14's subject; here
					// they are counted.
					r.Count("rng_fault_ended_in_a_panic_not_judged_here", 1)
				}
				r.Count("rng_fault_reported_by_encrypt", 1)
				continue
			}
			// success was reported although a draw failed: every secret must
			// still come from the tape
			if _, xerr := tape.Explain(file, parties, pt, draws, keys.ScryptLogN); xerr != nil {
				cls := "unexplained"
				if pe, ok := xerr.(*tape.ErrProvenance); ok {
					cls = roleClass(pe.Role)
				}
				r.Violate("rng-fault-ignored:"+cls, fmt.Sprintf("%s: Encrypt reported success although the CSPRNG failed, and %v", name, xerr), map[string]any{"list": l, "failed_draw": k})
			} else {
				r.Count("rng_fault_survived_with_fresh_secrets", 1)
			}
			_ = refage.Intro
		}
	}
}

// shortReadPhase: the process-wide generator may be a healthy reader that
// returns fewer bytes than asked for, with a nil error (a buffered or
// hardware-backed generator; io.Reader allows it). A caller that ignores the
// count keeps zeros in the tail of its secret. Every secret of every file
// written under such a generator must still be made of tape bytes only.
func shortReadPhase(r *mon.Run, realRand io.Reader) {
	lists := [][]string{{"X1"}, {"S1"}, {"E1"}, {"R1"}, {"R4"}, {"X1", "E1", "R1"}, {"E1", "E2", "X2"}, {"X2", "X2"}}
	patterns := []struct {
		name string
		f    func(rng *mrand.Rand) func(int) int
	}{
		{"one-byte", func(*mrand.Rand) func(int) int { return func(int) int { return 1 } }},
		{"all-but-one", func(*mrand.Rand) func(int) int { return func(w int) int { return w - 1 } }},
		{"half", func(*mrand.Rand) func(int) int { return func(w int) int { return (w + 1) / 2 } }},
		{"random", func(rng *mrand.Rand) func(int) int {
			return func(w int) int { return 1 + rng.Intn(w) }
		}},
	}
	for li, l := range lists {
		for pi, pat := range patterns {
			for rep := 0; rep < r.Pick(3, 20); rep++ {
				parties := keys.Ps(l...)
				rng := mon.NewRNG(r.Seed, fmt.Sprintf("c06-short-%d-%d-%d", li, pi, rep))
				t := mon.InstallTap(realRand)
				t.Short = pat.f(rng)
				pt := mon.DetBytes(fmt.Sprintf("c06-short-%d-%d-%d", li, pi, rep), 70000*(rep%2)+100)
				file, err := ax.Encrypt(pt, false, keys.Recipients(parties)...)
				draws := t.Since(0)
				t.Uninstall()
				name := fmt.Sprintf("short-reading-generator list=%v pattern=%s rep=%d", l, pat.name, rep)
				r.Eval(1)
				r.Distinct(name)
				r.Tab("short_reading_generator", pat.name)
				if err != nil {
					// refusing to work with such a generator is not a leak
					r.Count("short_read_generator_refused", 1)
					continue
				}
				if _, xerr := tape.Explain(file, parties, pt, draws, keys.ScryptLogN); xerr != nil {
					cls := "unexplained"
					if pe, ok := xerr.(*tape.ErrProvenance); ok {
						cls = roleClass(pe.Role)
					}
					r.Violate("short-read-ignored:"+cls, fmt.Sprintf("%s: %v", name, xerr), map[string]any{"list": l, "pattern": pat.name})
					continue
				}
				r.Count("short_read_files_with_fresh_secrets", 1)
			}
		}
	}
	if r.Counter("short_read_files_with_fresh_secrets") == 0 && r.Counter("short_read_generator_refused") == 0 {
		r.Inconclusive("the short-reading generator phase explained no file")
	}
}
