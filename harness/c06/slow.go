package main

import (
	"encoding/json"
	"fmt"
	"os"
	"os/exec"
	"strings"
	"sync"
	"time"

	"filippo.io/age/zverif/ax"
	"filippo.io/age/zverif/keys"
	"filippo.io/age/zverif/mon"
	"filippo.io/age/zverif/tape"
)

// A healthy but SLOW system generator (early boot, a VM without an entropy
// device): every Read returns the full count of good bytes and no error, only
// late. The secrets of a file written meanwhile must still be those bytes.
// Because crypto/rand.Reader is process-wide and the delays are long (seconds,
// longer than any plausible "tell the user we are waiting" threshold), each
// scenario runs in a child process of this binary beside the main history;
// the children explain their file from their own tape with the same
// provenance oracle and report one JSON line.
type slowScenario struct {
	Name    string   `json:"name"`
	List    []string `json:"list"`
	Read    int      `json:"slow_read"` // index of the slow Read within the call, -1: every Read
	DelayMs int      `json:"delay_ms"`
}

type slowReport struct {
	Scenario slowScenario `json:"scenario"`
	Draws    int          `json:"draws"`
	Slept    int          `json:"reads_delayed"`
	Err      string       `json:"error,omitempty"`
	Kind     string       `json:"kind,omitempty"` // encrypt-error, provenance, unexplained
}

func slowScenarios(thorough bool) []slowScenario {
	s := []slowScenario{
		{"first read 11 s", []string{"X1"}, 0, 11000},
		{"second read 11 s", []string{"X1"}, 1, 11000},
		{"third read 11 s", []string{"X1"}, 2, 11000},
		{"every read 2.5 s", []string{"X1", "E1"}, -1, 2500},
		{"first read 6 s, passphrase", []string{"S1"}, 0, 6000},
		{"last read 6 s, ssh-rsa and unknown", []string{"R1", "U1", "X2"}, 3, 6000},
	}
	if thorough {
		s = append(s,
			slowScenario{"first read 35 s", []string{"X1"}, 0, 35000},
			slowScenario{"second read 35 s", []string{"E1", "X1"}, 1, 35000},
			slowScenario{"every read 700 ms, long list", []string{"X1", "X2", "E1", "R1", "G1"}, -1, 700},
			slowScenario{"nonce read 65 s", []string{"X1"}, 2, 65000})
	}
	return s
}

// slowChild runs one scenario and prints its report; it never returns.
func slowChild(spec string) {
	var sc slowScenario
	rep := slowReport{}
	defer func() {
		b, _ := json.Marshal(rep)
		fmt.Println(string(b))
		os.Exit(0)
	}()
	if err := json.Unmarshal([]byte(spec), &sc); err != nil {
		rep.Err, rep.Kind = err.Error(), "harness"
		return
	}
	rep.Scenario = sc
	parties := keys.Ps(sc.List...)
	pt := mon.DetBytes("c06-slow-"+sc.Name, 70000)
	t := mon.InstallTap(nil)
	mark := t.Mark()
	t.Delay = func(seq int) time.Duration {
		if sc.Read < 0 || seq-mark == sc.Read {
			rep.Slept++
			return time.Duration(sc.DelayMs) * time.Millisecond
		}
		return 0
	}
	file, err := ax.Encrypt(pt, false, keys.Recipients(parties)...)
	t.Delay = nil
	draws := t.Since(mark)
	t.Uninstall()
	rep.Draws = len(draws)
	if err != nil {
		rep.Err, rep.Kind = err.Error(), "encrypt-error"
		return
	}
	if _, err := tape.Explain(file, parties, pt, draws, keys.ScryptLogN); err != nil {
		rep.Err, rep.Kind = err.Error(), "unexplained"
		if pe, ok := err.(*tape.ErrProvenance); ok {
			rep.Kind = "provenance:" + roleClass(pe.Role)
		}
	}
}

// startSlowChildren launches the scenarios; the returned function waits for
// them and judges the reports.
func startSlowChildren(r *mon.Run) (finish func()) {
	scs := slowScenarios(r.Thorough())
	reports := make([]string, len(scs))
	errs := make([]error, len(scs))
	var wg sync.WaitGroup
	for i, sc := range scs {
		spec, _ := json.Marshal(sc)
		wg.Add(1)
		go func(i int) {
			defer wg.Done()
			cmd := exec.Command(os.Args[0])
			cmd.Env = append(os.Environ(), "VERIF_C06_SLOW="+string(spec))
			out, err := cmd.Output()
			reports[i], errs[i] = strings.TrimSpace(string(out)), err
		}(i)
	}
	return func() {
		wg.Wait()
		for i, sc := range scs {
			r.Eval(1)
			var rep slowReport
			if errs[i] != nil || json.Unmarshal([]byte(reports[i]), &rep) != nil || rep.Kind == "harness" {
				r.Inconclusive("slow generator scenario %q left no report (%v): %s", sc.Name, errs[i], mon.Trunc([]byte(reports[i]), 200))
				continue
			}
			r.Tab("slow_generator_scenarios", sc.Name)
			replay := map[string]any{"scenario": sc, "how": "VERIF_C06_SLOW='<scenario as JSON>' <monitor binary>"}
			switch {
			case rep.Slept == 0:
				r.Inconclusive("slow generator scenario %q: the slow read was never made (%d reads)", sc.Name, rep.Draws)
			case rep.Kind == "encrypt-error":
				// giving up on a generator that is late is a refusal, not a reused or
				// constant secret
				r.Count("slow_generator_refused", 1)
			case rep.Kind != "":
				r.Violate("slow-generator:"+rep.Kind, fmt.Sprintf("system generator healthy but slow (%s, list %s): %s", sc.Name, strings.Join(sc.List, ","), rep.Err), replay)
			default:
				r.Count("slow_generator_files_explained_from_their_tape", 1)
				r.SampleN("slow-generator", 1, map[string]any{"scenario": sc, "reads_in_the_call": rep.Draws, "reads_delayed": rep.Slept, "oracle": "every secret of the file traced by value to the bytes the slow reads returned"})
			}
		}
	}
}
