package main

import (
	"bufio"
	"bytes"
	"encoding/binary"
	"fmt"
	"os"
	"path/filepath"
	"regexp"
	"strconv"
	"strings"

	"filippo.io/age/zverif/cli"
	"filippo.io/age/zverif/keys"
	"filippo.io/age/zverif/mon"
	"filippo.io/age/zverif/refage"
	"filippo.io/age/zverif/tape"
)

var getrandomRe = regexp.MustCompile(`getrandom\("((?:\\x[0-9a-f]{2})*)"(\.\.\.)?, (\d+), [^)]*\)\s+= (\d+)`)

// parseGetrandom extracts every completed getrandom call of a strace -xx log.
func parseGetrandom(log []byte) (draws []mon.Draw, truncated int) {
	sc := bufio.NewScanner(bytes.NewReader(log))
	sc.Buffer(make([]byte, 1<<20), 1<<20)
	for sc.Scan() {
		m := getrandomRe.FindStringSubmatch(sc.Text())
		if m == nil {
			continue
		}
		hexs := strings.ReplaceAll(m[1], `\x`, "")
		b := make([]byte, len(hexs)/2)
		for i := range b {
			v, _ := strconv.ParseUint(hexs[2*i:2*i+2], 16, 8)
			b[i] = byte(v)
		}
		ret, _ := strconv.Atoi(m[4])
		if m[2] != "" || len(b) != ret {
			truncated++
			continue
		}
		draws = append(draws, mon.Draw{Seq: len(draws), Bytes: b})
	}
	return
}

func cliLayer(r *mon.Run) {
	age := os.Getenv("AGE_BIN")
	if age == "" {
		r.Inconclusive("AGE_BIN not set: CLI layer skipped")
		return
	}
	work, err := os.MkdirTemp(os.Getenv("VERIF_SCRATCH"), "c06cli.")
	if err != nil {
		r.Inconclusive("scratch: %v", err)
		return
	}
	defer os.RemoveAll(work)

	type inv struct {
		list []string
		size int
		arm  bool
	}
	var invs []inv
	base := [][]string{{"X1"}, {"X1", "X1"}, {"X1", "X2"}, {"E1"}, {"R1"}, {"X2", "E1", "R1"}, {"E1", "E1"}, {"R1", "X1", "E2"}}
	for i := 0; i < r.Pick(24, 120); i++ {
		invs = append(invs, inv{base[i%len(base)], []int{0, 1, 100, 65536, 65537, 200000}[i%6], i%3 == 0})
	}
	seenVals := map[string]string{}
	for i, iv := range invs {
		in := filepath.Join(work, "in")
		out := filepath.Join(work, "out")
		logp := filepath.Join(work, "trace")
		os.Remove(out)
		pt := mon.DetBytes(fmt.Sprintf("c06cli-%d-%d", r.Seed, i), iv.size)
		os.WriteFile(in, pt, 0o600)
		argv := []string{age}
		parties := keys.Ps(iv.list...)
		for _, n := range iv.list {
			argv = append(argv, "-r", recipientString(n))
		}
		if iv.arm {
			argv = append(argv, "-a")
		}
		argv = append(argv, "-o", out, in)
		res := cli.Run(&cli.Cmd{Argv: argv, Dir: work, Strace: []string{"-xx", "-s", "256", "-e", "trace=getrandom"}, StraceLog: logp})
		r.Eval(1)
		name := fmt.Sprintf("cli#%d age -r %s size=%d armor=%v", i, strings.Join(iv.list, ","), iv.size, iv.arm)
		if res.Err != nil || res.Exit != 0 {
			r.Inconclusive("%s: did not run cleanly: %v %s", name, res.Err, res)
			continue
		}
		log, _ := os.ReadFile(logp)
		draws, trunc := parseGetrandom(log)
		if len(draws) == 0 {
			r.Inconclusive("%s: no getrandom call traced (different runtime randomness path?)", name)
			continue
		}
		file, _ := os.ReadFile(out)
		bin := file
		if iv.arm {
			if bin, err = refage.Dearmor(file); err != nil {
				r.Violate("cli-armor", name+": armored output rejected by the strict model", nil)
				continue
			}
		}
		ex, err := tape.Explain(bin, parties, pt, draws, keys.ScryptLogN)
		if err != nil {
			if e, ok := err.(*tape.ErrProvenance); ok {
				r.Violate("cli-provenance:"+roleClass(e.Role), fmt.Sprintf("%s: %v (getrandom calls: %s, %d unparsed)", name, err, drawSizes(draws), trunc), map[string]any{"argv": argv})
			} else {
				r.Violate("cli-unexplained:"+shortErr(err), fmt.Sprintf("%s: %v", name, err), map[string]any{"argv": argv})
			}
			continue
		}
		for _, u := range ex.Uses {
			k := string(u.Value)
			if prev, dup := seenVals[k]; dup {
				r.Violate("cli-secret-reused:"+roleClass(u.Role), fmt.Sprintf("%s: %s equals %s of an earlier invocation", name, u.Role, prev), nil)
			}
			seenVals[k] = fmt.Sprintf("cli#%d %s", i, u.Role)
			r.Tab("cli_roles_traced_to_getrandom", roleClass(u.Role))
		}
		r.DistinctBytes(file)
		r.Count("cli_files_explained", 1)
		r.SampleN("cli", 2, map[string]any{"layer": "cli", "argv": strings.Join(argv[1:], " "), "getrandom_calls": drawSizes(draws), "roles": rolesOf(ex.Uses)})
	}
	autogenPassphrase(r, age, work)
}

func recipientString(party string) string {
	switch party[0] {
	case 'X':
		return keys.NewX(party).PublicStr
	case 'E':
		return keys.LoadEd(map[string]string{"E1": "ed1", "E2": "ed2", "E3": "ed3"}[party]).PubLine
	case 'R':
		return keys.LoadRSA(map[string]string{"R1": "rsa1", "R2": "rsa2", "R3": "rsa3"}[party]).PubLine
	}
	panic(party)
}

// wordlistOf reads the CLI's word table from the tree under test (a data
// table: the monitor checks that each printed word is table[BE16(draw) mod
// 2048] for a distinct traced 2-byte draw, not what the table contains).
func wordlistOf() []string {
	src := os.Getenv("AGE_SRC")
	if src == "" {
		src = "/repo"
	}
	b, err := os.ReadFile(filepath.Join(src, "cmd", "age", "wordlist.go"))
	if err != nil {
		return nil
	}
	i := bytes.Index(b, []byte("var wordlist = strings.Split("))
	if i < 0 {
		return nil
	}
	rest := b[i+len("var wordlist = strings.Split("):]
	if len(rest) == 0 || (rest[0] != '`' && rest[0] != '"') {
		return nil
	}
	j := bytes.IndexByte(rest[1:], rest[0])
	if j < 0 {
		return nil
	}
	return strings.Fields(string(rest[1 : 1+j]))
}

var autogenRe = regexp.MustCompile(`using autogenerated passphrase "([a-z-]+)"`)

func autogenPassphrase(r *mon.Run, age, work string) {
	words := wordlistOf()
	if len(words) != 2048 {
		r.Inconclusive("word list not found in the tree (%d words): autogenerated-passphrase check skipped", len(words))
		return
	}
	seen := map[string]bool{}
	n := r.Pick(3, 6)
	for i := 0; i < n; i++ {
		in := filepath.Join(work, "pin")
		out := filepath.Join(work, "pout")
		logp := filepath.Join(work, "ptrace")
		os.Remove(out)
		os.WriteFile(in, []byte("x"), 0o600)
		res := cli.Run(&cli.Cmd{Argv: []string{age, "-p", "-o", out, in}, Dir: work, TTY: true,
			Script:    []cli.TTYStep{{Expect: "Enter passphrase", Send: "\n"}},
			Strace:    []string{"-xx", "-s", "256", "-e", "trace=getrandom"},
			StraceLog: logp})
		r.Eval(1)
		if res.Err != nil || res.Exit != 0 {
			r.Inconclusive("age -p with an empty passphrase did not run cleanly: %v %s tty=%q", res.Err, res, mon.Trunc(res.TTYOut, 200))
			continue
		}
		m := autogenRe.FindSubmatch(res.TTYOut)
		if m == nil {
			r.Violate("autogen-not-shown", fmt.Sprintf("no autogenerated passphrase on the terminal: %q", mon.Trunc(res.TTYOut, 300)), nil)
			continue
		}
		pass := string(m[1])
		ws := strings.Split(pass, "-")
		log, _ := os.ReadFile(logp)
		draws, _ := parseGetrandom(log)
		used := map[int]bool{}
		okAll := len(ws) == 10
		for _, w := range ws {
			found := false
			for _, d := range draws {
				if len(d.Bytes) == 2 && !used[d.Seq] && words[int(binary.BigEndian.Uint16(d.Bytes))%2048] == w {
					used[d.Seq] = true
					found = true
					break
				}
			}
			if !found {
				okAll = false
			}
		}
		if !okAll {
			r.Violate("autogen-provenance", fmt.Sprintf("autogenerated passphrase %q: its %d words are not each wordlist[BE16(draw) mod 2048] of a distinct traced 2-byte getrandom draw (draw sizes %s)", pass, len(ws), drawSizes(draws)), nil)
		}
		if seen[pass] {
			r.Violate("autogen-repeated", "the same autogenerated passphrase was produced twice: "+pass, nil)
		}
		seen[pass] = true
		// and the file must decrypt with that passphrase
		file, _ := os.ReadFile(out)
		if o, err := refage.Decrypt(file, refage.ScryptKey{Pass: pass}); err != nil || string(o.Plaintext) != "x" {
			r.Violate("autogen-decrypt", fmt.Sprintf("file written with the autogenerated passphrase does not open with it: %v", err), nil)
		}
		r.Distinct("autogen:" + pass)
		r.Count("autogenerated_passphrases_checked", 1)
		r.SampleN("autogen", 1, map[string]any{"layer": "cli -p", "words_traced_to_2_byte_draws": len(used), "getrandom_calls": drawSizes(draws)})
	}
}
