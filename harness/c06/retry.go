package main

import (
	"bytes"
	"crypto/sha256"
	"fmt"

	"filippo.io/age"
	"filippo.io/age/zverif/keys"
	"filippo.io/age/zverif/mon"
	"filippo.io/age/zverif/refage"
)

// offerLog is a destination that records every buffer it is OFFERED (also by
// the call it fails) and fails exactly one call.
type offerLog struct {
	failAt  int
	calls   int
	offered [][]byte
	fired   bool
}

func (o *offerLog) Write(p []byte) (int, error) {
	idx := o.calls
	o.calls++
	o.offered = append(o.offered, append([]byte(nil), p...))
	if idx == o.failAt {
		o.fired = true
		return 0, mon.ErrInjected
	}
	return len(p), nil
}

// retryPhase: a caller that meets a transient destination error may retry the
// failed Write or Close. Whatever the writer does then, no (key, nonce) pair
// may seal two different messages and the plaintext must never be offered to
// the destination in the clear. Observed at the destination boundary: every
// buffer offered after the payload nonce is tried under every (counter, final
// flag) of the file's stream key (the file key is captured by a recording
// recipient, an interface the caller owns).
func retryPhase(r *mon.Run) {
	x1 := keys.P("X1")
	sizes := []int{0, 1000, 65536, 65536 + 1, 2*65536 + 500, 3 * 65536}
	type sc struct {
		size   int
		failAt int
		step   int
	}
	var scs []sc
	for _, n := range sizes {
		for _, step := range []int{0, 65536, 4096} {
			if step > 0 && n <= step {
				continue
			}
			for k := 0; k < 60; k++ {
				scs = append(scs, sc{n, k, step})
			}
		}
	}
	mon.Par(len(scs), func(i int) {
		s := scs[i]
		name := fmt.Sprintf("retry size=%d step=%d fail@call%d", s.size, s.step, s.failAt)
		r.Guard(name, func() {
			pt := mon.DetBytes(fmt.Sprintf("c06-retry-%d", s.size), s.size)
			var fk []byte
			dst := &offerLog{failAt: s.failAt}
			w, err := age.Encrypt(dst, recordingRecipient{&fk}, x1.Recipient)
			if err != nil || w == nil {
				return // the fault hit the header or nonce: nothing to retry on this writer
			}
			retried := ""
			p := pt
			for len(p) > 0 || s.size == 0 {
				n := len(p)
				if s.step > 0 && n > s.step {
					n = s.step
				}
				if _, err := w.Write(p[:n]); err != nil {
					retried = "Write"
					w.Write(p[:n]) // one retry with the same data
				}
				p = p[n:]
				if s.size == 0 {
					break
				}
			}
			if err := w.Close(); err != nil {
				retried = "Close"
				if err2 := w.Close(); err2 == nil {
					r.Count("retry_second_close_reported_success", 1)
				}
			}
			if !dst.fired {
				return
			}
			r.Eval(1)
			r.Distinct(name)
			r.Count("retry_scenarios_with_fault_fired", 1)
			r.Tab("retry_after_failed", retried)
			// locate the nonce: the 16-byte buffer offered right after the header
			var all []byte
			nonceIdx := -1
			for k, b := range dst.offered {
				all = append(all, b...)
				if nonceIdx < 0 && len(b) == 16 && refage.HeaderEnd(all[:len(all)-16]) == len(all)-16 {
					nonceIdx = k
				}
			}
			if nonceIdx < 0 || fk == nil {
				r.Count("retry_nonce_not_located", 1)
				return
			}
			sk := refage.StreamKey(fk, dst.offered[nonceIdx])
			seen := map[string][32]byte{}
			for k := nonceIdx + 1; k < len(dst.offered); k++ {
				b := dst.offered[k]
				if len(pt) >= 24 && len(b) >= 24 {
					// plaintext offered in the clear?
					probe := pt[:24]
					if len(pt) > 70000 {
						probe = pt[65536+8 : 65536+32]
					}
					if bytes.Contains(b, probe) || bytes.Contains(b, pt[len(pt)-24:]) {
						r.Violate("plaintext-offered-in-clear:after-retried-"+retried, fmt.Sprintf("%s: after the caller retried the failed %s, a buffer offered to the destination contains the plaintext in the clear", name, retried), map[string]any{"scenario": name})
					}
				}
				if len(b) < 16 {
					continue
				}
				h := sha256.Sum256(b)
				for ctr := uint64(0); ctr <= uint64(s.size/65536)+2; ctr++ {
					for _, last := range []bool{false, true} {
						if _, err := refage.OpenChunk(sk, ctr, last, b); err == nil {
							key := fmt.Sprintf("%d/%v", ctr, last)
							if prev, dup := seen[key]; dup && prev != h {
								r.Violate("seal-reused:payload-chunk:after-retried-"+retried, fmt.Sprintf("%s: two different buffers offered to the destination both authenticate under the stream key with counter %d final=%v: the (key, nonce) pair sealed two messages", name, ctr, last), map[string]any{"scenario": name})
							}
							seen[key] = h
							r.Count("retry_offered_chunks_opened", 1)
						}
					}
				}
			}
		})
	})
}
