// Package plug is the monitor-side driver of the scripted plugin
// (cmd/fakeplugin). It does not import age.
package plug

import (
	"bufio"
	"encoding/json"
	"fmt"
	"os"
	"path/filepath"
	"strings"
)

type Step struct {
	Send     []byte `json:"send"`               // raw bytes written to stdout
	NoReply  bool   `json:"no_reply,omitempty"` // do not wait for a reply stanza (e.g. after "done")
	DelayMs  int    `json:"delay_ms,omitempty"` // sleep before sending
	Bytewise bool   `json:"bytewise,omitempty"` // write and flush one byte at a time
	// SplitAt > 0: write Send[:SplitAt], sleep SplitDelayMs, then write the rest
	// (a plugin that pauses in the middle of a message)
	SplitAt      int `json:"split_at,omitempty"`
	SplitDelayMs int `json:"split_delay_ms,omitempty"`
}

type Script struct {
	Steps []Step `json:"steps"`
	// End: "eof" (default) keep reading stdin until EOF, then exit 0;
	//      "exit"   exit immediately after the last step without reading on;
	//      "linger" close stdout, then wait for stdin EOF.
	End       string `json:"end,omitempty"`
	SkipPhase bool   `json:"skip_phase1,omitempty"` // start sending without reading phase 1
	// Burst: write every step's bytes in ONE write before reading any reply
	// (a pipelining plugin); replies are then read in order.
	Burst bool `json:"burst,omitempty"`
	// Helper: before anything else the plugin starts a helper process (an
	// agent, a pinentry) that inherits its standard error, does not touch
	// stdin or stdout, and outlives it: it exits when StopHelpers is called
	// (or after 150 s).
	Helper bool `json:"helper,omitempty"`
	// ExitCode is the status the plugin process ends with when it finishes
	// normally (the protocol gives the exit status no meaning).
	ExitCode int `json:"exit_code,omitempty"`
	// OnInterrupt > 0: instead of ignoring the client's interrupt signal the
	// plugin handles it like a conventional program and exits with this status.
	OnInterrupt int `json:"on_interrupt,omitempty"`
	// Deaf: after phase 1 the plugin CLOSES ITS STANDARD INPUT and then sends
	// all its steps without waiting for replies (it cannot read them): every
	// reply the client owes is undeliverable.
	Deaf bool `json:"deaf,omitempty"`
}

type StepLog struct {
	Sent     []byte `json:"sent"`
	Reply    []byte `json:"reply,omitempty"` // raw bytes of the client's reply stanza
	ReplyEOF bool   `json:"reply_eof,omitempty"`
	WriteErr string `json:"write_err,omitempty"`
}

type Transcript struct {
	Name      string    `json:"name"`
	Argv      []string  `json:"argv"`
	Cwd       string    `json:"cwd"`
	Phase1    []byte    `json:"phase1"`
	Phase1EOF bool      `json:"phase1_eof,omitempty"`
	Steps     []StepLog `json:"steps"`
	Trailing  []byte    `json:"trailing,omitempty"`
	End       string    `json:"end"`
}

// Start is one line of starts.log.
type Start struct {
	Name string   `json:"name"`
	Argv []string `json:"argv"`
	Cwd  string   `json:"cwd"`
	Pid  int      `json:"pid"`
}

// Env is a per-run plugin directory placed first on PATH.
type Env struct {
	Dir string
	Bin string
}

// Setup creates the plugin directory under $VERIF_SCRATCH (or the system temp
// dir), exports FAKEPLUGIN_DIR and prepends the directory to PATH. The
// fakeplugin binary is taken from $VERIF_FAKEPLUGIN (built by ./check).
func Setup() (*Env, error) {
	bin := os.Getenv("VERIF_FAKEPLUGIN")
	if bin == "" {
		return nil, fmt.Errorf("VERIF_FAKEPLUGIN not set (run through ./check)")
	}
	base := os.Getenv("VERIF_SCRATCH")
	if base == "" {
		base = os.TempDir()
	}
	dir, err := os.MkdirTemp(base, "plugins.")
	if err != nil {
		return nil, err
	}
	os.Setenv("FAKEPLUGIN_DIR", dir)
	os.Setenv("PATH", dir+string(os.PathListSeparator)+os.Getenv("PATH"))
	return &Env{Dir: dir, Bin: bin}, nil
}

// Install makes age-plugin-NAME available in the plugin directory.
func (e *Env) Install(name string) error {
	p := filepath.Join(e.Dir, "age-plugin-"+name)
	os.Remove(p)
	return os.Symlink(e.Bin, p)
}

// InstallAt installs age-plugin-NAME in another directory (sentinels).
func (e *Env) InstallAt(dir, name string) error {
	os.MkdirAll(dir, 0o755)
	p := filepath.Join(dir, "age-plugin-"+name)
	os.Remove(p)
	return os.Symlink(e.Bin, p)
}

// SetScript writes NAME.script; the next start of age-plugin-NAME plays it.
func (e *Env) SetScript(name string, sc *Script) error {
	b, err := json.Marshal(sc)
	if err != nil {
		return err
	}
	os.Remove(filepath.Join(e.Dir, name+".transcript.json"))
	return os.WriteFile(filepath.Join(e.Dir, name+".script"), b, 0o644)
}

// Transcript reads and removes NAME.transcript.json.
func (e *Env) Transcript(name string) (*Transcript, error) {
	p := filepath.Join(e.Dir, name+".transcript.json")
	b, err := os.ReadFile(p)
	if err != nil {
		return nil, err
	}
	os.Remove(p)
	var t Transcript
	if err := json.Unmarshal(b, &t); err != nil {
		return nil, err
	}
	return &t, nil
}

// Starts returns every start record logged so far.
func (e *Env) Starts() []Start {
	f, err := os.Open(filepath.Join(e.Dir, "starts.log"))
	if err != nil {
		return nil
	}
	defer f.Close()
	var out []Start
	sc := bufio.NewScanner(f)
	sc.Buffer(make([]byte, 1<<20), 1<<20)
	for sc.Scan() {
		var s Start
		if json.Unmarshal([]byte(strings.TrimSpace(sc.Text())), &s) == nil {
			out = append(out, s)
		}
	}
	return out
}

// ClearStarts truncates starts.log.
// StopHelpers makes every helper process started by a Helper script exit.
func (e *Env) StopHelpers() { os.WriteFile(filepath.Join(e.Dir, "helpers.stop"), nil, 0o644) }

// ResetHelpers lets helper processes started from now on live again.
func (e *Env) ResetHelpers() { os.Remove(filepath.Join(e.Dir, "helpers.stop")) }

func (e *Env) ClearStarts() { os.Remove(filepath.Join(e.Dir, "starts.log")) }

// Stanza renders a protocol stanza (type, args, body) in canonical form.
func Stanza(typ string, args []string, body []byte) []byte {
	var sb strings.Builder
	sb.WriteString("-> " + typ)
	for _, a := range args {
		sb.WriteString(" " + a)
	}
	sb.WriteString("\n")
	s := b64(body)
	for len(s) >= 64 {
		sb.WriteString(s[:64] + "\n")
		s = s[64:]
	}
	sb.WriteString(s + "\n")
	return []byte(sb.String())
}

const b64chars = "ABCDEFGHIJKLMNOPQRSTUVWXYZabcdefghijklmnopqrstuvwxyz0123456789+/"

func b64(b []byte) string {
	var out []byte
	for i := 0; i+3 <= len(b); i += 3 {
		v := uint(b[i])<<16 | uint(b[i+1])<<8 | uint(b[i+2])
		out = append(out, b64chars[v>>18&63], b64chars[v>>12&63], b64chars[v>>6&63], b64chars[v&63])
	}
	switch len(b) % 3 {
	case 1:
		v := uint(b[len(b)-1]) << 16
		out = append(out, b64chars[v>>18&63], b64chars[v>>12&63])
	case 2:
		v := uint(b[len(b)-2])<<16 | uint(b[len(b)-1])<<8
		out = append(out, b64chars[v>>18&63], b64chars[v>>12&63], b64chars[v>>6&63])
	}
	return string(out)
}
