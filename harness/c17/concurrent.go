package main

import (
	"fmt"
	"strings"
	"sync"

	"filippo.io/age/plugin"
	"filippo.io/age/zverif/mon"
	"filippo.io/age/zverif/refage"
)

// concurrentNames: plugin recipients and identities of DIFFERENT names used
// at the same time from many goroutines of one process (a server that
// encrypts to several plugin recipients). Which program is looked up for a
// value depends on that value's name alone. The names are not installed, so
// no process is started: the client's error quotes the program it searched
// PATH for, and each caller checks that it is its own. A second, shorter
// burst uses installed sentinels and compares the multiset of programs
// started with the calls made.
func concurrentNames(r *mon.Run, w *world) {
	names := []string{"nxalfa", "nxbeta", "nxgamma-with-a-longer-name", "nxd", "nx-e.f_g+h", "nxzeta0123456789012345678901234567890123456789", "nxeta", "nxtheta"}
	ui := &plugin.ClientUI{}
	fileKey := []byte("0123456789abcdef")
	rounds := r.Pick(1500, 15000)
	var wg sync.WaitGroup
	var mu sync.Mutex
	bad := map[string]string{}
	var calls int64
	for gi := 0; gi < 16; gi++ {
		name := names[gi%len(names)]
		wg.Add(1)
		go func(gi int, name string) {
			defer wg.Done()
			rc, err := plugin.NewRecipient(refage.Bech32Encode("age1"+name, []byte{byte(gi)}), ui)
			if err != nil {
				r.Inconclusive("concurrent names: NewRecipient(%s): %v", name, err)
				return
			}
			id, err := plugin.NewIdentityWithoutData(name, ui)
			if err != nil {
				r.Inconclusive("concurrent names: NewIdentityWithoutData(%s): %v", name, err)
				return
			}
			want := `"age-plugin-` + name + `"`
			for k := 0; k < rounds; k++ {
				var err error
				if (k+gi)%2 == 0 {
					_, err = rc.Wrap(fileKey)
				} else {
					_, err = id.Recipient().Wrap(fileKey)
				}
				mu.Lock()
				calls++
				mu.Unlock()
				if err == nil {
					mu.Lock()
					bad[name] = "a plugin that is not installed answered"
					mu.Unlock()
					return
				}
				if msg := err.Error(); strings.Contains(msg, "age-plugin-") && !strings.Contains(msg, want) {
					mu.Lock()
					bad[name] = msg
					mu.Unlock()
					return
				}
			}
		}(gi, name)
	}
	wg.Wait()
	r.Eval(int(calls))
	r.Count("concurrent_lookups_of_different_plugin_names", calls)
	for name, msg := range bad {
		r.Violate("concurrent-names:wrong-program-looked-up", fmt.Sprintf("while other plugin names were in use concurrently, the client for plugin %q looked for another program: %s", name, mon.Trunc([]byte(msg), 200)), map[string]any{"name": name, "goroutines": 16})
	}

	// installed sentinels: every start is logged by the program started
	inst := []string{"cnalfa", "cnbeta", "cngamma", "cndelta"}
	for _, n := range inst {
		w.sentinel(w.dA, n)
	}
	w.clear()
	per := r.Pick(12, 60)
	for gi := 0; gi < 8; gi++ {
		name := inst[gi%len(inst)]
		wg.Add(1)
		go func(gi int, name string) {
			defer wg.Done()
			rc, err := plugin.NewRecipient(refage.Bech32Encode("age1"+name, []byte{byte(gi)}), ui)
			if err != nil {
				return
			}
			for k := 0; k < per; k++ {
				rc.Wrap(fileKey)
			}
		}(gi, name)
	}
	wg.Wait()
	got := map[string]int{}
	for _, s := range w.starts() {
		if s != "" {
			got[s]++
		}
	}
	r.Eval(8 * per)
	for _, n := range inst {
		p := w.dA + "/age-plugin-" + n
		if got[p] != 2*per {
			r.Violate("concurrent-names:starts-do-not-match-calls", fmt.Sprintf("8 goroutines made %d calls for each of %v; %s was started %d times (all starts: %v)", 2*per, inst, p, got[p], got), map[string]any{"names": inst})
		}
		delete(got, p)
	}
	if len(got) > 0 {
		r.Violate("concurrent-names:unexpected-program", fmt.Sprintf("programs nobody asked for were started: %v", got), nil)
	}
	r.Count("concurrent_plugin_starts_matched_to_calls", int64(8*per))
}
