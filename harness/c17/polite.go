package main

import (
	"fmt"
	"os"
	"path/filepath"
	"strings"

	"filippo.io/age/zverif/cli"
	"filippo.io/age/zverif/keys"
	"filippo.io/age/zverif/mon"
	"filippo.io/age/zverif/refage"
)

// polite installs a plugin that speaks just enough of the identity protocol
// to say "none of these is mine" (it reads phase 1 up to "done" and answers
// "done"), so that the tool goes on to the next identity. It logs its own
// start like every sentinel and, separately, every identity string it was
// handed.
func (w *world) polite(dir, name string) string {
	p := filepath.Join(dir, "age-plugin-"+name)
	idlog := w.log + ".identities"
	script := fmt.Sprintf(`#!/bin/sh
printf '%%s\n' %s >> %s
while IFS= read -r l; do
  case "$l" in
    "-> add-identity "*) printf '%%s %%s\n' %s "${l#-> add-identity }" >> %s ;;
    "-> done") break ;;
  esac
done
printf -- '-> done\n\n'
exit 0
`, shellQuote(p), shellQuote(w.log), shellQuote(name), shellQuote(idlog))
	os.WriteFile(p, []byte(script), 0o755)
	return p
}

// severalPlugins: several plugin identities of DIFFERENT plugins in one
// decryption, the names chosen to look alike (they contain the Bech32
// separator character, share a prefix, differ in case only after folding...).
// Every plugin named is started, in order, and is handed its own identity
// strings and nobody else's.
func severalPlugins(r *mon.Run, w *world, ageBin, work, path, home string) {
	groups := [][]string{{"p1x", "p1y"}, {"m1q", "m11", "m1a"}, {"vwy", "vwyz"}, {"k-1", "k-2"}, {"t1s", "tss"}} // (names of three and more characters: the shorter ones all have sentinels of their own)
	fk := []byte("0123456789abcdef")
	mine, _ := refage.X25519Wrap(fk, keys.NewX("X1").Public, mon.DetBytes("c17-several-eph", 32))
	file := refage.BuildFile(fk, []refage.Stanza{mine}, make([]byte, 16), []byte("several"))
	os.WriteFile(filepath.Join(work, "several.age"), file, 0o600)
	idlog := w.log + ".identities"
	for _, g := range groups {
		var paths, lines, want []string
		for i, n := range g {
			paths = append(paths, w.polite(w.dA, n))
			s := refage.Bech32Encode("AGE-PLUGIN-"+strings.ToUpper(n)+"-", []byte{byte(i + 1), 7, 7})
			lines = append(lines, s)
			want = append(want, n+" "+s)
		}
		for _, route := range []string{"one -i file", "one -i file each", "-j each"} {
			var argv []string
			switch route {
			case "one -i file":
				os.WriteFile(filepath.Join(work, "several.txt"), []byte(strings.Join(lines, "\n")+"\n"), 0o600)
				argv = []string{"-d", "-i", "several.txt"}
			case "one -i file each":
				argv = []string{"-d"}
				for i, l := range lines {
					f := fmt.Sprintf("several%d.txt", i)
					os.WriteFile(filepath.Join(work, f), []byte(l+"\n"), 0o600)
					argv = append(argv, "-i", f)
				}
			default:
				argv = []string{"-d"}
				for _, n := range g {
					argv = append(argv, "-j", n)
				}
			}
			argv = append(argv, "-o", "several.out", "several.age")
			w.clear()
			os.Remove(idlog)
			res := cli.Run(&cli.Cmd{Argv: append([]string{ageBin}, argv...), Dir: work, Env: []string{path, "TMPDIR=" + w.tmp, "HOME=" + home}})
			r.Eval(1)
			desc := fmt.Sprintf("plugins %v, %s", g, route)
			r.Distinct("several:" + desc)
			if res.Err != nil {
				r.Inconclusive("%s: %v", desc, res.Err)
				continue
			}
			starts := w.starts()
			replay := map[string]any{"argv": argv, "plugins": g}
			if strings.Join(starts, "\n") != strings.Join(paths, "\n") {
				r.Violate("cli-several-plugins:started", fmt.Sprintf("age %s: started %v, want every plugin named, in order: %v", strings.Join(argv, " "), starts, paths), replay)
				continue
			}
			if route != "-j each" {
				b, _ := os.ReadFile(idlog)
				got := strings.Split(strings.TrimSpace(string(b)), "\n")
				if strings.Join(got, "\n") != strings.Join(want, "\n") {
					r.Violate("cli-several-plugins:identity-handed-to-another-plugin", fmt.Sprintf("age %s: the plugins were handed %q, want each its own identity string only: %q", strings.Join(argv, " "), got, want), replay)
					continue
				}
			}
			if res.Exit == 0 {
				r.Violate("cli-several-plugins:exit0", fmt.Sprintf("age %s: no identity opens the file but the tool exited 0", strings.Join(argv, " ")), replay)
				continue
			}
			r.Count("cli_several_plugins_runs", 1)
		}
		for _, p := range paths {
			os.Remove(p)
		}
	}
	os.Remove(idlog)
}
