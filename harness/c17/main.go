// C17 — only validly named plugins on PATH are ever executed.
//
// Monitor: sentinel executables (shell scripts that log their own absolute
// path) are planted as age-plugin-* in every directory of a sentinel PATH, in
// the working directory, in $TMPDIR and in sub-directories reachable through
// names containing path separators. Every string over the printable alphabet
// (exhaustive for lengths 1-2, sampled and separator-biased beyond) is placed
// in the recipient, identity and bare-name positions; the oracle is the
// allow-list model for the constructor and the sentinel start log for "no
// process started" / "the first match on PATH started". At CLI level strace
// lists every execve of the real binary.
package main

import (
	"bytes"
	"fmt"
	"os"
	"path/filepath"
	"regexp"
	"strings"

	"filippo.io/age"
	"filippo.io/age/plugin"
	"filippo.io/age/zverif/ax"
	"filippo.io/age/zverif/cli"
	"filippo.io/age/zverif/keys"
	"filippo.io/age/zverif/mon"
	"filippo.io/age/zverif/refage"
)

const allowed = "abcdefghijklmnopqrstuvwxyzABCDEFGHIJKLMNOPQRSTUVWXYZ0123456789+-._"

func validName(s string) bool {
	if s == "" {
		return false
	}
	for i := 0; i < len(s); i++ {
		if !strings.ContainsRune(allowed, rune(s[i])) {
			return false
		}
	}
	return true
}

type world struct {
	root   string
	dA, dB string // absolute PATH entries
	cwd    string
	tmp    string
	log    string
}

func (w *world) sentinel(dir, name string) {
	p := filepath.Join(dir, "age-plugin-"+name)
	if err := os.MkdirAll(filepath.Dir(p), 0o755); err != nil {
		return
	}
	abs, _ := filepath.Abs(p)
	script := fmt.Sprintf("#!/bin/sh\nprintf '%%s\\n' %s >> %s\nexit 1\n", shellQuote(abs), shellQuote(w.log))
	os.WriteFile(p, []byte(script), 0o755)
}

func shellQuote(s string) string { return "'" + strings.ReplaceAll(s, "'", `'\''`) + "'" }

func (w *world) starts() []string {
	b, err := os.ReadFile(w.log)
	if err != nil {
		return nil
	}
	return strings.Split(strings.TrimSpace(string(b)), "\n")
}

func (w *world) clear() { os.Remove(w.log) }

func main() {
	r := mon.Start("C17", "exploration")
	r.Rule = "case = (candidate plugin name, position: Bech32 recipient age1NAME1…, identity AGE-PLUGIN-NAME-1… with a valid checksum, or bare -j NAME); all names of length 1-2 over the 94 printable characters plus seeded, separator-biased longer names; " +
		"non-trivial = the constructor was called and, for accepted names, the client was driven to start its plugin while sentinel executables logged every start; distinct by (position, name). Header cases: files whose stanza types look like plugin names decrypted with native, SSH and passphrase identities"
	r.Assumptions = []string{
		"a relative PATH entry may cause a refusal to execute (Go's execabs behaviour); what is checked is that nothing outside the first absolute match ever starts",
		"sentinels are shell scripts: /bin/sh is trusted to run them",
	}
	r.MinEvals, r.MinDistinct = 5000, 5000

	root, err := os.MkdirTemp(os.Getenv("VERIF_SCRATCH"), "c17.")
	if err != nil {
		r.Inconclusive("scratch: %v", err)
		r.Finish()
	}
	defer os.RemoveAll(root)
	w := &world{root: root, dA: filepath.Join(root, "pathA"), dB: filepath.Join(root, "pathB"),
		cwd: filepath.Join(root, "cwd"), tmp: filepath.Join(root, "tmp"), log: filepath.Join(root, "starts.log")}
	for _, d := range []string{w.dA, w.dB, w.cwd, w.tmp} {
		os.MkdirAll(d, 0o755)
	}
	os.Chdir(w.cwd)
	os.Setenv("TMPDIR", w.tmp)
	origPath := os.Getenv("PATH")
	os.Setenv("PATH", w.dA+":"+w.dB+":"+origPath)

	// ---- candidate names ----
	var names []string
	for a := 33; a < 127; a++ {
		names = append(names, string(rune(a)))
	}
	for a := 33; a < 127; a++ {
		for b := 33; b < 127; b++ {
			names = append(names, string([]byte{byte(a), byte(b)}))
		}
	}
	exhaustiveNames := len(names)
	rng := r.RNG("names")
	frag := []string{"/", "\\", ".", "..", "../", "/..", "a", "x", "-", "_", "+", "yubikey", "A", "0", " ", ":", "\t", "%", "$", "~", "*", "age-plugin-", "é", "\x00", "\n"}
	for i := 0; i < r.Pick(3000, 40000); i++ {
		n := 2 + rng.Intn(4)
		var sb strings.Builder
		for k := 0; k < n; k++ {
			sb.WriteString(frag[rng.Intn(len(frag))])
		}
		names = append(names, sb.String())
	}
	names = append(names, "../x", "a/b", "/bin/sh", "..", ".", "x/../y", "sub/x", `a\b`, "../../../../bin/sh", "pathA/x")
	// names that differ only in letter case from an installed plugin: the
	// program looked up is age-plugin-<name as given>, nothing more lenient
	caseNames := []string{"Ab", "AB", "aB", "Yubikey", "YUBIKEY", "Q9", "ZZ", "Zz", "uponly", "UpOnly", "A.B", "A+B-C_D.E"}
	names = append(caseNames, names...)
	// long names: a valid head of 30..200 characters, alone (valid) and followed
	// by something that makes the whole name invalid — a check that looks at a
	// bounded prefix of the name would pass them
	var longNames []string
	for _, n := range []int{30, 63, 64, 65, 70, 71, 72, 78, 79, 80, 82, 83, 84, 100, 127, 128, 129, 200} {
		head := strings.Repeat("abcdefghij", 21)[:n-1] + "z"
		longNames = append(longNames, head)
		for _, tail := range []string{"!", "$x", "/../x", "/", " ", "\n", "\x00", "é", ":", "\\"} {
			longNames = append(longNames, head+tail)
		}
	}
	names = append(longNames, names...)
	// names that end in what another system takes for a program extension: the
	// program looked up is age-plugin-<the whole name>, also when a program
	// under the name without the extension lies next to it
	extNames := []string{"foo.exe", "foo.EXE", "foo.Exe", "foo.bat", "foo.cmd", "foo.com", "foo.sh", "foo.py", "foo.exe.exe", "foo.", "foo.exe.", "exe", ".exe", "q.exe", "foo-1.0", "foo-1.0.exe"}
	names = append(extNames, names...)
	r.Set("names_exhaustive_len_1_2", exhaustiveNames)
	r.Set("names_total", len(names))

	// sentinels: for every *valid* short name and for the separator names, in
	// every directory a careless lookup might consult
	plant := func(name string) {
		for _, d := range []string{w.dA, w.dB, w.cwd, w.tmp} {
			w.sentinel(d, name)
		}
	}
	for _, n := range longNames {
		plant(n) // (valid or not: a sentinel under the full name, where the file system allows it)
	}
	for _, n := range names {
		if len(n) <= 1 && validName(n) {
			plant(n)
			plant(strings.ToLower(n))
		}
	}
	for _, n := range extNames {
		plant(strings.ToLower(n))
		plant(n)
	}
	for _, n := range []string{"foo", "foo.exe", "q", "foo-1", "foo-1.0", "foo.exe.exe"} {
		plant(n) // the stems
	}
	for _, n := range []string{"x", "y", "b", "../x", "a/b", "sub/x", "x/../y", "yubikey", "age-plugin-x", "ab", "a.b", "a+b-c_d.e", "zz", "q9", "UPONLY"} {
		plant(n)
	}
	os.WriteFile(filepath.Join(w.root, "x"), []byte("#!/bin/sh\nprintf 'ESCAPED %s\\n' \"$0\" >> "+shellQuote(w.log)+"\n"), 0o755)

	ui := &plugin.ClientUI{}
	fileKey := []byte("0123456789abcdef")
	stanzas := []*age.Stanza{{Type: "X25519", Args: []string{"abc"}, Body: make([]byte, 32)}}

	// drive accepted names only for a bounded set (a process per call)
	driveBudget := map[string]int{"recipient": r.Pick(150, 1200), "identity": r.Pick(150, 1200), "bare": r.Pick(150, 1200)}

	expectStart := func(pos, name, lname string, drive func() error) {
		// name accepted by the constructor: starting the plugin must start
		// exactly pathA/age-plugin-<lname> if it exists, and nothing else
		if driveBudget[pos] <= 0 && len(name) > 1 {
			return
		}
		driveBudget[pos]--
		w.clear()
		derr := drive()
		got := w.starts()
		want := filepath.Join(w.dA, "age-plugin-"+lname)
		var statErr error
		if !isExec(want) {
			statErr = os.ErrNotExist
		}
		r.Count("plugins_driven", 1)
		switch {
		case statErr != nil:
			if len(got) > 0 && got[0] != "" {
				r.Violate("exec-unexpected:"+pos, fmt.Sprintf("%s name %q: no age-plugin-%s on PATH, yet %v started", pos, name, lname, got), map[string]any{"position": pos, "name": name})
			}
		case len(got) != 1 || got[0] != want:
			r.Violate("exec-wrong-program:"+pos, fmt.Sprintf("%s name %q: started %v, want exactly [%s] (the first match on PATH); client error: %v", pos, name, got, want, derr), map[string]any{"position": pos, "name": name})
		default:
			r.Count("first_path_match_started", 1)
		}
	}

	for _, name := range names {
		// --- recipient position ---
		func() {
			if strings.ToLower(name) != name || !asciiPrintable(name) {
				return // a Bech32 string is single-case; HRP characters are printable ASCII
			}
			s := refage.Bech32Encode("age1"+name, []byte{1, 2, 3})
			if hrp, _, err := refage.Bech32Decode(s); err != nil || hrp != "age1"+name {
				return // not a well-formed Bech32 string with this HRP (e.g. name contains the separator at the end)
			}
			var rc *plugin.Recipient
			var err error
			r.Guard("recipient:"+name, func() { rc, err = plugin.NewRecipient(s, ui) })
			r.Eval(1)
			r.Distinct("recipient:" + name)
			want := validName(name)
			replay := map[string]any{"position": "recipient", "name": name, "string": s}
			if want && err != nil {
				r.Violate("recipient-rejected-valid", fmt.Sprintf("NewRecipient(%q) rejected the valid name %q: %v", s, name, err), replay)
				return
			}
			if !want {
				w.clear()
				if err == nil {
					// construction must fail; show what it would execute
					rc.Wrap(fileKey)
					r.Violate("recipient-accepted-invalid:"+classify(name), fmt.Sprintf("NewRecipient(%q) accepted the name %q; starting it ran %v", s, name, w.starts()), replay)
				} else if st := w.starts(); len(st) > 0 {
					r.Violate("exec-on-rejected:recipient", fmt.Sprintf("rejected recipient %q still started %v", s, st), replay)
				}
				r.Count("rejected_names", 1)
				return
			}
			r.Count("accepted_names", 1)
			if rc.Name() != name {
				r.Violate("recipient-name", fmt.Sprintf("NewRecipient(%q).Name() = %q, want %q", s, rc.Name(), name), replay)
			}
			expectStart("recipient", name, name, func() error { _, err := rc.Wrap(fileKey); return err })
		}()
		// --- identity position ---
		func() {
			up := strings.ToUpper(name)
			if !asciiPrintable(name) || strings.ToLower(up) != strings.ToLower(name) {
				return
			}
			hrp := "AGE-PLUGIN-" + up + "-"
			if strings.ToUpper(hrp) != hrp {
				return
			}
			s := refage.Bech32Encode(hrp, []byte{4, 5, 6})
			if h, _, err := refage.Bech32Decode(s); err != nil || h != hrp {
				return
			}
			var id *plugin.Identity
			var err error
			r.Guard("identity:"+name, func() { id, err = plugin.NewIdentity(s, ui) })
			r.Eval(1)
			r.Distinct("identity:" + up)
			lname := strings.ToLower(up)
			want := validName(up)
			replay := map[string]any{"position": "identity", "name": up, "string": s}
			if want && err != nil {
				r.Violate("identity-rejected-valid", fmt.Sprintf("NewIdentity(%q) rejected the valid name %q: %v", s, up, err), replay)
				return
			}
			if !want {
				w.clear()
				if err == nil {
					id.Unwrap(stanzas)
					id.Recipient().Wrap(fileKey)
					r.Violate("identity-accepted-invalid:"+classify(up), fmt.Sprintf("NewIdentity(%q) accepted the name %q; starting it ran %v", s, up, w.starts()), replay)
				} else if st := w.starts(); len(st) > 0 {
					r.Violate("exec-on-rejected:identity", fmt.Sprintf("rejected identity %q still started %v", s, st), replay)
				}
				r.Count("rejected_names", 1)
				return
			}
			r.Count("accepted_names", 1)
			expectStart("identity", up, lname, func() error { _, err := id.Unwrap(stanzas); return err })
		}()
		// --- bare name (-j NAME) ---
		func() {
			var id *plugin.Identity
			var err error
			r.Guard("bare:"+name, func() { id, err = plugin.NewIdentityWithoutData(name, ui) })
			r.Eval(1)
			r.Distinct("bare:" + name)
			want := validName(name)
			replay := map[string]any{"position": "bare", "name": name}
			if want && err != nil {
				r.Violate("bare-rejected-valid", fmt.Sprintf("NewIdentityWithoutData(%q) rejected a valid name: %v", name, err), replay)
				return
			}
			if !want {
				w.clear()
				if err == nil {
					id.Unwrap(stanzas)
					id.Recipient().Wrap(fileKey)
					r.Violate("bare-accepted-invalid:"+classify(name), fmt.Sprintf("NewIdentityWithoutData(%q) accepted the name; starting it ran %v", name, w.starts()), replay)
				} else if st := w.starts(); len(st) > 0 {
					r.Violate("exec-on-rejected:bare", fmt.Sprintf("rejected bare name %q still started %v", name, st), replay)
				}
				r.Count("rejected_names", 1)
				return
			}
			r.Count("accepted_names", 1)
			// the program searched is age-plugin-<name as given>
			expectStart("bare", name, name, func() error { _, err := id.Unwrap(stanzas); return err })
		}()
	}

	pathOrders(r, w, origPath, ui, fileKey)
	concurrentNames(r, w)
	headerCases(r, w)
	cliCases(r, w, origPath)
	r.Finish()
}

// isExec: a regular executable file (a directory named age-plugin-.. is not a plugin).
func isExec(p string) bool {
	fi, err := os.Stat(p)
	return err == nil && fi.Mode().IsRegular() && fi.Mode()&0o111 != 0
}

func asciiPrintable(s string) bool {
	for i := 0; i < len(s); i++ {
		if s[i] < 33 || s[i] > 126 {
			return false
		}
	}
	return s != ""
}

func classify(name string) string {
	switch {
	case strings.ContainsAny(name, "/"):
		return "slash"
	case strings.ContainsAny(name, `\`):
		return "backslash"
	case !asciiPrintable(name):
		return "non-printable"
	}
	return "other-char"
}

// pathOrders: the program started is the first match in PATH order.
func pathOrders(r *mon.Run, w *world, origPath string, ui *plugin.ClientUI, fileKey []byte) {
	defer os.Setenv("PATH", w.dA+":"+w.dB+":"+origPath)
	rc, err := plugin.NewRecipient(refage.Bech32Encode("age1zz", []byte{9}), ui)
	if err != nil {
		r.Violate("recipient-rejected-valid", "NewRecipient rejected name zz: "+err.Error(), nil)
		return
	}
	onlyB := filepath.Join(w.root, "onlyB")
	w.sentinel(onlyB, "q9only")
	type po struct {
		name string
		path string
		want string // "" = nothing may start from cwd/tmp; otherwise exact program
	}
	a, b := filepath.Join(w.dA, "age-plugin-zz"), filepath.Join(w.dB, "age-plugin-zz")
	orders := []po{
		{"A,B", w.dA + ":" + w.dB, a},
		{"B,A", w.dB + ":" + w.dA, b},
		{"B,B,A", w.dB + ":" + w.dB + ":" + w.dA, b},
		{"empty-dir,A", onlyB + ":" + w.dA, a},
		{"nonexistent,B,A", filepath.Join(w.root, "nope") + ":" + w.dB + ":" + w.dA, b},
		{"dot-first", ".:" + w.dA, "NOT-CWD"},
		{"empty-entry-first", ":" + w.dA, "NOT-CWD"},
		{"relative-first", "../cwd:" + w.dB, "NOT-CWD"},
		{"no-match", onlyB, "NONE"},
	}
	// first matches that the search selects but that cannot be started, or
	// that the search skips: what starts is decided by the PATH search alone
	mkdir := func(name string) string {
		d := filepath.Join(w.root, name)
		os.MkdirAll(d, 0o755)
		return d
	}
	garbage := mkdir("garbage") // regular file with execute bits the kernel refuses (ENOEXEC)
	os.WriteFile(filepath.Join(garbage, "age-plugin-zz"), []byte("\x7fNOT-AN-ELF and no interpreter line\n"), 0o755)
	noShebang := mkdir("noshebang") // a shell script without #!: execve says ENOEXEC, shells would run it
	os.WriteFile(filepath.Join(noShebang, "age-plugin-zz"), []byte("printf 'ESCAPED-NOSHEBANG\\n' >> "+shellQuote(w.log)+"\n"), 0o755)
	emptyFile := mkdir("emptyfile")
	os.WriteFile(filepath.Join(emptyFile, "age-plugin-zz"), nil, 0o755)
	badInterp := mkdir("badinterp") // #! line naming a program that does not exist (ENOENT from execve)
	os.WriteFile(filepath.Join(badInterp, "age-plugin-zz"), []byte("#!/nonexistent/interpreter\n"), 0o755)
	notExec := mkdir("notexec") // no execute bits: the search skips it
	os.WriteFile(filepath.Join(notExec, "age-plugin-zz"), []byte("#!/bin/sh\nexit 1\n"), 0o644)
	isDir := mkdir("isdir") // a directory of that name: the search skips it
	os.MkdirAll(filepath.Join(isDir, "age-plugin-zz"), 0o755)
	dangling := mkdir("dangling")
	os.Symlink(filepath.Join(w.root, "nowhere"), filepath.Join(dangling, "age-plugin-zz"))
	linked := mkdir("linked") // a symbolic link to the program in B: started under the link's own path
	os.Symlink(b, filepath.Join(linked, "age-plugin-zz"))
	orders = append(orders,
		po{"garbage-binary-first,A", garbage + ":" + w.dA, "NONE"},
		po{"script-without-interpreter-line-first,A", noShebang + ":" + w.dA, "NONE"},
		po{"empty-file-first,B,A", emptyFile + ":" + w.dB + ":" + w.dA, "NONE"},
		po{"missing-interpreter-first,A", badInterp + ":" + w.dA, "NONE"},
		po{"not-executable-first,A", notExec + ":" + w.dA, a},
		po{"directory-first,B", isDir + ":" + w.dB, b},
		po{"dangling-symlink-first,A", dangling + ":" + w.dA, a},
		// (the sentinel logs the path it was created under, so the link shows up as B's program)
		po{"symlink-to-B-first,A", linked + ":" + w.dA, b},
	)
	// PATH elements in the spelling of a shell or another system, which the
	// search takes literally: an unexpanded ~ or $HOME (with the program lying
	// in the home directory they would expand to), quoted elements, Windows
	// separators. Nothing outside a real absolute match may start.
	home := mkdir("home")
	w.sentinel(filepath.Join(home, "bin"), "zz")
	w.sentinel(home, "zz")
	w.sentinel(filepath.Join(home, ".local", "bin"), "zz")
	oldHome, hadHome := os.LookupEnv("HOME")
	os.Setenv("HOME", home)
	defer func() {
		if hadHome {
			os.Setenv("HOME", oldHome)
		} else {
			os.Unsetenv("HOME")
		}
	}()
	orders = append(orders,
		po{"tilde-bin", "~/bin", "NONE"},
		po{"tilde", "~", "NONE"},
		po{"tilde-slash", "~/", "NONE"},
		po{"tilde-local-bin,empty-dir", "~/.local/bin:" + onlyB, "NONE"},
		po{"dollar-HOME-bin", "$HOME/bin", "NONE"},
		po{"braced-HOME-bin", "${HOME}/bin", "NONE"},
		po{"percent-HOME-bin", "%HOME%/bin", "NONE"},
		po{"tilde-user-bin", "~root/bin", "NONE"},
		po{"quoted-A", `"` + w.dA + `"`, "NONE"},
		po{"semicolon-separated", onlyB + ";" + w.dA, "NONE"},
		po{"tilde-bin,A", "~/bin:" + w.dA, a},
		po{"A,tilde-bin", w.dA + ":~/bin", a},
		po{"dollar-HOME-bin,B", "$HOME/bin:" + w.dB, b},
	)
	for _, o := range orders {
		os.Setenv("PATH", o.path+":"+origPath)
		w.clear()
		_, werr := rc.Wrap(fileKey)
		got := w.starts()
		r.Eval(1)
		r.Distinct("path-order:" + o.name)
		r.Count("path_orders_checked", 1)
		bad := false
		switch o.want {
		case "NONE":
			bad = len(got) > 0 && got[0] != ""
		case "NOT-CWD":
			for _, g := range got {
				if strings.HasPrefix(g, w.cwd) || strings.HasPrefix(g, w.tmp) {
					bad = true
				}
			}
		default:
			bad = len(got) != 1 || got[0] != o.want
		}
		if bad {
			r.Violate("path-order:"+o.name, fmt.Sprintf("PATH order %s: started %v, expected %s (client error %v)", o.name, got, o.want, werr), map[string]any{"PATH": o.path})
		}
	}
}

// headerCases: no plugin is started merely because a header mentions a type.
func headerCases(r *mon.Run, w *world) {
	types := []string{"yubikey", "age-plugin-x", "../x", "x", "a/b", "sub/x", "b", "zz", "x/../y"}
	fk := []byte("fedcba9876543210")
	ids := map[string]age.Identity{
		"X": keys.P("X1").Identity, "E": keys.P("E1").Identity, "R": keys.P("R1").Identity,
		"S": keys.ScryptIdentity("whatever", 10), "X-other": keys.P("X4").Identity,
	}
	for _, t := range types {
		for pos := 0; pos < 2; pos++ {
			mine, _ := refage.X25519Wrap(fk, keys.NewX("X1").Public, mon.DetBytes("c17-eph-"+t, 32))
			foreign := refage.Stanza{Type: t, Args: []string{"arg"}, Body: make([]byte, 32)}
			sts := []refage.Stanza{foreign, mine}
			if pos == 1 {
				sts = []refage.Stanza{mine, foreign}
			}
			file := refage.BuildFile(fk, sts, make([]byte, 16), []byte("hello"))
			for iname, id := range ids {
				w.clear()
				res := ax.DecryptBytes(file, false, id)
				r.Eval(1)
				r.Distinct(fmt.Sprintf("header:%s:%d:%s", t, pos, iname))
				r.Count("header_cases", 1)
				if st := w.starts(); len(st) > 0 {
					r.Violate("exec-from-header:"+iname, fmt.Sprintf("decrypting a file with a %q stanza using a %s identity started %v", t, iname, st), map[string]any{"stanza_type": t, "identity": iname})
				}
				if iname == "X" && (!res.Clean() || string(res.Plain) != "hello") {
					r.Violate("header-case-decrypt", fmt.Sprintf("file with a foreign %q stanza no longer decrypts with its X25519 identity: %s", t, res), nil)
				}
			}
		}
	}
}

var execveRe = regexp.MustCompile(`execve(?:at)?\((?:AT_FDCWD, )?"([^"]*)"[^\n]*\) = 0`)

// cliCases: strace lists every successful execve of the real binary.
func cliCases(r *mon.Run, w *world, origPath string) {
	ageBin := os.Getenv("AGE_BIN")
	if ageBin == "" {
		r.Inconclusive("AGE_BIN not set: CLI layer skipped")
		return
	}
	work := filepath.Join(w.root, "cliwork")
	os.MkdirAll(work, 0o755)
	for _, n := range []string{"x", "../x", "a/b", "zz"} {
		w.sentinel(work, n)
	}
	// the tool runs from a private copy in a directory that is NOT on PATH,
	// with programs of every name used below beside it, in a sub-directory and
	// in the home directory: none of these places is part of the search
	binDir := filepath.Join(w.root, "opt", "age", "bin")
	home := filepath.Join(w.root, "home")
	os.MkdirAll(binDir, 0o755)
	if b, err := os.ReadFile(ageBin); err == nil && os.WriteFile(filepath.Join(binDir, "age"), b, 0o755) == nil {
		ageBin = filepath.Join(binDir, "age")
		r.Set("cli_binary_runs_from_a_directory_not_on_path", true)
	} else {
		r.Inconclusive("cannot make a private copy of the age binary")
	}
	for _, n := range []string{"x", "zz", "q9", "beside", "a.b", "X"} {
		for _, d := range []string{binDir, filepath.Join(binDir, "plugins"), filepath.Dir(binDir), home, filepath.Join(home, "bin"), filepath.Join(home, ".local", "bin"), filepath.Join(home, ".config", "age", "plugins")} {
			w.sentinel(d, n)
		}
	}
	in := filepath.Join(work, "in.txt")
	os.WriteFile(in, []byte("data"), 0o600)
	path := "PATH=" + w.dA + ":" + w.dB + ":" + origPath
	type cc struct {
		name   string
		argv   []string
		expect string // "" = no plugin may start; else absolute path of the only program besides age
		files  map[string]string
	}
	// expectSeq (by case name): several identity flags. The programs started
	// must be a non-empty prefix of this sequence (the sentinels fail, so the
	// tool may stop after the first): each -j starts the plugin it names, in
	// flag order
	expectSeqOf := map[string][]string{}
	var cases []cc
	addName := func(name string) {
		lname := strings.ToLower(name)
		want := ""
		if validName(name) {
			want = filepath.Join(w.dA, "age-plugin-"+lname)
			if !isExec(want) {
				want = ""
			}
		}
		if strings.ToLower(name) == name && asciiPrintable(name) {
			s := refage.Bech32Encode("age1"+name, []byte{1})
			if h, _, err := refage.Bech32Decode(s); err == nil && h == "age1"+name {
				cases = append(cases, cc{"r:" + name, []string{"-r", s, "-o", "out.age", in}, want, nil})
				cases = append(cases, cc{"R:" + name, []string{"-R", "rcpts.txt", "-o", "out.age", in}, want, map[string]string{"rcpts.txt": s + "\n"}})
			}
		}
		up := strings.ToUpper(name)
		if asciiPrintable(name) && strings.ToUpper("AGE-PLUGIN-"+up+"-") == "AGE-PLUGIN-"+up+"-" {
			s := refage.Bech32Encode("AGE-PLUGIN-"+up+"-", []byte{2})
			if h, _, err := refage.Bech32Decode(s); err == nil && h == "AGE-PLUGIN-"+up+"-" {
				wantI := ""
				if validName(up) {
					wantI = filepath.Join(w.dA, "age-plugin-"+strings.ToLower(up))
					if !isExec(wantI) {
						wantI = ""
					}
				}
				cases = append(cases, cc{"e-i:" + name, []string{"-e", "-i", "ids.txt", "-o", "out.age", in}, wantI, map[string]string{"ids.txt": s + "\n"}})
				cases = append(cases, cc{"d-i:" + name, []string{"-d", "-i", "ids.txt", "-o", "out.txt", "x.age"}, wantI, map[string]string{"ids.txt": s + "\n"}})
			}
		}
		wantJ := ""
		if validName(name) {
			wantJ = filepath.Join(w.dA, "age-plugin-"+name)
			if !isExec(wantJ) {
				wantJ = ""
			}
		}
		cases = append(cases, cc{"e-j:" + name, []string{"-e", "-j", name, "-o", "out.age", in}, wantJ, nil})
		cases = append(cases, cc{"d-j:" + name, []string{"-d", "-j", name, "-o", "out.txt", "x.age"}, wantJ, nil})
	}
	for _, n := range []string{"x", "zz", "beside", "ZZ", "Ab", "age-plugin-x", "./age-plugin-x", "/usr/local/bin/age-plugin-x", "sub/age-plugin-zz", "age-plugin-", "a.b", "../x", "a/b", "sub/x", "/bin/sh", "..", "x/../y", `a\b`, "X", "a b", "$x", "q9"} {
		addName(n)
	}
	// a valid X25519 file with plugin-looking stanza types, decrypted natively
	fk := []byte("fedcba9876543210")
	mine, _ := refage.X25519Wrap(fk, keys.NewX("X1").Public, mon.DetBytes("c17-cli-eph", 32))
	xfile := refage.BuildFile(fk, []refage.Stanza{{Type: "x", Args: []string{"a"}, Body: make([]byte, 32)}, {Type: "../x", Args: []string{"a"}, Body: nil}, mine, {Type: "zz", Args: nil, Body: nil}}, make([]byte, 16), []byte("cli"))
	cases = append(cases, cc{"d-native-with-plugin-types", []string{"-d", "-i", "key.txt", "-o", "out.txt", "x.age"}, "", map[string]string{"key.txt": keys.NewX("X1").SecretStr + "\n"}})
	// the same file with identities that do NOT open it: whatever the tool
	// tries after every identity failed, a header never starts a program
	noMatch := []cc{
		{"d-nomatch-native", []string{"-d", "-i", "other.txt", "-o", "out.txt", "x.age"}, "", map[string]string{"other.txt": keys.NewX("X2").SecretStr + "\n"}},
		{"d-nomatch-two-natives", []string{"-d", "-i", "other.txt", "-i", "third.txt", "-o", "out.txt", "x.age"}, "", map[string]string{"other.txt": keys.NewX("X2").SecretStr + "\n", "third.txt": keys.NewX("X3").SecretStr + "\n"}},
		{"d-nomatch-ssh", []string{"-d", "-i", "ed.key", "x.age"}, "", map[string]string{"ed.key": string(keys.Data("ed1"))}},
		{"d-nomatch-ssh-rsa-and-native", []string{"-d", "-i", "rsa.key", "-i", "other.txt", "x.age"}, "", map[string]string{"rsa.key": string(keys.Data("rsa1")), "other.txt": keys.NewX("X4").SecretStr + "\n"}},
		{"d-nomatch-native-armored", []string{"-d", "-i", "other.txt", "armored.age"}, "", map[string]string{"other.txt": keys.NewX("X2").SecretStr + "\n", "armored.age": string(refage.Armor(xfile, "\n"))}},
		{"d-nomatch-only-plugin-types", []string{"-d", "-i", "other.txt", "only.age"}, "", map[string]string{"other.txt": keys.NewX("X2").SecretStr + "\n",
			"only.age": string(refage.BuildFile(fk, []refage.Stanza{{Type: "x", Args: []string{"a"}, Body: make([]byte, 32)}, {Type: "b", Args: nil, Body: make([]byte, 16)}}, make([]byte, 16), []byte("cli")))}},
	}
	cases = append(noMatch, cases...)
	// an age file in the IDENTITY position (-i) that is not passphrase-protected
	// and whose header names plugin-looking stanza types: still only a header
	idFile := string(refage.BuildFile(fk, []refage.Stanza{{Type: "x", Args: []string{"a"}, Body: make([]byte, 32)}, {Type: "zz", Args: nil, Body: make([]byte, 16)}}, make([]byte, 16), []byte(keys.NewX("X1").SecretStr+"\n")))
	idCases := []cc{
		{"d-identity-file-is-an-age-file:alone", []string{"-d", "-i", "ids.age", "-o", "out.txt", "x.age"}, "", map[string]string{"ids.age": idFile}},
		{"d-identity-file-is-an-age-file:before-the-key", []string{"-d", "-i", "ids.age", "-i", "key.txt", "-o", "out.txt", "x.age"}, "", map[string]string{"ids.age": idFile, "key.txt": keys.NewX("X1").SecretStr + "\n"}},
		{"d-identity-file-is-an-age-file:armored", []string{"-d", "-i", "ids.age", "-i", "other.txt", "-o", "out.txt", "x.age"}, "", map[string]string{"ids.age": string(refage.Armor([]byte(idFile), "\n")), "other.txt": keys.NewX("X2").SecretStr + "\n"}},
		{"e-identity-file-is-an-age-file", []string{"-e", "-i", "ids.age", "-o", "out.age", in}, "", map[string]string{"ids.age": idFile}},
	}
	cases = append(idCases, cases...)
	// several identity flags in one command line: every -j names its own plugin
	sx, szz := filepath.Join(w.dA, "age-plugin-x"), filepath.Join(w.dA, "age-plugin-zz")
	otherKey := map[string]string{"other.txt": keys.NewX("X2").SecretStr + "\n", "zz": keys.NewX("X3").SecretStr + "\n", "q9": keys.NewX("X4").SecretStr + "\n"}
	multi := []cc{
		{"d-multi:-j x -j zz", []string{"-d", "-j", "x", "-j", "zz", "-o", "out.txt", "x.age"}, "", nil},
		{"d-multi:-j zz -j x", []string{"-d", "-j", "zz", "-j", "x", "-o", "out.txt", "x.age"}, "", nil},
		{"d-multi:-j x -i other.txt", []string{"-d", "-j", "x", "-i", "other.txt", "-o", "out.txt", "x.age"}, "", otherKey},
		{"d-multi:-j x -i zz", []string{"-d", "-j", "x", "-i", "zz", "-o", "out.txt", "x.age"}, "", otherKey},
		{"d-multi:-i other.txt -j zz", []string{"-d", "-i", "other.txt", "-j", "zz", "-o", "out.txt", "x.age"}, "", otherKey},
		{"d-multi:-j x -i q9 -j zz", []string{"-d", "-j", "x", "-i", "q9", "-j", "zz", "-o", "out.txt", "x.age"}, "", otherKey},
		{"d-multi:-j x -j x", []string{"-d", "-j", "x", "-j", "x", "-o", "out.txt", "x.age"}, "", nil},
	}
	expectSeqOf["d-multi:-j x -j zz"] = []string{sx, szz}
	expectSeqOf["d-multi:-j zz -j x"] = []string{szz, sx}
	expectSeqOf["d-multi:-j x -i other.txt"] = []string{sx}
	expectSeqOf["d-multi:-j x -i zz"] = []string{sx}
	expectSeqOf["d-multi:-i other.txt -j zz"] = []string{szz}
	expectSeqOf["d-multi:-j x -i q9 -j zz"] = []string{sx, szz}
	expectSeqOf["d-multi:-j x -j x"] = []string{sx, sx}
	cases = append(multi, cases...)

	severalPlugins(r, w, ageBin, work, path, home)
	if !r.Thorough() && len(cases) > 111 {
		cases = cases[:111]
	}
	for i, c := range cases {
		os.WriteFile(filepath.Join(work, "x.age"), xfile, 0o600)
		for n, content := range c.files {
			os.WriteFile(filepath.Join(work, n), []byte(content), 0o600)
		}
		os.Remove(filepath.Join(work, "out.age"))
		os.Remove(filepath.Join(work, "out.txt"))
		w.clear()
		logp := filepath.Join(work, fmt.Sprintf("strace.%d", i))
		res := cli.Run(&cli.Cmd{Argv: append([]string{ageBin}, c.argv...), Dir: work, Env: []string{path, "TMPDIR=" + w.tmp, "HOME=" + home},
			Strace: []string{"-e", "trace=execve,execveat"}, StraceLog: logp})
		r.Eval(1)
		r.Distinct("cli:" + c.name)
		if res.Err != nil {
			r.Inconclusive("cli case %s: %v", c.name, res.Err)
			continue
		}
		log, _ := os.ReadFile(logp)
		os.Remove(logp)
		var execs []string
		for _, m := range execveRe.FindAllSubmatch(log, -1) {
			execs = append(execs, string(m[1]))
		}
		if len(execs) == 0 {
			r.Inconclusive("cli case %s: strace recorded no execve", c.name)
			continue
		}
		r.Count("cli_runs_traced", 1)
		var extra []string
		for _, e := range execs {
			if e == ageBin {
				continue
			}
			// the sentinel's own interpreter
			inSeq := false
			for _, q := range expectSeqOf[c.name] {
				inSeq = inSeq || e == q
			}
			if (c.expect != "" || len(expectSeqOf[c.name]) > 0) && (e == c.expect || inSeq || e == "/bin/sh" || e == "/usr/bin/sh" || strings.HasSuffix(e, "/dash") || strings.HasSuffix(e, "/printf")) {
				continue
			}
			extra = append(extra, e)
		}
		starts := w.starts()
		if len(extra) > 0 {
			r.Violate("cli-exec:"+posOf(c.name), fmt.Sprintf("age %s executed %v (expected only %q besides age itself); sentinels started: %v", strings.Join(c.argv, " "), extra, c.expect, starts), map[string]any{"argv": c.argv, "files": c.files})
		}
		if seq := expectSeqOf[c.name]; len(seq) > 0 {
			ok := len(starts) >= 1 && len(starts) <= len(seq)
			for k := 0; ok && k < len(starts); k++ {
				ok = starts[k] == seq[k]
			}
			if !ok {
				r.Violate("cli-wrong-plugin:"+posOf(c.name), fmt.Sprintf("age %s started %v, want a non-empty prefix of %v (every -j names its own plugin, in flag order)", strings.Join(c.argv, " "), starts, seq), map[string]any{"argv": c.argv, "files": c.files})
			} else {
				r.Count("cli_multi_identity_flag_runs", 1)
			}
		} else if c.expect == "" && len(starts) > 0 && starts[0] != "" {
			r.Violate("cli-sentinel-started:"+posOf(c.name), fmt.Sprintf("age %s started %v although no plugin may start", strings.Join(c.argv, " "), starts), map[string]any{"argv": c.argv, "files": c.files})
		}
		if c.expect != "" && (len(starts) != 1 || starts[0] != c.expect) {
			r.Violate("cli-wrong-plugin:"+posOf(c.name), fmt.Sprintf("age %s started %v, want exactly %s", strings.Join(c.argv, " "), starts, c.expect), map[string]any{"argv": c.argv, "files": c.files})
		}
		if strings.HasPrefix(c.name, "d-nomatch") {
			r.Count("cli_no_identity_matches_cases", 1)
			if res.Exit == 0 {
				r.Violate("cli-nomatch-exit0", fmt.Sprintf("age %s: no identity opens the file but the tool exited 0", strings.Join(c.argv, " ")), map[string]any{"argv": c.argv})
			}
		}
		if c.name == "d-native-with-plugin-types" {
			out, _ := os.ReadFile(filepath.Join(work, "out.txt"))
			if res.Exit != 0 || !bytes.Equal(out, []byte("cli")) {
				r.Violate("cli-native-decrypt", fmt.Sprintf("native decryption of a file with plugin-looking stanza types failed: %s", res), nil)
			}
		}
		r.SampleN("cli", 3, map[string]any{"layer": "cli", "argv": strings.Join(c.argv, " "), "execve_seen": execs, "sentinels_started": starts})
	}
}

func posOf(name string) string {
	if i := strings.Index(name, ":"); i > 0 {
		return name[:i]
	}
	return name
}
