package main

import (
	"fmt"
	"os"
	"path/filepath"
	"regexp"

	"filippo.io/age/zverif/cli"
	"filippo.io/age/zverif/keys"
)

var readRe = regexp.MustCompile(`(?m)^\d+\s+read\(`)

// inputFaults: the INPUT side of both directions fails while it is being
// read — a disk, a network mount, a device that returns EIO (or another
// error) on the k-th read — for the input given as a named file, as standard
// input redirected from a file, as a pipe, and as a named file while standard
// input carries the recipients (-R -). The failure is injected by the kernel
// interface (strace -e inject=read). Oracle as everywhere in C15: exit status
// 0 implies that the destination holds exactly the complete result of the
// complete input (a read that the runtime repeats with success leaves a
// complete result and may exit 0; a result cut short at the failed read may
// not).
func inputFaults(e *env) []func() {
	r := e.r
	var out []func()
	ops := []op{
		{"encrypt", false, false, 50, "X"}, {"encrypt", false, true, 70000, "X"},
		{"decrypt", true, false, 300, "E"}, {"decrypt", true, false, 65537, "X"},
	}
	if r.Thorough() {
		ops = append(ops, op{"encrypt", false, false, 200000, "X"}, op{"encrypt", false, true, 0, "X"},
			op{"decrypt", true, true, 140000, "R"}, op{"decrypt", true, false, 0, "X"})
	}
	errs := []string{"EIO"}
	if r.Thorough() {
		errs = append(errs, "ENXIO", "EBADF", "ENOMEM", "EINTR", "EAGAIN")
	}
	for _, o := range ops {
		for _, delivery := range []string{"named file", "stdin from a file", "stdin pipe", "named file, recipients on stdin"} {
			if delivery == "named file, recipients on stdin" && o.decrypt {
				continue
			}
			o, delivery := o, delivery
			out = append(out, func() {
				d := e.dir()
				defer e.done(d)
				argv, input, expectOut, key := o.setup(e, d)
				inPath, outPath := filepath.Join(d, "input"), filepath.Join(d, "out")
				mk := func(strace []string, log string) *cli.Cmd {
					c := &cli.Cmd{Dir: d, StraceLog: log}
					a := append([]string{}, argv...)
					filter := []string{"-P", inPath}
					switch delivery {
					case "named file":
						a = append(a, "-o", "out", "input")
					case "stdin from a file":
						a = append(a, "-o", "out")
						c.StdinFile = inPath
					case "stdin pipe":
						a = append(a, "-o", "out")
						c.Stdin = input
						filter = nil // every read of the process is a fault position
					default:
						// the recipient comes on standard input, the input is named
						a = []string{e.age, "-R", "-"}
						if o.armored {
							a = append(a, "-a")
						}
						a = append(a, "-o", "out", "input")
						c.Stdin = []byte("# recipients\n" + keys.NewX("X1").PublicStr + "\n")
					}
					c.Argv = a
					c.Strace = append(append(filter, "-e", "trace=read"), strace...)
					return c
				}
				logp := filepath.Join(d, "trace.clean")
				clean := cli.Run(mk(nil, logp))
				got, _ := os.ReadFile(outPath)
				if clean.Err != nil || clean.Exit != 0 || o.complete(e, got, input, expectOut, key) != nil {
					r.Inconclusive("%s, input as %s: clean run under strace failed: %s", o, delivery, clean)
					return
				}
				tl, _ := os.ReadFile(logp)
				nReads := len(readRe.FindAll(tl, -1))
				r.Tab("input_reads_in_clean_run", fmt.Sprintf("%s:%s:reads=%d", o, delivery, nReads))
				for k := 1; k <= nReads; k++ {
					if !r.Thorough() && nReads > 10 && k > 5 && k < nReads-3 && k%3 != 0 {
						continue
					}
					for _, en := range errs {
						os.Remove(outPath)
						lp := filepath.Join(d, fmt.Sprintf("trace.%d.%s", k, en))
						res := cli.Run(mk([]string{"-e", fmt.Sprintf("inject=read:error=%s:when=%d", en, k)}, lp))
						tl, _ := os.ReadFile(lp)
						os.Remove(lp)
						desc := fmt.Sprintf("%s, input as %s, read #%d of %d fails with %s", o, delivery, k, nReads, en)
						r.Eval(1)
						r.Distinct(desc)
						if res.Err != nil {
							r.Inconclusive("%s: driver error %v", desc, res.Err)
							continue
						}
						if !injectedRe.Match(tl) {
							r.Count("input_read_injection_not_reached", 1)
							continue
						}
						r.Count("input_read_faults_fired", 1)
						r.Tab("input_read_fault", delivery+":"+en+fmt.Sprintf(":exit0=%v", res.Exit == 0))
						r.SampleN("input-fault:"+delivery, 1, map[string]any{"case": desc, "exit": res.Exit})
						if res.Exit != 0 {
							r.Count("input_read_faults_reported_by_exit_status", 1)
							continue
						}
						left, _ := os.ReadFile(outPath)
						if err := o.complete(e, left, input, expectOut, key); err != nil {
							r.Violate(fmt.Sprintf("exit0-after-input-read-error:%s:%s", o.name, delivery),
								fmt.Sprintf("%s: exit status 0, but %v (stderr %q)", desc, err, string(res.Stderr)),
								map[string]any{"argv": mk(nil, "").Argv, "inject": fmt.Sprintf("read:error=%s:when=%d", en, k), "delivery": delivery})
						} else {
							r.Count("input_read_fault_absorbed_result_complete", 1)
						}
					}
				}
			})
		}
	}
	return out
}
