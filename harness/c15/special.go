package main

import (
	"bytes"
	"fmt"
	"io"
	"os"
	"path/filepath"
	"syscall"
	"time"

	"filippo.io/age/zverif/cli"
	"filippo.io/age/zverif/keys"
	"filippo.io/age/zverif/mon"
)

// specialOutputs: -o may name something that is not a regular file — the
// null device, a FIFO somebody reads, the process's own standard output under
// its /dev name, a symbolic link. No fault is injected: everything the tool
// writes is accepted. Both directions of the property apply: exit status 0
// if and only if the reader at the other end got the complete result.
func specialOutputs(e *env) []func() {
	r := e.r
	var out []func()
	type op struct {
		name    string
		encrypt bool
		armored bool
		args    []string
	}
	ops := []op{
		{"encrypt -r", true, false, []string{"-r", keys.NewX("X1").PublicStr}},
		{"encrypt -a -R", true, true, []string{"-a", "-R", "rcpts.txt"}},
		{"decrypt -i", false, false, []string{"-d", "-i", "x1.key"}},
		{"decrypt armored -i", false, true, []string{"--decrypt", "-i", "x1.key"}},
	}
	kinds := []string{"devnull", "fifo", "dev-stdout-pipe", "dev-stdout-file", "dev-fd-1", "symlink-to-file", "symlink-to-devnull", "dangling-symlink"}
	sizes := []int{0, 100, 140000}
	if r.Thorough() {
		sizes = append(sizes, 65536, 1<<20+5)
	}
	for _, o := range ops {
		for _, k := range kinds {
			for _, size := range sizes {
				o, k, size := o, k, size
				out = append(out, func() {
					d := e.dir()
					defer e.done(d)
					pt := mon.DetBytes(fmt.Sprintf("c15-special-%d", size), size)
					input := pt
					if !o.encrypt {
						input = refFile("X", pt, o.armored, fmt.Sprintf("special-%d-%v", size, o.armored))
					}
					os.WriteFile(filepath.Join(d, "input"), input, 0o600)
					c := &cli.Cmd{Dir: d, Timeout: 60 * time.Second}
					target := ""
					collected := make(chan []byte, 1)
					collect := false
					switch k {
					case "devnull":
						target = "/dev/null"
					case "fifo":
						target = filepath.Join(d, "result.fifo")
						if err := syscall.Mkfifo(target, 0o600); err != nil {
							r.Inconclusive("mkfifo: %v", err)
							return
						}
						collect = true
						go func() {
							f, err := os.OpenFile(target, os.O_RDONLY, 0)
							if err != nil {
								collected <- nil
								return
							}
							b, _ := io.ReadAll(f)
							f.Close()
							collected <- b
						}()
					case "dev-stdout-pipe":
						target = "/dev/stdout"
					case "dev-stdout-file":
						target = "/dev/stdout"
						c.Stdout = "file:" + filepath.Join(d, "stdout.file")
					case "dev-fd-1":
						target = "/dev/fd/1"
					case "symlink-to-file":
						target = filepath.Join(d, "link")
						os.WriteFile(filepath.Join(d, "real.out"), []byte("OLD CONTENT THAT IS LONGER THAN NOTHING\n"), 0o644)
						os.Symlink("real.out", target)
					case "symlink-to-devnull":
						target = filepath.Join(d, "nulllink")
						os.Symlink("/dev/null", target)
					case "dangling-symlink":
						target = filepath.Join(d, "dangling")
						os.Symlink("created-through-link.out", target)
					}
					argv := append(append([]string{e.age}, o.args...), "-o", target, "input")
					c.Argv = argv
					res := cli.Run(c)
					desc := fmt.Sprintf("special output %s -o %s size=%d", o.name, k, size)
					r.Eval(1)
					r.Distinct(desc)
					r.Tab("special_output_x_op", k+"|"+o.name)
					if collect {
						// release a reader still waiting for a writer to show up
						if w, err := os.OpenFile(target, os.O_WRONLY|syscall.O_NONBLOCK, 0); err == nil {
							w.Close()
						}
					}
					if res.Err != nil {
						r.Inconclusive("%s: driver error %v", desc, res.Err)
						return
					}
					var got []byte
					verifiable := true
					switch k {
					case "devnull", "symlink-to-devnull":
						verifiable = false
					case "fifo":
						select {
						case got = <-collected:
						case <-time.After(20 * time.Second):
							r.Inconclusive("%s: the FIFO reader did not finish", desc)
							return
						}
					case "dev-stdout-pipe", "dev-fd-1":
						got = res.Stdout
					case "dev-stdout-file":
						got, _ = os.ReadFile(filepath.Join(d, "stdout.file"))
					case "symlink-to-file":
						got, _ = os.ReadFile(filepath.Join(d, "real.out"))
					case "dangling-symlink":
						got, _ = os.ReadFile(filepath.Join(d, "created-through-link.out"))
					}
					replay := map[string]any{"case": desc, "argv": argv}
					complete := true
					var why error
					if verifiable {
						if o.encrypt {
							why = e.checkEncrypted(desc, got, o.armored, refKey(map[bool]string{false: "X", true: "E"}[o.armored]), pt)
							complete = why == nil
						} else {
							complete = bytes.Equal(got, pt)
							if !complete {
								why = fmt.Errorf("%d bytes arrived, want %d", len(got), len(pt))
							}
						}
					}
					switch {
					case res.Exit == 0 && !complete:
						r.Violate("exit0-incomplete:special-output:"+k, fmt.Sprintf("%s: exit 0 but %v", desc, why), replay)
					case res.Exit != 0 && complete:
						// nothing refused a byte and (where it can be checked) the whole
						// result is at the other end, yet failure was reported
						r.Violate("exit-nonzero-although-delivered:"+k, fmt.Sprintf("%s: the complete result was delivered and accepted, but the tool reported failure: %s", desc, res), replay)
					default:
						r.Count("special_outputs_status_matches_delivery", 1)
						if res.Exit == 0 {
							r.Count("complete_results_with_exit_0", 1)
						}
						r.SampleN("special-"+k, 1, map[string]any{"case": desc, "argv": argvString(argv[1:]), "exit": res.Exit, "bytes_at_the_other_end": len(got), "checked": verifiable})
					}
				})
			}
		}
	}
	return out
}
