package main

import (
	"bytes"
	"fmt"
	"os"
	"path/filepath"
	"syscall"
	"time"

	"filippo.io/age/zverif/cli"
	"filippo.io/age/zverif/keys"
	"filippo.io/age/zverif/mon"
)

// specialOutputs: -o may name something that is not a regular file — the
// null device, a FIFO somebody reads, the process's own standard output under
// its /dev name, a symbolic link. No fault is injected: everything the tool
// writes is accepted. Both directions of the property apply: exit status 0
// if and only if the reader at the other end got the complete result.
func specialOutputs(e *env) []func() {
	r := e.r
	var out []func()
	type op struct {
		name    string
		encrypt bool
		armored bool
		args    []string
	}
	ops := []op{
		{"encrypt -r", true, false, []string{"-r", keys.NewX("X1").PublicStr}},
		{"encrypt -a -R", true, true, []string{"-a", "-R", "rcpts.txt"}},
		{"decrypt -i", false, false, []string{"-d", "-i", "x1.key"}},
		{"decrypt armored -i", false, true, []string{"--decrypt", "-i", "x1.key"}},
	}
	kinds := []string{"devnull", "fifo", "dev-stdout-pipe", "dev-stdout-file", "dev-fd-1", "symlink-to-file", "symlink-to-devnull", "dangling-symlink"}
	sizes := []int{0, 100, 140000}
	if r.Thorough() {
		sizes = append(sizes, 65536, 1<<20+5)
	}
	for _, o := range ops {
		for _, k := range kinds {
			for _, size := range sizes {
				o, k, size := o, k, size
				out = append(out, func() {
					d := e.dir()
					defer e.done(d)
					pt := mon.DetBytes(fmt.Sprintf("c15-special-%d", size), size)
					input := pt
					if !o.encrypt {
						input = refFile("X", pt, o.armored, fmt.Sprintf("special-%d-%v", size, o.armored))
					}
					os.WriteFile(filepath.Join(d, "input"), input, 0o600)
					c := &cli.Cmd{Dir: d, Timeout: 60 * time.Second}
					target := ""
					collected := make(chan []byte, 1)
					toolEnded := make(chan struct{})
					collect := false
					switch k {
					case "devnull":
						target = "/dev/null"
					case "fifo":
						target = filepath.Join(d, "result.fifo")
						if err := syscall.Mkfifo(target, 0o600); err != nil {
							r.Inconclusive("mkfifo: %v", err)
							return
						}
						collect = true
						// "a FIFO somebody reads": the reader has the FIFO open BEFORE
						// the tool starts (the tool opens its output for reading and
						// writing, which does not wait for a reader; a pipe that nobody
						// else holds open discards what was written when the tool closes
						// it, and the tool cannot know). The reader collects until the
						// tool has ended and the buffer is empty.
						fd, err := syscall.Open(target, syscall.O_RDONLY|syscall.O_NONBLOCK, 0)
						if err != nil {
							r.Inconclusive("fifo reader: %v", err)
							return
						}
						go func() {
							defer syscall.Close(fd)
							var all []byte
							buf := make([]byte, 65536)
							ended := false
							for {
								n, _ := syscall.Read(fd, buf)
								if n > 0 {
									all = append(all, buf[:n]...)
									continue
								}
								if ended {
									collected <- all
									return
								}
								select {
								case <-toolEnded:
									ended = true // one more pass: what was written before the end
								case <-time.After(500 * time.Microsecond):
								}
							}
						}()
					case "dev-stdout-pipe":
						target = "/dev/stdout"
					case "dev-stdout-file":
						target = "/dev/stdout"
						c.Stdout = "file:" + filepath.Join(d, "stdout.file")
					case "dev-fd-1":
						target = "/dev/fd/1"
					case "symlink-to-file":
						target = filepath.Join(d, "link")
						os.WriteFile(filepath.Join(d, "real.out"), []byte("OLD CONTENT THAT IS LONGER THAN NOTHING\n"), 0o644)
						os.Symlink("real.out", target)
					case "symlink-to-devnull":
						target = filepath.Join(d, "nulllink")
						os.Symlink("/dev/null", target)
					case "dangling-symlink":
						target = filepath.Join(d, "dangling")
						os.Symlink("created-through-link.out", target)
					}
					argv := append(append([]string{e.age}, o.args...), "-o", target, "input")
					c.Argv = argv
					res := cli.Run(c)
					desc := fmt.Sprintf("special output %s -o %s size=%d", o.name, k, size)
					r.Eval(1)
					r.Distinct(desc)
					r.Tab("special_output_x_op", k+"|"+o.name)
					var got []byte
					if collect {
						close(toolEnded)
						select {
						case got = <-collected:
						case <-time.After(60 * time.Second): // watchdog only
							r.Inconclusive("%s: the FIFO reader did not finish", desc)
							return
						}
					}
					if res.Err != nil {
						r.Inconclusive("%s: driver error %v", desc, res.Err)
						return
					}
					verifiable := true
					switch k {
					case "devnull", "symlink-to-devnull":
						verifiable = false
					case "fifo":
						// collected above
					case "dev-stdout-pipe", "dev-fd-1":
						got = res.Stdout
					case "dev-stdout-file":
						got, _ = os.ReadFile(filepath.Join(d, "stdout.file"))
					case "symlink-to-file":
						got, _ = os.ReadFile(filepath.Join(d, "real.out"))
					case "dangling-symlink":
						got, _ = os.ReadFile(filepath.Join(d, "created-through-link.out"))
					}
					replay := map[string]any{"case": desc, "argv": argv}
					complete := true
					var why error
					if verifiable {
						if o.encrypt {
							why = e.checkEncrypted(desc, got, o.armored, refKey(map[bool]string{false: "X", true: "E"}[o.armored]), pt)
							complete = why == nil
						} else {
							complete = bytes.Equal(got, pt)
							if !complete {
								why = fmt.Errorf("%d bytes arrived, want %d", len(got), len(pt))
							}
						}
					}
					switch {
					case res.Exit == 0 && !complete:
						r.Violate("exit0-incomplete:special-output:"+k, fmt.Sprintf("%s: exit 0 but %v", desc, why), replay)
					case res.Exit != 0 && complete:
						// nothing refused a byte and (where it can be checked) the whole
						// result is at the other end, yet failure was reported
						r.Violate("exit-nonzero-although-delivered:"+k, fmt.Sprintf("%s: the complete result was delivered and accepted, but the tool reported failure: %s", desc, res), replay)
					default:
						r.Count("special_outputs_status_matches_delivery", 1)
						if res.Exit == 0 {
							r.Count("complete_results_with_exit_0", 1)
						}
						r.SampleN("special-"+k, 1, map[string]any{"case": desc, "argv": argvString(argv[1:]), "exit": res.Exit, "bytes_at_the_other_end": len(got), "checked": verifiable})
					}
				})
			}
		}
	}
	return out
}

// specialInputs: INPUT may name something whose reported size says nothing
// about its content (procfs and sysfs files report 0), something that is not a
// regular file (a FIFO, /dev/stdin), a symbolic link, or a file that is still
// being written when the tool opens it. Exit status 0 requires the output to
// hold the encryption (or decryption) of everything the input delivered.
func specialInputs(e *env) []func() {
	r := e.r
	var out []func()
	type src struct {
		name string
		prep func(d string, content []byte) (arg string, cmd *cli.Cmd, want func() []byte)
	}
	procFile := func(p string) src {
		return src{"procfs:" + p, func(d string, _ []byte) (string, *cli.Cmd, func() []byte) {
			return p, &cli.Cmd{Dir: d}, func() []byte { b, _ := os.ReadFile(p); return b }
		}}
	}
	srcs := []src{
		procFile("/proc/version"), procFile("/proc/filesystems"), procFile("/proc/sys/kernel/ostype"), procFile("/proc/cmdline"),
		{"fifo-with-writer", func(d string, content []byte) (string, *cli.Cmd, func() []byte) {
			p := filepath.Join(d, "in.fifo")
			syscall.Mkfifo(p, 0o600)
			go func() {
				f, err := os.OpenFile(p, os.O_WRONLY, 0)
				if err != nil {
					return
				}
				f.Write(content[:len(content)/2])
				time.Sleep(20 * time.Millisecond)
				f.Write(content[len(content)/2:])
				f.Close()
			}()
			return p, &cli.Cmd{Dir: d}, func() []byte { return content }
		}},
		{"dev-stdin-from-file", func(d string, content []byte) (string, *cli.Cmd, func() []byte) {
			os.WriteFile(filepath.Join(d, "stdin.bin"), content, 0o600)
			return "/dev/stdin", &cli.Cmd{Dir: d, StdinFile: filepath.Join(d, "stdin.bin")}, func() []byte { return content }
		}},
		{"dev-stdin-from-pipe", func(d string, content []byte) (string, *cli.Cmd, func() []byte) {
			return "/dev/stdin", &cli.Cmd{Dir: d, Stdin: content}, func() []byte { return content }
		}},
		{"symlink-to-file", func(d string, content []byte) (string, *cli.Cmd, func() []byte) {
			os.WriteFile(filepath.Join(d, "real.bin"), content, 0o600)
			os.Symlink("real.bin", filepath.Join(d, "in.link"))
			return "in.link", &cli.Cmd{Dir: d}, func() []byte { return content }
		}},
		{"sparse-file-with-hole", func(d string, content []byte) (string, *cli.Cmd, func() []byte) {
			p := filepath.Join(d, "sparse.bin")
			f, _ := os.Create(p)
			f.Write(content)
			f.Seek(1<<20, 0)
			f.Write([]byte("tail after a hole"))
			f.Close()
			return "sparse.bin", &cli.Cmd{Dir: d}, func() []byte { b, _ := os.ReadFile(p); return b }
		}},
		{"file-completed-while-the-tool-waits-for-recipients", func(d string, content []byte) (string, *cli.Cmd, func() []byte) {
			// the tool opens INPUT, then blocks reading the recipients from stdin
			// (-R -); the writer of INPUT finishes meanwhile
			p := filepath.Join(d, "growing.bin")
			os.WriteFile(p, content[:10], 0o600)
			c := &cli.Cmd{Dir: d, StdinPieces: [][]byte{[]byte("# recipients\n"), []byte(keys.NewX("X1").PublicStr + "\n")}, StdinPause: 400 * time.Millisecond}
			go func() {
				time.Sleep(150 * time.Millisecond)
				f, err := os.OpenFile(p, os.O_WRONLY|os.O_APPEND, 0)
				if err == nil {
					f.Write(content[10:])
					f.Close()
				}
			}()
			return "growing.bin", c, func() []byte { return content }
		}},
	}
	for _, s := range srcs {
		for _, size := range []int{100, 140000} {
			s, size := s, size
			if size != 100 && (len(s.name) > 7 && s.name[:7] == "procfs:") {
				continue
			}
			out = append(out, func() {
				d := e.dir()
				defer e.done(d)
				content := mon.DetBytes(fmt.Sprintf("c15-special-in-%d", size), size)
				arg, c, want := s.prep(d, content)
				c.Timeout = 60 * time.Second
				argv := []string{e.age, "-r", keys.NewX("X1").PublicStr, "-o", "out.age", arg}
				if s.name == "file-completed-while-the-tool-waits-for-recipients" {
					argv = []string{e.age, "-R", "-", "-o", "out.age", arg}
				}
				c.Argv = argv
				res := cli.Run(c)
				desc := fmt.Sprintf("special input %s size=%d", s.name, size)
				r.Eval(1)
				r.Distinct(desc)
				r.Tab("special_input", s.name)
				if res.Err != nil {
					r.Inconclusive("%s: driver error %v", desc, res.Err)
					return
				}
				if res.Exit != 0 {
					r.Count("special_inputs_refused", 1)
					return
				}
				got, _ := os.ReadFile(filepath.Join(d, "out.age"))
				exp := want()
				if err := e.checkEncrypted(desc, got, false, refKey("X"), exp); err != nil {
					r.Violate("exit0-incomplete:special-input:"+s.name, fmt.Sprintf("%s: exit 0 but %v (the input delivers %d bytes)", desc, err, len(exp)), map[string]any{"argv": argv})
					return
				}
				r.Count("special_inputs_completely_encrypted", 1)
				r.Count("complete_results_with_exit_0", 1)
			})
		}
	}
	return out
}
