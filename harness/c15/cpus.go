package main

import (
	"bytes"
	"fmt"
	"os"
	"os/exec"
	"path/filepath"

	"filippo.io/age/zverif/cli"
	"filippo.io/age/zverif/mon"
	"filippo.io/age/zverif/refage"
)

// cpuSets: the same operations while the process may run on ONE processor
// only (taskset -c 0: a one-vCPU machine, a container with a one-CPU cpuset —
// runtime.NumCPU() is 1, which GOMAXPROCS=1 does not give) and on two. Damaged
// inputs must still end in a non-zero status with only a prefix released, and
// the clean file must still come out complete, through every output route.
func cpuSets(e *env) []func() {
	r := e.r
	var out []func()
	if _, err := exec.LookPath("taskset"); err != nil {
		r.Set("cpu_set_stage", "skipped: no taskset on PATH")
		return nil
	}
	pt := mon.DetBytes("c15-cpus", 2*65536+1000)
	file := refFile("X", pt, false, "cpus")
	he := refage.HeaderEnd(file)
	type dmg struct {
		name string
		make func() []byte
	}
	damages := []dmg{
		{"intact", func() []byte { return file }},
		{"last chunk dropped", func() []byte { return file[:he+16+2*(65536+16)] }},
		{"cut inside chunk 2", func() []byte { return file[:he+16+65536+16+700] }},
		{"cut inside the last chunk", func() []byte { return file[:len(file)-5] }},
		{"bit flipped in chunk 2", func() []byte {
			g := append([]byte(nil), file...)
			g[he+16+65536+16+99] ^= 4
			return g
		}},
		{"bit flipped in the last tag", func() []byte {
			g := append([]byte(nil), file...)
			g[len(g)-1] ^= 1
			return g
		}},
		{"one byte appended", func() []byte { return append(append([]byte(nil), file...), 'x') }},
	}
	for _, cpus := range []string{"0", "0,1"} {
		for _, route := range []string{"-o", "pipe", "file"} {
			for _, dm := range damages {
				if !r.Thorough() && cpus == "0,1" && route != "-o" {
					continue
				}
				cpus, route, dm := cpus, route, dm
				out = append(out, func() {
					d := e.dir()
					defer e.done(d)
					in := dm.make()
					os.WriteFile(filepath.Join(d, "in.age"), in, 0o600)
					argv := []string{"taskset", "-c", cpus, e.age, "-d", "-i", "x1.key"}
					c := &cli.Cmd{Dir: d}
					outPath := filepath.Join(d, "out")
					switch route {
					case "-o":
						argv = append(argv, "-o", "out")
					case "file":
						c.Stdout = "file:" + outPath
					}
					c.Argv = append(argv, "in.age")
					res := cli.Run(c)
					desc := fmt.Sprintf("decrypt a 3-chunk file, %s, output by %s, allowed processors {%s}", dm.name, route, cpus)
					r.Eval(1)
					r.Distinct(desc)
					r.Tab("cpu_set", cpus+"|"+route)
					if res.Err != nil {
						r.Inconclusive("%s: driver error %v", desc, res.Err)
						return
					}
					got := res.Stdout
					if route != "pipe" {
						got, _ = os.ReadFile(outPath)
					}
					replay := map[string]any{"argv": c.Argv, "damage": dm.name}
					if dm.name == "intact" {
						if res.Exit != 0 || !bytes.Equal(got, pt) {
							r.Violate("cpu-set:intact-file-failed:"+route, fmt.Sprintf("%s: %s, %d of %d bytes", desc, res, len(got), len(pt)), replay)
						} else {
							r.Count("complete_results_with_exit_0", 1)
						}
						return
					}
					if res.Exit == 0 {
						r.Violate("exit0-damaged-input:cpu-set:"+route, fmt.Sprintf("%s: exit status 0 with %d of %d bytes released", desc, len(got), len(pt)), replay)
						return
					}
					if !bytes.HasPrefix(pt, got) {
						r.Violate("leftover-not-prefix:cpu-set:"+route, fmt.Sprintf("%s: the %d bytes released are not a prefix of the plaintext", desc, len(got)), replay)
						return
					}
					r.Count("cpu_set_damaged_inputs_reported", 1)
				})
			}
		}
	}
	return out
}
