package main

import (
	"bytes"
	"fmt"
	"os"
	"path/filepath"
	"time"

	"filippo.io/age/zverif/cli"
	"filippo.io/age/zverif/keys"
	"filippo.io/age/zverif/mon"
)

// contentShapes: the CONTENT of the data as a dimension of the exit-status
// property. Plaintexts that are not noise: all zeros, data followed by a long
// run of zeros (what a sparse-aware writer would turn into a hole), zeros
// first, runs of 0xFF, nothing but newlines, a hole in the middle — through
// the real tool in both directions, to a regular file, to a pipe and appended
// to an existing file's name via a symlink. Exit status 0 requires the complete
// result, byte for byte, at the destination.
func contentShapes(e *env) []func() {
	r := e.r
	z := func(n int) []byte { return make([]byte, n) }
	rep := func(b byte, n int) []byte { return bytes.Repeat([]byte{b}, n) }
	cat := func(parts ...[]byte) []byte { return bytes.Join(parts, nil) }
	noise := func(n int) []byte { return mon.DetBytes("c15-content", n) }
	shapes := []struct {
		name string
		pt   []byte
	}{
		{"64 KiB of zeros", z(65536)},
		{"4096 zeros", z(4096)},
		{"100 bytes then 40 KiB of zeros", cat(noise(100), z(40*1024))},
		{"70000 bytes then 32 KiB of zeros", cat(noise(70000), z(32768))},
		{"40 KiB of zeros then 100 bytes", cat(z(40*1024), noise(100))},
		{"data, a 64 KiB hole, data", cat(noise(5000), z(65536), noise(5000))},
		{"1 MiB of zeros", z(1 << 20)},
		{"200000 zeros then one byte", cat(z(200000), []byte{1})},
		{"64 KiB of 0xFF", rep(0xff, 65536)},
		{"50000 newlines", rep('\n', 50000)},
		{"zeros ending one byte short of 32 KiB pieces", z(3*32768 - 1)},
	}
	var out []func()
	for _, s := range shapes {
		for _, dir := range []string{"decrypt -o file", "decrypt > pipe", "decrypt -o symlink", "encrypt -o file", "encrypt -a -o file"} {
			s, dir := s, dir
			out = append(out, func() {
				d := e.dir()
				defer e.done(d)
				desc := fmt.Sprintf("content %q, %s", s.name, dir)
				c := &cli.Cmd{Dir: d, Timeout: 60 * time.Second}
				target := filepath.Join(d, "result.out")
				var argv []string
				switch dir {
				case "decrypt -o file", "decrypt > pipe", "decrypt -o symlink":
					os.WriteFile(filepath.Join(d, "input"), refFile("X", s.pt, false, "content-"+s.name), 0o600)
					argv = []string{e.age, "-d", "-i", "x1.key"}
					switch dir {
					case "decrypt -o file":
						argv = append(argv, "-o", "result.out")
					case "decrypt -o symlink":
						os.Symlink("result.out", filepath.Join(d, "link"))
						argv = append(argv, "-o", "link")
					}
					argv = append(argv, "input")
				default:
					os.WriteFile(filepath.Join(d, "input"), s.pt, 0o600)
					argv = []string{e.age, "-r", keys.NewX("X1").PublicStr}
					if dir == "encrypt -a -o file" {
						argv = append(argv, "-a")
					}
					argv = append(argv, "-o", "result.out", "input")
				}
				c.Argv = argv
				res := cli.Run(c)
				r.Eval(1)
				r.Distinct(desc)
				r.Tab("content_shape_x_direction", s.name+"|"+dir)
				if res.Err != nil {
					r.Inconclusive("%s: driver error %v", desc, res.Err)
					return
				}
				if res.Exit != 0 {
					// nothing refused a byte: an ordinary operation must not fail because of what the data is
					r.Violate("content:refused:"+dir, fmt.Sprintf("%s: the tool failed on ordinary data: %s", desc, res), map[string]any{"case": desc})
					return
				}
				got, _ := os.ReadFile(target)
				if dir == "decrypt > pipe" {
					got = res.Stdout
				}
				var why error
				switch {
				case dir[0] == 'd' && !bytes.Equal(got, s.pt):
					why = fmt.Errorf("%d bytes at the destination, the plaintext has %d (first difference at %d)", len(got), len(s.pt), firstDiffC15(got, s.pt))
				case dir[0] == 'e':
					why = e.checkEncrypted(desc, got, dir == "encrypt -a -o file", refKey("X"), s.pt)
				}
				if why != nil {
					r.Violate("exit0-incomplete:content:"+dir, fmt.Sprintf("%s: exit 0 but %v", desc, why), map[string]any{"case": desc, "argv": argv})
					return
				}
				r.Count("content_shapes_complete_result_with_exit_0", 1)
				r.Count("complete_results_with_exit_0", 1)
			})
		}
	}
	return out
}

func firstDiffC15(a, b []byte) int {
	n := len(a)
	if len(b) < n {
		n = len(b)
	}
	for i := 0; i < n; i++ {
		if a[i] != b[i] {
			return i
		}
	}
	return n
}
