package main

import (
	"bytes"
	"fmt"
	"os"
	"path/filepath"
	"regexp"
	"sort"
	"strings"

	"filippo.io/age/zverif/cli"
	"filippo.io/age/zverif/keys"
	"filippo.io/age/zverif/mon"
	"filippo.io/age/zverif/refage"
)

// op is an operation whose output can be made to fail.
type op struct {
	name    string
	decrypt bool
	armored bool
	size    int
	kt      string
}

func (o op) String() string {
	return fmt.Sprintf("%s size=%d armor=%v key=%s", o.name, o.size, o.armored, o.kt)
}

// setup writes the input into d and returns the argv without output selection
// and the expected plaintext-or-nil (for decrypt the expected output bytes).
func (o op) setup(e *env, d string) (argv []string, input []byte, expectOut []byte, key refage.Key) {
	pt := mon.DetBytes(fmt.Sprintf("c15-op-%d", o.size), o.size)
	if o.decrypt {
		file := refFile(o.kt, pt, o.armored, "op-"+o.String())
		os.WriteFile(filepath.Join(d, "input"), file, 0o600)
		ia, _ := identityArgs(o.kt)
		return append([]string{e.age, "-d"}, ia...), file, pt, nil
	}
	os.WriteFile(filepath.Join(d, "input"), pt, 0o600)
	argv = []string{e.age, "-r", keys.NewX("X1").PublicStr}
	if o.armored {
		argv = append(argv, "-a")
	}
	return argv, pt, nil, refKey("X")
}

// complete reports whether got is the complete result of the operation.
func (o op) complete(e *env, got, input, expectOut []byte, key refage.Key) error {
	if o.decrypt {
		if !bytes.Equal(got, expectOut) {
			return fmt.Errorf("output has %d bytes, the plaintext %d", len(got), len(expectOut))
		}
		return nil
	}
	return e.checkEncrypted(o.String(), got, o.armored, key, input)
}

var injectedRe = regexp.MustCompile(`\(INJECTED\)`)
var emptyWriteInjectedRe = regexp.MustCompile(`write\(\d+, "", 0\)\s+= -1 [A-Z]+ \([^)]*\) \(INJECTED\)`)
var writeRe = regexp.MustCompile(`(?m)^\d+\s+write\(`)
var closeRe = regexp.MustCompile(`(?m)^\d+\s+close\(`)

func outputFaults(e *env) []func() {
	r := e.r
	var out []func()
	ops := []op{
		{"encrypt", false, false, 0, "X"}, {"encrypt", false, true, 0, "X"},
		{"encrypt", false, false, 50, "X"}, {"encrypt", false, true, 50, "X"},
		{"encrypt", false, false, 65537, "X"}, {"encrypt", false, true, 70000, "X"},
		{"decrypt", true, false, 0, "X"}, {"decrypt", true, false, 1, "X"},
		{"decrypt", true, false, 300, "E"}, {"decrypt", true, true, 300, "X"},
		{"decrypt", true, false, 65537, "X"}, {"decrypt", true, true, 140000, "R"},
	}
	if r.Thorough() {
		ops = append(ops, op{"encrypt", false, false, 200000, "X"}, op{"decrypt", true, false, 200000, "E"}, op{"decrypt", true, false, 65536, "X"})
	}
	for _, o := range ops {
		o := o
		// --- fixed failing destinations ---
		for _, dest := range []string{"devfull", "closed", "-o:nonexistent-dir", "-o:through-file", "-o:is-directory", "earlyclose"} {
			dest := dest
			out = append(out, func() {
				d := e.dir()
				defer e.done(d)
				argv, input, expectOut, key := o.setup(e, d)
				c := &cli.Cmd{Dir: d}
				expectedLen := len(expectOut)
				if !o.decrypt {
					expectedLen = len(input) + 200
				}
				switch dest {
				case "devfull", "closed":
					if o.decrypt && o.size == 0 {
						return // the complete result is zero bytes: nothing has to reach the output
					}
					c.Stdout = dest
				case "-o:nonexistent-dir":
					argv = append(argv, "-o", "no/such/dir/out")
				case "-o:through-file":
					argv = append(argv, "-o", "x1.key/out")
				case "-o:is-directory":
					os.Mkdir(filepath.Join(d, "adir"), 0o755)
					argv = append(argv, "-o", "adir")
				case "earlyclose":
					if expectedLen < 20000 {
						return // the pipe (4 KiB) plus runtime buffering could absorb it
					}
					c.Stdout = "earlyclose:100"
				}
				c.Argv = append(argv, "input")
				res := cli.Run(c)
				desc := fmt.Sprintf("%s -> %s", o, dest)
				r.Eval(1)
				r.Distinct(desc)
				r.Tab("failing_destination", dest)
				if res.Err != nil {
					r.Inconclusive("%s: driver error %v", desc, res.Err)
					return
				}
				if res.Exit == 0 {
					r.Violate(fmt.Sprintf("exit0-without-result:%s:%s:empty=%v", o.name, dest, o.size == 0 && o.decrypt),
						fmt.Sprintf("%s: exit status 0 although the result could not be delivered (argv %s; stderr %q)", desc, argvString(c.Argv), mon.Trunc(res.Stderr, 200)),
						map[string]any{"argv": c.Argv, "stdout": dest})
				} else {
					r.Count("failed_destination_reported", 1)
					r.SampleN("dest:"+dest, 1, map[string]any{"case": desc, "argv": argvString(c.Argv[1:]), "exit": res.Exit, "stderr": string(mon.Trunc(res.Stderr, 120))})
				}
				_ = key
			})
		}
		// --- prlimit --fsize=k and strace injection need the clean run first ---
		out = append(out, func() {
			d := e.dir()
			defer e.done(d)
			argv, input, expectOut, key := o.setup(e, d)
			logp := filepath.Join(d, "trace.clean")
			clean := cli.Run(&cli.Cmd{Argv: append(append([]string{}, argv...), "-o", "out", "input"), Dir: d,
				Strace: []string{"-P", filepath.Join(d, "out"), "-e", "trace=write,close"}, StraceLog: logp})
			outPath := filepath.Join(d, "out")
			got, _ := os.ReadFile(outPath)
			if clean.Err != nil || clean.Exit != 0 || o.complete(e, got, input, expectOut, key) != nil {
				r.Violate("clean-run:"+o.String(), fmt.Sprintf("%s: clean run with -o failed: %s", o, clean), nil)
				return
			}
			B := len(got)
			tl, _ := os.ReadFile(logp)
			nWrites := len(writeRe.FindAll(tl, -1))
			nCloses := len(closeRe.FindAll(tl, -1))
			r.Tab("clean_output", fmt.Sprintf("%s:B=%d:writes=%d", o, B, nWrites))

			// every byte offset for small outputs, boundaries for large ones
			var ks []int
			if B <= 400 {
				for k := 0; k <= B; k++ {
					ks = append(ks, k)
				}
			} else {
				set := map[int]bool{0: true, 1: true, B - 2: true, B - 1: true, B: true, B + 1: true}
				for _, m := range []int{200, 4096, 32768, 65536, 65552, 65536 + 200, 2 * 65552} {
					for dlt := -2; dlt <= 2; dlt++ {
						if k := m + dlt; k > 0 && k < B {
							set[k] = true
						}
					}
				}
				rng := mon.NewRNG(r.Seed, "c15-fsize-"+o.String())
				for i := 0; i < 6; i++ {
					set[rng.Intn(B)] = true
				}
				for k := range set {
					ks = append(ks, k)
				}
				sort.Ints(ks)
			}
			if !r.Thorough() && len(ks) > 60 {
				// keep the ends and a seeded sample of the middle
				rng := mon.NewRNG(r.Seed, "c15-fsize-thin-"+o.String())
				keep := map[int]bool{}
				for i := 0; i < 8; i++ {
					keep[ks[i]], keep[ks[len(ks)-1-i]] = true, true
				}
				for len(keep) < 60 {
					keep[ks[rng.Intn(len(ks))]] = true
				}
				ks = ks[:0]
				for k := range keep {
					ks = append(ks, k)
				}
				sort.Ints(ks)
			}
			for _, k := range ks {
				os.Remove(outPath)
				res := cli.Run(&cli.Cmd{Argv: append(append([]string{}, argv...), "-o", "out", "input"), Dir: d, FsizeLimit: int64(k)})
				if k == 0 {
					// prlimit treats 0 as a real limit; FsizeLimit 0 means "none" in the driver
					res = cli.Run(&cli.Cmd{Argv: append([]string{"prlimit", "--fsize=0", "--"}, append(append([]string{}, argv...), "-o", "out", "input")...), Dir: d})
				}
				desc := fmt.Sprintf("%s -o out under prlimit --fsize=%d (complete output is %d bytes)", o, k, B)
				r.Eval(1)
				r.Distinct(desc)
				if res.Err != nil {
					r.Inconclusive("%s: driver error %v", desc, res.Err)
					continue
				}
				left, _ := os.ReadFile(outPath)
				if k < B {
					r.Count("fsize_faults_fired", 1)
					r.SampleN("fsize", 2, map[string]any{"case": desc, "exit": res.Exit, "signal": res.Signal, "bytes_left_on_disk": len(left)})
					if res.Exit == 0 {
						r.Violate(fmt.Sprintf("exit0-truncated-output:%s:armor=%v", o.name, o.armored),
							fmt.Sprintf("%s: exit 0 with %d of %d bytes on disk", desc, len(left), B), map[string]any{"argv": argv, "fsize": k})
					}
					if o.decrypt && !bytes.HasPrefix(expectOut, left) {
						r.Violate("leftover-not-prefix:"+o.name, fmt.Sprintf("%s: the %d bytes left behind are not a prefix of the plaintext", desc, len(left)), nil)
					}
				} else {
					if res.Exit != 0 || o.complete(e, left, input, expectOut, key) != nil {
						r.Violate("nonzero-with-complete-result:"+o.name, fmt.Sprintf("%s: limit not reached, yet %s", desc, res), map[string]any{"argv": argv, "fsize": k})
					}
				}
			}
			// strace: fail the k-th write (ENOSPC, EIO) and the close (EIO)
			type inj struct {
				spec string
				what string
			}
			var injs []inj
			for k := 1; k <= nWrites; k++ {
				if !r.Thorough() && nWrites > 12 && k > 6 && k < nWrites-3 && k%5 != 0 {
					continue
				}
				injs = append(injs, inj{fmt.Sprintf("inject=write:error=ENOSPC:when=%d", k), fmt.Sprintf("write#%d ENOSPC", k)})
				if k%2 == 1 {
					injs = append(injs, inj{fmt.Sprintf("inject=write:error=EIO:when=%d", k), fmt.Sprintf("write#%d EIO", k)})
				}
			}
			for k := 1; k <= nCloses; k++ {
				injs = append(injs, inj{fmt.Sprintf("inject=close:error=EIO:when=%d", k), fmt.Sprintf("close#%d EIO", k)})
			}
			for i, in := range injs {
				os.Remove(outPath)
				lp := filepath.Join(d, fmt.Sprintf("trace.%d", i))
				res := cli.Run(&cli.Cmd{Argv: append(append([]string{}, argv...), "-o", "out", "input"), Dir: d,
					Strace: []string{"-P", outPath, "-e", "trace=write,close", "-e", in.spec}, StraceLog: lp})
				tl, _ := os.ReadFile(lp)
				os.Remove(lp)
				desc := fmt.Sprintf("%s -o out with %s", o, in.what)
				r.Eval(1)
				r.Distinct(desc)
				if res.Err != nil {
					r.Inconclusive("%s: driver error %v", desc, res.Err)
					continue
				}
				if !injectedRe.Match(tl) {
					r.Count("strace_injection_not_reached", 1)
					continue
				}
				if emptyWriteInjectedRe.Match(tl) {
					// the failed call carried no data: the result on disk is
					// complete either way, so no status is prescribed
					r.Count("strace_injection_on_empty_write_not_asserted", 1)
					continue
				}
				r.Count("strace_faults_fired", 1)
				r.SampleN("strace", 2, map[string]any{"case": desc, "exit": res.Exit})
				r.Tab("strace_injection", strings.Fields(in.what)[0][:5]+":"+strings.Fields(in.what)[1])
				if res.Exit == 0 {
					cls := "write"
					if strings.HasPrefix(in.what, "close") {
						cls = "close"
					}
					r.Violate(fmt.Sprintf("exit0-after-%s-error:%s", cls, o.name),
						fmt.Sprintf("%s: the injected error fired but the exit status is 0", desc), map[string]any{"argv": argv, "inject": in.spec})
				}
			}
		})
	}
	return out
}

// ---- C. damaged inputs ------------------------------------------------------------

func damagedInputs(e *env) []func() {
	r := e.r
	var out []func()
	type dmg struct {
		name   string
		header bool // refusal must happen at the header: -o untouched
		make   func(file []byte, he int) []byte
	}
	flip := func(off int) func([]byte, int) []byte {
		return func(f []byte, he int) []byte {
			g := append([]byte(nil), f...)
			o := off
			if o < 0 {
				o = len(g) + o
			}
			if o >= len(g) {
				o = len(g) - 1
			}
			g[o] ^= 0x01
			return g
		}
	}
	dmgs := []dmg{
		{"header-bitflip-stanza-body", true, func(f []byte, he int) []byte { g := append([]byte(nil), f...); g[he-70] ^= 0x04; return g }},
		{"header-bitflip-mac", true, func(f []byte, he int) []byte { g := append([]byte(nil), f...); g[he-10] ^= 0x01; return g }},
		{"header-intro-changed", true, func(f []byte, he int) []byte { return append([]byte("age-encryption.org/v2\n"), f[22:]...) }},
		{"header-truncated", true, func(f []byte, he int) []byte { return f[:he-5] }},
		{"header-only", true, func(f []byte, he int) []byte { return f[:he] }},
		{"nonce-truncated", true, func(f []byte, he int) []byte { return f[:he+7] }},
		{"empty-input", true, func(f []byte, he int) []byte { return nil }},
		{"garbage", true, func(f []byte, he int) []byte { return []byte("this is not an age file\n") }},
		{"payload-cut-right-after-nonce", false, func(f []byte, he int) []byte { return f[:he+16] }},
		{"payload-cut-mid-first-chunk", false, func(f []byte, he int) []byte {
			if len(f) > he+16+20 {
				return f[:he+16+9]
			}
			return f[:he+16+3]
		}},
		{"payload-flip-chunk0", false, func(f []byte, he int) []byte { return flip(he+16+5)(f, he) }},
		{"payload-flip-chunk1", false, func(f []byte, he int) []byte { return flip(he+16+refage.EncChunkSize+5)(f, he) }},
		{"payload-flip-last-byte", false, flip(-1)},
		{"payload-truncated-1", false, func(f []byte, he int) []byte { return f[:len(f)-1] }},
		{"payload-truncated-at-chunk-boundary", false, func(f []byte, he int) []byte {
			if len(f) > he+16+refage.EncChunkSize {
				return f[:he+16+refage.EncChunkSize]
			}
			return f[:len(f)-3]
		}},
		{"payload-trailing-garbage", false, func(f []byte, he int) []byte { return append(append([]byte(nil), f...), "xx"...) }},
		{"payload-trailing-1-byte", false, func(f []byte, he int) []byte { return append(append([]byte(nil), f...), 'x') }},
		{"payload-trailing-whole-chunk", false, func(f []byte, he int) []byte {
			return append(append([]byte(nil), f...), bytes.Repeat([]byte{7}, refage.EncChunkSize)...)
		}},
	}
	for _, kt := range []string{"X", "E"} {
		// 1 MiB, 3 MiB and just over 16 MiB: sizes at which a tool may switch
		// strategy (pre-allocation, read-ahead, limits)
		for _, size := range []int{0, 100, 65536, 131072, 140000, 1<<20 + 7, 3 << 20, 16<<20 + 70000} {
			for _, dm := range dmgs {
				for _, pre := range []bool{false, true} {
					kt, size, dm, pre := kt, size, dm, pre
					if size >= 1<<20 {
						if kt != "X" || dm.header || (pre && size != 3<<20) {
							continue
						}
						if size > 16<<20 && !r.Thorough() && dm.name != "payload-truncated-1" && dm.name != "payload-flip-chunk1" && dm.name != "payload-trailing-1-byte" {
							continue
						}
						r.Count("damaged_inputs_of_1MiB_and_more", 1)
					}
					if !r.Thorough() && kt == "E" && (size == 100 || size == 65536 || pre) {
						continue
					}
					if !r.Thorough() && (size == 65536 || size == 131072) && dm.header {
						continue // the full-chunk sizes are there for the payload classes
					}
					out = append(out, func() {
						d := e.dir()
						defer e.done(d)
						pt := mon.DetBytes(fmt.Sprintf("c15-dmg-%d", size), size)
						file := refFile(kt, pt, false, fmt.Sprintf("dmg-%s-%d", kt, size))
						he := refage.HeaderEnd(file)
						bad := dm.make(file, he)
						if bytes.Equal(bad, file) {
							return
						}
						os.WriteFile(filepath.Join(d, "in.age"), bad, 0o600)
						outPath := filepath.Join(d, "out.txt")
						if pre {
							os.WriteFile(outPath, []byte("PRE-EXISTING CONTENT\n"), 0o640)
						}
						before := snapshot(outPath)
						ia, _ := identityArgs(kt)
						argv := append(append([]string{e.age, "-d"}, ia...), "-o", "out.txt", "in.age")
						res := cli.Run(&cli.Cmd{Argv: argv, Dir: d})
						after := snapshot(outPath)
						desc := fmt.Sprintf("decrypt key=%s size=%d damage=%s preexisting=%v", kt, size, dm.name, pre)
						r.Eval(1)
						r.Distinct(desc)
						r.Tab("damaged_input", dm.name)
						if res.Err != nil {
							r.Inconclusive("%s: driver error %v", desc, res.Err)
							return
						}
						replay := map[string]any{"argv": argv, "damage": dm.name, "size": size}
						if res.Exit == 0 {
							r.Violate("exit0-damaged-input:"+dm.name, fmt.Sprintf("%s: exit 0 on a damaged input", desc), replay)
							return
						}
						if dm.header {
							if before != after {
								r.Violate(fmt.Sprintf("output-touched-on-header-refusal:%s:pre=%v", dm.name, pre),
									fmt.Sprintf("%s: decryption was refused at the header but -o changed: before %+v after %+v", desc, before, after), replay)
							} else {
								r.Count("header_refusals_output_untouched", 1)
								r.SampleN("hdr-refusal", 1, map[string]any{"case": desc, "exit": res.Exit, "output_before": before.exists, "output_after": after.exists, "unchanged": before == after})
							}
						} else {
							left, _ := os.ReadFile(outPath)
							if !bytes.HasPrefix(pt, left) {
								r.Violate("leftover-not-prefix:"+dm.name, fmt.Sprintf("%s: the %d bytes left in -o are not a prefix of the true plaintext", desc, len(left)), replay)
							} else {
								r.Count("payload_failures_leftover_is_prefix", 1)
							}
						}
					})
				}
			}
		}
	}
	// wrong identity / wrong key type: refusal at the header
	for _, pre := range []bool{false, true} {
		pre := pre
		for _, c := range [][2]string{{"X", "x2.key"}, {"X", "ed1"}, {"E", "x1.key"}, {"E", "ed2"}, {"R", "x1.key"}} {
			c := c
			out = append(out, func() {
				d := e.dir()
				defer e.done(d)
				pt := []byte("secret plaintext")
				os.WriteFile(filepath.Join(d, "in.age"), refFile(c[0], pt, false, "wrongid-"+c[0]), 0o600)
				outPath := filepath.Join(d, "out.txt")
				if pre {
					os.WriteFile(outPath, []byte("PRE-EXISTING CONTENT\n"), 0o640)
				}
				before := snapshot(outPath)
				argv := []string{e.age, "-d", "-i", c[1], "-o", "out.txt", "in.age"}
				res := cli.Run(&cli.Cmd{Argv: argv, Dir: d})
				after := snapshot(outPath)
				desc := fmt.Sprintf("decrypt file-for=%s with -i %s preexisting=%v", c[0], c[1], pre)
				r.Eval(1)
				r.Distinct(desc)
				if res.Err != nil {
					r.Inconclusive("%s: driver error %v", desc, res.Err)
					return
				}
				if res.Exit == 0 {
					r.Violate("exit0-wrong-identity", desc+": exit 0", map[string]any{"argv": argv})
				} else if before != after {
					r.Violate(fmt.Sprintf("output-touched-on-header-refusal:no-match:pre=%v", pre), fmt.Sprintf("%s: no identity matched but -o changed: before %+v after %+v", desc, before, after), map[string]any{"argv": argv})
				} else {
					r.Count("header_refusals_output_untouched", 1)
				}
			})
		}
	}
	return out
}

// ---- D. the output names an input ------------------------------------------------

func sameFile(e *env) []func() {
	r := e.r
	var out []func()
	spell := func(d, name string) []string {
		return []string{name, "./" + name, "sub/../" + name, filepath.Join(d, name), ".//" + name, "././" + name, "sub/./../" + name, d + "/./" + name, d + "/sub/../" + name}
	}
	type sf struct {
		name   string
		target string // file the output collides with
		argv   func(outSpelling string) []string
	}
	cases := []sf{
		{"input(encrypt)", "in.txt", func(o string) []string {
			return []string{"-r", keys.NewX("X1").PublicStr, "-o", o, "in.txt"}
		}},
		{"input(decrypt)", "in.age", func(o string) []string { return []string{"-d", "-i", "x1.key", "-o", o, "in.age"} }},
		{"identity(decrypt)", "x1.key", func(o string) []string { return []string{"-d", "-i", "x1.key", "-o", o, "in.age"} }},
		{"second-identity(decrypt)", "x2.key", func(o string) []string {
			return []string{"-d", "-i", "x1.key", "-i", "x2.key", "-o", o, "in.age"}
		}},
		{"identity(encrypt -e -i)", "x1.key", func(o string) []string { return []string{"-e", "-i", "x1.key", "-o", o, "in.txt"} }},
		{"recipients-file", "rcpts.txt", func(o string) []string { return []string{"-R", "rcpts.txt", "-o", o, "in.txt"} }},
		{"second-recipients-file", "rcpts2.txt", func(o string) []string {
			return []string{"-R", "rcpts.txt", "-R", "rcpts2.txt", "-o", o, "in.txt"}
		}},
	}
	for _, c := range cases {
		for si := 0; si < 9; si++ {
			c, si := c, si
			out = append(out, func() {
				d := e.dir()
				defer e.done(d)
				os.Mkdir(filepath.Join(d, "sub"), 0o755)
				pt := []byte("same-file plaintext\n")
				os.WriteFile(filepath.Join(d, "in.txt"), pt, 0o600)
				os.WriteFile(filepath.Join(d, "in.age"), refFile("X", pt, false, "samefile"), 0o600)
				os.WriteFile(filepath.Join(d, "rcpts2.txt"), []byte(keys.NewX("X2").PublicStr+"\n"), 0o644)
				sp := spell(d, c.target)[si]
				before := snapshot(filepath.Join(d, c.target))
				argv := append([]string{e.age}, c.argv(sp)...)
				res := cli.Run(&cli.Cmd{Argv: argv, Dir: d})
				after := snapshot(filepath.Join(d, c.target))
				desc := fmt.Sprintf("same-file %s output spelled %q", c.name, strings.Replace(sp, d, "$PWD", 1))
				r.Eval(1)
				r.Distinct(desc)
				r.Tab("same_file", c.name)
				if res.Err != nil {
					r.Inconclusive("%s: driver error %v", desc, res.Err)
					return
				}
				if res.Exit == 0 || before != after {
					r.Violate("same-file-accepted:"+c.name, fmt.Sprintf("%s: exit=%d, file changed=%v (the output names a file in use and must be refused)", desc, res.Exit, before != after), map[string]any{"argv": argv})
				} else {
					r.Count("same_file_refusals", 1)
				}
			})
		}
	}
	out = append(out, sameFileThroughSymlinkedDir(e)...)
	return out
}

// sameFileThroughSymlinkedDir: the files live in real/, link -> real is a
// symbolic link to that directory. The SAME path string (or a lexical
// variant of it) is given for a file in use and for -o, either spelled
// through the link or relative to a working directory entered through the
// link ($PWD keeps the logical path, as after `cd link` in a shell).
func sameFileThroughSymlinkedDir(e *env) []func() {
	r := e.r
	var out []func()
	type sf struct {
		name   string
		target string
		argv   func(inUse func(string) string, o string) []string
	}
	cases := []sf{
		{"input(encrypt)", "in.txt", func(u func(string) string, o string) []string {
			return []string{"-r", keys.NewX("X1").PublicStr, "-o", o, u("in.txt")}
		}},
		{"input(decrypt)", "in.age", func(u func(string) string, o string) []string {
			return []string{"-d", "-i", u("x1.key"), "-o", o, u("in.age")}
		}},
		{"identity(decrypt)", "x1.key", func(u func(string) string, o string) []string {
			return []string{"-d", "-i", u("x1.key"), "-o", o, u("in.age")}
		}},
		{"identity(encrypt -e -i)", "x1.key", func(u func(string) string, o string) []string {
			return []string{"-e", "-i", u("x1.key"), "-o", o, u("in.txt")}
		}},
		{"recipients-file", "rcpts.txt", func(u func(string) string, o string) []string {
			return []string{"-R", u("rcpts.txt"), "-o", o, u("in.txt")}
		}},
	}
	type layout struct {
		name  string
		cwd   string                      // relative to the case directory
		inUse func(d, name string) string // how files in use are spelled
		out   func(d, name string) string // how -o is spelled
	}
	layouts := []layout{
		{"cwd=.,both=link/F", "", func(d, n string) string { return "link/" + n }, func(d, n string) string { return "link/" + n }},
		{"cwd=.,inuse=link/F,out=./link/./F", "", func(d, n string) string { return "link/" + n }, func(d, n string) string { return "./link/./" + n }},
		{"cwd=.,inuse=$PWD/link/F,out=link/F", "", func(d, n string) string { return d + "/link/" + n }, func(d, n string) string { return "link/" + n }},
		{"cwd=link(logical),both=F", "link", func(d, n string) string { return n }, func(d, n string) string { return n }},
		{"cwd=link(logical),inuse=F,out=./F", "link", func(d, n string) string { return n }, func(d, n string) string { return "./" + n }},
		{"cwd=link(logical),inuse=$PWD/link/F,out=F", "link", func(d, n string) string { return d + "/link/" + n }, func(d, n string) string { return n }},
		{"cwd=link/sub(logical),both=../F", "link/sub", func(d, n string) string { return "../" + n }, func(d, n string) string { return "../" + n }},
	}
	for _, c := range cases {
		for _, l := range layouts {
			c, l := c, l
			out = append(out, func() {
				d := e.dir()
				defer e.done(d)
				real := filepath.Join(d, "real")
				os.MkdirAll(filepath.Join(real, "sub"), 0o755)
				pt := []byte("same-file plaintext\n")
				os.WriteFile(filepath.Join(real, "in.txt"), pt, 0o600)
				os.WriteFile(filepath.Join(real, "in.age"), refFile("X", pt, false, "samefile"), 0o600)
				for _, n := range []string{"x1.key", "rcpts.txt"} {
					b, _ := os.ReadFile(filepath.Join(d, n))
					os.WriteFile(filepath.Join(real, n), b, 0o600)
				}
				if err := os.Symlink("real", filepath.Join(d, "link")); err != nil {
					r.Inconclusive("symlink: %v", err)
					return
				}
				target := filepath.Join(real, c.target)
				before := snapshot(target)
				argv := append([]string{e.age}, c.argv(func(n string) string { return l.inUse(d, n) }, l.out(d, c.target))...)
				cwd := filepath.Join(d, l.cwd) // NOT resolved: the child gets PWD=<this> and keeps the logical path
				res := cli.Run(&cli.Cmd{Argv: argv, Dir: cwd, Env: []string{"PWD=" + cwd}})
				after := snapshot(target)
				desc := fmt.Sprintf("same-file through a symlinked directory: %s, %s", c.name, l.name)
				r.Eval(1)
				r.Distinct(desc)
				r.Tab("same_file", c.name+"(symlinked dir)")
				if res.Err != nil {
					r.Inconclusive("%s: driver error %v", desc, res.Err)
					return
				}
				if res.Exit == 0 || before != after {
					r.Violate("same-file-accepted:symlinked-dir:"+c.name, fmt.Sprintf("%s: exit=%d, file changed=%v (the output names a file in use, by the very same path, and must be refused)", desc, res.Exit, before != after), map[string]any{"argv": argv, "cwd": l.cwd})
				} else {
					r.Count("same_file_refusals", 1)
				}
			})
		}
	}
	return out
}

// sameFileShellSpellings: one of the two names reaches the tool in a spelling
// only a shell would expand (a literal ~/name, $HOME/name, ${HOME}/name, with
// HOME set to the working directory), the other names the same file plainly.
// Whatever the tool makes of such a name, the file in use must be the same
// afterwards.
func sameFileShellSpellings(e *env) []func() {
	r := e.r
	var out []func()
	x1 := keys.NewX("X1").PublicStr
	type cmdline struct {
		name   string
		target string
		argv   func(shell, plain func(string) string) []string
	}
	lines := []cmdline{
		{"input(encrypt)", "in.txt", func(s, p func(string) string) []string {
			return []string{"-r", x1, "-o", p("in.txt"), s("in.txt")}
		}},
		{"input(encrypt), output in shell spelling", "in.txt", func(s, p func(string) string) []string {
			return []string{"-r", x1, "-o", s("in.txt"), p("in.txt")}
		}},
		{"input(decrypt)", "in.age", func(s, p func(string) string) []string {
			return []string{"-d", "-i", "x1.key", "-o", p("in.age"), s("in.age")}
		}},
		{"input(decrypt), output in shell spelling", "in.age", func(s, p func(string) string) []string {
			return []string{"-d", "-i", "x1.key", "-o", s("in.age"), p("in.age")}
		}},
		{"identity(decrypt)", "x1.key", func(s, p func(string) string) []string {
			return []string{"-d", "-i", s("x1.key"), "-o", p("x1.key"), "in.age"}
		}},
		{"identity(decrypt), --identity= form", "x1.key", func(s, p func(string) string) []string {
			return []string{"-d", "--identity=" + s("x1.key"), "--output=" + p("x1.key"), "in.age"}
		}},
		{"identity(decrypt), output in shell spelling", "x1.key", func(s, p func(string) string) []string {
			return []string{"-d", "-i", p("x1.key"), "-o", s("x1.key"), "in.age"}
		}},
		{"identity(encrypt -e -i)", "x1.key", func(s, p func(string) string) []string {
			return []string{"-e", "-i", s("x1.key"), "-o", p("x1.key"), "in.txt"}
		}},
		{"recipients-file", "rcpts.txt", func(s, p func(string) string) []string {
			return []string{"-R", s("rcpts.txt"), "-o", p("rcpts.txt"), "in.txt"}
		}},
		{"recipients-file, output in shell spelling", "rcpts.txt", func(s, p func(string) string) []string {
			return []string{"-R", p("rcpts.txt"), "-o", s("rcpts.txt"), "in.txt"}
		}},
	}
	shells := []struct {
		name string
		f    func(string) string
	}{
		{"~/", func(n string) string { return "~/" + n }},
		{"$HOME/", func(n string) string { return "$HOME/" + n }},
		{"${HOME}/", func(n string) string { return "${HOME}/" + n }},
		{"~//", func(n string) string { return "~//" + n }},
	}
	for _, l := range lines {
		for si, sh := range shells {
			for pi := 0; pi < 2; pi++ {
				if !r.Thorough() && pi == 1 && si > 0 {
					continue
				}
				l, sh, pi := l, sh, pi
				out = append(out, func() {
					d := e.dir()
					defer e.done(d)
					pt := []byte("same-file plaintext\n")
					os.WriteFile(filepath.Join(d, "in.txt"), pt, 0o600)
					os.WriteFile(filepath.Join(d, "in.age"), refFile("X", pt, false, "samefile"), 0o600)
					plain := func(n string) string { return n }
					if pi == 1 {
						plain = func(n string) string { return filepath.Join(d, n) }
					}
					before := snapshot(filepath.Join(d, l.target))
					argv := append([]string{e.age}, l.argv(sh.f, plain)...)
					res := cli.Run(&cli.Cmd{Argv: argv, Dir: d, Env: []string{"HOME=" + d}})
					after := snapshot(filepath.Join(d, l.target))
					desc := fmt.Sprintf("same-file %s, one name spelled %s (HOME is the working directory), the other %s", l.name, sh.name, []string{"relative", "absolute"}[pi])
					r.Eval(1)
					r.Distinct(desc)
					r.Tab("same_file", "shell-spelling:"+sh.name)
					if res.Err != nil {
						r.Inconclusive("%s: driver error %v", desc, res.Err)
						return
					}
					if before != after {
						r.Violate("same-file-overwritten:shell-spelling:"+l.name, fmt.Sprintf("%s: exit=%d and the file in use was overwritten", desc, res.Exit), map[string]any{"argv": argv, "HOME": "the working directory"})
					} else {
						r.Count("same_file_shell_spellings_file_in_use_untouched", 1)
					}
				})
			}
		}
	}
	return out
}

// sameFileRemovedCwd: the tool is started in a working directory that has
// been removed (os.Getwd fails from the first moment), every file is named by
// an absolute path, and -o is another absolute spelling of a file in use.
func sameFileRemovedCwd(e *env) []func() {
	r := e.r
	var out []func()
	x1 := keys.NewX("X1").PublicStr
	type cl struct {
		name, target string
		argv         func(d, o string) []string
	}
	cls := []cl{
		{"input(encrypt)", "in.txt", func(d, o string) []string { return []string{"-r", x1, "-o", o, d + "/in.txt"} }},
		{"input(decrypt)", "in.age", func(d, o string) []string { return []string{"-d", "-i", d + "/x1.key", "-o", o, d + "/in.age"} }},
		{"identity(decrypt)", "x1.key", func(d, o string) []string { return []string{"-d", "-i", d + "/x1.key", "-o", o, d + "/in.age"} }},
		{"recipients-file", "rcpts.txt", func(d, o string) []string { return []string{"-R", d + "/rcpts.txt", "-o", o, d + "/in.txt"} }},
	}
	spell := func(d, n string) []string {
		return []string{d + "/" + n, d + "/./" + n, d + "//" + n, d + "/sub/../" + n, "/" + d + "/" + n, d + "/sub/./../" + n}
	}
	for _, c := range cls {
		for si := 0; si < 6; si++ {
			c, si := c, si
			out = append(out, func() {
				d := e.dir()
				defer e.done(d)
				os.Mkdir(filepath.Join(d, "sub"), 0o755)
				pt := []byte("same-file plaintext\n")
				os.WriteFile(filepath.Join(d, "in.txt"), pt, 0o600)
				os.WriteFile(filepath.Join(d, "in.age"), refFile("X", pt, false, "samefile"), 0o600)
				sp := spell(d, c.target)[si]
				before := snapshot(filepath.Join(d, c.target))
				inner := append([]string{e.age}, c.argv(d, sp)...)
				argv := append([]string{"sh", "-c", `d=$1; shift; mkdir "$d/gone" && cd "$d/gone" && rmdir "$d/gone" && exec "$@"`, "sh", d}, inner...)
				res := cli.Run(&cli.Cmd{Argv: argv, Dir: d})
				after := snapshot(filepath.Join(d, c.target))
				desc := fmt.Sprintf("same-file %s from a removed working directory, output spelled %q", c.name, strings.Replace(sp, d, "$D", 1))
				r.Eval(1)
				r.Distinct(desc)
				r.Tab("same_file", c.name+"(removed cwd)")
				if res.Err != nil {
					r.Inconclusive("%s: driver error %v", desc, res.Err)
					return
				}
				if res.Exit == 0 || before != after {
					r.Violate("same-file-accepted:removed-cwd:"+c.name, fmt.Sprintf("%s: exit=%d, file changed=%v (the output names a file in use and must be refused)", desc, res.Exit, before != after), map[string]any{"argv": argv})
				} else {
					r.Count("same_file_refusals", 1)
				}
			})
		}
	}
	return out
}
