package main

import (
	"bytes"
	"fmt"
	"os"
	"path/filepath"
	"regexp"
	"strings"

	"filippo.io/age/zverif/cli"
	"filippo.io/age/zverif/keys"
	"filippo.io/age/zverif/mon"
	"filippo.io/age/zverif/refage"
)

var pubRe = regexp.MustCompile(`age1[a-z0-9]{58}`)

// checkKeyFile validates the three-line key file format and the key pair.
func checkKeyFile(b []byte) (pub string, err error) {
	lines := strings.Split(strings.TrimRight(string(b), "\n"), "\n")
	if len(lines) != 3 || !strings.HasPrefix(lines[0], "# created: ") || !strings.HasPrefix(lines[1], "# public key: ") {
		return "", fmt.Errorf("unexpected key file layout: %q", b)
	}
	hrp, sec, err := refage.Bech32Decode(lines[2])
	if err != nil || hrp != "AGE-SECRET-KEY-" || len(sec) != 32 {
		return "", fmt.Errorf("secret key line does not parse: %q", lines[2])
	}
	want := refage.Bech32Encode("age", refage.X25519Public(sec))
	if got := strings.TrimPrefix(lines[1], "# public key: "); got != want {
		return "", fmt.Errorf("public key comment %q does not belong to the secret key (want %q)", got, want)
	}
	return want, nil
}

func keygenCases(e *env) []func() {
	r := e.r
	var out []func()
	// new key file: mode 0600 whatever the umask; stdout variants
	for _, um := range []int{0o000, 0o022, 0o077} {
		um := um
		out = append(out, func() {
			d := e.dir()
			defer e.done(d)
			res := cli.Run(&cli.Cmd{Argv: []string{e.keygen, "-o", "new.key"}, Dir: d, UseUmask: true, Umask: um})
			desc := fmt.Sprintf("age-keygen -o new.key umask=%03o", um)
			r.Eval(1)
			r.Distinct(desc)
			if res.Err != nil {
				r.Inconclusive("%s: %v", desc, res.Err)
				return
			}
			s := snapshot(filepath.Join(d, "new.key"))
			b, _ := os.ReadFile(filepath.Join(d, "new.key"))
			pub, kerr := checkKeyFile(b)
			switch {
			case res.Exit != 0:
				r.Violate("keygen-failed", fmt.Sprintf("%s: %s", desc, res), nil)
			case kerr != nil:
				r.Violate("keygen-exit0-bad-file", fmt.Sprintf("%s: exit 0 but %v", desc, kerr), nil)
			case s.mode.Perm() != 0o600:
				r.Violate("keygen-mode", fmt.Sprintf("%s: key file created with mode %o, want 0600 (owner only)", desc, s.mode.Perm()), map[string]any{"umask": um})
			case !bytes.Contains(res.Stderr, []byte("Public key: "+pub)):
				r.Violate("keygen-public-key-line", fmt.Sprintf("%s: stderr %q does not announce %s", desc, res.Stderr, pub), nil)
			default:
				r.Count("keygen_files_checked", 1)
			}
		})
	}
	// existing target is never overwritten (regular file, empty file, symlink, directory)
	for _, kind := range []string{"file", "empty", "symlink", "dangling-symlink", "dir"} {
		kind := kind
		out = append(out, func() {
			d := e.dir()
			defer e.done(d)
			target := filepath.Join(d, "existing.key")
			other := filepath.Join(d, "other")
			switch kind {
			case "file":
				os.WriteFile(target, []byte("PRECIOUS\n"), 0o644)
			case "empty":
				os.WriteFile(target, nil, 0o644)
			case "symlink":
				os.WriteFile(other, []byte("PRECIOUS-LINKED\n"), 0o644)
				os.Symlink(other, target)
			case "dangling-symlink":
				os.Symlink(other, target)
			case "dir":
				os.Mkdir(target, 0o755)
			}
			before, beforeOther := snapshot(target), snapshot(other)
			res := cli.Run(&cli.Cmd{Argv: []string{e.keygen, "-o", "existing.key"}, Dir: d})
			after, afterOther := snapshot(target), snapshot(other)
			desc := "age-keygen -o <existing " + kind + ">"
			r.Eval(1)
			r.Distinct(desc)
			if res.Err != nil {
				r.Inconclusive("%s: %v", desc, res.Err)
				return
			}
			if res.Exit == 0 || before != after || beforeOther != afterOther {
				r.Violate("keygen-overwrote:"+kind, fmt.Sprintf("%s: exit=%d target changed=%v link target changed=%v", desc, res.Exit, before != after, beforeOther != afterOther), nil)
			} else {
				r.Count("keygen_existing_untouched", 1)
			}
		})
	}
	// key / recipients to failing standard output
	for _, dest := range []string{"devfull", "closed"} {
		for _, mode := range []string{"generate", "-y"} {
			dest, mode := dest, mode
			out = append(out, func() {
				d := e.dir()
				defer e.done(d)
				argv := []string{e.keygen}
				if mode == "-y" {
					argv = append(argv, "-y", "x1x2.key")
				}
				res := cli.Run(&cli.Cmd{Argv: argv, Dir: d, Stdout: dest})
				desc := fmt.Sprintf("age-keygen %s > %s", mode, dest)
				r.Eval(1)
				r.Distinct(desc)
				if res.Err != nil {
					r.Inconclusive("%s: %v", desc, res.Err)
					return
				}
				if res.Exit == 0 {
					r.Violate(fmt.Sprintf("keygen-exit0-without-result:%s:%s", mode, dest), desc+": exit status 0 although nothing could be written", map[string]any{"argv": argv, "stdout": dest})
				} else {
					r.Count("failed_destination_reported", 1)
				}
			})
		}
	}
	// -o under a size limit at every offset; -y likewise
	for _, mode := range []string{"generate", "-y"} {
		mode := mode
		out = append(out, func() {
			d := e.dir()
			defer e.done(d)
			argv := []string{e.keygen, "-o", "out.key"}
			if mode == "-y" {
				argv = []string{e.keygen, "-y", "-o", "out.key", "x1x2.key"}
			}
			clean := cli.Run(&cli.Cmd{Argv: argv, Dir: d})
			b, _ := os.ReadFile(filepath.Join(d, "out.key"))
			if clean.Exit != 0 || len(b) == 0 {
				r.Violate("keygen-clean-run:"+mode, fmt.Sprintf("age-keygen %s -o out.key failed: %s", mode, clean), nil)
				return
			}
			if mode == "-y" {
				want := keys.NewX("X2").PublicStr + "\n" + keys.NewX("X1").PublicStr + "\n"
				if string(b) != want {
					r.Violate("keygen-y-output", fmt.Sprintf("age-keygen -y wrote %q, want %q", b, want), nil)
				}
			}
			B := len(b)
			step := 1
			if !r.Thorough() {
				step = 7
			}
			for k := 0; k <= B; k += step {
				os.Remove(filepath.Join(d, "out.key"))
				full := append([]string{"prlimit", fmt.Sprintf("--fsize=%d", k), "--"}, argv...)
				res := cli.Run(&cli.Cmd{Argv: full, Dir: d})
				desc := fmt.Sprintf("age-keygen %s -o out.key under prlimit --fsize=%d (complete output %d bytes)", mode, k, B)
				r.Eval(1)
				r.Distinct(desc)
				if res.Err != nil {
					r.Inconclusive("%s: %v", desc, res.Err)
					continue
				}
				left, _ := os.ReadFile(filepath.Join(d, "out.key"))
				// the generated key differs per run but its length is fixed
				if k < B {
					r.Count("fsize_faults_fired", 1)
					if res.Exit == 0 {
						r.Violate("keygen-exit0-truncated:"+mode, fmt.Sprintf("%s: exit 0 with %d bytes on disk", desc, len(left)), map[string]any{"argv": full})
					}
				} else if res.Exit != 0 {
					r.Violate("keygen-nonzero-complete:"+mode, fmt.Sprintf("%s: %s", desc, res), nil)
				}
			}
		})
	}
	// -y from stdin, to stdout
	out = append(out, func() {
		d := e.dir()
		defer e.done(d)
		res := cli.Run(&cli.Cmd{Argv: []string{e.keygen, "-y"}, Dir: d, Stdin: []byte(keys.NewX("X3").SecretStr + "\n")})
		r.Eval(1)
		r.Distinct("age-keygen -y < stdin")
		if res.Exit != 0 || string(res.Stdout) != keys.NewX("X3").PublicStr+"\n" {
			r.Violate("keygen-y-stdin", fmt.Sprintf("age-keygen -y from stdin: %s stdout=%q", res, res.Stdout), nil)
		}
		// a malformed identity file must fail and print nothing
		res = cli.Run(&cli.Cmd{Argv: []string{e.keygen, "-y"}, Dir: d, Stdin: []byte(keys.NewX("X3").SecretStr + "\nAGE-SECRET-KEY-1BROKEN\n")})
		r.Eval(1)
		r.Distinct("age-keygen -y < malformed")
		if res.Exit == 0 {
			r.Violate("keygen-y-malformed-exit0", "age-keygen -y accepted a malformed identity file", nil)
		}
	})
	_ = mon.Trunc
	return out
}

// ---- pty flows ------------------------------------------------------------------

func ptyCases(e *env) []func() {
	r := e.r
	var out []func()
	// decrypt with prompts: passphrase file, encrypted SSH keys, encrypted identity file
	for _, kt := range []string{"S", "encE", "encRpem", "encID"} {
		for _, good := range []bool{true, false} {
			for _, pre := range []bool{false, true} {
				kt, good, pre := kt, good, pre
				out = append(out, func() {
					d := e.dir()
					defer e.done(d)
					pt := mon.DetBytes("c15-pty-"+kt, 70000)
					fileKT := kt
					if kt == "encID" {
						fileKT = "X"
					}
					os.WriteFile(filepath.Join(d, "in.age"), refFile(fileKT, pt, false, "pty-"+kt), 0o600)
					ia, script := identityArgs(kt)
					if !good {
						script = []cli.TTYStep{{Expect: script[0].Expect, Send: "definitely wrong\n"}}
					}
					outPath := filepath.Join(d, "out.bin")
					if pre {
						os.WriteFile(outPath, []byte("PRE-EXISTING\n"), 0o644)
					}
					before := snapshot(outPath)
					argv := append(append([]string{e.age, "-d"}, ia...), "-o", "out.bin", "in.age")
					res := cli.Run(&cli.Cmd{Argv: argv, Dir: d, TTY: true, Script: script})
					after := snapshot(outPath)
					desc := fmt.Sprintf("decrypt(pty) key=%s passphrase-right=%v preexisting=%v", kt, good, pre)
					r.Eval(1)
					r.Distinct(desc)
					r.Tab("pty_flows", kt)
					if res.Err != nil {
						r.Inconclusive("%s: %v", desc, res.Err)
						return
					}
					got, _ := os.ReadFile(outPath)
					if good {
						if res.Exit != 0 || !bytes.Equal(got, pt) {
							r.Violate("pty-decrypt-failed:"+kt, fmt.Sprintf("%s: %s tty=%q", desc, res, mon.Trunc(res.TTYOut, 200)), map[string]any{"argv": argv})
						} else {
							r.Count("complete_results_with_exit_0", 1)
						}
						return
					}
					if res.Exit == 0 {
						r.Violate("pty-wrong-passphrase-exit0:"+kt, desc+": exit 0 with a wrong passphrase", map[string]any{"argv": argv})
					} else if before != after {
						r.Violate(fmt.Sprintf("output-touched-on-header-refusal:wrong-passphrase:%s:pre=%v", kt, pre), fmt.Sprintf("%s: refused, but -o changed: before %+v after %+v", desc, before, after), map[string]any{"argv": argv})
					} else {
						r.Count("header_refusals_output_untouched", 1)
					}
				})
			}
		}
	}
	// a passphrase-protected identities file of several chunks, tampered after
	// its first chunk: the tool decrypts it internally, so payload integrity
	// (C02) must hold on that route too — `age -d -i keys.age` must fail and
	// leave -o untouched
	for _, dmg := range []string{"none", "flip-chunk1", "flip-last-byte", "cut-at-chunk-boundary", "cut-last-byte", "trailing-bytes", "drop-chunk1"} {
		dmg := dmg
		out = append(out, func() {
			d := e.dir()
			defer e.done(d)
			var idPlain bytes.Buffer
			idPlain.WriteString(keys.NewX("X1").SecretStr + "\n")
			for idPlain.Len() < 150000 {
				idPlain.WriteString("# padding comment line to make this identities file span several payload chunks\n")
			}
			fk := mon.DetBytes("c15-bigid-fk", 16)
			file := refage.BuildFile(fk, []refage.Stanza{refage.ScryptWrap(fk, "idpass", mon.DetBytes("c15-bigid-salt", 16), 10)}, mon.DetBytes("c15-bigid-nonce", 16), idPlain.Bytes())
			he := refage.HeaderEnd(file)
			c1 := he + 16 + refage.EncChunkSize
			switch dmg {
			case "flip-chunk1":
				file[c1+100] ^= 1
			case "flip-last-byte":
				file[len(file)-1] ^= 1
			case "cut-at-chunk-boundary":
				file = file[:c1]
			case "cut-last-byte":
				file = file[:len(file)-1]
			case "trailing-bytes":
				file = append(file, "xyz"...)
			case "drop-chunk1":
				file = append(append([]byte(nil), file[:c1]...), file[c1+refage.EncChunkSize:]...)
			}
			os.WriteFile(filepath.Join(d, "big.key.age"), file, 0o600)
			pt := []byte("payload for the big identity file case")
			os.WriteFile(filepath.Join(d, "in.age"), refFile("X", pt, false, "bigid"), 0o600)
			res := cli.Run(&cli.Cmd{Argv: []string{e.age, "-d", "-i", "big.key.age", "-o", "out.bin", "in.age"}, Dir: d, TTY: true,
				Script: []cli.TTYStep{{Expect: "Enter passphrase for identity file", Send: "idpass\n"}}})
			desc := "decrypt with a multi-chunk passphrase-protected identities file, damage=" + dmg
			r.Eval(1)
			r.Distinct(desc)
			r.Tab("pty_flows", "big-encrypted-identity")
			if res.Err != nil {
				r.Inconclusive("%s: %v", desc, res.Err)
				return
			}
			got, statErr := os.ReadFile(filepath.Join(d, "out.bin"))
			if dmg == "none" {
				if res.Exit != 0 || !bytes.Equal(got, pt) {
					r.Violate("pty-decrypt-failed:big-encrypted-identity", fmt.Sprintf("%s: %s", desc, res), nil)
				}
				return
			}
			if res.Exit == 0 {
				r.Violate("exit0-tampered-identity-file:"+dmg, desc+": the tool used keys from a tampered passphrase-protected identities file (exit 0)", map[string]any{"damage": dmg})
			} else if statErr == nil {
				r.Violate("output-created-on-refusal:tampered-identity-file:"+dmg, desc+": refused, but -o was created", nil)
			} else {
				r.Count("tampered_identity_files_refused", 1)
			}
		})
	}
	// passphrase encryption (default work factor, ~1 s each): typed twice, mismatch, to a failing output
	type pe struct {
		name   string
		script []cli.TTYStep
		stdout string
		wantOK bool
		pass   string
	}
	pes := []pe{
		{"typed", []cli.TTYStep{{Expect: "Enter passphrase", Send: "hunter2 hunter2\n"}, {Expect: "Confirm passphrase", Send: "hunter2 hunter2\n"}}, "", true, "hunter2 hunter2"},
		{"mismatch", []cli.TTYStep{{Expect: "Enter passphrase", Send: "one\n"}, {Expect: "Confirm passphrase", Send: "two\n"}}, "", false, ""},
		{"typed->devfull", []cli.TTYStep{{Expect: "Enter passphrase", Send: "hunter3\n"}, {Expect: "Confirm passphrase", Send: "hunter3\n"}}, "devfull", false, ""},
	}
	for _, p := range pes {
		p := p
		out = append(out, func() {
			d := e.dir()
			defer e.done(d)
			pt := mon.DetBytes("c15-pty-enc", 1000)
			os.WriteFile(filepath.Join(d, "in"), pt, 0o600)
			argv := []string{e.age, "-p", "-o", "out.age", "in"}
			c := &cli.Cmd{Argv: argv, Dir: d, TTY: true, Script: p.script}
			if p.stdout != "" {
				c.Argv = []string{e.age, "-p", "in"}
				c.Stdout = p.stdout
			}
			res := cli.Run(c)
			desc := "encrypt -p (pty) " + p.name
			r.Eval(1)
			r.Distinct(desc)
			r.Tab("pty_flows", "encrypt -p")
			if res.Err != nil {
				r.Inconclusive("%s: %v", desc, res.Err)
				return
			}
			if p.wantOK {
				got, _ := os.ReadFile(filepath.Join(d, "out.age"))
				if res.Exit != 0 {
					r.Violate("pty-encrypt-failed", fmt.Sprintf("%s: %s tty=%q", desc, res, mon.Trunc(res.TTYOut, 200)), nil)
				} else if err := e.checkEncrypted(desc, got, false, refage.ScryptKey{Pass: p.pass}, pt); err != nil {
					r.Violate("exit0-incomplete:encrypt -p", fmt.Sprintf("%s: exit 0 but %v", desc, err), nil)
				} else {
					r.Count("complete_results_with_exit_0", 1)
				}
			} else if res.Exit == 0 {
				r.Violate("exit0-without-result:encrypt -p:"+p.name, desc+": exit 0 although no complete result was delivered", nil)
			} else if p.name == "mismatch" {
				if s := snapshot(filepath.Join(d, "out.age")); s.exists {
					r.Violate("output-created-on-refusal:encrypt -p mismatch", desc+": passphrases did not match but -o was created", nil)
				}
			}
		})
	}
	return out
}
