// C15 — CLI: exit status 0 if and only if the whole result was delivered.
//
// Monitor: the real age and age-keygen binaries (built from the tree under
// test) run as subprocesses over a matrix of modes, key types, sizes and
// input/output plumbing; outputs are made to fail with /dev/full, a closed
// stdout, uncreatable paths, `prlimit --fsize=k` at every byte offset (small
// outputs) or around boundaries (large ones), `strace -e inject=write|close`
// at every write index, and a pipe whose reader stops early. Oracles: the
// reference implementation / known plaintext decide "complete result";
// file-system snapshots decide created / modified; for failing outputs the
// rule is "an injected failure fired => status != 0".
package main

import (
	"bytes"
	"crypto/sha256"
	"encoding/hex"
	"fmt"
	"os"
	"path/filepath"
	"strings"
	"sync"
	"syscall"

	"filippo.io/age/zverif/cli"
	"filippo.io/age/zverif/keys"
	"filippo.io/age/zverif/mon"
	"filippo.io/age/zverif/refage"
)

type env struct {
	r      *mon.Run
	age    string
	keygen string
	base   string
	mu     sync.Mutex
	seq    int
}

// dir returns a fresh working directory populated with the standard key files.
func (e *env) dir() string {
	e.mu.Lock()
	e.seq++
	d := filepath.Join(e.base, fmt.Sprintf("w%05d", e.seq))
	e.mu.Unlock()
	os.MkdirAll(d, 0o755)
	write := func(name string, b []byte, mode os.FileMode) { os.WriteFile(filepath.Join(d, name), b, mode) }
	write("x1.key", []byte("# comment\n"+keys.NewX("X1").SecretStr+"\n"), 0o600)
	write("x2.key", []byte(keys.NewX("X2").SecretStr+"\n"), 0o600)
	write("x1x2.key", []byte(keys.NewX("X2").SecretStr+"\n\n"+keys.NewX("X1").SecretStr+"\n"), 0o600)
	write("rcpts.txt", []byte("# recipients\n"+keys.NewX("X1").PublicStr+"\n"+keys.LoadEd("ed1").PubLine+"\n"), 0o644)
	write("ed1", keys.Data("ed1"), 0o600)
	write("ed2", keys.Data("ed2"), 0o600)
	write("rsa1", keys.Data("rsa1"), 0o600)
	write("enc_ed1", keys.Data("enc_ed1"), 0o600)
	write("enc_ed1.pub", keys.Data("enc_ed1.pub"), 0o644)
	write("enc_rsa_pem", keys.Data("enc_rsa_pem"), 0o600)
	write("enc_rsa_pem.pub", keys.Data("enc_rsa_pem.pub"), 0o644)
	// passphrase-encrypted identity file (written by the reference implementation)
	fk := mon.DetBytes("c15-encid-fk", 16)
	encid := refage.BuildFile(fk, []refage.Stanza{refage.ScryptWrap(fk, "idpass", mon.DetBytes("c15-encid-salt", 16), 10)},
		mon.DetBytes("c15-encid-nonce", 16), []byte(keys.NewX("X1").SecretStr+"\n"))
	write("x1.key.age", encid, 0o600)
	return d
}

func (e *env) done(d string) { os.RemoveAll(d) }

type snap struct {
	exists bool
	hash   string
	mode   os.FileMode
	mtime  int64
	ino    uint64
	size   int64
}

func snapshot(p string) snap {
	fi, err := os.Lstat(p)
	if err != nil {
		return snap{}
	}
	s := snap{exists: true, mode: fi.Mode(), mtime: fi.ModTime().UnixNano(), size: fi.Size()}
	if st, ok := fi.Sys().(*syscall.Stat_t); ok {
		s.ino = st.Ino
	}
	if b, err := os.ReadFile(p); err == nil {
		h := sha256.Sum256(b)
		s.hash = hex.EncodeToString(h[:])
	}
	return s
}

func main() {
	r := mon.Start("C15", "fault_enumeration")
	r.Rule = "case = one run of the real age / age-keygen binary: (mode, key type, armor, input size, input from file or pipe, output plumbing, injected output failure and its position, damaged input, pre-existing output); " +
		"non-trivial = the process ran to completion and its exit status, output bytes and file-system effects were compared with the oracle; distinct by the full argument/plumbing/fault description"
	r.Assumptions = []string{
		"the monitor runs as root: permission-based failures (read-only directory) cannot be produced and are not in the matrix",
		"a pipe reader that closes early is only asserted on when the expected output exceeds what the pipe can absorb",
		"passphrase encryption uses the default work factor (about 1 s), so only a few such runs are made",
	}
	r.MinEvals, r.MinDistinct = 150, 150
	if _, err := refage.SelfCheck(); err != nil {
		fmt.Println("INCONCLUSIVE: reference implementation disagrees with the CCTV vectors:", err)
		os.Exit(2)
	}
	e := &env{r: r, age: os.Getenv("AGE_BIN"), keygen: os.Getenv("AGE_KEYGEN_BIN")}
	if e.age == "" || e.keygen == "" {
		fmt.Println("INCONCLUSIVE: AGE_BIN / AGE_KEYGEN_BIN not set (run through ./check)")
		os.Exit(2)
	}
	var err error
	e.base, err = os.MkdirTemp(os.Getenv("VERIF_SCRATCH"), "c15.")
	if err != nil {
		fmt.Println("INCONCLUSIVE:", err)
		os.Exit(2)
	}
	defer os.RemoveAll(e.base)

	var cases []func()
	cases = append(cases, successMatrix(e)...)
	cases = append(cases, outputFaults(e)...)
	cases = append(cases, inputFaults(e)...)
	cases = append(cases, damagedInputs(e)...)
	cases = append(cases, sameFile(e)...)
	cases = append(cases, sameFileShellSpellings(e)...)
	cases = append(cases, sameFileRemovedCwd(e)...)
	cases = append(cases, keygenCases(e)...)
	cases = append(cases, keygenRaceCases(e)...)
	cases = append(cases, ptyCases(e)...)
	cases = append(cases, terminalEnvironments(e)...)
	cases = append(cases, terminalLargeTexts(e)...)
	cases = append(cases, terminalFailingStdout(e)...)
	cases = append(cases, cpuSets(e)...)
	cases = append(cases, specialOutputs(e)...)
	cases = append(cases, contentShapes(e)...)
	cases = append(cases, specialInputs(e)...)
	r.Set("planned_process_runs_lower_bound", len(cases))
	mon.ParN(12, len(cases), func(i int) { r.Guard(fmt.Sprintf("case#%d", i), cases[i]) })
	r.Finish()
}

// ---- helpers -------------------------------------------------------------------

type plain struct {
	name string
	data []byte
}

func plaintexts(r *mon.Run) []plain {
	sizes := []int{0, 1, 65536, 65537, 200000}
	if r.Thorough() {
		sizes = append(sizes, 2, 65535, 131072, 131073)
	}
	var out []plain
	for _, n := range sizes {
		out = append(out, plain{fmt.Sprint(n), mon.DetBytes(fmt.Sprintf("c15-pt-%d", n), n)})
	}
	return out
}

// refKey returns the reference key able to open files for the named key type.
func refKey(kt string) refage.Key {
	switch kt {
	case "X":
		return keys.NewX("X1").Ref
	case "E":
		return keys.LoadEd("ed1").Ref
	case "R":
		return keys.LoadRSA("rsa1").Ref
	case "encE":
		return keys.DecryptedEd("enc_ed1").Ref
	case "encRpem":
		return keys.DecryptedRSA("enc_rsa_pem").Ref
	}
	panic(kt)
}

// refFile builds a file for the key type with the reference implementation.
func refFile(kt string, pt []byte, armored bool, label string) []byte {
	fk := mon.DetBytes("c15-fk-"+label, 16)
	nonce := mon.DetBytes("c15-nonce-"+label, 16)
	eph := mon.DetBytes("c15-eph-"+label, 32)
	var s refage.Stanza
	switch kt {
	case "X":
		s, _ = refage.X25519Wrap(fk, keys.NewX("X1").Public, eph)
	case "E":
		s, _ = refage.SSHEd25519Wrap(fk, keys.LoadEd("ed1").Pub, eph)
	case "encE":
		s, _ = refage.SSHEd25519Wrap(fk, keys.DecryptedEd("enc_ed1").Pub, eph)
	case "R":
		s, _ = refage.SSHRSAWrap(fk, &keys.LoadRSA("rsa1").Priv.PublicKey, mon.NewRNG(1, "c15-oaep-"+label))
	case "encRpem":
		s, _ = refage.SSHRSAWrap(fk, &keys.DecryptedRSA("enc_rsa_pem").Priv.PublicKey, mon.NewRNG(1, "c15-oaep-"+label))
	case "S":
		s = refage.ScryptWrap(fk, "filepass", mon.DetBytes("c15-salt-"+label, 16), 10)
	default:
		panic(kt)
	}
	f := refage.BuildFile(fk, []refage.Stanza{s}, nonce, pt)
	if armored {
		f = refage.Armor(f, "\n")
	}
	return f
}

// identityArgs returns the CLI identity arguments and pty script for a key type.
func identityArgs(kt string) ([]string, []cli.TTYStep) {
	switch kt {
	case "X":
		return []string{"-i", "x1.key"}, nil
	case "E":
		return []string{"-i", "ed1"}, nil
	case "R":
		return []string{"-i", "rsa1"}, nil
	case "encE":
		return []string{"-i", "enc_ed1"}, []cli.TTYStep{{Expect: "Enter passphrase for", Send: keys.Passphrase + "\n"}}
	case "encRpem":
		return []string{"-i", "enc_rsa_pem"}, []cli.TTYStep{{Expect: "Enter passphrase for", Send: keys.Passphrase + "\n"}}
	case "encID":
		return []string{"-i", "x1.key.age"}, []cli.TTYStep{{Expect: "Enter passphrase for identity file", Send: "idpass\n"}}
	case "S":
		return nil, []cli.TTYStep{{Expect: "Enter passphrase:", Send: "filepass\n"}}
	}
	panic(kt)
}

func (e *env) checkEncrypted(desc string, out []byte, armored bool, key refage.Key, pt []byte) error {
	bin := out
	if armored {
		b, err := refage.Dearmor(out)
		if err != nil {
			return fmt.Errorf("output is not a complete armored file (%d bytes)", len(out))
		}
		bin = b
	}
	o, err := refage.Decrypt(bin, key)
	if err != nil {
		return fmt.Errorf("output (%d bytes) is not a complete valid file: %v", len(out), err)
	}
	if !bytes.Equal(o.Plaintext, pt) {
		return fmt.Errorf("output decrypts to a different plaintext")
	}
	return nil
}

func argvString(a []string) string { return strings.Join(a, " ") }

// ---- A. success matrix -----------------------------------------------------------

func successMatrix(e *env) []func() {
	r := e.r
	var out []func()
	pts := plaintexts(r)
	type encMode struct {
		name string
		args []string
		key  refage.Key
	}
	encModes := []encMode{
		{"-r X", []string{"-r", keys.NewX("X1").PublicStr}, refKey("X")},
		{"-r E", []string{"-r", keys.LoadEd("ed1").PubLine}, refKey("E")},
		{"-r R", []string{"-r", keys.LoadRSA("rsa1").PubLine}, refKey("R")},
		{"-R file", []string{"-R", "rcpts.txt"}, refKey("E")},
		{"-e -i X", []string{"-e", "-i", "x1.key"}, refKey("X")},
		{"-e -i ssh", []string{"-e", "-i", "ed1"}, refKey("E")},
		{"-r X -r X2 -R", []string{"-r", keys.NewX("X2").PublicStr, "-R", "rcpts.txt", "--recipient", keys.NewX("X1").PublicStr}, refKey("X")},
	}
	idx := 0
	for _, m := range encModes {
		for _, pt := range pts {
			for _, arm := range []bool{false, true} {
				for _, inMode := range []string{"file", "pipe"} {
					for _, outMode := range []string{"-o", "stdout-file", "stdout-pipe"} {
						idx++
						// pairwise thinning in the quick tier
						if !r.Thorough() && (idx%5 != 0 && !(len(pt.data) <= 1 && idx%2 == 0)) {
							continue
						}
						m, pt, arm, inMode, outMode := m, pt, arm, inMode, outMode
						out = append(out, func() {
							d := e.dir()
							defer e.done(d)
							argv := append([]string{e.age}, m.args...)
							if arm {
								argv = append(argv, "-a")
							}
							c := &cli.Cmd{Dir: d}
							outPath := filepath.Join(d, "out.age")
							switch outMode {
							case "-o":
								argv = append(argv, "-o", "out.age")
							case "stdout-file":
								c.Stdout = "file:" + outPath
							}
							if inMode == "file" {
								os.WriteFile(filepath.Join(d, "in"), pt.data, 0o600)
								argv = append(argv, "in")
							} else {
								c.Stdin = pt.data
								if len(pt.data) == 0 {
									c.Stdin = []byte{}
								}
							}
							c.Argv = argv
							res := cli.Run(c)
							desc := fmt.Sprintf("encrypt %s size=%s armor=%v in=%s out=%s", m.name, pt.name, arm, inMode, outMode)
							r.Eval(1)
							r.Distinct(desc)
							r.Tab("success_matrix", "encrypt:"+m.name)
							if res.Err != nil {
								r.Inconclusive("%s: driver error %v", desc, res.Err)
								return
							}
							got := res.Stdout
							if outMode != "stdout-pipe" {
								got, _ = os.ReadFile(outPath)
							}
							verr := e.checkEncrypted(desc, got, arm, m.key, pt.data)
							if res.Exit != 0 {
								r.Violate("encrypt-failed:"+m.name, fmt.Sprintf("%s: %s", desc, res), map[string]any{"argv": argv})
							} else if verr != nil {
								r.Violate("exit0-incomplete:encrypt:"+outMode, fmt.Sprintf("%s: exit 0 but %v", desc, verr), map[string]any{"argv": argv})
							} else {
								r.Count("complete_results_with_exit_0", 1)
								r.SampleN("enc-ok", 2, map[string]any{"case": desc, "argv": argvString(argv[1:]), "exit": res.Exit, "output_bytes": len(got), "oracle": "reference implementation decrypts the output to the input"})
							}
						})
					}
				}
			}
		}
	}
	// decryption
	for _, kt := range []string{"X", "E", "R"} {
		for _, pt := range pts {
			for _, arm := range []bool{false, true} {
				for _, inMode := range []string{"file", "pipe"} {
					for _, outMode := range []string{"-o", "stdout-file", "stdout-pipe"} {
						idx++
						if !r.Thorough() && idx%4 != 0 {
							continue
						}
						kt, pt, arm, inMode, outMode := kt, pt, arm, inMode, outMode
						out = append(out, func() {
							d := e.dir()
							defer e.done(d)
							file := refFile(kt, pt.data, arm, fmt.Sprintf("dec-%s-%s-%v", kt, pt.name, arm))
							ia, _ := identityArgs(kt)
							argv := append([]string{e.age, "-d"}, ia...)
							c := &cli.Cmd{Dir: d}
							outPath := filepath.Join(d, "out.txt")
							switch outMode {
							case "-o":
								argv = append(argv, "-o", "out.txt")
							case "stdout-file":
								c.Stdout = "file:" + outPath
							}
							if inMode == "file" {
								os.WriteFile(filepath.Join(d, "in.age"), file, 0o600)
								argv = append(argv, "in.age")
							} else {
								c.Stdin = file
							}
							c.Argv = argv
							res := cli.Run(c)
							desc := fmt.Sprintf("decrypt key=%s size=%s armor=%v in=%s out=%s", kt, pt.name, arm, inMode, outMode)
							r.Eval(1)
							r.Distinct(desc)
							r.Tab("success_matrix", "decrypt:"+kt)
							if res.Err != nil {
								r.Inconclusive("%s: driver error %v", desc, res.Err)
								return
							}
							got := res.Stdout
							if outMode != "stdout-pipe" {
								got, _ = os.ReadFile(outPath)
							}
							if res.Exit != 0 {
								r.Violate("decrypt-failed:"+kt, fmt.Sprintf("%s: %s", desc, res), map[string]any{"argv": argv})
							} else if !bytes.Equal(got, pt.data) {
								r.Violate("exit0-incomplete:decrypt:"+outMode, fmt.Sprintf("%s: exit 0 but the output has %d bytes, want %d", desc, len(got), len(pt.data)), map[string]any{"argv": argv})
							} else {
								r.Count("complete_results_with_exit_0", 1)
							}
						})
					}
				}
			}
		}
	}
	return out
}
