package main

import (
	"bytes"
	"fmt"
	"os"
	"path/filepath"
	"time"

	"filippo.io/age/zverif/cli"
	"filippo.io/age/zverif/keys"
)

// keygenRaceCases: a file appears at age-keygen's OUTPUT path WHILE it runs —
// somebody else creates it, or a second age-keygen writes to the same name.
// age-keygen -y reads its identities from standard input, which the harness
// holds open, so the run lasts as long as the harness wants. Whatever the
// interleaving: a file somebody else managed to create is never replaced, and
// a run that exits 0 has its own result at OUTPUT.
func keygenRaceCases(e *env) []func() {
	r := e.r
	var out []func()
	identities := []byte(keys.NewX("X1").SecretStr + "\n")
	wantRecipients := []byte(keys.NewX("X1").PublicStr + "\n")
	half := len(identities) / 2
	for _, kind := range []string{"file-created-during-run", "second-keygen-during-run", "symlink-created-during-run"} {
		for _, at := range []time.Duration{150 * time.Millisecond, 400 * time.Millisecond} {
			kind, at := kind, at
			out = append(out, func() {
				d := e.dir()
				defer e.done(d)
				target := filepath.Join(d, "out.key")
				other := filepath.Join(d, "elsewhere")
				desc := fmt.Sprintf("age-keygen -y -o out.key held on its standard input, %s after %v", kind, at)
				var created bool      // the intruder got the name
				var second cli.Result // the second age-keygen
				done := make(chan struct{})
				go func() {
					defer close(done)
					time.Sleep(at)
					switch kind {
					case "file-created-during-run":
						f, err := os.OpenFile(target, os.O_WRONLY|os.O_CREATE|os.O_EXCL, 0o600)
						if err == nil {
							f.WriteString("PRECIOUS, created by somebody else during the run\n")
							f.Close()
							created = true
						}
					case "symlink-created-during-run":
						os.WriteFile(other, []byte("PRECIOUS-LINKED\n"), 0o600)
						created = os.Symlink(other, target) == nil
					case "second-keygen-during-run":
						second = *cli.Run(&cli.Cmd{Argv: []string{e.keygen, "-o", "out.key"}, Dir: d, Timeout: 30 * time.Second})
					}
				}()
				first := cli.Run(&cli.Cmd{Argv: []string{e.keygen, "-y", "-o", "out.key"}, Dir: d, Timeout: 30 * time.Second,
					StdinPieces: [][]byte{identities[:half], identities[half:]}, StdinPause: at + 500*time.Millisecond})
				<-done
				r.Eval(1)
				r.Distinct(desc)
				r.Tab("keygen_output_appears_during_run", kind)
				if first.Err != nil || second.Err != nil {
					r.Inconclusive("%s: driver error %v %v", desc, first.Err, second.Err)
					return
				}
				got, _ := os.ReadFile(target)
				replay := map[string]any{"case": desc}
				switch kind {
				case "second-keygen-during-run":
					_, kerr := checkKeyFile(got)
					isFirst := bytes.Equal(got, wantRecipients)
					switch {
					case first.Exit == 0 && second.Exit == 0:
						r.Violate("keygen-race:both-exit-0", fmt.Sprintf("%s: both runs exited 0 for one output file (it holds the result of the %s)", desc, map[bool]string{true: "first", false: "second"}[isFirst]), replay)
					case first.Exit == 0 && !isFirst:
						r.Violate("keygen-race:exit0-result-not-at-output", fmt.Sprintf("%s: the -y run exited 0 but out.key does not hold its recipients", desc), replay)
					case second.Exit == 0 && kerr != nil:
						r.Violate("keygen-race:exit0-result-not-at-output", fmt.Sprintf("%s: the generating run exited 0 but out.key is %v", desc, kerr), replay)
					case first.Exit != 0 && second.Exit != 0:
						r.Count("keygen_race_both_refused", 1)
					default:
						r.Count("keygen_race_exactly_one_result_kept", 1)
					}
				default:
					precious := bytes.HasPrefix(got, []byte("PRECIOUS"))
					link, _ := os.Readlink(target)
					switch {
					case created && !precious:
						r.Violate("keygen-race:overwrote:"+kind, fmt.Sprintf("%s: somebody else created out.key during the run (O_EXCL succeeded) and age-keygen (exit %d) replaced it", desc, first.Exit), replay)
					case created && kind == "symlink-created-during-run" && link == "":
						r.Violate("keygen-race:overwrote:"+kind, fmt.Sprintf("%s: the symbolic link somebody else created during the run was replaced (exit %d)", desc, first.Exit), replay)
					case created && first.Exit == 0:
						r.Violate("keygen-race:exit0-result-not-at-output", fmt.Sprintf("%s: exit 0, but out.key is somebody else's file", desc), replay)
					case !created && first.Exit == 0 && !bytes.Equal(got, wantRecipients):
						r.Violate("keygen-race:exit0-result-not-at-output", fmt.Sprintf("%s: exit 0 but out.key holds %q", desc, got), replay)
					case created:
						r.Count("keygen_race_intruder_file_kept", 1)
					default:
						// age-keygen had taken the name before the intruder came
						r.Count("keygen_race_name_taken_first_result_complete", 1)
					}
				}
			})
		}
	}
	return out
}
