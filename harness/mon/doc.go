// Package mon is the monitor toolkit shared by the per-property monitors.
package mon
