package mon

import (
	"bufio"
	"errors"
	"io"
	"math/rand"
	"runtime"
	"sync"
)

// ErrInjected is the error returned by injected faults.
var ErrInjected = errors.New("verif: injected I/O fault")

// ObservingWriter records every Write call and accepts everything.
type ObservingWriter struct {
	mu    sync.Mutex
	Buf   []byte
	Calls []int // size of each call
}

func (w *ObservingWriter) Write(p []byte) (int, error) {
	w.mu.Lock()
	w.Buf = append(w.Buf, p...)
	w.Calls = append(w.Calls, len(p))
	w.mu.Unlock()
	return len(p), nil
}

func (w *ObservingWriter) Len() int {
	w.mu.Lock()
	defer w.mu.Unlock()
	return len(w.Buf)
}

// FaultWriter is a destination that fails at a chosen point.
//
//	FailAtCall >= 0: the call with that index (0-based) fails.
//	FailAtByte >= 0: the call that would carry the stream past that many
//	                 accepted bytes fails, after accepting exactly up to it.
//	Partial: for FailAtCall, number of bytes of the failing call accepted
//	         before the error (clamped to len(p)-1... len(p) allowed means
//	         "accepted everything but still reported an error").
//	Once: only that one call fails; later calls succeed again. Otherwise the
//	      writer keeps failing (permanent).
type FaultWriter struct {
	FailAtCall int
	FailAtByte int
	Partial    int
	Once       bool
	Err        error

	Buf    []byte // bytes accepted
	NCalls int
	Fired  int // number of calls that returned an error
	CallOf int // index of the first failing call
	failed bool
}

func NewFaultWriter() *FaultWriter {
	return &FaultWriter{FailAtCall: -1, FailAtByte: -1, Err: ErrInjected, CallOf: -1}
}

func (w *FaultWriter) Write(p []byte) (int, error) {
	idx := w.NCalls
	w.NCalls++
	if w.failed && !w.Once {
		w.Fired++
		return 0, w.Err
	}
	if w.FailAtCall >= 0 && idx == w.FailAtCall && !(w.failed && w.Once) {
		n := w.Partial
		if n > len(p) {
			n = len(p)
		}
		if n < 0 {
			n = 0
		}
		w.Buf = append(w.Buf, p[:n]...)
		w.failed = true
		w.Fired++
		if w.CallOf < 0 {
			w.CallOf = idx
		}
		return n, w.Err
	}
	if w.FailAtByte >= 0 && !(w.failed && w.Once) && len(w.Buf)+len(p) > w.FailAtByte {
		n := w.FailAtByte - len(w.Buf)
		if n < 0 {
			n = 0
		}
		w.Buf = append(w.Buf, p[:n]...)
		w.failed = true
		w.Fired++
		if w.CallOf < 0 {
			w.CallOf = idx
		}
		return n, w.Err
	}
	w.Buf = append(w.Buf, p...)
	return len(p), nil
}

// FaultReader delivers Data[:FailAt] and then fails with Err forever (sticky).
type FaultReader struct {
	Data   []byte
	FailAt int
	Err    error
	Max    int // max bytes per Read (0 = unlimited)
	// WithData: the Read that delivers the last byte before the failure
	// returns it together with Err (n > 0, err != nil), as io.Reader allows.
	WithData bool
	// Once: the failure is transient: exactly one Read fails, after which the
	// source carries on delivering the rest of Data and a clean io.EOF.
	Once  bool
	pos   int
	Fired int
	// FiredWithData: the failing Read returned n > 0 together with the error
	FiredWithData bool
}

func (r *FaultReader) Read(p []byte) (int, error) {
	if len(p) == 0 {
		return 0, nil
	}
	// FailAt in [0,len(Data)]: deliver Data[:FailAt], then Err for ever.
	// FailAt > len(Data): deliver everything, then a clean io.EOF.
	lim := r.FailAt
	if lim > len(r.Data) {
		lim = len(r.Data)
	}
	if r.Once && r.Fired > 0 {
		// transient failure already delivered: continue with the rest
		if r.pos >= len(r.Data) {
			return 0, io.EOF
		}
		n := len(r.Data) - r.pos
		if n > len(p) {
			n = len(p)
		}
		if r.Max > 0 && n > r.Max {
			n = r.Max
		}
		copy(p, r.Data[r.pos:r.pos+n])
		r.pos += n
		return n, nil
	}
	if r.pos >= lim {
		if r.FailAt > len(r.Data) {
			return 0, io.EOF
		}
		r.Fired++
		return 0, r.Err
	}
	n := lim - r.pos
	if n > len(p) {
		n = len(p)
	}
	if r.Max > 0 && n > r.Max {
		n = r.Max
	}
	copy(p, r.Data[r.pos:r.pos+n])
	r.pos += n
	if r.WithData && r.pos == lim && r.FailAt <= len(r.Data) {
		r.Fired++
		r.FiredWithData = true
		return n, r.Err
	}
	return n, nil
}

// Consumed reports how many bytes have been handed out.
func (r *FaultReader) Consumed() int { return r.pos }

// Schedule names a delivery pattern of a byte string through io.Reader.
type Schedule struct {
	Name string
	// New returns a reader delivering data under this schedule.
	New func(data []byte, rng *rand.Rand) io.Reader
}

// pieceReader delivers data in pieces whose sizes come from next(); when
// eofWithData is set the final piece is returned together with io.EOF.
type pieceReader struct {
	data        []byte
	pos         int
	next        func() int
	eofWithData bool
	Consumed    *int
}

func (r *pieceReader) Read(p []byte) (int, error) {
	if len(p) == 0 {
		return 0, nil
	}
	if r.pos >= len(r.data) {
		return 0, io.EOF
	}
	n := r.next()
	if n < 1 {
		n = 1
	}
	if n > len(p) {
		n = len(p)
	}
	if n > len(r.data)-r.pos {
		n = len(r.data) - r.pos
	}
	copy(p, r.data[r.pos:r.pos+n])
	r.pos += n
	if r.Consumed != nil {
		*r.Consumed = r.pos
	}
	if r.eofWithData && r.pos == len(r.data) {
		return n, io.EOF
	}
	return n, nil
}

// CountingReader wraps a reader and counts bytes delivered.
type CountingReader struct {
	R io.Reader
	N int
}

func (c *CountingReader) Read(p []byte) (int, error) {
	n, err := c.R.Read(p)
	c.N += n
	return n, err
}

// Schedules is the delivery-schedule alphabet of DESIGN §3.3. (0,nil) reads
// are deliberately not in it.
func Schedules() []Schedule {
	fixed := func(k int) func() int { return func() int { return k } }
	return []Schedule{
		{"whole", func(d []byte, _ *rand.Rand) io.Reader { return &pieceReader{data: d, next: fixed(1 << 30)} }},
		{"whole+eof", func(d []byte, _ *rand.Rand) io.Reader {
			return &pieceReader{data: d, next: fixed(1 << 30), eofWithData: true}
		}},
		{"1byte", func(d []byte, _ *rand.Rand) io.Reader { return &pieceReader{data: d, next: fixed(1)} }},
		{"1byte+eof", func(d []byte, _ *rand.Rand) io.Reader {
			return &pieceReader{data: d, next: fixed(1), eofWithData: true}
		}},
		{"halves", func(d []byte, _ *rand.Rand) io.Reader {
			h := (len(d) + 1) / 2
			return &pieceReader{data: d, next: fixed(h)}
		}},
		{"7", func(d []byte, _ *rand.Rand) io.Reader { return &pieceReader{data: d, next: fixed(7)} }},
		{"4096", func(d []byte, _ *rand.Rand) io.Reader { return &pieceReader{data: d, next: fixed(4096)} }},
		{"65552", func(d []byte, _ *rand.Rand) io.Reader { return &pieceReader{data: d, next: fixed(65552)} }},
		{"random", func(d []byte, rng *rand.Rand) io.Reader {
			return &pieceReader{data: d, next: func() int {
				switch rng.Intn(4) {
				case 0:
					return 1 + rng.Intn(3)
				case 1:
					return 1 + rng.Intn(100)
				case 2:
					return 1 + rng.Intn(70000)
				}
				return 1 + rng.Intn(5000)
			}}
		}},
		{"random+eof", func(d []byte, rng *rand.Rand) io.Reader {
			return &pieceReader{data: d, eofWithData: true, next: func() int { return 1 + rng.Intn(20000) }}
		}},
		{"bufio16", func(d []byte, _ *rand.Rand) io.Reader {
			return bufio.NewReaderSize(&pieceReader{data: d, next: fixed(1 << 30)}, 16)
		}},
		{"bufio4096", func(d []byte, _ *rand.Rand) io.Reader {
			return bufio.NewReaderSize(&pieceReader{data: d, next: fixed(1 << 30)}, 4096)
		}},
		{"bufio65536", func(d []byte, _ *rand.Rand) io.Reader {
			return bufio.NewReaderSize(&pieceReader{data: d, next: fixed(1 << 30)}, 65536)
		}},
		{"bufio16over1byte", func(d []byte, _ *rand.Rand) io.Reader {
			return bufio.NewReaderSize(&pieceReader{data: d, next: fixed(1)}, 16)
		}},
	}
}

// PerturbWriter / PerturbReader yield the processor at every call so that
// concurrent operations interleave at I/O boundaries (C20).
type PerturbWriter struct {
	W   io.Writer
	Rng *rand.Rand
}

func (w *PerturbWriter) Write(p []byte) (int, error) {
	perturb(w.Rng)
	return w.W.Write(p)
}

type PerturbReader struct {
	R   io.Reader
	Rng *rand.Rand
}

func (r *PerturbReader) Read(p []byte) (int, error) {
	perturb(r.Rng)
	return r.R.Read(p)
}

func perturb(rng *rand.Rand) {
	k := 1
	if rng != nil {
		k = rng.Intn(4)
	}
	for i := 0; i < k; i++ {
		runtime.Gosched()
	}
}

// ReadAllStep reads r to the end with a fixed read-buffer size and returns the
// bytes released before the first error together with that error (nil is never
// returned: a clean end is io.EOF).
func ReadAllStep(r io.Reader, bufSize int, limit int) ([]byte, error) {
	var out []byte
	buf := make([]byte, bufSize)
	zero := 0
	for {
		n, err := r.Read(buf)
		out = append(out, buf[:n]...)
		if err != nil {
			return out, err
		}
		if n == 0 {
			zero++
			if zero > 1000 {
				return out, errors.New("verif: reader made no progress in 1000 calls")
			}
		} else {
			zero = 0
		}
		if limit > 0 && len(out) > limit {
			return out, errors.New("verif: reader produced more than the limit")
		}
	}
}
