package mon

import (
	"crypto/rand"
	"io"
	"runtime"
	"sync"
	"time"
)

// Draw is one Read served by crypto/rand.Reader while a tap was installed.
type Draw struct {
	Seq   int
	Bytes []byte
}

// Tap replaces crypto/rand.Reader by a recording reader. Source is either the
// real system CSPRNG (tee) or a deterministic stream. The log is appended
// under the same mutex that serialises the read it shadows.
type Tap struct {
	mu    sync.Mutex
	src   io.Reader
	draws []Draw
	prev  io.Reader
	// Short, when set, makes the tap a healthy but short-reading generator:
	// a Read asking for want bytes delivers Short(want) of them (at least one)
	// with a nil error, as io.Reader allows.
	Short func(want int) int
	// Delay, when set, makes the tap a healthy but slow generator: the Read
	// with sequence number seq returns its (full, correct) bytes only after
	// Delay(seq).
	Delay func(seq int) time.Duration
}

// InstallTap swaps crypto/rand.Reader; src == nil means "tee the real CSPRNG".
// Not safe to use while other goroutines encrypt without the tap in mind.
func InstallTap(src io.Reader) *Tap {
	t := &Tap{prev: rand.Reader}
	if src == nil {
		src = t.prev
	}
	t.src = src
	rand.Reader = t
	return t
}

func (t *Tap) Read(p []byte) (int, error) {
	t.mu.Lock()
	defer t.mu.Unlock()
	if t.Short != nil && len(p) > 0 {
		k := t.Short(len(p))
		if k < 1 {
			k = 1
		}
		if k < len(p) {
			p = p[:k]
		}
	}
	if t.Delay != nil {
		if d := t.Delay(len(t.draws)); d > 0 {
			time.Sleep(d)
		}
	}
	n, err := io.ReadFull(t.src, p)
	t.draws = append(t.draws, Draw{Seq: len(t.draws), Bytes: append([]byte(nil), p[:n]...)})
	return n, err
}

// Mark returns the current number of draws.
func (t *Tap) Mark() int {
	t.mu.Lock()
	defer t.mu.Unlock()
	return len(t.draws)
}

// Since returns the draws made after mark.
func (t *Tap) Since(mark int) []Draw {
	t.mu.Lock()
	defer t.mu.Unlock()
	return append([]Draw(nil), t.draws[mark:]...)
}

// Reset forgets recorded draws (to bound memory in long histories).
func (t *Tap) Reset() {
	t.mu.Lock()
	t.draws = nil
	t.mu.Unlock()
}

// Uninstall restores the previous reader.
func (t *Tap) Uninstall() { rand.Reader = t.prev }

// DetStream is a deterministic byte stream (SHA-256 in counter mode) used as a
// reproducible random tape.
type DetStream struct {
	label string
	buf   []byte
	ctr   int
}

func NewDetStream(label string) *DetStream { return &DetStream{label: label} }

func (d *DetStream) Read(p []byte) (int, error) {
	for len(d.buf) < len(p) {
		d.buf = append(d.buf, DetBytes(d.label+"#"+itoa(d.ctr), 4096)...)
		d.ctr++
	}
	copy(p, d.buf[:len(p)])
	d.buf = d.buf[len(p):]
	return len(p), nil
}

func itoa(i int) string {
	if i == 0 {
		return "0"
	}
	var b [20]byte
	n := len(b)
	for i > 0 {
		n--
		b[n] = byte('0' + i%10)
		i /= 10
	}
	return string(b[n:])
}

// AllocDelta runs f on the calling goroutine and returns the growth of
// runtime.MemStats.TotalAlloc (bytes allocated, cumulative). scrypt at work
// factor w allocates >= 128*8*2^w = 2^w KiB in one call, so the delta answers
// "was a key derived, and at what cost" as a logical quantity. The caller must
// make sure no other goroutine allocates heavily meanwhile.
func AllocDelta(f func()) uint64 {
	var a, b runtime.MemStats
	runtime.ReadMemStats(&a)
	f()
	runtime.ReadMemStats(&b)
	return b.TotalAlloc - a.TotalAlloc
}
