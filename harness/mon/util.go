package mon

import (
	"crypto/sha256"
	"encoding/binary"
	"math/rand"
	"runtime"
	"sync"
	"sync/atomic"
)

// RNG returns a deterministic PRNG derived from the run seed and a label, so
// independent parts of a monitor draw independent, reproducible streams.
func (r *Run) RNG(label string) *rand.Rand {
	return NewRNG(r.Seed, label)
}

func NewRNG(seed int64, label string) *rand.Rand {
	var b [8]byte
	binary.BigEndian.PutUint64(b[:], uint64(seed))
	h := sha256.Sum256(append(b[:], label...))
	return rand.New(rand.NewSource(int64(binary.BigEndian.Uint64(h[:8]))))
}

// Bytes returns n pseudo-random bytes from rng.
func Bytes(rng *rand.Rand, n int) []byte {
	b := make([]byte, n)
	rng.Read(b)
	return b
}

// DetBytes returns n bytes determined by (label, n): cheap reproducible
// plaintexts without threading a PRNG around.
func DetBytes(label string, n int) []byte {
	out := make([]byte, 0, n+32)
	var ctr uint64
	seed := sha256.Sum256([]byte(label))
	for len(out) < n {
		var c [8]byte
		binary.BigEndian.PutUint64(c[:], ctr)
		h := sha256.Sum256(append(seed[:], c[:]...))
		out = append(out, h[:]...)
		ctr++
	}
	return out[:n]
}

// Par runs f(0..n-1) on GOMAXPROCS workers.
func Par(n int, f func(i int)) {
	ParN(runtime.GOMAXPROCS(0), n, f)
}

// ParN runs f(0..n-1) on w workers.
func ParN(w, n int, f func(i int)) {
	if w < 1 {
		w = 1
	}
	if w > n {
		w = n
	}
	var next atomic.Int64
	var wg sync.WaitGroup
	for k := 0; k < w; k++ {
		wg.Add(1)
		go func() {
			defer wg.Done()
			for {
				i := int(next.Add(1)) - 1
				if i >= n {
					return
				}
				f(i)
			}
		}()
	}
	wg.Wait()
}

// Trunc shortens a byte string for samples and messages.
func Trunc(b []byte, n int) []byte {
	if len(b) <= n {
		return b
	}
	return b[:n]
}
