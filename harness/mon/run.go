package mon

import (
	"bufio"
	"crypto/sha256"
	"encoding/hex"
	"encoding/json"
	"flag"
	"fmt"
	"os"
	"path/filepath"
	"runtime"
	"runtime/debug"
	"sort"
	"strconv"
	"strings"
	"sync"
	"sync/atomic"
	"time"
)

// Finding is one "known" line of /verif/known_findings.txt.
type Finding struct {
	Property string `json:"property"`
	Key      string `json:"key"`
	Status   string `json:"status"` // "known" or "fixed"
	Commit   string `json:"commit,omitempty"`
	What     string `json:"what"`
}

// Violation is one observed refutation of the property.
type Violation struct {
	Key    string `json:"key"`  // stable identity of the failing input / call site / history
	What   string `json:"what"` // human description
	Replay string `json:"replay,omitempty"`
	Known  bool   `json:"known"`
}

// Run is the state of one monitor run: counters, distinct-case set, samples,
// violations. All methods are safe for concurrent use.
type Run struct {
	ID    string
	Level string
	Tier  string
	Seed  int64
	Root  string // /verif

	Rule        string
	Assumptions []string
	Exhaustive  *bool

	// MinEvals and MinDistinct make an accidentally vacuous run inconclusive
	// (exit 2) instead of "held".
	MinEvals    int64
	MinDistinct int

	start time.Time
	evals atomic.Int64

	mu         sync.Mutex
	distinct   map[[8]byte]struct{}
	counters   map[string]int64
	tables     map[string]map[string]int64
	samples    []any
	maxSamples int
	viol       []Violation
	violKeys   map[string]bool
	known      map[string]Finding
	extra      map[string]any
	inconcl    []string
	replayOf   string
}

// Start parses the common flags/environment and returns a Run.
//
//	-tier quick|thorough   (default $VERIF_TIER or quick)
//	-seed N                (default $VERIF_SEED or 1)
//	-root DIR              (default $VERIF_ROOT or /verif)
func Start(id, level string) *Run {
	tier := os.Getenv("VERIF_TIER")
	if tier == "" {
		tier = "quick"
	}
	seedS := os.Getenv("VERIF_SEED")
	if seedS == "" {
		seedS = "1"
	}
	root := os.Getenv("VERIF_ROOT")
	if root == "" {
		root = "/verif"
	}
	fs := flag.CommandLine
	fs.StringVar(&tier, "tier", tier, "quick or thorough")
	fs.StringVar(&seedS, "seed", seedS, "seed for every pseudo-random choice")
	fs.StringVar(&root, "root", root, "verif root directory")
	replay := fs.String("replay", "", "replay file: re-run with its tier and seed and require the same violation key")
	if !flag.Parsed() {
		flag.Parse()
	}
	r := &Run{ID: id, Level: level, Root: root, start: time.Now(),
		distinct: map[[8]byte]struct{}{}, counters: map[string]int64{},
		tables: map[string]map[string]int64{}, maxSamples: 12,
		violKeys: map[string]bool{}, known: map[string]Finding{}, extra: map[string]any{},
		MinEvals: 1, MinDistinct: 2}
	if *replay != "" {
		b, err := os.ReadFile(*replay)
		if err != nil {
			fmt.Fprintf(os.Stderr, "replay: %v\n", err)
			os.Exit(2)
		}
		var rp struct {
			Tier string `json:"tier"`
			Seed int64  `json:"seed"`
			Key  string `json:"key"`
		}
		if err := json.Unmarshal(b, &rp); err != nil {
			fmt.Fprintf(os.Stderr, "replay: %v\n", err)
			os.Exit(2)
		}
		tier, seedS, r.replayOf = rp.Tier, strconv.FormatInt(rp.Seed, 10), rp.Key
	}
	if tier != "quick" && tier != "thorough" {
		fmt.Fprintf(os.Stderr, "bad tier %q\n", tier)
		os.Exit(2)
	}
	seed, err := strconv.ParseInt(seedS, 10, 64)
	if err != nil {
		// accept any string as a seed by hashing it
		h := sha256.Sum256([]byte(seedS))
		for _, b := range h[:8] {
			seed = seed<<8 | int64(b)
		}
		if seed < 0 {
			seed = -seed
		}
	}
	r.Tier, r.Seed = tier, seed
	r.loadKnown()
	fmt.Printf("== %s tier=%s seed=%d GOMAXPROCS=%d\n", id, tier, seed, runtime.GOMAXPROCS(0))
	return r
}

func (r *Run) Thorough() bool { return r.Tier == "thorough" }

// Pick returns q in the quick tier and t in the thorough tier.
func (r *Run) Pick(q, t int) int {
	if r.Thorough() {
		return t
	}
	return q
}

// loadKnown reads /verif/known_findings.txt (committed, never written at run
// time). Lines:
//
//	known: property=<ID> key=<violation key> :: <what fails>
//	fixed: property=<ID> <commit> <what failed>
//
// Only "known" lines suppress anything, and only the violation whose key
// matches exactly; "fixed" lines are a record and suppress nothing.
func (r *Run) loadKnown() {
	f, err := os.Open(filepath.Join(r.Root, "known_findings.txt"))
	if err != nil {
		return
	}
	defer f.Close()
	sc := bufio.NewScanner(f)
	sc.Buffer(make([]byte, 1<<20), 1<<20)
	for sc.Scan() {
		line := strings.TrimSpace(sc.Text())
		if !strings.HasPrefix(line, "known: property=") {
			continue
		}
		rest := strings.TrimPrefix(line, "known: property=")
		sp := strings.IndexByte(rest, ' ')
		if sp < 0 || rest[:sp] != r.ID {
			continue
		}
		rest = strings.TrimSpace(rest[sp:])
		if !strings.HasPrefix(rest, "key=") {
			continue
		}
		rest = rest[4:]
		key, what := rest, ""
		if i := strings.Index(rest, " :: "); i >= 0 {
			key, what = rest[:i], rest[i+4:]
		}
		r.known[key] = Finding{Property: r.ID, Key: key, Status: "known", What: what}
	}
}

// Eval counts n executed cases.
func (r *Run) Eval(n int) { r.evals.Add(int64(n)) }

func (r *Run) Evals() int64 { return r.evals.Load() }

// Distinct records a non-trivial case by its identifying key; the evidence
// reports the number of distinct keys seen.
func (r *Run) Distinct(key string) {
	h := sha256.Sum256([]byte(key))
	var k [8]byte
	copy(k[:], h[:8])
	r.mu.Lock()
	r.distinct[k] = struct{}{}
	r.mu.Unlock()
}

// DistinctBytes is Distinct for raw inputs.
func (r *Run) DistinctBytes(b []byte) {
	h := sha256.Sum256(b)
	var k [8]byte
	copy(k[:], h[:8])
	r.mu.Lock()
	r.distinct[k] = struct{}{}
	r.mu.Unlock()
}

func (r *Run) NDistinct() int {
	r.mu.Lock()
	defer r.mu.Unlock()
	return len(r.distinct)
}

// Count adds d to a named scalar counter reported under coverage.counters.
func (r *Run) Count(name string, d int64) {
	r.mu.Lock()
	r.counters[name] += d
	r.mu.Unlock()
}

func (r *Run) Counter(name string) int64 {
	r.mu.Lock()
	defer r.mu.Unlock()
	return r.counters[name]
}

// Tab adds one to cell of a named coverage table (coverage.tables[table][cell]).
func (r *Run) Tab(table, cell string) {
	r.mu.Lock()
	t := r.tables[table]
	if t == nil {
		t = map[string]int64{}
		r.tables[table] = t
	}
	if len(t) < 400 || t[cell] > 0 {
		t[cell]++
	} else {
		t["(other)"]++
	}
	r.mu.Unlock()
}

// Sample keeps the first few cases, written out literally in the evidence.
func (r *Run) Sample(v any) {
	r.mu.Lock()
	if len(r.samples) < r.maxSamples {
		r.samples = append(r.samples, v)
	}
	r.mu.Unlock()
}

// SampleN is Sample with a per-class cap: at most n samples whose class is cls.
func (r *Run) SampleN(cls string, n int, v any) {
	r.mu.Lock()
	k := "sample:" + cls
	if r.counters[k] < int64(n) && len(r.samples) < 40 {
		r.counters[k]++
		r.samples = append(r.samples, v)
	}
	r.mu.Unlock()
}

// Set stores an extra key under coverage.
func (r *Run) Set(key string, v any) {
	r.mu.Lock()
	r.extra[key] = v
	r.mu.Unlock()
}

// Inconclusive records a reason the run cannot be called "held".
func (r *Run) Inconclusive(format string, a ...any) {
	r.mu.Lock()
	r.inconcl = append(r.inconcl, fmt.Sprintf(format, a...))
	r.mu.Unlock()
}

// Violate records a violation. key identifies the failing input, call site or
// history and is what known_findings.jsonl is matched against; replay is any
// JSON-serialisable description of the exact case.
func (r *Run) Violate(key, what string, replay any) {
	r.mu.Lock()
	if r.violKeys[key] {
		r.counters["violations_repeated"]++
		r.mu.Unlock()
		return
	}
	r.violKeys[key] = true
	_, known := r.known[key]
	r.mu.Unlock()

	v := Violation{Key: key, What: what, Known: known}
	if known {
		fmt.Printf("KNOWN-FINDING: property=%s %s (%s)\n", r.ID, key, oneLine(what))
	} else {
		dir := filepath.Join(r.Root, "replays", r.ID)
		os.MkdirAll(dir, 0o755)
		h := sha256.Sum256([]byte(key))
		p := filepath.Join(dir, hex.EncodeToString(h[:6])+".json")
		b, _ := json.MarshalIndent(map[string]any{
			"property": r.ID, "tier": r.Tier, "seed": r.Seed, "key": key, "what": what, "case": replay,
		}, "", " ")
		os.WriteFile(p, b, 0o644)
		v.Replay = p
		fmt.Printf("VIOLATION property=%s replay=%s\n", r.ID, p)
		fmt.Printf("  key: %s\n  what: %s\n", key, oneLine(what))
	}
	r.mu.Lock()
	r.viol = append(r.viol, v)
	r.mu.Unlock()
}

func oneLine(s string) string {
	s = strings.ReplaceAll(s, "\n", "\\n")
	if len(s) > 600 {
		s = s[:600] + "…"
	}
	return s
}

// Guard runs f, turning a panic into a violation of this property (a panic in
// library code is never acceptable for any property's workload).
func (r *Run) Guard(caseKey string, f func()) {
	defer func() {
		if p := recover(); p != nil {
			r.Violate("panic:"+caseKey, fmt.Sprintf("panic: %v\n%s", p, debug.Stack()), map[string]any{"case": caseKey})
		}
	}()
	f()
}

// Finish writes the evidence file, prints a summary and exits:
// 0 held, 1 unlisted violation, 2 inconclusive / vacuous.
func (r *Run) Finish() {
	wall := time.Since(r.start).Seconds()
	r.mu.Lock()
	nd := len(r.distinct)
	unlisted, listed := 0, 0
	for _, v := range r.viol {
		if v.Known {
			listed++
		} else {
			unlisted++
		}
	}
	cov := map[string]any{}
	for k, v := range r.extra {
		cov[k] = v
	}
	cov["evaluations"] = r.evals.Load()
	cov["distinct_nontrivial"] = nd
	cov["rule"] = r.Rule
	samples := r.samples
	if len(samples) == 0 {
		samples = []any{}
	}
	cov["samples"] = samples
	if r.Exhaustive != nil {
		cov["exhaustive"] = *r.Exhaustive
	}
	cnt := map[string]int64{}
	for k, v := range r.counters {
		if !strings.HasPrefix(k, "sample:") {
			cnt[k] = v
		}
	}
	cov["counters"] = cnt
	if len(r.tables) > 0 {
		cov["tables"] = r.tables
	}
	if len(r.inconcl) > 0 {
		cov["inconclusive"] = r.inconcl
	}
	if len(r.viol) > 0 {
		cov["violation_list"] = r.viol
	}
	ev := map[string]any{
		"property_id": r.ID, "tier": r.Tier, "seed": r.Seed, "level": r.Level,
		"coverage": cov, "assumptions": r.Assumptions, "wall_s": float64(int(wall*1000)) / 1000,
		"violations": unlisted, "known_findings_seen": listed,
	}
	if r.Assumptions == nil {
		ev["assumptions"] = []string{}
	}
	inconcl := append([]string(nil), r.inconcl...)
	r.mu.Unlock()

	if len(samples) == 0 {
		inconcl = append(inconcl, "no sample case was recorded: the evidence would not show what a case looks like")
	}
	vacuous := r.evals.Load() < r.MinEvals || nd < r.MinDistinct
	if vacuous {
		inconcl = append(inconcl, fmt.Sprintf("vacuous run: evaluations=%d (min %d) distinct=%d (min %d)", r.evals.Load(), r.MinEvals, nd, r.MinDistinct))
	}
	verdict := "held"
	if unlisted > 0 {
		verdict = "violated"
	} else if len(inconcl) > 0 {
		verdict = "inconclusive"
	}
	ev["verdict"] = verdict

	dir := filepath.Join(r.Root, "evidence")
	if d := os.Getenv("VERIF_EVIDENCE_DIR"); d != "" {
		dir = d // an extra pass (./check runs one per environment setting) keeps the main evidence
	}
	if p := os.Getenv("VERIF_ENV_PASS"); p != "" {
		ev["environment_pass"] = p
	}
	os.MkdirAll(dir, 0o755)
	b, _ := json.MarshalIndent(ev, "", " ")
	if err := os.WriteFile(filepath.Join(dir, r.ID+".json"), append(b, '\n'), 0o644); err != nil {
		fmt.Fprintf(os.Stderr, "cannot write evidence: %v\n", err)
		os.Exit(2)
	}

	keys := make([]string, 0, len(cnt))
	for k := range cnt {
		keys = append(keys, k)
	}
	sort.Strings(keys)
	var sb strings.Builder
	for _, k := range keys {
		fmt.Fprintf(&sb, " %s=%d", k, cnt[k])
	}
	fmt.Printf("== %s %s: evaluations=%d distinct=%d violations=%d known=%d wall=%.1fs\n   counters:%s\n",
		r.ID, verdict, r.evals.Load(), nd, unlisted, listed, wall, sb.String())
	for _, s := range inconcl {
		fmt.Printf("INCONCLUSIVE: %s\n", s)
	}
	if r.replayOf != "" {
		r.mu.Lock()
		hit := r.violKeys[r.replayOf]
		r.mu.Unlock()
		if hit {
			fmt.Printf("replay: violation %q reproduced\n", r.replayOf)
		} else {
			fmt.Printf("replay: violation %q NOT reproduced\n", r.replayOf)
		}
	}
	switch verdict {
	case "violated":
		os.Exit(1)
	case "inconclusive":
		os.Exit(2)
	}
	os.Exit(0)
}
