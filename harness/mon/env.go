package mon

import (
	"os"
	"path/filepath"
	"regexp"
	"sort"
	"strings"
)

// EnvSetting is one environment variable assignment worth running a workload
// under: the tree under test reads that variable.
type EnvSetting struct {
	Name, Value string
	// Literal: the value appears in the source next to the read (as opposed to
	// the generic values 1 / true / all that are always tried).
	Literal bool
}

func (e EnvSetting) String() string { return e.Name + "=" + e.Value }

// wellKnown: variables with a conventional meaning, and values of theirs that
// change what a careless program does. When a source file that reads the
// environment at all (a Getenv / LookupEnv / Environ call with any argument,
// e.g. a loop over names) mentions one of these names as a string literal, the
// settings below count as literal settings of the tree.
var wellKnown = map[string][]string{
	"LANG":            {"de_DE.ISO-8859-1", "tr_TR.UTF-8", "C"},
	"LC_ALL":          {"de_DE.ISO-8859-1", "tr_TR.UTF-8", "C"},
	"LC_CTYPE":        {"de_DE.ISO-8859-1", "ja_JP.SJIS"},
	"LC_MESSAGES":     {"de_DE.UTF-8"},
	"LANGUAGE":        {"de:fr"},
	"TZ":              {"Asia/Kolkata"},
	"NO_COLOR":        {"1"},
	"CI":              {"true"},
	"GODEBUG":         {"netdns=go"},
	"SHELL":           {"/bin/false"},
	"USER":            {"nobody"},
	"EDITOR":          {"/bin/false"},
	"PAGER":           {"/bin/false"},
	"DISPLAY":         {":99"},
	"SSH_AUTH_SOCK":   {"/nonexistent/agent.sock"},
	"XDG_CONFIG_HOME": {"/nonexistent/config"},
	"XDG_CACHE_HOME":  {"/nonexistent/cache"},
}

var (
	anyEnvRe  = regexp.MustCompile(`\b(?:Getenv|LookupEnv|Environ)\(`)
	getenvRe  = regexp.MustCompile(`(?:Getenv|LookupEnv)\(\s*"([A-Za-z_][A-Za-z0-9_]*)"\s*\)`)
	literalRe = regexp.MustCompile(`"([A-Za-z0-9_.:,/=+-]{1,40})"`)
)

// EnvSettings lists the environment variables that the non-test Go sources
// of the tree under test ($AGE_SRC) read, each with the values the source
// mentions next to the read (string literals on the same and the two
// following lines) plus a few generic ones. It only decides WHICH workloads to
// run; what is right or wrong under a setting is still decided by the
// monitor's oracle. PATH, HOME, TMPDIR and terminal variables are left out:
// the CLI stages control those themselves.
func EnvSettings() []EnvSetting {
	root := os.Getenv("AGE_SRC")
	if root == "" {
		root = "/repo"
	}
	skip := map[string]bool{"PATH": true, "HOME": true, "TMPDIR": true, "TERM": true, "PWD": true}
	vals := map[string]map[string]bool{}
	filepath.Walk(root, func(p string, fi os.FileInfo, err error) error {
		if err != nil {
			return nil
		}
		if fi.IsDir() {
			if n := fi.Name(); n == ".git" || n == "testdata" || n == "zverif" {
				return filepath.SkipDir
			}
			return nil
		}
		if !strings.HasSuffix(p, ".go") || strings.HasSuffix(p, "_test.go") {
			return nil
		}
		b, err := os.ReadFile(p)
		if err != nil {
			return nil
		}
		if anyEnvRe.Match(b) {
			for name, vs := range wellKnown {
				if strings.Contains(string(b), `"`+name+`"`) {
					if vals[name] == nil {
						vals[name] = map[string]bool{}
					}
					for _, v := range vs {
						vals[name][v] = true
					}
				}
			}
		}
		lines := strings.Split(string(b), "\n")
		for i, l := range lines {
			for _, m := range getenvRe.FindAllStringSubmatch(l, -1) {
				name := m[1]
				if skip[name] {
					continue
				}
				if vals[name] == nil {
					vals[name] = map[string]bool{"1": false, "true": false, "all": false}
				}
				for j := i; j < i+3 && j < len(lines); j++ {
					for _, lm := range literalRe.FindAllStringSubmatch(lines[j], -1) {
						if lm[1] != name {
							vals[name][lm[1]] = true
						}
					}
				}
			}
		}
		return nil
	})
	var out []EnvSetting
	for n, vs := range vals {
		for v := range vs {
			out = append(out, EnvSetting{n, v, vs[v]})
		}
	}
	sort.Slice(out, func(i, j int) bool { return out[i].String() < out[j].String() })
	return out
}
