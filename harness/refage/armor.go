package refage

import (
	"bytes"
	"errors"
)

const (
	ArmorBegin = "-----BEGIN AGE ENCRYPTED FILE-----"
	ArmorEnd   = "-----END AGE ENCRYPTED FILE-----"
)

// Armor is the canonical armoring of b with the given line terminator.
func Armor(b []byte, eol string) []byte {
	var out bytes.Buffer
	out.WriteString(ArmorBegin + eol)
	for len(b) > 0 {
		n := 48
		if n > len(b) {
			n = len(b)
		}
		out.WriteString(B64Padded(b[:n]))
		out.WriteString(eol)
		b = b[n:]
	}
	out.WriteString(ArmorEnd + eol)
	return out.Bytes()
}

func isASCIISpace(c byte) bool {
	return c == ' ' || c == '\t' || c == '\n' || c == '\r' || c == '\v' || c == '\f'
}

func allSpace(b []byte) bool {
	for _, c := range b {
		if !isASCIISpace(c) {
			return false
		}
	}
	return true
}

var ErrArmor = errors.New("refage: not canonical armor")

// Dearmor is the strict acceptance model of DESIGN appendix C over texts whose
// white space is ASCII:
//
//	armored = *wsline BEGIN eol *(full eol) [short eol] END [eol] *ws
//
// eol = LF | CR LF; full = 64 columns (48 bytes); short = canonical padded
// base64 of 1..47 bytes; leading white-space lines total at most 1024 bytes,
// trailing white space fewer than 1024 bytes.
func Dearmor(text []byte) ([]byte, error) {
	rest := text
	getLine := func() (line []byte, ok bool) {
		if len(rest) == 0 {
			return nil, false
		}
		i := bytes.IndexByte(rest, '\n')
		if i < 0 {
			line, rest = rest, nil
		} else {
			line, rest = rest[:i], rest[i+1:]
		}
		line = bytes.TrimSuffix(line, []byte("\r"))
		return line, true
	}
	removed := 0
	for {
		line, ok := getLine()
		if !ok {
			return nil, ErrArmor
		}
		if allSpace(line) {
			removed += len(line) + 1
			if removed > 1024 {
				return nil, ErrArmor
			}
			continue
		}
		if string(line) != ArmorBegin {
			return nil, ErrArmor
		}
		break
	}
	var out []byte
	for {
		line, ok := getLine()
		if !ok {
			return nil, ErrArmor
		}
		if string(line) == ArmorEnd {
			break
		}
		if len(line) == 0 || len(line) > 64 || bytes.IndexByte(line, '\r') >= 0 {
			return nil, ErrArmor
		}
		b, err := UnB64Padded(string(line))
		if err != nil || len(b) == 0 {
			return nil, ErrArmor
		}
		out = append(out, b...)
		if len(b) < 48 {
			line, ok := getLine()
			if !ok || string(line) != ArmorEnd {
				return nil, ErrArmor
			}
			break
		}
	}
	if len(rest) >= 1024 || !allSpace(rest) {
		return nil, ErrArmor
	}
	return out, nil
}
