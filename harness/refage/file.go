package refage

import (
	"bytes"
	"crypto/hmac"
	"crypto/rsa"
	"errors"
)

// Key is the reference counterpart of an identity.
type Key interface {
	// Unwrap returns ErrNoMatch if the stanza is not addressed to this key.
	Unwrap(s Stanza) ([]byte, error)
}

type X25519Key struct{ Secret []byte }

func (k X25519Key) Unwrap(s Stanza) ([]byte, error) { return X25519Unwrap(s, k.Secret) }
func (k X25519Key) Public() []byte                  { return X25519Public(k.Secret) }

type ScryptKey struct {
	Pass    string
	MaxLogN int
}

func (k ScryptKey) Unwrap(s Stanza) ([]byte, error) {
	m := k.MaxLogN
	if m == 0 {
		m = 22
	}
	return ScryptUnwrap(s, k.Pass, m)
}

type EdKey struct{ Seed, Pub []byte }

func (k EdKey) Unwrap(s Stanza) ([]byte, error) { return SSHEd25519Unwrap(s, k.Seed, k.Pub) }

type RSAKey struct{ Priv *rsa.PrivateKey }

func (k RSAKey) Unwrap(s Stanza) ([]byte, error) { return SSHRSAUnwrap(s, k.Priv) }

// BuildFile assembles a binary age file from explicit values.
func BuildFile(fileKey []byte, stanzas []Stanza, nonce, plaintext []byte) []byte {
	h := &Header{Stanzas: stanzas, MAC: HeaderMAC(fileKey, stanzas)}
	out := h.Encode()
	out = append(out, nonce...)
	return append(out, StreamEncrypt(StreamKey(fileKey, nonce), plaintext)...)
}

var (
	ErrNoIdentity = errors.New("refage: no key matched")
	ErrMAC        = errors.New("refage: header MAC mismatch")
)

// Opened describes a file the reference decrypted.
type Opened struct {
	Header    *Header
	HeaderLen int
	FileKey   []byte
	Nonce     []byte
	StreamKey []byte
	Plaintext []byte
	Chunks    int
}

// Decrypt is the reference decryption of a binary file.
func Decrypt(file []byte, keys ...Key) (*Opened, error) {
	hdr, rest, err := ParseHeader(file)
	if err != nil {
		return nil, err
	}
	o := &Opened{Header: hdr, HeaderLen: len(file) - len(rest)}
	hasScrypt := false
	for _, s := range hdr.Stanzas {
		if s.Type == "scrypt" {
			hasScrypt = true
		}
	}
	var fk []byte
keys:
	for _, k := range keys {
		if _, ok := k.(ScryptKey); ok && hasScrypt && len(hdr.Stanzas) != 1 {
			return o, errors.New("refage: scrypt stanza must be alone")
		}
		for _, s := range hdr.Stanzas {
			f, err := k.Unwrap(s)
			if err == ErrNoMatch {
				continue
			}
			if err != nil {
				return o, err
			}
			fk = f
			break keys
		}
	}
	if fk == nil {
		return o, ErrNoIdentity
	}
	o.FileKey = fk
	if !hmac.Equal(HeaderMAC(fk, hdr.Stanzas), hdr.MAC) {
		return o, ErrMAC
	}
	if len(rest) < 16 {
		return o, errors.New("refage: short nonce")
	}
	o.Nonce = rest[:16]
	o.StreamKey = StreamKey(fk, o.Nonce)
	pt, chunks, err := StreamDecrypt(o.StreamKey, rest[16:])
	o.Plaintext, o.Chunks = pt, chunks
	return o, err
}

// DecryptArmored de-armors with the strict model and decrypts.
func DecryptArmored(text []byte, keys ...Key) (*Opened, error) {
	b, err := Dearmor(text)
	if err != nil {
		return nil, err
	}
	return Decrypt(b, keys...)
}

// SplitChunks cuts a payload (after the nonce) into its encrypted chunks.
func SplitChunks(payload []byte) [][]byte {
	var out [][]byte
	for len(payload) > 0 {
		n := EncChunkSize
		if n > len(payload) {
			n = len(payload)
		}
		out = append(out, payload[:n])
		payload = payload[n:]
	}
	return out
}

// HeaderEnd returns the length of the header of a binary file (through the
// newline of the MAC line), or -1.
func HeaderEnd(file []byte) int {
	i := bytes.Index(file, []byte("\n--- "))
	if i < 0 {
		return -1
	}
	j := bytes.IndexByte(file[i+1:], '\n')
	if j < 0 {
		return -1
	}
	return i + 1 + j + 1
}
