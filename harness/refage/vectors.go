package refage

import (
	"bytes"
	"crypto/sha256"
	"encoding/hex"
	"fmt"
	"io/fs"
	"strings"

	agetest "c2sp.org/CCTV/age"
)

// Vector is one CCTV test vector.
type Vector struct {
	Name        string
	Expect      string
	PayloadHash []byte
	FileKey     []byte
	Identities  []string
	Passphrases []string
	Armored     bool
	File        []byte
}

// Vectors parses the 114 embedded CCTV vectors.
func Vectors() ([]*Vector, error) {
	ents, err := fs.ReadDir(agetest.Vectors, ".")
	if err != nil {
		return nil, err
	}
	var out []*Vector
	for _, e := range ents {
		b, err := fs.ReadFile(agetest.Vectors, e.Name())
		if err != nil {
			return nil, err
		}
		v := &Vector{Name: e.Name(), File: b}
		for {
			line, rest, ok := bytes.Cut(v.File, []byte("\n"))
			if !ok {
				return nil, fmt.Errorf("vector %s: no payload", e.Name())
			}
			v.File = rest
			if len(line) == 0 {
				break
			}
			key, value, _ := strings.Cut(string(line), ": ")
			switch key {
			case "expect":
				v.Expect = value
			case "payload":
				v.PayloadHash, _ = hex.DecodeString(value)
			case "file key":
				v.FileKey, _ = hex.DecodeString(value)
			case "identity":
				v.Identities = append(v.Identities, value)
			case "passphrase":
				v.Passphrases = append(v.Passphrases, value)
			case "armored":
				v.Armored = true
			case "comment":
			default:
				return nil, fmt.Errorf("vector %s: unknown key %q", e.Name(), key)
			}
		}
		out = append(out, v)
	}
	return out, nil
}

// Keys returns the reference keys named by the vector.
func (v *Vector) Keys() ([]Key, error) {
	var keys []Key
	for _, s := range v.Identities {
		hrp, data, err := Bech32Decode(s)
		if err != nil || hrp != "AGE-SECRET-KEY-" || len(data) != 32 {
			return nil, fmt.Errorf("vector %s: identity %q: %v", v.Name, s, err)
		}
		keys = append(keys, X25519Key{Secret: data})
	}
	for _, p := range v.Passphrases {
		keys = append(keys, ScryptKey{Pass: p})
	}
	return keys, nil
}

// SelfCheck validates the reference implementation against every CCTV vector:
// success vectors must open to the recorded file key and payload hash and
// re-encode byte-identically; failure vectors must be rejected. It returns the
// number of vectors checked. A reference that disagrees with the published
// vectors must not be used as an oracle.
func SelfCheck() (int, error) {
	vs, err := Vectors()
	if err != nil {
		return 0, err
	}
	if len(vs) < 100 {
		return 0, fmt.Errorf("only %d vectors found", len(vs))
	}
	for _, v := range vs {
		keys, err := v.Keys()
		if err != nil {
			return 0, err
		}
		file := v.File
		var armErr error
		if v.Armored {
			file, armErr = Dearmor(v.File)
		}
		var o *Opened
		var derr error
		if armErr == nil {
			o, derr = Decrypt(file, keys...)
		}
		switch v.Expect {
		case "success":
			if armErr != nil || derr != nil {
				return 0, fmt.Errorf("vector %s: reference failed: %v %v", v.Name, armErr, derr)
			}
			if !bytes.Equal(o.FileKey, v.FileKey) {
				return 0, fmt.Errorf("vector %s: file key differs", v.Name)
			}
			if h := sha256.Sum256(o.Plaintext); !bytes.Equal(h[:], v.PayloadHash) {
				return 0, fmt.Errorf("vector %s: payload hash differs", v.Name)
			}
			if re := BuildFile(o.FileKey, o.Header.Stanzas, o.Nonce, o.Plaintext); !bytes.Equal(re, file) {
				return 0, fmt.Errorf("vector %s: re-encoding differs", v.Name)
			}
		case "armor failure":
			if armErr == nil && derr == nil {
				return 0, fmt.Errorf("vector %s: reference accepted an armor failure", v.Name)
			}
			if armErr == nil {
				return 0, fmt.Errorf("vector %s: armor model accepted, failure came later: %v", v.Name, derr)
			}
		case "HMAC failure":
			if armErr != nil || derr != ErrMAC {
				return 0, fmt.Errorf("vector %s: expected MAC failure, got %v %v", v.Name, armErr, derr)
			}
		case "no match":
			if armErr != nil || derr != ErrNoIdentity {
				return 0, fmt.Errorf("vector %s: expected no match, got %v %v", v.Name, armErr, derr)
			}
		case "header failure":
			if armErr != nil || derr == nil || derr == ErrMAC || derr == ErrNoIdentity || derr == ErrStream {
				return 0, fmt.Errorf("vector %s: expected header failure, got %v %v", v.Name, armErr, derr)
			}
		case "payload failure":
			if armErr != nil || derr == nil || derr == ErrMAC || derr == ErrNoIdentity {
				return 0, fmt.Errorf("vector %s: expected payload failure, got %v %v", v.Name, armErr, derr)
			}
			if v.PayloadHash != nil {
				if h := sha256.Sum256(o.Plaintext); !bytes.Equal(h[:], v.PayloadHash) {
					return 0, fmt.Errorf("vector %s: partial payload hash differs", v.Name)
				}
			}
		default:
			return 0, fmt.Errorf("vector %s: unknown expectation %q", v.Name, v.Expect)
		}
	}
	return len(vs), nil
}
