package refage

import (
	"errors"
	"strings"
)

const bechCharset = "qpzry9x8gf2tvdw0s3jn54khce6mua7l"

func bechPolymod(v []byte) uint32 {
	gen := [5]uint32{0x3b6a57b2, 0x26508e6d, 0x1ea119fa, 0x3d4233dd, 0x2a1462b3}
	chk := uint32(1)
	for _, x := range v {
		b := chk >> 25
		chk = (chk&0x1ffffff)<<5 ^ uint32(x)
		for i := 0; i < 5; i++ {
			if (b>>uint(i))&1 == 1 {
				chk ^= gen[i]
			}
		}
	}
	return chk
}

func bechHRPExpand(hrp string) []byte {
	var out []byte
	for i := 0; i < len(hrp); i++ {
		out = append(out, hrp[i]>>5)
	}
	out = append(out, 0)
	for i := 0; i < len(hrp); i++ {
		out = append(out, hrp[i]&31)
	}
	return out
}

// Bech32Encode encodes data under hrp (BIP-173 without the 90-character
// limit). If hrp is upper case the whole string is upper case.
func Bech32Encode(hrp string, data []byte) string {
	upper := strings.ToUpper(hrp) == hrp && strings.ToLower(hrp) != hrp
	lhrp := strings.ToLower(hrp)
	var v []byte
	acc, bits := uint(0), 0
	for _, b := range data {
		acc = acc<<8 | uint(b)
		bits += 8
		for bits >= 5 {
			bits -= 5
			v = append(v, byte(acc>>uint(bits))&31)
		}
	}
	if bits > 0 {
		v = append(v, byte(acc<<uint(5-bits))&31)
	}
	vals := append(bechHRPExpand(lhrp), v...)
	vals = append(vals, 0, 0, 0, 0, 0, 0)
	mod := bechPolymod(vals) ^ 1
	var sb strings.Builder
	sb.WriteString(lhrp)
	sb.WriteByte('1')
	for _, x := range v {
		sb.WriteByte(bechCharset[x])
	}
	for i := 0; i < 6; i++ {
		sb.WriteByte(bechCharset[(mod>>uint(5*(5-i)))&31])
	}
	if upper {
		return strings.ToUpper(sb.String())
	}
	return sb.String()
}

// Bech32Decode is the strict decoder: printable ASCII only, single case,
// valid checksum, zero padding of fewer than 5 bits.
func Bech32Decode(s string) (string, []byte, error) {
	hasLower, hasUpper := false, false
	for i := 0; i < len(s); i++ {
		c := s[i]
		if c < 33 || c > 126 {
			return "", nil, errors.New("bech32: character outside printable ASCII")
		}
		if c >= 'a' && c <= 'z' {
			hasLower = true
		}
		if c >= 'A' && c <= 'Z' {
			hasUpper = true
		}
	}
	if hasLower && hasUpper {
		return "", nil, errors.New("bech32: mixed case")
	}
	pos := strings.LastIndexByte(s, '1')
	if pos < 1 || pos+7 > len(s) {
		return "", nil, errors.New("bech32: separator position")
	}
	hrp := s[:pos]
	var v []byte
	for i := pos + 1; i < len(s); i++ {
		c := s[i]
		if c >= 'A' && c <= 'Z' {
			c += 'a' - 'A'
		}
		d := strings.IndexByte(bechCharset, c)
		if d < 0 {
			return "", nil, errors.New("bech32: invalid data character")
		}
		v = append(v, byte(d))
	}
	if bechPolymod(append(bechHRPExpand(strings.ToLower(hrp)), v...)) != 1 {
		return "", nil, errors.New("bech32: checksum")
	}
	v = v[:len(v)-6]
	var out []byte
	acc, bits := uint(0), 0
	for _, x := range v {
		acc = acc<<5 | uint(x)
		bits += 5
		if bits >= 8 {
			bits -= 8
			out = append(out, byte(acc>>uint(bits)))
			acc &= 1<<uint(bits) - 1
		}
	}
	if bits >= 5 || acc != 0 {
		return "", nil, errors.New("bech32: padding")
	}
	return hrp, out, nil
}
