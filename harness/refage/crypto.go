package refage

import (
	"crypto/hmac"
	"crypto/sha256"
	"encoding/binary"
	"errors"

	"golang.org/x/crypto/chacha20poly1305"
)

// HKDF-SHA-256 (RFC 5869) written directly on crypto/hmac.
func HKDF(secret, salt, info []byte, n int) []byte {
	if salt == nil {
		salt = make([]byte, 32)
	}
	ext := hmac.New(sha256.New, salt)
	ext.Write(secret)
	prk := ext.Sum(nil)
	var out, t []byte
	for i := byte(1); len(out) < n; i++ {
		h := hmac.New(sha256.New, prk)
		h.Write(t)
		h.Write(info)
		h.Write([]byte{i})
		t = h.Sum(nil)
		out = append(out, t...)
	}
	return out[:n]
}

func HeaderMAC(fileKey []byte, stanzas []Stanza) []byte {
	k := HKDF(fileKey, nil, []byte("header"), 32)
	h := hmac.New(sha256.New, k)
	h.Write(EncodeNoMAC(stanzas))
	return h.Sum(nil)
}

func StreamKey(fileKey, nonce []byte) []byte {
	return HKDF(fileKey, nonce, []byte("payload"), 32)
}

const (
	ChunkSize    = 64 * 1024
	TagSize      = 16
	EncChunkSize = ChunkSize + TagSize
)

func chunkNonce(counter uint64, last bool) []byte {
	n := make([]byte, 12)
	// 11-byte big-endian counter: the top 3 bytes are zero for any counter
	// that fits in 64 bits.
	binary.BigEndian.PutUint64(n[3:11], counter)
	if last {
		n[11] = 1
	}
	return n
}

// SealChunk seals one STREAM chunk under (key, counter, last).
func SealChunk(key []byte, counter uint64, last bool, pt []byte) []byte {
	a, err := chacha20poly1305.New(key)
	if err != nil {
		panic(err)
	}
	return a.Seal(nil, chunkNonce(counter, last), pt, nil)
}

// OpenChunk opens one STREAM chunk.
func OpenChunk(key []byte, counter uint64, last bool, ct []byte) ([]byte, error) {
	a, err := chacha20poly1305.New(key)
	if err != nil {
		panic(err)
	}
	return a.Open(nil, chunkNonce(counter, last), ct, nil)
}

// StreamEncrypt is the canonical STREAM encoding of pt.
func StreamEncrypt(key, pt []byte) []byte {
	var out []byte
	var ctr uint64
	for len(pt) > ChunkSize {
		out = append(out, SealChunk(key, ctr, false, pt[:ChunkSize])...)
		pt = pt[ChunkSize:]
		ctr++
	}
	return append(out, SealChunk(key, ctr, true, pt)...)
}

var ErrStream = errors.New("refage: STREAM payload not acceptable")

// StreamDecrypt is the acceptance model of the payload: it accepts exactly the
// canonical chunking (chunk k under counter k, all but the last full and
// unflagged, the last flagged and non-empty unless it is the only chunk, and
// nothing after it). It returns the plaintext released before a rejection,
// the number of chunks opened, and the verdict.
func StreamDecrypt(key, payload []byte) (pt []byte, chunks int, err error) {
	var ctr uint64
	for {
		if len(payload) == 0 {
			return pt, chunks, ErrStream // no final chunk
		}
		n := len(payload)
		if n > EncChunkSize {
			n = EncChunkSize
		}
		c := payload[:n]
		rest := payload[n:]
		if n < TagSize {
			return pt, chunks, ErrStream
		}
		if len(rest) > 0 {
			// a full-size chunk with data behind it: must be a middle chunk,
			// unless it is a final chunk followed by trailing garbage (reject).
			p, e := OpenChunk(key, ctr, false, c)
			if e != nil {
				if p2, e2 := OpenChunk(key, ctr, true, c); e2 == nil {
					// final chunk followed by trailing data
					return append(pt, p2...), chunks + 1, ErrStream
				}
				return pt, chunks, ErrStream
			}
			pt = append(pt, p...)
			chunks++
			ctr++
			payload = rest
			continue
		}
		// last piece of input
		p, e := OpenChunk(key, ctr, true, c)
		if e != nil {
			if p2, e2 := OpenChunk(key, ctr, false, c); e2 == nil && n == EncChunkSize {
				// a full middle chunk and then end of input: truncated
				return append(pt, p2...), chunks + 1, ErrStream
			}
			return pt, chunks, ErrStream
		}
		if len(p) == 0 && ctr != 0 {
			return pt, chunks, ErrStream // empty final chunk after other chunks
		}
		return append(pt, p...), chunks + 1, nil
	}
}

// Wrap/unwrap of the 16-byte file key under a one-time key with a zero nonce.
func aeadWrap(key, fileKey []byte) []byte {
	a, err := chacha20poly1305.New(key)
	if err != nil {
		panic(err)
	}
	return a.Seal(nil, make([]byte, 12), fileKey, nil)
}

func aeadUnwrap(key, body []byte) ([]byte, error) {
	a, err := chacha20poly1305.New(key)
	if err != nil {
		panic(err)
	}
	return a.Open(nil, make([]byte, 12), body, nil)
}
