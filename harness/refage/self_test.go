package refage

import "testing"

func TestSelfCheck(t *testing.T) {
	n, err := SelfCheck()
	if err != nil {
		t.Fatal(err)
	}
	t.Logf("%d vectors", n)
}
