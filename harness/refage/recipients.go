package refage

import (
	"crypto/ecdh"
	"crypto/rsa"
	"crypto/sha256"
	"crypto/sha512"
	"encoding/binary"
	"errors"
	"io"
	"math/big"
	"strconv"

	"golang.org/x/crypto/scrypt"
)

var ErrNoMatch = errors.New("refage: stanza not for this key")

var basepoint = func() []byte { b := make([]byte, 32); b[0] = 9; return b }()

// X25519 computes scalar*point through crypto/ecdh.
func X25519(scalar, point []byte) ([]byte, error) {
	priv, err := ecdh.X25519().NewPrivateKey(scalar)
	if err != nil {
		return nil, err
	}
	pub, err := ecdh.X25519().NewPublicKey(point)
	if err != nil {
		return nil, err
	}
	return priv.ECDH(pub)
}

func X25519Public(scalar []byte) []byte {
	p, err := X25519(scalar, basepoint)
	if err != nil {
		panic(err)
	}
	return p
}

// ---- native X25519 recipient ---------------------------------------------

const x25519Info = "age-encryption.org/v1/X25519"

// X25519WrapKey is the one-time key under which the file key is sealed.
func X25519WrapKey(recipient, ephemeral []byte) ([]byte, error) {
	share := X25519Public(ephemeral)
	shared, err := X25519(ephemeral, recipient)
	if err != nil {
		return nil, err
	}
	salt := append(append([]byte{}, share...), recipient...)
	return HKDF(shared, salt, []byte(x25519Info), 32), nil
}

func X25519Wrap(fileKey, recipient, ephemeral []byte) (Stanza, error) {
	wk, err := X25519WrapKey(recipient, ephemeral)
	if err != nil {
		return Stanza{}, err
	}
	return Stanza{Type: "X25519", Args: []string{B64(X25519Public(ephemeral))}, Body: aeadWrap(wk, fileKey)}, nil
}

func X25519Unwrap(s Stanza, secret []byte) ([]byte, error) {
	if s.Type != "X25519" {
		return nil, ErrNoMatch
	}
	if len(s.Args) != 1 {
		return nil, errors.New("refage: X25519 stanza arguments")
	}
	share, err := UnB64(s.Args[0])
	if err != nil || len(share) != 32 {
		return nil, errors.New("refage: X25519 share")
	}
	if len(s.Body) != 32 {
		return nil, errors.New("refage: X25519 body size")
	}
	shared, err := X25519(secret, share)
	if err != nil {
		return nil, err
	}
	salt := append(append([]byte{}, share...), X25519Public(secret)...)
	wk := HKDF(shared, salt, []byte(x25519Info), 32)
	fk, err := aeadUnwrap(wk, s.Body)
	if err != nil {
		return nil, ErrNoMatch
	}
	return fk, nil
}

// ---- scrypt ---------------------------------------------------------------

const scryptInfo = "age-encryption.org/v1/scrypt"

func ScryptWrap(fileKey []byte, pass string, salt []byte, logN int) Stanza {
	return ScryptWrapArg(fileKey, pass, salt, logN, strconv.Itoa(logN))
}

// ScryptWrapArg seals at work factor logN but writes wfArg as the stanza's
// work-factor argument (for malformed-argument cases).
// ScryptWrapKey is the key derived from the passphrase and salt.
func ScryptWrapKey(pass string, salt []byte, logN int) []byte {
	k, err := scrypt.Key([]byte(pass), append([]byte(scryptInfo), salt...), 1<<uint(logN), 8, 1, 32)
	if err != nil {
		panic(err)
	}
	return k
}

func ScryptWrapArg(fileKey []byte, pass string, salt []byte, logN int, wfArg string) Stanza {
	k := ScryptWrapKey(pass, salt, logN)
	return Stanza{Type: "scrypt", Args: []string{B64(salt), wfArg}, Body: aeadWrap(k, fileKey)}
}

// CanonicalWorkFactor parses a canonical positive decimal.
func CanonicalWorkFactor(s string) (int, bool) {
	if s == "" || s[0] < '1' || s[0] > '9' || len(s) > 9 {
		return 0, false
	}
	n := 0
	for i := 0; i < len(s); i++ {
		if s[i] < '0' || s[i] > '9' {
			return 0, false
		}
		n = n*10 + int(s[i]-'0')
	}
	return n, true
}

func ScryptUnwrap(s Stanza, pass string, maxLogN int) ([]byte, error) {
	if s.Type != "scrypt" {
		return nil, ErrNoMatch
	}
	if len(s.Args) != 2 {
		return nil, errors.New("refage: scrypt stanza arguments")
	}
	salt, err := UnB64(s.Args[0])
	if err != nil || len(salt) != 16 {
		return nil, errors.New("refage: scrypt salt")
	}
	logN, ok := CanonicalWorkFactor(s.Args[1])
	if !ok || logN > maxLogN {
		return nil, errors.New("refage: scrypt work factor")
	}
	if len(s.Body) != 32 {
		return nil, errors.New("refage: scrypt body size")
	}
	k, err := scrypt.Key([]byte(pass), append([]byte(scryptInfo), salt...), 1<<uint(logN), 8, 1, 32)
	if err != nil {
		return nil, err
	}
	fk, err := aeadUnwrap(k, s.Body)
	if err != nil {
		return nil, ErrNoMatch
	}
	return fk, nil
}

// ---- SSH wire encoding ------------------------------------------------------

func sshString(b []byte) []byte {
	out := make([]byte, 4, 4+len(b))
	binary.BigEndian.PutUint32(out, uint32(len(b)))
	return append(out, b...)
}

func sshMpint(n *big.Int) []byte {
	b := n.Bytes()
	if len(b) > 0 && b[0]&0x80 != 0 {
		b = append([]byte{0}, b...)
	}
	return sshString(b)
}

// SSHEd25519Wire is the SSH wire encoding of an Ed25519 public key.
func SSHEd25519Wire(pub []byte) []byte {
	return append(sshString([]byte("ssh-ed25519")), sshString(pub)...)
}

// SSHRSAWire is the SSH wire encoding of an RSA public key.
func SSHRSAWire(pub *rsa.PublicKey) []byte {
	out := sshString([]byte("ssh-rsa"))
	out = append(out, sshMpint(big.NewInt(int64(pub.E)))...)
	return append(out, sshMpint(pub.N)...)
}

// SSHTag is the stanza's key tag: first 4 bytes of SHA-256 of the wire form.
func SSHTag(wire []byte) string {
	h := sha256.Sum256(wire)
	return B64(h[:4])
}

// ---- ssh-ed25519 ------------------------------------------------------------

const sshEd25519Info = "age-encryption.org/v1/ssh-ed25519"

var p25519 = func() *big.Int {
	p := new(big.Int).Lsh(big.NewInt(1), 255)
	return p.Sub(p, big.NewInt(19))
}()

// EdToMontgomery maps an Ed25519 public key to its X25519 u-coordinate:
// u = (1+y)/(1-y) mod p.
func EdToMontgomery(edPub []byte) []byte {
	le := append([]byte{}, edPub...)
	le[31] &= 0x7f
	be := make([]byte, 32)
	for i := range le {
		be[31-i] = le[i]
	}
	y := new(big.Int).SetBytes(be)
	num := new(big.Int).Add(big.NewInt(1), y)
	den := new(big.Int).Sub(big.NewInt(1), y)
	den.Mod(den, p25519)
	den.ModInverse(den, p25519)
	u := num.Mul(num, den)
	u.Mod(u, p25519)
	ub := u.FillBytes(make([]byte, 32))
	out := make([]byte, 32)
	for i := range ub {
		out[31-i] = ub[i]
	}
	return out
}

// EdSeedToScalar derives the X25519 scalar from an Ed25519 seed.
func EdSeedToScalar(seed []byte) []byte {
	h := sha512.Sum512(seed)
	return h[:32]
}

// SSHEd25519WrapKey is the one-time key under which the file key is sealed.
func SSHEd25519WrapKey(edPub, ephemeral []byte) ([]byte, error) {
	wire := SSHEd25519Wire(edPub)
	mont := EdToMontgomery(edPub)
	share := X25519Public(ephemeral)
	shared, err := X25519(ephemeral, mont)
	if err != nil {
		return nil, err
	}
	tweak := HKDF(nil, wire, []byte(sshEd25519Info), 32)
	shared, err = X25519(tweak, shared)
	if err != nil {
		return nil, err
	}
	salt := append(append([]byte{}, share...), mont...)
	return HKDF(shared, salt, []byte(sshEd25519Info), 32), nil
}

func SSHEd25519Wrap(fileKey, edPub, ephemeral []byte) (Stanza, error) {
	wk, err := SSHEd25519WrapKey(edPub, ephemeral)
	if err != nil {
		return Stanza{}, err
	}
	return Stanza{Type: "ssh-ed25519", Args: []string{SSHTag(SSHEd25519Wire(edPub)), B64(X25519Public(ephemeral))}, Body: aeadWrap(wk, fileKey)}, nil
}

func SSHEd25519Unwrap(s Stanza, seed, edPub []byte) ([]byte, error) {
	if s.Type != "ssh-ed25519" {
		return nil, ErrNoMatch
	}
	if len(s.Args) != 2 {
		return nil, errors.New("refage: ssh-ed25519 stanza arguments")
	}
	wire := SSHEd25519Wire(edPub)
	if s.Args[0] != SSHTag(wire) {
		return nil, ErrNoMatch
	}
	share, err := UnB64(s.Args[1])
	if err != nil || len(share) != 32 {
		return nil, errors.New("refage: ssh-ed25519 share")
	}
	scalar := EdSeedToScalar(seed)
	shared, err := X25519(scalar, share)
	if err != nil {
		return nil, err
	}
	tweak := HKDF(nil, wire, []byte(sshEd25519Info), 32)
	shared, err = X25519(tweak, shared)
	if err != nil {
		return nil, err
	}
	salt := append(append([]byte{}, share...), X25519Public(scalar)...)
	wk := HKDF(shared, salt, []byte(sshEd25519Info), 32)
	fk, err := aeadUnwrap(wk, s.Body)
	if err != nil {
		return nil, errors.New("refage: ssh-ed25519 body does not open")
	}
	return fk, nil
}

// ---- ssh-rsa ----------------------------------------------------------------

const sshRSAInfo = "age-encryption.org/v1/ssh-rsa"

func SSHRSAWrap(fileKey []byte, pub *rsa.PublicKey, rnd io.Reader) (Stanza, error) {
	body, err := rsa.EncryptOAEP(sha256.New(), rnd, pub, fileKey, []byte(sshRSAInfo))
	if err != nil {
		return Stanza{}, err
	}
	return Stanza{Type: "ssh-rsa", Args: []string{SSHTag(SSHRSAWire(pub))}, Body: body}, nil
}

func SSHRSAUnwrap(s Stanza, priv *rsa.PrivateKey) ([]byte, error) {
	if s.Type != "ssh-rsa" {
		return nil, ErrNoMatch
	}
	if len(s.Args) != 1 {
		return nil, errors.New("refage: ssh-rsa stanza arguments")
	}
	if s.Args[0] != SSHTag(SSHRSAWire(&priv.PublicKey)) {
		return nil, ErrNoMatch
	}
	return rsa.DecryptOAEP(sha256.New(), nil, priv, s.Body, []byte(sshRSAInfo))
}
