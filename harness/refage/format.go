// Package refage is an independent executable model of the age v1 format,
// written from the specification (age-encryption.org/v1, C2SP age.md) and the
// published ssh-* recipient constructions. It shares no code with the
// repository under test: own header grammar, own HKDF, X25519 through
// crypto/ecdh, Edwards->Montgomery through math/big, hand-written SSH wire
// encoding and Bech32.
package refage

import (
	"bytes"
	"errors"
	"fmt"
)

const Intro = "age-encryption.org/v1\n"

type Stanza struct {
	Type string
	Args []string
	Body []byte
}

type Header struct {
	Stanzas []Stanza
	MAC     []byte
}

const b64chars = "ABCDEFGHIJKLMNOPQRSTUVWXYZabcdefghijklmnopqrstuvwxyz0123456789+/"

var b64rev = func() [256]int8 {
	var t [256]int8
	for i := range t {
		t[i] = -1
	}
	for i := 0; i < 64; i++ {
		t[b64chars[i]] = int8(i)
	}
	return t
}()

// B64 is canonical unpadded standard base64.
func B64(b []byte) string {
	var out []byte
	for i := 0; i+3 <= len(b); i += 3 {
		v := uint(b[i])<<16 | uint(b[i+1])<<8 | uint(b[i+2])
		out = append(out, b64chars[v>>18&63], b64chars[v>>12&63], b64chars[v>>6&63], b64chars[v&63])
	}
	switch len(b) % 3 {
	case 1:
		v := uint(b[len(b)-1]) << 16
		out = append(out, b64chars[v>>18&63], b64chars[v>>12&63])
	case 2:
		v := uint(b[len(b)-2])<<16 | uint(b[len(b)-1])<<8
		out = append(out, b64chars[v>>18&63], b64chars[v>>12&63], b64chars[v>>6&63])
	}
	return string(out)
}

// B64Padded is standard padded base64 (used by the armor).
func B64Padded(b []byte) string {
	s := B64(b)
	for len(s)%4 != 0 {
		s += "="
	}
	return s
}

// UnB64 decodes canonical unpadded base64; anything else is an error.
func UnB64(s string) ([]byte, error) {
	if len(s)%4 == 1 {
		return nil, errors.New("base64: impossible length")
	}
	var out []byte
	var acc uint
	bits := 0
	for i := 0; i < len(s); i++ {
		v := b64rev[s[i]]
		if v < 0 {
			return nil, fmt.Errorf("base64: invalid character %q", s[i])
		}
		acc = acc<<6 | uint(v)
		bits += 6
		if bits >= 8 {
			bits -= 8
			out = append(out, byte(acc>>uint(bits)))
			acc &= 1<<uint(bits) - 1
		}
	}
	if acc != 0 {
		return nil, errors.New("base64: non-canonical trailing bits")
	}
	return out, nil
}

// UnB64Padded decodes canonical padded base64 of one armor line.
func UnB64Padded(s string) ([]byte, error) {
	if len(s)%4 != 0 {
		return nil, errors.New("base64: length not a multiple of 4")
	}
	n := len(s)
	pad := 0
	for n > 0 && s[n-1] == '=' && pad < 2 {
		n--
		pad++
	}
	if bytes.ContainsRune([]byte(s[:n]), '=') {
		return nil, errors.New("base64: misplaced padding")
	}
	b, err := UnB64(s[:n])
	if err != nil {
		return nil, err
	}
	if (3-len(b)%3)%3 != pad {
		return nil, errors.New("base64: wrong padding")
	}
	return b, nil
}

// WrapBody returns the body lines of a stanza: 64 columns per line, the last
// line always shorter than 64 columns (possibly empty).
func WrapBody(body []byte) string {
	s := B64(body)
	var out bytes.Buffer
	for len(s) >= 64 {
		out.WriteString(s[:64])
		out.WriteByte('\n')
		s = s[64:]
	}
	out.WriteString(s)
	out.WriteByte('\n')
	return out.String()
}

func (s Stanza) Encode() []byte {
	var out bytes.Buffer
	out.WriteString("-> ")
	out.WriteString(s.Type)
	for _, a := range s.Args {
		out.WriteByte(' ')
		out.WriteString(a)
	}
	out.WriteByte('\n')
	out.WriteString(WrapBody(s.Body))
	return out.Bytes()
}

// EncodeNoMAC is the header up to and including "---" (the MAC input).
func EncodeNoMAC(stanzas []Stanza) []byte {
	var out bytes.Buffer
	out.WriteString(Intro)
	for _, s := range stanzas {
		out.Write(s.Encode())
	}
	out.WriteString("---")
	return out.Bytes()
}

func (h *Header) Encode() []byte {
	out := EncodeNoMAC(h.Stanzas)
	out = append(out, ' ')
	out = append(out, B64(h.MAC)...)
	out = append(out, '\n')
	return out
}

func vchars(s string) bool {
	if s == "" {
		return false
	}
	for i := 0; i < len(s); i++ {
		if s[i] < 33 || s[i] > 126 {
			return false
		}
	}
	return true
}

// WellFormed reports whether h is a header the format can express.
func (h *Header) WellFormed() bool {
	if len(h.MAC) != 32 {
		return false
	}
	for _, s := range h.Stanzas {
		if !vchars(s.Type) {
			return false
		}
		for _, a := range s.Args {
			if !vchars(a) {
				return false
			}
		}
	}
	return true
}

// ParseHeader is the strict parser: it accepts exactly the byte strings that
// Header.Encode can produce for a well-formed header and returns the unread
// remainder.
func ParseHeader(data []byte) (*Header, []byte, error) {
	line := func() (string, error) {
		i := bytes.IndexByte(data, '\n')
		if i < 0 {
			return "", errors.New("header: unterminated line")
		}
		l := string(data[:i])
		data = data[i+1:]
		return l, nil
	}
	l, err := line()
	if err != nil {
		return nil, nil, err
	}
	if l+"\n" != Intro {
		return nil, nil, errors.New("header: bad intro")
	}
	h := &Header{}
	for {
		l, err := line()
		if err != nil {
			return nil, nil, err
		}
		if len(l) >= 3 && l[:3] == "---" {
			if len(l) < 5 || l[3] != ' ' {
				return nil, nil, errors.New("header: bad footer")
			}
			mac, err := UnB64(l[4:])
			if err != nil || len(mac) != 32 {
				return nil, nil, errors.New("header: bad MAC")
			}
			h.MAC = mac
			return h, data, nil
		}
		if len(l) < 3 || l[:3] != "-> " {
			return nil, nil, errors.New("header: expected stanza")
		}
		parts := splitSpaces(l[3:])
		for _, p := range parts {
			if !vchars(p) {
				return nil, nil, errors.New("header: bad argument")
			}
		}
		s := Stanza{Type: parts[0], Args: parts[1:]}
		if len(s.Args) == 0 {
			s.Args = nil
		}
		for {
			bl, err := line()
			if err != nil {
				return nil, nil, err
			}
			if len(bl) > 64 {
				return nil, nil, errors.New("header: body line too long")
			}
			b, err := UnB64(bl)
			if err != nil {
				return nil, nil, err
			}
			s.Body = append(s.Body, b...)
			if len(bl) < 64 {
				break
			}
		}
		h.Stanzas = append(h.Stanzas, s)
	}
}

func splitSpaces(s string) []string {
	var out []string
	cur := ""
	for i := 0; i < len(s); i++ {
		if s[i] == ' ' {
			out = append(out, cur)
			cur = ""
		} else {
			cur += string(s[i])
		}
	}
	return append(out, cur)
}

// ParseStanza strictly parses one canonical stanza from the front of data and
// returns the unread remainder.
func ParseStanza(data []byte) (Stanza, []byte, error) {
	line := func() (string, error) {
		i := bytes.IndexByte(data, '\n')
		if i < 0 {
			return "", errors.New("stanza: unterminated line")
		}
		l := string(data[:i])
		data = data[i+1:]
		return l, nil
	}
	l, err := line()
	if err != nil {
		return Stanza{}, nil, err
	}
	if len(l) < 3 || l[:3] != "-> " {
		return Stanza{}, nil, errors.New("stanza: expected '-> '")
	}
	parts := splitSpaces(l[3:])
	for _, p := range parts {
		if !vchars(p) {
			return Stanza{}, nil, errors.New("stanza: bad argument")
		}
	}
	s := Stanza{Type: parts[0]}
	if len(parts) > 1 {
		s.Args = parts[1:]
	}
	for {
		bl, err := line()
		if err != nil {
			return Stanza{}, nil, err
		}
		if len(bl) > 64 {
			return Stanza{}, nil, errors.New("stanza: body line too long")
		}
		b, err := UnB64(bl)
		if err != nil {
			return Stanza{}, nil, err
		}
		s.Body = append(s.Body, b...)
		if len(bl) < 64 {
			return s, data, nil
		}
	}
}

// ParseStanzas parses a whole byte string as a sequence of canonical stanzas.
func ParseStanzas(data []byte) ([]Stanza, error) {
	var out []Stanza
	for len(data) > 0 {
		s, rest, err := ParseStanza(data)
		if err != nil {
			return out, fmt.Errorf("after %d stanzas: %w", len(out), err)
		}
		out = append(out, s)
		data = rest
	}
	return out, nil
}
