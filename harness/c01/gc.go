package main

import (
	"bytes"
	"crypto/ed25519"
	"fmt"
	"runtime"
	"time"

	"filippo.io/age"
	"filippo.io/age/agessh"
	"filippo.io/age/zverif/ax"
	"filippo.io/age/zverif/keys"
	"filippo.io/age/zverif/mon"
	"golang.org/x/crypto/ssh"
)

// collect forces garbage collections and gives finalizers time to run.
func collect() {
	for i := 0; i < 3; i++ {
		runtime.GC()
		runtime.Gosched()
		time.Sleep(2 * time.Millisecond)
	}
}

// derivedValuesStage: values derived from other values (a recipient from an
// identity, a copy of an identity, an identity parsed from a string that is
// then dropped) must keep working when what they were derived from has become
// garbage and the collector has run — and so must values that stay alive
// across collections between their construction and their uses.
func derivedValuesStage(r *mon.Run) {
	type derived struct {
		name string
		make func(i int) (rcpt age.Recipient, reopen func() age.Identity)
	}
	sshPair := func(fixture string, rsa bool) func(int) (age.Recipient, func() age.Identity) {
		return func(int) (age.Recipient, func() age.Identity) {
			pemBytes := keys.Data(fixture)
			id, err := agessh.ParseIdentity(pemBytes)
			if err != nil {
				panic(err)
			}
			var rc age.Recipient
			switch v := id.(type) {
			case *agessh.Ed25519Identity:
				rc = v.Recipient()
			case *agessh.RSAIdentity:
				rc = v.Recipient()
			}
			return rc, func() age.Identity {
				i2, err := agessh.ParseIdentity(pemBytes)
				if err != nil {
					panic(err)
				}
				return i2
			}
		}
	}
	kinds := []derived{
		{"x25519: recipient from a generated identity that is dropped", func(int) (age.Recipient, func() age.Identity) {
			id, err := age.GenerateX25519Identity()
			if err != nil {
				panic(err)
			}
			s := id.String()
			return id.Recipient(), func() age.Identity {
				i2, err := age.ParseX25519Identity(s)
				if err != nil {
					panic(err)
				}
				return i2
			}
		}},
		{"x25519: recipient from a parsed identity that is dropped", func(i int) (age.Recipient, func() age.Identity) {
			x := keys.NewX(fmt.Sprintf("gc-%d", i))
			return x.Identity().Recipient(), func() age.Identity { return x.Identity() }
		}},
		{"x25519: copy of an identity whose original is dropped", func(i int) (age.Recipient, func() age.Identity) {
			x := keys.NewX(fmt.Sprintf("gc-copy-%d", i))
			orig := x.Identity()
			cp := *orig
			return x.Recipient(), func() age.Identity { return &cp }
		}},
		{"x25519: identity from ParseIdentities, list dropped", func(i int) (age.Recipient, func() age.Identity) {
			x := keys.NewX(fmt.Sprintf("gc-list-%d", i))
			ids, err := age.ParseIdentities(bytes.NewReader([]byte("# k\n" + x.SecretStr + "\n")))
			if err != nil {
				panic(err)
			}
			one := ids[0]
			return x.Recipient(), func() age.Identity { return one }
		}},
		{"ssh-ed25519: recipient from an identity that is dropped", sshPair("ed1", false)},
		{"ssh-rsa: recipient from an identity that is dropped", sshPair("rsa1", true)},
	}
	for ki, k := range kinds {
		for rep := 0; rep < r.Pick(6, 40); rep++ {
			rc, reopen := k.make(rep)
			if rc == nil {
				r.Inconclusive("%s: could not derive a recipient", k.name)
				continue
			}
			collect()
			pt := mon.DetBytes(fmt.Sprintf("c01-gc-%d-%d", ki, rep), 100+rep*7000)
			file, err := ax.Encrypt(pt, rep%2 == 0, rc)
			collect()
			r.Eval(1)
			desc := fmt.Sprintf("derived value after collection: %s (rep %d)", k.name, rep)
			r.Distinct(desc)
			replay := map[string]any{"kind": k.name, "rep": rep}
			if err != nil {
				r.Violate("encrypt-refused:derived-value-after-gc:"+k.name, fmt.Sprintf("%s: Encrypt to a listed recipient failed: %v", desc, err), replay)
				continue
			}
			id := reopen()
			collect()
			res := ax.Decrypt(bytes.NewReader(file), rep%2 == 0, 0, id)
			if !res.Clean() || !bytes.Equal(res.Plain, pt) {
				r.Violate("decrypt-failed:derived-value-after-gc:"+k.name, fmt.Sprintf("%s: the listed recipient cannot open the file: %s", desc, res), replay)
				continue
			}
			r.Count("derived_values_used_after_collections", 1)
		}
	}
	// the caller owns its arguments: after a constructor has returned the
	// caller may wipe or reuse the buffers it passed
	ownershipStage(r)
	// collections in the middle of an operation: the destination (and the
	// source) run the collector and finalizers inside their first calls
	for rep := 0; rep < r.Pick(24, 120); rep++ {
		names := [][]string{{"X1"}, {"E1", "X2"}, {"R1"}, {"S1"}, {"G1"}, {"X3", "U1", "E2"}}[rep%6]
		parties := keys.Ps(names...)
		pt := mon.DetBytes(fmt.Sprintf("c01-gc-mid-%d", rep), []int{0, 50, 65536, 70000}[rep%4])
		var buf bytes.Buffer
		gw := &gcWriter{w: &buf}
		err := func() error {
			w, err := age.Encrypt(gw, keys.Recipients(parties)...)
			if err != nil {
				return err
			}
			collect()
			if _, err := w.Write(pt); err != nil {
				return err
			}
			collect()
			return w.Close()
		}()
		r.Eval(1)
		desc := fmt.Sprintf("collections during encryption: list=%v len=%d", names, len(pt))
		r.Distinct(desc)
		if err != nil {
			r.Violate("encrypt-refused:gc-during-encryption", fmt.Sprintf("%s: %v", desc, err), map[string]any{"list": names})
			continue
		}
		for _, p := range keys.Flatten(parties) {
			if p.Identity == nil {
				continue
			}
			res := ax.Decrypt(&gcReader{r: bytes.NewReader(buf.Bytes())}, false, 0, p.Identity)
			if !res.Clean() || !bytes.Equal(res.Plain, pt) {
				r.Violate("decrypt-failed:gc-during-operation:"+string(p.Kind), fmt.Sprintf("%s: %s cannot open the file: %s", desc, p.Name, res), map[string]any{"list": names, "identity": p.Name})
				continue
			}
			r.Count("files_written_and_read_with_collections_in_between", 1)
		}
	}
	if r.Counter("derived_values_used_after_collections") == 0 {
		r.Inconclusive("no derived value was used after a garbage collection")
	}
}

// gcWriter / gcReader run the collector inside their first three calls.
type gcWriter struct {
	w interface{ Write([]byte) (int, error) }
	n int
}

func (g *gcWriter) Write(p []byte) (int, error) {
	if g.n < 3 {
		collect()
	}
	g.n++
	return g.w.Write(p)
}

type gcReader struct {
	r interface{ Read([]byte) (int, error) }
	n int
}

func (g *gcReader) Read(p []byte) (int, error) {
	if g.n < 3 {
		collect()
	}
	g.n++
	return g.r.Read(p)
}

// ownershipStage: byte buffers handed to a constructor or parser are wiped
// (or reused for another key) right after the call returns, before the value
// is first used.
func ownershipStage(r *mon.Run) {
	type made struct {
		name string
		make func() (id age.Identity, rc age.Recipient, wipe func())
	}
	edKey := func(fixture string) ed25519.PrivateKey {
		k, err := ssh.ParseRawPrivateKey(keys.Data(fixture))
		if err != nil {
			panic(err)
		}
		return append(ed25519.PrivateKey(nil), *k.(*ed25519.PrivateKey)...)
	}
	zero := func(b []byte) func() {
		return func() {
			for i := range b {
				b[i] = 0
			}
		}
	}
	kinds := []made{
		{"agessh.NewEd25519Identity(key), key wiped", func() (age.Identity, age.Recipient, func()) {
			k := edKey("ed1")
			id, err := agessh.NewEd25519Identity(k)
			if err != nil {
				panic(err)
			}
			return id, keys.P("E1").Recipient, zero(k)
		}},
		{"agessh.NewEd25519Identity(key), buffer reused for another key", func() (age.Identity, age.Recipient, func()) {
			k := edKey("ed1")
			id, err := agessh.NewEd25519Identity(k)
			if err != nil {
				panic(err)
			}
			return id, keys.P("E1").Recipient, func() { copy(k, edKey("ed2")) }
		}},
		{"agessh.NewEd25519Identity(key).Recipient() after the key was wiped", func() (age.Identity, age.Recipient, func()) {
			k := edKey("ed2")
			id, err := agessh.NewEd25519Identity(k)
			if err != nil {
				panic(err)
			}
			zero(k)()
			return keys.P("E2").Identity, id.Recipient(), func() {}
		}},
		{"agessh.ParseIdentity(pem), pem wiped", func() (age.Identity, age.Recipient, func()) {
			b := append([]byte(nil), keys.Data("ed3")...)
			id, err := agessh.ParseIdentity(b)
			if err != nil {
				panic(err)
			}
			return id, keys.P("E3").Recipient, zero(b)
		}},
		{"agessh.ParseIdentity(rsa pem), pem wiped", func() (age.Identity, age.Recipient, func()) {
			b := append([]byte(nil), keys.Data("rsa2")...)
			id, err := agessh.ParseIdentity(b)
			if err != nil {
				panic(err)
			}
			return id, keys.P("R2").Recipient, zero(b)
		}},
		{"agessh.ParseRecipient(line) from a buffer that is wiped", func() (age.Identity, age.Recipient, func()) {
			b := append([]byte(nil), keys.Data("ed1.pub")...)
			rc, err := agessh.ParseRecipient(string(b))
			if err != nil {
				panic(err)
			}
			return keys.P("E1").Identity, rc, zero(b)
		}},
		{"age.ParseIdentities(reader over a buffer), buffer wiped", func() (age.Identity, age.Recipient, func()) {
			x := keys.NewX("own-1")
			b := []byte("# key\n" + x.SecretStr + "\n")
			ids, err := age.ParseIdentities(bytes.NewReader(b))
			if err != nil {
				panic(err)
			}
			return ids[0], x.Recipient(), zero(b)
		}},
		{"age.ParseRecipients(reader over a buffer), buffer wiped", func() (age.Identity, age.Recipient, func()) {
			x := keys.NewX("own-2")
			b := []byte(x.PublicStr + "\n")
			rcs, err := age.ParseRecipients(bytes.NewReader(b))
			if err != nil {
				panic(err)
			}
			return x.Identity(), rcs[0], zero(b)
		}},
		// (agessh.NewEncryptedSSHIdentity is lazy by design: it keeps the encrypted
		// key bytes it was given until a stanza matches, so wiping them is not in
		// this list)
	}
	for ki, k := range kinds {
		for rep := 0; rep < 2; rep++ {
			id, rc, wipe := k.make()
			wipe()
			collect()
			pt := mon.DetBytes(fmt.Sprintf("c01-own-%d-%d", ki, rep), 300+rep*70000)
			file, err := ax.Encrypt(pt, rep == 1, rc)
			r.Eval(1)
			desc := "argument ownership: " + k.name
			r.Distinct(fmt.Sprintf("%s rep=%d", desc, rep))
			if err != nil {
				r.Violate("encrypt-refused:argument-wiped-after-construction", fmt.Sprintf("%s: %v", desc, err), map[string]any{"kind": k.name})
				continue
			}
			res := ax.Decrypt(bytes.NewReader(file), rep == 1, 0, id)
			if !res.Clean() || !bytes.Equal(res.Plain, pt) {
				r.Violate("decrypt-failed:argument-wiped-after-construction", fmt.Sprintf("%s: the listed recipient cannot open the file: %s", desc, res), map[string]any{"kind": k.name})
				continue
			}
			r.Count("values_used_after_their_arguments_were_wiped", 1)
		}
	}
	if r.Counter("values_used_after_their_arguments_were_wiped") == 0 {
		r.Inconclusive("no value was used after its constructor's argument had been wiped")
	}
}
