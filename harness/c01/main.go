// C01 — every listed recipient decrypts to the exact plaintext.
//
// Monitor: round-trip oracle (inverse) + identity-consultation recorder over
// recipient lists x plaintext lengths x armor x identity lists with the
// matching identity at every position among non-matching ones.
package main

import (
	"bytes"
	"fmt"
	"math/rand"

	"filippo.io/age"
	"filippo.io/age/zverif/ax"
	"filippo.io/age/zverif/keys"
	"filippo.io/age/zverif/mon"
)

type encCase struct {
	list    []string
	length  int
	armored bool
	via     string // "" = rotate with the case index
}

var boundary = []int{0, 1, 2, 65535, 65536, 65537, 131071, 131072, 131073, 196608, 196609}

func main() {
	r := mon.Start("C01", "exploration")
	r.Rule = "case = (recipient list, plaintext length, armor, matching identity, its position, filler identities); " +
		"non-trivial = a full Encrypt/Close/Decrypt/ReadAll round trip whose identity-consultation log was checked; " +
		"distinct by that tuple"
	r.Assumptions = []string{
		"plaintext lengths up to 300 chunks; lists up to 100 recipients (300 in thorough)",
		"scrypt work factor 4 for passphrase parties (cost only)",
		"RSA test keys are 2048 and 3072 bits",
	}
	r.MinEvals, r.MinDistinct = 200, 100

	alphabet := []string{"X1", "X2", "E1", "E2", "R1", "U1"}
	var lists [][]string
	for _, a := range alphabet {
		lists = append(lists, []string{a})
	}
	for _, a := range alphabet {
		for _, b := range alphabet {
			lists = append(lists, []string{a, b})
		}
	}
	var triples [][]string
	for _, a := range alphabet {
		for _, b := range alphabet {
			for _, c := range alphabet {
				triples = append(triples, []string{a, b, c})
			}
		}
	}
	rng := r.RNG("lists")
	if r.Thorough() {
		lists = append(lists, triples...)
	} else {
		rng.Shuffle(len(triples), func(i, j int) { triples[i], triples[j] = triples[j], triples[i] })
		lists = append(lists, triples[:40]...)
	}
	lists = append(lists, []string{"S1"}, []string{"S2"}, []string{"U4", "X1"}, []string{"E1", "U4", "R4"}, []string{"R5"}, []string{"R6"}, []string{"X2", "R5", "R6"},
		[]string{"G1"}, []string{"G2"}, []string{"X4", "G1"}, []string{"G1", "E2"}, []string{"G2", "G1"}, []string{"U1", "G1", "U0"},
		// key values of special shape (EZ: Ed25519 keys whose Montgomery u has
		// zero top bytes) and passphrase-protected SSH keys that are locked at
		// every use (PE1, PR1), alone and behind foreign stanzas without arguments
		[]string{"EZ1"}, []string{"EZ2"}, []string{"X1", "EZ1"}, []string{"EZ2", "U0", "E1"},
		[]string{"PE1"}, []string{"PR1"}, []string{"U0", "PE1"}, []string{"U0", "PR1"}, []string{"X1", "U0", "U1", "PE1", "PR1"}, []string{"PE1", "U0"},
		[]string{"R7"}, []string{"R8"}, []string{"X1", "R7", "R8"},
		// two different Ed25519 keys whose 32-bit recipient tags are equal
		[]string{"EC1"}, []string{"EC2"}, []string{"EC1", "EC2"}, []string{"EC2", "EC1"}, []string{"X1", "EC1", "U1", "EC2"},
		// a recipient parsed from a valid but non-canonical key line
		[]string{"RN1"}, []string{"X2", "RN1"})
	full := []string{"X1", "X2", "X3", "E1", "E2", "R1", "R2", "R3", "R4", "R5", "R6", "R7", "R8", "U0", "U1", "U2", "U3", "U4", "A1", "A2", "A3", "EZ1", "EZ2", "EC1", "EC2", "PE1", "PR1"}
	for i := 0; i < r.Pick(12, 60); i++ {
		n := 4 + rng.Intn(5)
		l := make([]string, n)
		for j := range l {
			l[j] = full[rng.Intn(len(full))]
		}
		lists = append(lists, l)
	}

	// very long lists: sizes around multiples of 8, 16, 32 and beyond one
	// byte's worth of stanzas; mostly native parties made on demand, with a
	// few of the other kinds dropped in at seeded places
	manySizes := []int{15, 16, 17, 31, 33, 40, 65, 100}
	if r.Thorough() {
		manySizes = append(manySizes, 9, 32, 47, 48, 49, 63, 64, 127, 128, 129, 255, 256, 257, 300)
	}
	var many [][]string
	for si, n := range manySizes {
		l := make([]string, n)
		for j := range l {
			l[j] = fmt.Sprintf("XN%d", j)
		}
		if si%2 == 1 {
			for _, o := range []string{"E1", "R1", "U1", "E2", "U4"} {
				l[rng.Intn(n)] = o
			}
		}
		many = append(many, l)
	}
	lists = append(lists, many...)

	var cases []encCase
	for li, l := range lists {
		var lens []int
		if r.Thorough() {
			lens = append(lens, boundary...)
			lens = append(lens, 3+rng.Intn(60000), 65536+rng.Intn(65536))
		} else {
			lens = []int{boundary[li%3], boundary[3+li%8], 3 + rng.Intn(300)}
		}
		if len(l) > 8 {
			lens = []int{3 + rng.Intn(300), boundary[3+li%8]}
		}
		for _, n := range lens {
			cases = append(cases, encCase{list: l, length: n})
			if r.Thorough() || (li+n)%2 == 0 {
				cases = append(cases, encCase{list: l, length: n, armored: true})
			}
		}
	}
	// every hand-over mode at every chunk-boundary length
	for _, l := range [][]string{{"X1"}, {"E1"}, {"X2", "R1"}} {
		for _, n := range []int{0, 1, 65535, 65536, 65537, 131072, 150001, 196608} {
			for _, via := range ax.Vias {
				for _, arm := range []bool{false, true} {
					cases = append(cases, encCase{list: l, length: n, armored: arm, via: via})
				}
			}
		}
	}
	// take the chunk counter past one byte: a 300-chunk file, binary and armored
	cases = append(cases, encCase{list: []string{"X1"}, length: 300 * 65536}, encCase{list: []string{"X2", "E1"}, length: 299*65536 + 1, armored: true})

	longest := 0
	for _, l := range lists {
		if len(l) > longest {
			longest = len(l)
		}
	}
	r.Set("recipient_lists", len(lists))
	r.Set("longest_list", longest)
	mon.Par(len(cases), func(i int) {
		c := cases[i]
		r.Guard(fmt.Sprintf("%v/%d/%v", c.list, c.length, c.armored), func() { runCase(r, i, c) })
	})
	derivedValuesStage(r)
	if r.Counter("very_long_list_files") == 0 {
		r.Inconclusive("no file with more than 8 recipients was exercised")
	}
	lengthSweep(r)
	r.Finish()
}

func fillers(file []string) []age.Identity {
	// identities that match no recipient of the file
	in := map[string]bool{}
	for _, p := range keys.Flatten(keys.Ps(file...)) {
		in[p.Name] = true
	}
	var out []age.Identity
	for _, n := range []string{"X4", "E3", "R2", "X3", "R3"} {
		same := in[n]
		for _, p := range keys.Flatten(keys.Ps(file...)) {
			// (PR1 is the passphrase-protected copy of R2's key: R2 opens its files)
			same = same || keys.SameKey(p, keys.P(n))
		}
		if !same {
			out = append(out, keys.P(n).Identity)
		}
	}
	out = append(out, keys.ScryptIdentity("not-the-passphrase", 10))
	return out
}

func runCase(r *mon.Run, idx int, c encCase) {
	parties := keys.Ps(c.list...)
	pt := mon.DetBytes(fmt.Sprintf("c01-%d-%d", r.Seed, idx), c.length)
	// the content is not always noise: all zeros, a tail or a head of zeros,
	// 0xFF, newlines
	switch idx % 9 {
	case 2:
		pt = make([]byte, c.length)
	case 4:
		for i := len(pt) / 3; i < len(pt); i++ {
			pt[i] = 0
		}
	case 6:
		for i := 0; i < 2*len(pt)/3; i++ {
			pt[i] = 0
		}
	case 8:
		pt = bytes.Repeat([]byte{[]byte{0xff, '\n', 0x80}[idx%3]}, c.length)
	}
	r.Tab("plaintext_content", []string{"noise", "noise", "zeros", "noise", "zero-tail", "noise", "zero-head", "noise", "one-byte-repeated"}[idx%9])
	// how the plaintext is handed to the writer rotates with the case: one
	// Write, io.Copy from a plain source (uses the writer's ReadFrom if it has
	// one), io.Copy from a bytes.Reader, CopyBuffer with small and 64 KiB buffers
	via := c.via
	if via == "" {
		via = ax.Vias[idx%len(ax.Vias)]
	}
	file, err := ax.EncryptVia(pt, c.armored, via, keys.Recipients(parties)...)
	r.Tab("handed_over_via", via)
	r.Eval(1)
	caseName := fmt.Sprintf("list=%s len=%d armor=%v via=%s", keys.Names(parties), c.length, c.armored, via)
	if err != nil {
		r.Violate("encrypt-refused:"+keys.Names(parties), fmt.Sprintf("%s: a list the library should accept was refused: %v", caseName, err),
			map[string]any{"list": c.list, "len": c.length, "armor": c.armored})
		return
	}
	r.Tab("length", lenClass(c.length))
	r.Tab("list_len", fmt.Sprint(len(c.list)))
	if len(c.list) > 8 {
		r.Count("very_long_list_files", 1)
	}
	r.Tab("armor", fmt.Sprint(c.armored))

	fill := fillers(c.list)
	rng := mon.NewRNG(r.Seed, fmt.Sprintf("c01-ids-%d", idx))
	seen := map[string]bool{}
	big := c.length > 1<<20
	for pi, p := range keys.Flatten(parties) {
		if p.Identity == nil || seen[p.Name] {
			continue
		}
		seen[p.Name] = true
		positions := []int{0, 1, 2, 3}
		if big {
			positions = []int{1}
		}
		if len(c.list) > 8 {
			// every recipient of a very long list is tried, at one seeded position
			positions = []int{rng.Intn(3)}
		} else if !big && idx%7 == 0 {
			// a long identity list: the matching identity far behind
			positions = append(positions, 16+rng.Intn(240))
			r.Count("very_long_identity_lists", 1)
		}
		for _, pos := range positions {
			ids := make([]age.Identity, 0, pos+2)
			var fillNames []int
			for k := 0; k < pos; k++ {
				f := rng.Intn(len(fill))
				fillNames = append(fillNames, f)
				ids = append(ids, fill[f])
			}
			ids = append(ids, p.Identity)
			// sometimes add identities after the matching one: they must not be consulted
			after := rng.Intn(3)
			for k := 0; k < after; k++ {
				if k == 0 {
					ids = append(ids, p.Identity)
				} else {
					ids = append(ids, fill[rng.Intn(len(fill))])
				}
			}
			rec, log := ax.Record(ids)
			// the kind of reader the caller holds the file in rotates too
			kind := ax.SourceKindsOwnFiles[rng.Intn(len(ax.SourceKindsOwnFiles))]
			if big {
				kind = []string{"bytes.Reader", "bufio4095", "os.File"}[rng.Intn(3)]
			}
			r.Tab("file_held_in", kind)
			res := ax.DecryptFrom(file, c.armored, kind, pickBuf(rng), rec...)
			r.Eval(1)
			key := fmt.Sprintf("%s id=%s pos=%d fill=%v after=%d src=%s", caseName, p.Name, pos, fillNames, after, kind)
			r.Distinct(key)
			if pos < 16 {
				r.Tab("kind_x_pos", fmt.Sprintf("%c@%d", p.Kind, pos))
			} else {
				r.Tab("kind_x_pos", fmt.Sprintf("%c@16..255", p.Kind))
			}
			r.Tab("matching_stanza_index", idxClass(pi))
			replay := map[string]any{"list": c.list, "len": c.length, "armor": c.armored, "identity": p.Name, "pos": pos, "fillers": fillNames, "after": after, "source_kind": kind}
			if !res.Clean() {
				r.Violate("decrypt-failed:"+key, fmt.Sprintf("%s: listed recipient could not decrypt: %s", key, res), replay)
				continue
			}
			if !bytes.Equal(res.Plain, pt) {
				r.Violate("plaintext-differs:"+key, fmt.Sprintf("%s: got %d bytes, want %d (first difference at %d)", key, len(res.Plain), len(pt), firstDiff(res.Plain, pt)), replay)
				continue
			}
			if !res.StickyOK {
				r.Violate("eof-not-sticky:"+key, key+": Read after the clean end did not keep returning (0, io.EOF)", replay)
			}
			// consultation order: exactly identities 0..pos, in order, each once
			want := make([]int, pos+1)
			for k := range want {
				want[k] = k
			}
			if fmt.Sprint(log.Calls) != fmt.Sprint(want) {
				r.Violate("consultation-order:"+key, fmt.Sprintf("%s: identities consulted %v, want %v", key, log.Calls, want), replay)
			}
			r.Count("consultation_logs_checked", 1)
			r.SampleN(string(p.Kind), 2, map[string]any{"list": keys.Names(parties), "len": c.length, "armor": c.armored,
				"identity": p.Name, "position": pos, "identities_after_match": after, "consulted": log.Calls, "result": "plaintext equal, EOF"})
		}
	}
}

func pickBuf(rng *rand.Rand) int {
	return []int{1 << 15, 4096, 65536, 65537, 100, 200000, ax.CopyMode, ax.ReadAllMode}[rng.Intn(8)]
}

func idxClass(i int) string {
	switch {
	case i < 8:
		return fmt.Sprint(i)
	case i < 16:
		return "8-15"
	case i < 32:
		return "16-31"
	case i < 64:
		return "32-63"
	case i < 128:
		return "64-127"
	case i < 256:
		return "128-255"
	}
	return ">=256"
}

func lenClass(n int) string {
	switch {
	case n <= 2:
		return fmt.Sprint(n)
	case n < 65535:
		return "<1chunk"
	case n <= 65537:
		return fmt.Sprintf("1chunk%+d", n-65536)
	case n < 131071:
		return "1-2chunks"
	case n <= 131073:
		return fmt.Sprintf("2chunks%+d", n-131072)
	case n < 196608:
		return "2-3chunks"
	case n <= 196609:
		return fmt.Sprintf("3chunks%+d", n-196608)
	}
	return ">3chunks"
}

func firstDiff(a, b []byte) int {
	n := len(a)
	if len(b) < n {
		n = len(b)
	}
	for i := 0; i < n; i++ {
		if a[i] != b[i] {
			return i
		}
	}
	return n
}
