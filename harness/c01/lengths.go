package main

import (
	"bytes"
	"fmt"

	"filippo.io/age/zverif/ax"
	"filippo.io/age/zverif/keys"
	"filippo.io/age/zverif/mon"
)

// lengthSweep: plaintext lengths against INTERNAL sizes other than the chunk
// size: every length up to 300, and every length within 20 bytes of a
// multiple of 4096 (minus the 16-byte tag, too) up to 17 of them, of 32 KiB
// and of 48 (the armor line), to one native and one SSH recipient, armor on
// and off, read with a large and a small buffer.
func lengthSweep(r *mon.Run) {
	set := map[int]bool{}
	for l := 0; l <= 300; l++ {
		set[l] = true
	}
	for k := 1; k <= 17; k++ {
		for d := -36; d <= 20; d++ {
			set[k*4096+d] = true
		}
	}
	for _, base := range []int{32768, 65536, 131072} {
		for d := -36; d <= 20; d++ {
			set[base+d] = true
		}
	}
	var lens []int
	for l := range set {
		if l >= 0 {
			lens = append(lens, l)
		}
	}
	mon.Par(len(lens), func(i int) {
		l := lens[i]
		pt := mon.DetBytes(fmt.Sprintf("c01-len-%d", l), l)
		p := keys.P([]string{"X1", "E1"}[l%2])
		for _, armored := range []bool{false, true} {
			if armored && l > 20000 && l%3 != 0 {
				continue
			}
			file, err := ax.Encrypt(pt, armored, p.Recipient)
			r.Eval(1)
			desc := fmt.Sprintf("length sweep len=%d armor=%v to=%s", l, armored, p.Name)
			r.Distinct(desc)
			replay := map[string]any{"len": l, "armor": armored, "to": p.Name}
			if err != nil {
				r.Violate("length-sweep:encrypt-refused", desc+": "+err.Error(), replay)
				continue
			}
			for _, buf := range []int{0, 100, ax.ReadAllMode} {
				res := ax.DecryptBytesMode(file, armored, buf, p.Identity)
				if !res.Clean() || !bytes.Equal(res.Plain, pt) {
					r.Violate("length-sweep:decrypt-failed", fmt.Sprintf("%s buf=%d: listed recipient could not decrypt: %s", desc, buf, res), replay)
					break
				}
			}
			r.Count("length_sweep_round_trips", 1)
		}
	})
}
