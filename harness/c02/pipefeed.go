package main

import (
	"bytes"
	"crypto/sha256"
	"encoding/hex"
	"fmt"
	"os"
	"os/exec"
	"path/filepath"
	"time"

	"filippo.io/age/zverif/ax"
	"filippo.io/age/zverif/keys"
	"filippo.io/age/zverif/mon"
	"golang.org/x/sys/unix"
)

// Tampered input fed to the TOOL through a pipe in several writes.
//
// `age -d -i key` gets its input on a pipe that the harness writes in pieces,
// so that the tampering (data after the armor END line, after the last chunk
// of a binary file, a second copy of the file) arrives in a LATER read than the
// legitimate end of the file:
//
//	whole|junk      [complete file]  pause  [junk]            close
//	cut|rest+junk   [file minus its last line / 20 bytes]  pause  [rest + junk]  close
//	one-write       [file + junk] in one write (control of the library verdict)
//
// The pause begins once the tool has emptied the pipe (FIONREAD, i.e. TIOCINQ, on the writing
// end, bounded wait) and only shapes the workload. Oracle as everywhere in
// C02: the tool must exit non-zero on every modified file, and what it printed
// before must be a prefix of the plaintext; the untampered file fed the same
// way must decrypt (control).

type pipeSpec struct {
	armored bool
	n       int
	junk    string // "" = untampered control
	split   string // whole|junk, cut|rest+junk, one-write
}

func (s pipeSpec) form() string {
	if s.armored {
		return "armored"
	}
	return "binary"
}

func (s pipeSpec) String() string {
	j := s.junk
	if j == "" {
		j = "none(control)"
	}
	return fmt.Sprintf("%s/len=%d/junk=%s/%s", s.form(), s.n, j, s.split)
}

var pipeJunks = []string{"1-byte", "17-bytes", "second-copy", "2KiB-whitespace+junk"}

func (m *monitor) pipePlan() []pipeSpec {
	var out []pipeSpec
	sizes := []int{100, 750, chunk, 70000}
	if m.r.Thorough() {
		for _, arm := range []bool{true, false} {
			for _, n := range sizes {
				for _, j := range pipeJunks {
					for _, sp := range []string{"whole|junk", "cut|rest+junk", "one-write"} {
						out = append(out, pipeSpec{arm, n, j, sp})
					}
				}
				out = append(out, pipeSpec{arm, n, "", "whole|junk"}, pipeSpec{arm, n, "", "cut|rest+junk"})
			}
		}
		return out
	}
	for _, n := range []int{100, chunk} {
		for _, j := range pipeJunks {
			out = append(out, pipeSpec{true, n, j, "whole|junk"})
		}
		out = append(out, pipeSpec{true, n, "1-byte", "one-write"})
		out = append(out, pipeSpec{false, n, "1-byte", "whole|junk"}, pipeSpec{false, n, "17-bytes", "whole|junk"}, pipeSpec{false, n, "1-byte", "one-write"})
	}
	for _, n := range []int{750, 70000} {
		out = append(out, pipeSpec{true, n, "1-byte", "cut|rest+junk"}, pipeSpec{true, n, "second-copy", "cut|rest+junk"},
			pipeSpec{false, n, "second-copy", "cut|rest+junk"})
	}
	for i, n := range sizes {
		sp := []string{"whole|junk", "cut|rest+junk"}[i%2]
		out = append(out, pipeSpec{true, n, "", sp}, pipeSpec{false, n, "", sp})
	}
	return out
}

func (m *monitor) stagePipeFeed() (wait func()) {
	bin := os.Getenv("AGE_BIN")
	if bin == "" {
		m.r.Inconclusive("pipe-feed stage: AGE_BIN is not set (run through ./check)")
		return func() {}
	}
	scratch := os.Getenv("VERIF_SCRATCH")
	if scratch == "" {
		scratch = os.TempDir()
	}
	dir, err := os.MkdirTemp(scratch, "c02-pipefeed-")
	if err != nil {
		m.r.Inconclusive("pipe-feed stage: %v", err)
		return func() {}
	}
	keyFile := filepath.Join(dir, "x1.key")
	if err := os.WriteFile(keyFile, []byte(keys.NewX("X1").SecretStr+"\n"), 0o600); err != nil {
		m.r.Inconclusive("pipe-feed stage: %v", err)
		return func() {}
	}
	plan := m.pipePlan()
	m.r.Set("pipe_feed_process_runs_planned", len(plan))
	done := make(chan struct{})
	go func() {
		defer close(done)
		mon.ParN(12, len(plan), func(i int) {
			m.r.Guard("panic/pipe-feed/"+plan[i].String(), func() { m.pipeCase(bin, keyFile, plan[i]) })
		})
		os.RemoveAll(dir)
	}()
	return func() {
		<-done
		if n := m.r.Counter("pipe_feed_tampered_runs_judged"); n < int64(len(plan))/2 {
			m.r.Inconclusive("pipe-feed stage: only %d tampered runs were judged", n)
		}
		if m.r.Counter("pipe_feed_junk_written_after_the_pause") == 0 {
			m.r.Inconclusive("pipe-feed stage: the later piece never reached a tool that was still reading")
		}
	}
}

func (m *monitor) pipeCase(bin, keyFile string, sp pipeSpec) {
	pt, ptDesc := m.plaintext(sp.n)
	file, err := ax.Encrypt(pt, sp.armored, keys.P("X1").Recipient)
	if err != nil {
		m.r.Inconclusive("pipe-feed %s: encryption failed: %v", sp, err)
		return
	}
	rng := mon.NewRNG(m.r.Seed, "pipefeed/"+sp.String())
	var junk []byte
	switch sp.junk {
	case "1-byte":
		junk = []byte("x")
	case "17-bytes":
		junk = mon.Bytes(rng, 17)
		junk[0] |= 0x80 // never white space only
	case "second-copy":
		junk = file
	case "2KiB-whitespace+junk":
		junk = append(bytes.Repeat([]byte(" \n"), 1020), []byte("junk\n\n\n\n")...)
	}
	cutAt := len(file)
	if sp.split == "cut|rest+junk" {
		cutAt = len(file) - 20
		if sp.armored {
			// everything but the END line
			cutAt = bytes.LastIndex(file, []byte("-----END"))
		}
	}
	var pieces [][]byte
	switch sp.split {
	case "one-write":
		pieces = [][]byte{append(append([]byte{}, file...), junk...)}
	default:
		pieces = [][]byte{file[:cutAt], append(append([]byte{}, file[cutAt:]...), junk...)}
	}

	r, w, err := os.Pipe()
	if err != nil {
		m.r.Inconclusive("pipe-feed %s: %v", sp, err)
		return
	}
	cmd := exec.Command(bin, "-d", "-i", keyFile)
	cmd.Stdin = r
	var stdout, stderr bytes.Buffer
	cmd.Stdout, cmd.Stderr = &stdout, &stderr
	if err := cmd.Start(); err != nil {
		r.Close()
		w.Close()
		m.r.Inconclusive("pipe-feed %s: cannot start %s: %v", sp, bin, err)
		return
	}
	r.Close()
	exited := make(chan struct{})
	go func() { cmd.Wait(); close(exited) }()

	laterPieceWritten := false
	for i, p := range pieces {
		if i > 0 {
			// let the tool take everything sent so far, then pause
			deadline := time.Now().Add(5 * time.Second)
			for time.Now().Before(deadline) {
				if n, err := unix.IoctlGetInt(int(w.Fd()), unix.TIOCINQ); err != nil || n == 0 {
					break
				}
				time.Sleep(2 * time.Millisecond)
			}
			select {
			case <-exited:
			case <-time.After(300 * time.Millisecond):
			}
		}
		if len(p) == 0 {
			continue
		}
		if _, err := w.Write(p); err == nil && i > 0 {
			laterPieceWritten = true
		}
	}
	w.Close()
	select {
	case <-exited:
	case <-time.After(30 * time.Second):
		cmd.Process.Kill()
		<-exited
		m.r.Inconclusive("pipe-feed %s: the tool did not finish within 30 s of the end of its input", sp)
		return
	}
	if laterPieceWritten {
		m.r.Count("pipe_feed_junk_written_after_the_pause", 1)
	}
	state := cmd.ProcessState.String()
	ok := cmd.ProcessState.Success()
	got := stdout.Bytes()
	m.r.Eval(1)
	m.r.Distinct("pipe-feed|" + sp.String())
	m.r.Count("pipe_feed_process_runs", 1)
	m.r.Tab("pipe_feed", fmt.Sprintf("%s %s junk=%v -> %s", sp.form(), sp.split, sp.junk != "", state))
	rp := map[string]any{"tool": "age -d -i x1.key  (stdin: pipe)", "file": sp.form() + " file written by age.Encrypt for X1", "plaintext": ptDesc,
		"pieces_written": pieceLens(pieces), "pause_ms_between_pieces": 300, "junk": sp.junk, "split": sp.split,
		"tool_exit": state, "tool_stdout_len": len(got), "tool_stderr": string(mon.Trunc(stderr.Bytes(), 300))}
	if len(file) <= 2048 {
		rp["file_hex"] = hex.EncodeToString(file)
	} else {
		h := sha256.Sum256(file)
		rp["file_sha256"] = hex.EncodeToString(h[:])
	}
	switch {
	case sp.junk == "":
		m.r.Count("pipe_feed_controls", 1)
		if !ok || !bytes.Equal(got, pt) {
			m.violate("rejected-canonical/pipe-feed", "rejected-canonical/pipe-feed/"+sp.String()+"@age -d",
				fmt.Sprintf("pipe-feed %s: the untampered file written to the tool's stdin in pieces does not decrypt: %s, %d bytes of output, stderr %q", sp, state, len(got), mon.Trunc(stderr.Bytes(), 200)), rp)
		}
	default:
		m.r.Count("pipe_feed_tampered_runs_judged", 1)
		if ok {
			m.violate("accepted/pipe-feed", "accepted/pipe-feed/"+sp.String()+"@age -d",
				fmt.Sprintf("pipe-feed %s: `age -d` exits 0 (%d bytes of output) although its input is a valid file followed by %s", sp, len(got), sp.junk), rp)
		}
		if len(got) > len(pt) || !bytes.Equal(got, pt[:len(got)]) {
			m.violate("released-not-prefix/pipe-feed", "released-not-prefix/pipe-feed/"+sp.String()+"@age -d",
				fmt.Sprintf("pipe-feed %s: `age -d` printed %d bytes that are not a prefix of the plaintext", sp, len(got)), rp)
		}
	}
	m.r.SampleN("pipe-feed:"+sp.split, 1, map[string]any{"oracle": "a (tool)", "input": sp.String(), "pieces": pieceLens(pieces), "tool_exit": state, "stdout_len": len(got)})
}

func pieceLens(p [][]byte) []int {
	out := make([]int, len(p))
	for i := range p {
		out[i] = len(p[i])
	}
	return out
}
