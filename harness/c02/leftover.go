package main

import (
	"bytes"
	"crypto/sha256"
	"encoding/hex"
	"fmt"
	"io"
	"os"
	"os/exec"
	"path/filepath"
	"sync"
	"syscall"
	"time"

	"filippo.io/age/zverif/keys"
	"filippo.io/age/zverif/mon"
	"filippo.io/age/zverif/refage"
)

// Leftovers of a real encrypting process that is stopped mid-way ("cut short
// ... as by an encrypting process that died mid-write", taken literally).
//
// The real cmd/age ($AGE_BIN, built by ./check from the tree under test) is
// started as `age -r X1 [-a] [-o out.age]` with stdin a pipe fed by the
// harness. After N bytes of plaintext have been written and the output has
// grown to the chunks those bytes complete, the process is stopped: by a
// signal (SIGINT, SIGTERM, SIGHUP, SIGQUIT, SIGPIPE; SIGKILL as the control the
// tool cannot react to), by closing the reading end of its stdout pipe, or — the
// no-fault control — by closing stdin normally. A process that survives its
// signal sees its producer carry on (more plaintext), then end.
//
// Oracle: except for the normal end of input (control: the leftover must
// decrypt completely to the N bytes), whatever is left behind must not be a
// complete message: the reference, the tree's own age.Decrypt (all sources x
// consumption modes) and `age -d` must each end in an error, never a clean
// EOF, and what they release must be a prefix of the plaintext the producer
// was sending. The exit status of the stopped tool is recorded, not judged.
// Sleeps and polls only shape the workload (they decide how far the tool got
// before it is stopped); no verdict depends on them.

type leftoverSpec struct {
	n    int
	stop string // SIGINT SIGTERM SIGHUP SIGQUIT SIGPIPE SIGKILL close-stdout eof
	form string // "-o", "-o -a", "stdout>file", "stdout|pipe"
}

func (s leftoverSpec) String() string { return fmt.Sprintf("N=%d,out=%s,stop=%s", s.n, s.form, s.stop) }

var stopSignals = map[string]syscall.Signal{"SIGINT": syscall.SIGINT, "SIGTERM": syscall.SIGTERM, "SIGHUP": syscall.SIGHUP,
	"SIGQUIT": syscall.SIGQUIT, "SIGPIPE": syscall.SIGPIPE, "SIGKILL": syscall.SIGKILL}

var leftoverStops = []string{"SIGINT", "SIGTERM", "SIGHUP", "SIGQUIT", "SIGPIPE", "SIGKILL", "close-stdout", "eof"}

func (m *monitor) leftoverPlan() []leftoverSpec {
	ns := []int{0, 100, chunk, chunk + 1, 150000, 3 * chunk}
	var out []leftoverSpec
	if m.r.Thorough() {
		for _, stop := range leftoverStops {
			for _, n := range ns {
				if stop == "close-stdout" {
					out = append(out, leftoverSpec{n, stop, "stdout|pipe"}, leftoverSpec{n, stop, "stdout|pipe -a"})
					continue
				}
				for _, form := range []string{"-o", "-o -a", "stdout>file"} {
					out = append(out, leftoverSpec{n, stop, form})
				}
			}
		}
		return out
	}
	for _, stop := range []string{"SIGINT", "SIGTERM", "eof"} {
		for _, n := range ns {
			out = append(out, leftoverSpec{n, stop, "-o"})
		}
		out = append(out, leftoverSpec{chunk + 1, stop, "-o -a"}, leftoverSpec{150000, stop, "-o -a"}, leftoverSpec{150000, stop, "stdout>file"})
	}
	for _, stop := range []string{"SIGHUP", "SIGQUIT", "SIGPIPE", "SIGKILL"} {
		out = append(out, leftoverSpec{100, stop, "-o"}, leftoverSpec{150000, stop, "-o"})
	}
	out = append(out, leftoverSpec{150000, "close-stdout", "stdout|pipe"}, leftoverSpec{3 * chunk, "close-stdout", "stdout|pipe"})
	return out
}

// stageLeftover runs the process cases on their own small pool (they mostly
// wait) next to the CPU-bound jobs; the returned function waits for them.
func (m *monitor) stageLeftover() (wait func()) {
	bin := os.Getenv("AGE_BIN")
	if bin == "" {
		m.r.Inconclusive("leftover stage: AGE_BIN is not set (run through ./check)")
		return func() {}
	}
	scratch := os.Getenv("VERIF_SCRATCH")
	if scratch == "" {
		scratch = os.TempDir()
	}
	dir, err := os.MkdirTemp(scratch, "c02-leftover-")
	if err != nil {
		m.r.Inconclusive("leftover stage: %v", err)
		return func() {}
	}
	x := keys.NewX("X1")
	keyFile := filepath.Join(dir, "x1.key")
	if err := os.WriteFile(keyFile, []byte(x.SecretStr+"\n"), 0o600); err != nil {
		m.r.Inconclusive("leftover stage: %v", err)
		return func() {}
	}
	plan := m.leftoverPlan()
	m.r.Set("leftover_process_runs_planned", len(plan))
	done := make(chan struct{})
	go func() {
		defer close(done)
		mon.ParN(10, len(plan), func(i int) {
			sp := plan[i]
			m.r.Guard("panic/leftover/"+sp.String(), func() {
				m.leftoverCase(bin, keyFile, x.PublicStr, filepath.Join(dir, fmt.Sprint(i)), sp)
			})
		})
		os.RemoveAll(dir)
	}()
	return func() {
		<-done
		m.mu.Lock()
		defer m.mu.Unlock()
		for _, stop := range leftoverStops {
			if m.leftoverSeen[stop] == 0 {
				m.r.Inconclusive("leftover stage: no process run stopped by %s left a file with at least one complete chunk", stop)
			}
		}
	}
}

type lockedBuf struct {
	mu sync.Mutex
	b  []byte
}

func (l *lockedBuf) Write(p []byte) (int, error) {
	l.mu.Lock()
	l.b = append(l.b, p...)
	l.mu.Unlock()
	return len(p), nil
}
func (l *lockedBuf) Len() int { l.mu.Lock(); defer l.mu.Unlock(); return len(l.b) }

func (m *monitor) leftoverCase(bin, keyFile, pub, dir string, sp leftoverSpec) {
	if err := os.MkdirAll(dir, 0o755); err != nil {
		m.r.Inconclusive("leftover %s: %v", sp, err)
		return
	}
	armored := sp.form == "-o -a" || sp.form == "stdout|pipe -a"
	// what the producer is sending: N bytes are written before the stop, the
	// rest only if the process is still there afterwards
	intended, ptDesc := m.plaintext(sp.n + 300000)
	outPath := filepath.Join(dir, "out.age")
	args := []string{"-r", pub}
	if armored {
		args = append(args, "-a")
	}
	if sp.form == "-o" || sp.form == "-o -a" {
		args = append(args, "-o", outPath)
	}
	cmd := exec.Command(bin, args...)
	cmd.Dir = dir
	var stderr bytes.Buffer
	cmd.Stderr = &stderr
	stdin, err := cmd.StdinPipe()
	if err != nil {
		m.r.Inconclusive("leftover %s: %v", sp, err)
		return
	}
	var piped *lockedBuf
	var pipeR io.ReadCloser
	switch sp.form {
	case "stdout>file":
		f, err := os.Create(outPath)
		if err != nil {
			m.r.Inconclusive("leftover %s: %v", sp, err)
			return
		}
		cmd.Stdout = f
		defer f.Close()
	case "stdout|pipe", "stdout|pipe -a":
		pipeR, err = cmd.StdoutPipe()
		if err != nil {
			m.r.Inconclusive("leftover %s: %v", sp, err)
			return
		}
		piped = &lockedBuf{}
	}
	if err := cmd.Start(); err != nil {
		m.r.Inconclusive("leftover %s: cannot start %s: %v", sp, bin, err)
		return
	}
	if piped != nil {
		go io.Copy(piped, pipeR)
	}
	exited := make(chan struct{})
	go func() { cmd.Wait(); close(exited) }()
	waitExit := func(d time.Duration) bool {
		select {
		case <-exited:
			return true
		case <-time.After(d):
			return false
		}
	}
	size := func() int {
		if piped != nil {
			return piped.Len()
		}
		if st, err := os.Stat(outPath); err == nil {
			return int(st.Size())
		}
		return -1
	}

	// feed N bytes, then let the tool get as far as those bytes take it
	go func() { stdin.Write(intended[:sp.n]) }()
	flushed := 0
	if sp.n > 0 {
		flushed = (sp.n - 1) / chunk
	}
	want := 100 + flushed*encChunk
	if armored {
		want = want * 65 / 48 * 98 / 100
	}
	deadline := time.Now().Add(8 * time.Second)
	for size() < want && time.Now().Before(deadline) {
		time.Sleep(3 * time.Millisecond)
	}
	if size() < want {
		m.r.Count("leftover_poll_gave_up(workload shaping only)", 1)
	}
	time.Sleep(25 * time.Millisecond)

	// stop it
	survived, endedByEOF, fed := false, sp.stop == "eof", sp.n
	switch sp.stop {
	case "eof":
		stdin.Close()
		if !waitExit(20 * time.Second) {
			cmd.Process.Kill()
			<-exited
			m.r.Inconclusive("leftover %s: the tool did not finish after a normal end of input", sp)
			return
		}
	case "close-stdout":
		pipeR.Close()
		go func() { stdin.Write(intended[sp.n : sp.n+2*chunk+5]); stdin.Close() }()
		if !waitExit(10 * time.Second) {
			survived = true
			cmd.Process.Kill()
			<-exited
		}
	default:
		cmd.Process.Signal(stopSignals[sp.stop])
		if !waitExit(400 * time.Millisecond) {
			// it handles the signal: the producer carries on, then ends
			survived = true
			wrote := make(chan struct{})
			go func() { stdin.Write(intended[sp.n : sp.n+70000]); close(wrote) }()
			if !waitExit(1500 * time.Millisecond) {
				// still there and reading: the signal was ignored. The producer
				// ends normally, which makes this run a control for N+70000 bytes.
				select {
				case <-wrote:
					fed = sp.n + 70000
					endedByEOF = true
				case <-time.After(5 * time.Second):
				}
				stdin.Close()
				if !waitExit(10 * time.Second) {
					endedByEOF = false
					cmd.Process.Kill()
					<-exited
				}
			}
		}
	}
	stdin.Close()
	state := "?"
	if cmd.ProcessState != nil {
		state = cmd.ProcessState.String()
	}
	m.r.Tab("leftover_stop_x_tool_exit(recorded,not judged)", sp.stop+" -> "+state)
	if survived {
		m.r.Tab("leftover_tool_survived_the_stop", sp.stop)
	}
	m.r.Count("leftover_process_runs", 1)

	var left []byte
	if piped != nil {
		piped.mu.Lock()
		left = append([]byte{}, piped.b...)
		piped.mu.Unlock()
	} else {
		left, _ = os.ReadFile(outPath)
	}
	if len(left) >= want && flushed >= 1 || endedByEOF {
		m.mu.Lock()
		if m.leftoverSeen == nil {
			m.leftoverSeen = map[string]int{}
		}
		m.leftoverSeen[sp.stop]++
		m.mu.Unlock()
	}
	m.r.Tab("leftover_size", fmt.Sprintf("N=%d %s: %s", sp.n, sp.form, sizeClass(len(left), armored)))

	// control: the tool ended through the normal end of its input (asked for,
	// or because it ignored the signal and the producer then finished)
	control := endedByEOF
	pt := intended
	if control {
		pt = intended[:fed]
		m.r.Tab("leftover_controls(normal end of input)", sp.stop)
	}
	b := &base{name: fmt.Sprintf("leftover/N=%d,out=%s", sp.n, sp.form), origin: "cmd/age stopped mid-way", pt: pt, ptDesc: ptDesc, armored: armored}
	e := &edited{base: b, class: "leftover", edit: "stop=" + sp.stop, segs: [][]byte{left}}
	rp := func(by, observed string) map[string]any {
		r := map[string]any{"tool": "age " + fmt.Sprint(args), "plaintext": ptDesc, "bytes_written_before_the_stop": sp.n, "stop": sp.stop,
			"tool_exit": state, "tool_stderr": mon.Trunc(stderr.Bytes(), 300), "leftover_len": len(left), "judged_by": by, "observed": observed}
		if len(left) <= 4096 {
			r["leftover_hex"] = hex.EncodeToString(left)
		} else {
			h := sha256.Sum256(left)
			r["leftover_sha256"] = hex.EncodeToString(h[:])
		}
		return r
	}

	// 1. the reference implementation
	var op *refage.Opened
	var rerr error
	if armored {
		op, rerr = refage.DecryptArmored(left, keys.P("X1").Ref)
	} else {
		op, rerr = refage.Decrypt(left, keys.P("X1").Ref)
	}
	m.r.Eval(1)
	m.r.Distinct(b.name + "|leftover|" + sp.stop + "@reference")
	switch {
	case !control && rerr == nil:
		m.violate("accepted/leftover/reference", fmt.Sprintf("accepted/leftover/%s/stop=%s@reference", b.name, sp.stop),
			fmt.Sprintf("%s stopped by %s after %d bytes (%s) left a %d-byte file that is a complete message: the reference decrypts it cleanly to %d bytes",
				b.name, sp.stop, sp.n, state, len(left), len(op.Plaintext)), rp("refage", "accepted"))
	case control && (rerr != nil || !bytes.Equal(op.Plaintext, pt)):
		m.violate("rejected-canonical/leftover/reference", fmt.Sprintf("rejected-canonical/leftover/%s/stop=%s@reference", b.name, sp.stop),
			fmt.Sprintf("%s: after a normal end of input (%s) the reference does not decrypt the output to the %d bytes written: %v", b.name, state, sp.n, rerr), rp("refage", fmt.Sprint(rerr)))
	}

	// 2. the tree's own age.Decrypt, every source x consumption mode of the class
	for _, via := range e.kinds() {
		ev := e.with(via)
		m.r.Distinct(b.name + "|leftover|" + sp.stop + "@" + via)
		if control {
			m.judgeB(ev, pt, true)
			continue
		}
		var o *outcome
		m.r.Guard(ev.key("panic"), func() { o = m.decrypt(ev, pt) })
		m.r.Eval(1)
		if o == nil {
			continue
		}
		m.r.Tab("edit_class", e.class)
		m.tabDelivery(ev)
		m.r.Tab("result", o.errClass())
		m.checkA(ev, o)
		m.r.SampleN("a:leftover:"+sp.stop, 1, map[string]any{"oracle": "a", "tool": "age " + fmt.Sprint(args), "bytes_fed": sp.n, "stop": sp.stop,
			"tool_exit": state, "leftover_len": len(left), "via": via, "observed": o.String()})
	}

	// 3. the tool itself
	leftPath := filepath.Join(dir, "leftover.age")
	if err := os.WriteFile(leftPath, left, 0o600); err != nil {
		m.r.Inconclusive("leftover %s: %v", sp, err)
		return
	}
	dec := exec.Command(bin, "-d", "-i", keyFile, leftPath)
	var dout, derr bytes.Buffer
	dec.Stdout, dec.Stderr = &dout, &derr
	runErr := dec.Run()
	m.r.Eval(1)
	m.r.Distinct(b.name + "|leftover|" + sp.stop + "@age -d")
	got := dout.Bytes()
	switch {
	case control:
		if runErr != nil || !bytes.Equal(got, pt) {
			m.violate("rejected-canonical/leftover/tool", fmt.Sprintf("rejected-canonical/leftover/%s/stop=%s@age -d", b.name, sp.stop),
				fmt.Sprintf("%s: after a normal end of input `age -d` does not give back the %d bytes written: %v, %d bytes, stderr %q", b.name, sp.n, runErr, len(got), mon.Trunc(derr.Bytes(), 200)), rp("age -d", fmt.Sprint(runErr)))
		}
	case runErr == nil:
		m.violate("accepted/leftover/tool", fmt.Sprintf("accepted/leftover/%s/stop=%s@age -d", b.name, sp.stop),
			fmt.Sprintf("%s stopped by %s after %d bytes (%s): `age -d` exits 0 on the %d-byte leftover (%d bytes of output)", b.name, sp.stop, sp.n, state, len(left), len(got)), rp("age -d", "exit 0"))
	case len(got) > len(pt) || !bytes.Equal(got, pt[:len(got)]):
		m.violate("released-not-prefix/leftover/tool", fmt.Sprintf("released-not-prefix/leftover/%s/stop=%s@age -d", b.name, sp.stop),
			fmt.Sprintf("%s stopped by %s: `age -d` wrote %d bytes that are not a prefix of the plaintext before failing", b.name, sp.stop, len(got)), rp("age -d", "output not a prefix"))
	}
}

func sizeClass(n int, armored bool) string {
	if n <= 0 {
		return "nothing"
	}
	if armored {
		n = n * 48 / 65
	}
	switch k := (n - 100) / encChunk; {
	case n < 150:
		return "part of the header"
	case k <= 0:
		return "header, nonce, less than a chunk"
	default:
		return fmt.Sprintf("header, nonce, %d complete chunk(s) and maybe more", k)
	}
}
