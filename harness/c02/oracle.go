package main

import (
	"bufio"
	"bytes"
	"crypto/sha256"
	"encoding/hex"
	"errors"
	"fmt"
	"io"
	"os"
	"sort"
	"strings"
	"sync"
	"sync/atomic"
	"syscall"

	"filippo.io/age"
	"filippo.io/age/armor"
	"filippo.io/age/zverif/mon"
)

// segReader delivers a byte string given as consecutive segments, so that an
// edited copy of a 19 MiB file costs nothing to build. fill=false returns at
// segment borders (short reads at the edit position), fill=true fills the
// caller's buffer across them (like a file would).
// withEOF returns the last piece together with the end report (as io.Reader
// allows); max > 0 bounds the size of every piece. The end report is sticky.
type segReader struct {
	segs    [][]byte
	i       int
	off     int
	fill    bool
	withEOF bool
	max     int
	endErr  error // what the source reports at (and for ever after) its end; nil = io.EOF
}

func (s *segReader) end() error {
	if s.endErr != nil {
		return s.endErr
	}
	return io.EOF
}

func (s *segReader) Read(p []byte) (int, error) {
	if len(p) == 0 {
		return 0, nil
	}
	if s.max > 0 && len(p) > s.max {
		p = p[:s.max]
	}
	n := 0
	for n < len(p) {
		s.skipEmpty()
		if s.i >= len(s.segs) {
			break
		}
		c := copy(p[n:], s.segs[s.i][s.off:])
		s.off += c
		n += c
		if !s.fill {
			break
		}
	}
	if n == 0 {
		return 0, s.end()
	}
	if s.withEOF {
		s.skipEmpty()
		if s.i >= len(s.segs) {
			return n, s.end()
		}
	}
	return n, nil
}

func (s *segReader) skipEmpty() {
	for s.i < len(s.segs) && s.off >= len(s.segs[s.i]) {
		s.i++
		s.off = 0
	}
}

// Source kinds: how the edited file is handed to age.Decrypt. The stream
// reader's end-of-file probe and short-read handling depend on it, so edits
// that add or remove trailing bytes go through all of them.
var (
	plainKinds = []string{"segments", "filled", "bufio4096"}
	eofKinds   = []string{"segments+eof", "filled+eof", "bufio4096+eof", "1byte+eof"}
	allKinds   = append(append([]string{}, plainKinds...), eofKinds...)
)

// End reports: how the source says that it has no more bytes. A truncated
// file may come from a source that knows it ended abnormally and says so with
// an error that wraps io.EOF or is something else entirely; only the bare
// io.EOF sentinel is a graceful end. A source kind is "<base>[:<end>]"; the
// "+eof" bases deliver the end report together with the last bytes, the others
// in a separate call.
var nonBareEnds = []string{"wrap1", "wrap2", "ueof", "ueof-wrapped", "is-eof", "join-eof", "custom", "deadline", "eagain", "net-timeout"}

var allEnds = append([]string{"eof"}, nonBareEnds...)

type isEOFError struct{}

func (isEOFError) Error() string {
	return "verif: transport closed (custom error whose Is(io.EOF) is true)"
}
func (isEOFError) Is(target error) bool { return target == io.EOF }

type netStyleError struct{}

func (netStyleError) Error() string   { return "verif: read tcp 192.0.2.1:443: i/o timeout" }
func (netStyleError) Timeout() bool   { return true }
func (netStyleError) Temporary() bool { return true }

func endError(name string) error {
	switch name {
	case "", "eof":
		return io.EOF
	case "wrap1":
		return fmt.Errorf("object backup.age: short read: %w", io.EOF)
	case "wrap2":
		return fmt.Errorf("fetch: %w", fmt.Errorf("body: %w", io.EOF))
	case "ueof":
		return io.ErrUnexpectedEOF
	case "ueof-wrapped":
		return fmt.Errorf("short body: %w", io.ErrUnexpectedEOF)
	case "is-eof":
		return isEOFError{}
	case "join-eof":
		return errors.Join(errors.New("verif: connection reset"), io.EOF)
	case "custom":
		return mon.ErrInjected
	case "deadline":
		return &os.PathError{Op: "read", Path: "/dev/stdin", Err: os.ErrDeadlineExceeded}
	case "eagain":
		return &os.PathError{Op: "read", Path: "/dev/stdin", Err: syscall.EAGAIN}
	case "net-timeout":
		return netStyleError{}
	}
	panic("c02: unknown end report " + name)
}

// splitKind cuts "<base>[:<end>]"; end is "eof" when absent.
func splitKind(kind string) (base, end string) {
	if i := strings.IndexByte(kind, ':'); i >= 0 {
		return kind[:i], kind[i+1:]
	}
	return kind, "eof"
}

func endTiming(base string) string {
	if strings.HasSuffix(base, "+eof") {
		return "with-last-bytes"
	}
	return "separate-call"
}

func openSource(segs [][]byte, kind string) io.Reader {
	base, end := splitKind(kind)
	sr := &segReader{segs: segs}
	if end != "eof" {
		sr.endErr = endError(end)
	}
	switch base {
	case "segments":
	case "filled":
		sr.fill = true
	case "segments+eof":
		sr.withEOF = true
	case "filled+eof":
		sr.fill, sr.withEOF = true, true
	case "bufio4096": // a caller-supplied *bufio.Reader is used by format.Parse as is
		sr.fill = true
		return bufio.NewReaderSize(sr, 4096)
	case "bufio4096+eof":
		sr.fill, sr.withEOF = true, true
		return bufio.NewReaderSize(sr, 4096)
	case "1byte+eof":
		sr.fill, sr.withEOF, sr.max = true, true, 1
	default:
		panic("c02: unknown source kind " + kind)
	}
	return sr
}

func segLen(segs [][]byte) int {
	n := 0
	for _, s := range segs {
		n += len(s)
	}
	return n
}

// segEqual reports whether the segments spell exactly b.
func segEqual(segs [][]byte, b []byte) bool {
	if segLen(segs) != len(b) {
		return false
	}
	for _, s := range segs {
		if !bytes.Equal(s, b[:len(s)]) {
			return false
		}
		b = b[len(s):]
	}
	return true
}

func segJoin(segs [][]byte) []byte {
	out := make([]byte, 0, segLen(segs))
	for _, s := range segs {
		out = append(out, s...)
	}
	return out
}

// outcome of one decryption through the real age.Decrypt.
type outcome struct {
	decErr   error // error of age.Decrypt itself (no reader)
	readErr  error // first error of the reader; io.EOF = clean end of stream
	released int   // plaintext bytes handed out (before and, if any, after the first error)
	mismatch int   // -1, or index of the first released byte that is not want[index] (or lies beyond want)
	afterErr string
}

func (o *outcome) clean() bool { return o.decErr == nil && o.readErr == io.EOF }

func (o *outcome) String() string {
	if o.decErr != nil {
		return fmt.Sprintf("Decrypt error %q", o.decErr)
	}
	if o.readErr == io.EOF {
		return fmt.Sprintf("%d bytes then clean io.EOF", o.released)
	}
	return fmt.Sprintf("%d bytes then error %q", o.released, o.readErr)
}

func (o *outcome) errClass() string {
	switch {
	case o.decErr != nil:
		s := o.decErr.Error()
		if i := strings.Index(s, ": "); i > 0 && strings.HasPrefix(s, "failed to read header") {
			return "Decrypt: failed to read header: …"
		}
		return "Decrypt: " + s
	case o.readErr == io.EOF:
		return "clean EOF"
	case o.readErr == io.ErrUnexpectedEOF:
		return "Read: io.ErrUnexpectedEOF"
	}
	return "Read: " + o.readErr.Error()
}

var bufPool = sync.Pool{New: func() any { b := make([]byte, 1<<20); return &b }}

// Consumption modes: how the plaintext reader is drained. io.Copy uses the
// reader's own WriteTo if it has one, which is a different code path from Read.
var consumeModes = []string{"read", "copy", "readall", "read+copy"}

// checker compares released plaintext with want on the fly (nothing is
// accumulated).
type checker struct {
	o    *outcome
	want []byte
}

func (c *checker) take(b []byte) {
	o := c.o
	n := len(b)
	if n > 0 && o.mismatch < 0 {
		end := o.released + n
		m := n
		if end > len(c.want) {
			m = len(c.want) - o.released
			if m < 0 {
				m = 0
			}
			o.mismatch = len(c.want) // released more than the original holds
		}
		if !bytes.Equal(b[:m], c.want[o.released:o.released+m]) {
			for i := 0; i < m; i++ {
				if b[i] != c.want[o.released+i] {
					o.mismatch = o.released + i
					break
				}
			}
		}
	}
	o.released += n
}

// Write makes the checker the destination of io.Copy. It is deliberately not
// an io.ReaderFrom, so io.Copy must use the source's WriteTo or plain Reads.
func (c *checker) Write(b []byte) (int, error) {
	c.take(b)
	return len(b), nil
}

// runDecrypt runs the real age.Decrypt over src and drains the plaintext
// reader to its first error in the given consumption mode ("read": Read loop
// with a bufSize buffer; "copy": io.Copy; "readall": io.ReadAll; "read+copy":
// one Read, then io.Copy). After the first error two more Reads probe that the
// terminal state is sticky.
func runDecrypt(src io.Reader, id age.Identity, mode string, bufSize int, want []byte) *outcome {
	o := &outcome{mismatch: -1}
	rd, err := age.Decrypt(src, id)
	if err != nil {
		o.decErr = err
		if rd != nil {
			o.afterErr = "age.Decrypt returned a reader together with an error"
		}
		return o
	}
	if rd == nil {
		o.decErr = errors.New("verif: age.Decrypt returned (nil, nil)")
		return o
	}
	pb := bufPool.Get().(*[]byte)
	defer bufPool.Put(pb)
	buf := (*pb)[:bufSize]
	c := &checker{o: o, want: want}
	clean := func(err error) error {
		if err == nil {
			return io.EOF // io.Copy and io.ReadAll report a clean end as nil
		}
		return err
	}
	switch mode {
	case "copy":
		_, err := io.Copy(c, rd)
		o.readErr = clean(err)
	case "read+copy":
		n, err := rd.Read(buf)
		c.take(buf[:n])
		if err != nil {
			o.readErr = err
			break
		}
		_, err = io.Copy(c, rd)
		o.readErr = clean(err)
	case "readall":
		b, err := io.ReadAll(rd)
		c.take(b)
		o.readErr = clean(err)
	default:
		zero := 0
		for {
			n, err := rd.Read(buf)
			c.take(buf[:n])
			if err != nil {
				o.readErr = err
				break
			}
			if n == 0 {
				zero++
				if zero > 10000 {
					o.readErr = errors.New("verif: reader made no progress in 10000 calls")
					return o
				}
			} else {
				zero = 0
			}
		}
	}
	for i := 0; i < 2; i++ {
		n, err := rd.Read(buf)
		c.take(buf[:n])
		switch {
		case n != 0:
			o.afterErr = fmt.Sprintf("Read after the terminal error %q returned %d more bytes", o.readErr, n)
		case err == nil:
			o.afterErr = fmt.Sprintf("Read after the terminal error %q returned (0, nil)", o.readErr)
		case o.readErr != io.EOF && err == io.EOF:
			o.afterErr = fmt.Sprintf("Read after the error %q returned a clean io.EOF", o.readErr)
		case o.readErr == io.EOF && err != io.EOF:
			o.afterErr = fmt.Sprintf("Read after io.EOF returned %q", err)
		}
	}
	return o
}

// ---- violation book-keeping -------------------------------------------------

// A defect in the stream code fires on hundreds of neighbouring cases. All of
// them are counted; per (oracle, edit class, file origin) group the first
// maxPerGroup in key order are reported as VIOLATION lines (deterministic,
// independent of worker scheduling), the others only counted.
const maxPerGroup = 10

type pendingViol struct {
	group, key, what string
	replay           any
}

type monitor struct {
	r  *mon.Run
	id age.Identity

	mu      sync.Mutex
	pending []pendingViol

	maxPrefix atomic.Int64 // longest plaintext prefix released before an error

	exhaustive map[string]int // finite sub-spaces enumerated completely -> number of cases
	endCover   map[string]int // end report / timing / truncation position -> cases run

	leftoverSeen map[string]int // stop method -> process runs that left at least one complete chunk behind
	accepted     []acceptedRec
}

func (m *monitor) violate(group, key, what string, replay any) {
	m.mu.Lock()
	m.pending = append(m.pending, pendingViol{group, key, what, replay})
	m.mu.Unlock()
}

func (m *monitor) report() {
	m.mu.Lock()
	p := m.pending
	m.pending = nil
	m.mu.Unlock()
	sort.Slice(p, func(i, j int) bool {
		if p[i].group != p[j].group {
			return p[i].group < p[j].group
		}
		if len(p[i].key) != len(p[j].key) {
			return len(p[i].key) < len(p[j].key)
		}
		return p[i].key < p[j].key
	})
	per := map[string]int{}
	for _, v := range p {
		per[v.group]++
		m.r.Tab("violating_cases_by_group", v.group)
		if per[v.group] <= maxPerGroup {
			m.r.Violate(v.key, v.what, v.replay)
		} else {
			m.r.Count("violating_cases_counted_not_listed", 1)
		}
	}
}

// edited describes one modified file for messages and replay files.
type edited struct {
	base  *base
	class string // edit class (coverage table cell, part of the violation key)
	edit  string // the edit, e.g. "flip@h+17.bit3" or "seq=P0@0n+P1@1f"
	segs  [][]byte
	via   string // source kind the bytes are delivered through
	long  bool   // sequence of maximal length in the thorough tier: one delivery only (cost)
	isCut bool   // the edit is a truncation of the file at offset cut
	cut   int
}

// with fixes the delivery: via is "<source kind>,<consumption mode>".
func (e *edited) with(via string) *edited {
	c := *e
	c.via = via
	return &c
}

func (e *edited) delivery() (kind, mode string) {
	i := strings.IndexByte(e.via, ',')
	if i < 0 {
		return e.via, "read"
	}
	return e.via[:i], e.via[i+1:]
}

// usable drops the one-byte-at-a-time source for files that are not small
// (it then coincides with "filled+eof") and removes duplicates.
func (e *edited) usable(kinds []string) []string {
	small := segLen(e.segs) <= 2048
	var out []string
	seen := map[string]bool{}
	for _, k := range kinds {
		if base, end := splitKind(k); base == "1byte+eof" && !small {
			k = "filled+eof"
			if end != "eof" {
				k += ":" + end
			}
		}
		if !seen[k] {
			seen[k] = true
			out = append(out, k)
		}
	}
	return out
}

func (e *edited) key(kind string) string {
	return fmt.Sprintf("%s/%s/%s/%s@%s", kind, e.class, e.base.name, e.edit, e.via)
}

// Deliveries. Classes that add or remove trailing bytes (and the valid file
// itself) go through every source kind x every consumption mode; truncations
// at the places the vacuity guard names additionally through every end report
// x its timing; every other case through one combination chosen by a hash of
// the case.
func (e *edited) kinds() []string {
	product := func(kinds, modes []string) []string {
		var out []string
		for _, k := range e.usable(kinds) {
			for _, c := range modes {
				out = append(out, k+","+c)
			}
		}
		return out
	}
	three := []string{"read", "copy", "readall"}
	switch e.class {
	case "extend-small", "extend", "extend-whitespace", "big-extend", "sequence-own+foreign", "unmodified":
		return product(allKinds, consumeModes)
	case "armor-after-end", "armor-whitespace", "armor-no-end", "armor-cut-end", "armor-body", "armor-payload-extended", "unmodified-armored", "leftover":
		return product([]string{"segments", "filled", "filled+eof", "bufio4096"}, three)
	case "trunc-at-boundary":
		return append(product(allKinds, consumeModes), e.endProduct(three)...)
	case "trunc-mid-chunk", "trunc-inside-final":
		return append(product([]string{"filled", "filled+eof"}, three), e.endProduct(three)...)
	case "trunc-small":
		return append(e.hashedKind(false), e.endProduct(nil)...)
	}
	return e.hashedKind(true)
}

// endProduct: every non-bare end report, delivered in a separate call and
// together with the last bytes, under each of the given consumption modes
// (nil: one hashed mode per combination).
func (e *edited) endProduct(modes []string) []string {
	var out []string
	for i, end := range nonBareEnds {
		h := hash32(fmt.Sprintf("end/%s/%s/%s/%d", e.base.name, e.class, e.edit, i))
		for _, base := range e.usable([]string{plainKinds[h%uint32(len(plainKinds))], eofKinds[(h>>8)%uint32(len(eofKinds))]}) {
			ms := modes
			if ms == nil {
				ms = []string{consumeModes[(h>>16)%uint32(len(consumeModes))]}
				h = h*31 + 7
			}
			for _, c := range ms {
				out = append(out, base+":"+end+","+c)
			}
		}
	}
	return out
}

// truncating classes end before the payload is complete: there the end report
// of the source is what the stream reader sees instead of the missing bytes.
func (e *edited) truncating() bool {
	switch {
	case strings.HasPrefix(e.class, "trunc"), strings.HasPrefix(e.class, "big-trunc"),
		e.class == "drop", e.class == "big-drop", e.class == "crash-point":
		return true
	}
	return false
}

// hashedKind picks one (source kind, consumption mode). With ends allowed
// (oracle a only: a model-accepted file must not be spoilt by a source error)
// half of the truncating cases and one in eight of the others get a non-bare
// end report.
func (e *edited) hashedKind(ends bool) []string {
	h := hash32("kind/" + e.base.name + "/" + e.class + "/" + e.edit)
	k := allKinds[h%uint32(len(allKinds))]
	if ends {
		h2 := hash32("endkind/" + e.base.name + "/" + e.class + "/" + e.edit)
		if (e.truncating() && h2&1 == 1) || (!e.truncating() && h2%8 == 0) {
			k += ":" + nonBareEnds[(h2>>8)%uint32(len(nonBareEnds))]
		}
	}
	k = e.usable([]string{k})[0]
	// Read loops twice as often as each of the other modes
	c := []string{"read", "read", "copy", "readall", "read+copy"}[(h>>8)%5]
	return []string{k + "," + c}
}

// kindPair is the delivery list of key-crafted sequences: quick tier = a Read
// loop or an io.Copy through a hashed source kind; thorough tier = a
// plain source with a Read loop, a data-with-EOF source with io.Copy, and a
// hashed source with io.ReadAll / Read-then-Copy; the longest sequences of the
// thorough tier get one hashed delivery (cost).
func (e *edited) kindPair() []string {
	h := hash32("pair/" + e.base.name + "/" + e.class + "/" + e.edit)
	any1 := e.usable([]string{allKinds[h%uint32(len(allKinds))]})[0]
	any2 := e.usable([]string{allKinds[(h>>8)%uint32(len(allKinds))]})[0]
	switch {
	case e.long:
		return e.hashedKind(false)
	case !pairDelivery:
		// quick: one delivery, a Read loop or io.Copy with equal weight (the
		// trailing-data and truncation classes get the full products)
		if (h>>28)&1 == 0 {
			return []string{any1 + ",read"}
		}
		return []string{any2 + ",copy"}
	}
	plain := plainKinds[(h>>16)%uint32(len(plainKinds))]
	eof := e.usable([]string{eofKinds[(h>>20)%uint32(len(eofKinds))]})[0]
	third := []string{"readall", "read+copy"}[(h>>24)%2]
	return []string{plain + ",read", eof + ",copy", any1 + "," + third}
}

var pairDelivery bool // thorough tier

func (e *edited) group(kind string) string {
	return fmt.Sprintf("%s/%s/%s", kind, e.class, e.base.origin)
}

func (e *edited) replay(o *outcome) map[string]any {
	rp := map[string]any{
		"base_file":       e.base.name,
		"produced_by":     e.base.origin,
		"plaintext":       e.base.ptDesc,
		"plaintext_len":   len(e.base.pt),
		"header_len":      e.base.hdrLen,
		"file_len":        len(e.base.file),
		"edit_class":      e.class,
		"edit":            e.edit,
		"delivered_via":   e.via + " (source kind, consumption mode: see openSource and runDecrypt in harness/c02/oracle.go)",
		"identity":        "X1 (keys.P(\"X1\"))",
		"edited_file_len": segLen(e.segs),
		"observed":        o.String(),
	}
	if e.base.fileKey != nil {
		rp["file_key_hex"] = hex.EncodeToString(e.base.fileKey)
	}
	if n := segLen(e.segs); n <= 4096 {
		rp["edited_file_hex"] = hex.EncodeToString(segJoin(e.segs))
	} else {
		h := sha256.New()
		for _, s := range e.segs {
			h.Write(s)
		}
		rp["edited_file_sha256"] = hex.EncodeToString(h.Sum(nil))
		if e.base.fileKey == nil {
			rp["note"] = "the file key and nonce of files written by age.Encrypt are fresh per run; the edit is positional and reproduces on any run"
		} else {
			rp["note"] = "the file is built by refage from fixed values derived from the seed (see refBase); key-crafted chunks are sealed under its stream key"
		}
	}
	return rp
}

func pickBuf(h uint32, big bool) int {
	if big {
		return []int{4096, 32768, 65536, 65537, 100000, 1 << 20}[h%6]
	}
	return []int{1, 3, 16, 4096, 65536, 70000}[h%6]
}

func hash32(s string) uint32 {
	h := sha256.Sum256([]byte(s))
	return uint32(h[0])<<24 | uint32(h[1])<<16 | uint32(h[2])<<8 | uint32(h[3])
}

// decrypt runs the edited file through the real code.
func (m *monitor) decrypt(e *edited, want []byte) *outcome {
	h := hash32(e.base.name + "/" + e.class + "/" + e.edit + "@" + e.via)
	kind, mode := e.delivery()
	src := openSource(e.segs, kind)
	if e.base.armored {
		src = armor.NewReader(src)
	}
	return runDecrypt(src, m.id, mode, pickBuf(h>>9, len(e.base.pt) > 1<<20), want)
}

func (m *monitor) tabDelivery(e *edited) {
	kind, mode := e.delivery()
	base, end := splitKind(kind)
	m.r.Tab("source_kind", base)
	m.r.Tab("source_end_report", end+"/"+endTiming(base))
	m.r.Tab("consumption_mode", mode)
	if e.isCut {
		cell := end + "/" + endTiming(base) + "/" + e.base.cutPosition(e.cut)
		m.r.Tab("end_report_x_truncation_position", cell)
		m.mu.Lock()
		if m.endCover == nil {
			m.endCover = map[string]int{}
		}
		m.endCover[cell]++
		m.mu.Unlock()
	}
}

// cutPosition classifies a truncation offset for the vacuity guard.
func (b *base) cutPosition(cut int) string {
	p0 := b.hdrLen + nonceLen
	switch {
	case cut < p0:
		return "in-nonce"
	case cut == p0:
		return "right-after-nonce"
	}
	k, rel := (cut-p0)/encChunk, (cut-p0)%encChunk
	switch {
	case rel == 0:
		return "chunk-boundary"
	case k >= len(b.chunks)-1:
		return "inside-final-chunk"
	}
	return "mid-chunk"
}

// checkEndCoverage is the vacuity guard of the end-report dimension: every end
// report x timing must have been run on truncations at a chunk boundary, in
// the middle of a chunk, right after the nonce and inside the final chunk.
func (m *monitor) checkEndCoverage() {
	m.mu.Lock()
	defer m.mu.Unlock()
	var missing []string
	for _, end := range allEnds {
		for _, t := range []string{"separate-call", "with-last-bytes"} {
			for _, pos := range []string{"chunk-boundary", "mid-chunk", "right-after-nonce", "inside-final-chunk"} {
				if m.endCover[end+"/"+t+"/"+pos] == 0 {
					missing = append(missing, end+"/"+t+"/"+pos)
				}
			}
		}
	}
	if len(missing) > 0 {
		m.r.Inconclusive("end-report dimension not covered: no truncation ran for %v", missing)
	}
}

// judgeA is oracle (a): the edited file differs from the valid file and was
// built without the key, so decryption must report an error, never a clean
// end of stream, and what it released must be a position-wise prefix of the
// original plaintext.
func (m *monitor) judgeA(e *edited) {
	if segEqual(e.segs, e.base.file) {
		m.r.Count("edits_equal_to_original_skipped", 1)
		return
	}
	for _, via := range e.kinds() {
		e := e.with(via)
		var o *outcome
		m.r.Guard(e.key("panic"), func() { o = m.decrypt(e, e.base.pt) })
		m.r.Eval(1)
		if o == nil {
			continue
		}
		m.r.Distinct(e.base.name + "|" + e.class + "|" + e.edit + "@" + via)
		m.r.Tab("edit_class", e.class)
		m.tabDelivery(e)
		m.r.Tab("result", o.errClass())
		m.checkA(e, o)
		m.r.SampleN("a:"+e.class, 1, map[string]any{"oracle": "a", "file": e.base.name, "class": e.class, "edit": e.edit, "via": via, "observed": o.String()})
	}
}

func (m *monitor) checkA(e *edited, o *outcome) {
	if o.clean() {
		m.violate(e.group("accepted"), e.key("accepted"),
			fmt.Sprintf("%s, %s %s: a modified payload decrypted to a clean end of stream (%s; original plaintext %d bytes)",
				e.base.name, e.class, e.edit, o, len(e.base.pt)), e.replay(o))
	}
	if o.mismatch >= 0 {
		m.violate(e.group("released-not-prefix"), e.key("released-not-prefix"),
			fmt.Sprintf("%s, %s %s: released plaintext is not a prefix of the original: first bad position %d (%s; original %d bytes)",
				e.base.name, e.class, e.edit, o.mismatch, o, len(e.base.pt)), e.replay(o))
	}
	if o.afterErr != "" {
		m.violate(e.group("not-sticky"), e.key("not-sticky"),
			fmt.Sprintf("%s, %s %s: %s", e.base.name, e.class, e.edit, o.afterErr), e.replay(o))
	}
	if !o.clean() && o.mismatch < 0 {
		for {
			cur := m.maxPrefix.Load()
			if int64(o.released) <= cur || m.maxPrefix.CompareAndSwap(cur, int64(o.released)) {
				break
			}
		}
		if o.released > 0 {
			m.r.Count("errors_after_a_nonempty_true_prefix", 1)
		}
	}
}

// judgeB is oracle (b): the payload may contain chunks sealed with the real
// stream key, so the reference acceptance model decides. modelPT is what the
// model released, modelOK its verdict.
func (m *monitor) judgeB(e *edited, modelPT []byte, modelOK bool) *outcome {
	var o *outcome
	m.r.Guard(e.key("panic"), func() { o = m.decrypt(e, modelPT) })
	m.r.Eval(1)
	if o == nil {
		return nil
	}
	m.r.Tab("edit_class", e.class)
	m.tabDelivery(e)
	m.r.Tab("result", o.errClass())
	if modelOK {
		m.r.Count("model_accepted", 1)
	} else {
		m.r.Count("model_rejected", 1)
	}
	switch {
	case o.clean() && !modelOK:
		m.violate(e.group("accepted-noncanonical"), e.key("accepted-noncanonical"),
			fmt.Sprintf("%s, %s %s: the reader accepted (%s) a chunk sequence that the STREAM acceptance model rejects", e.base.name, e.class, e.edit, o), e.replay(o))
	case !o.clean() && modelOK:
		m.violate(e.group("rejected-canonical"), e.key("rejected-canonical"),
			fmt.Sprintf("%s, %s %s: the reader rejected (%s) the canonical chunking, which the model accepts (%d bytes)", e.base.name, e.class, e.edit, o, len(modelPT)), e.replay(o))
	case o.clean() && modelOK:
		m.r.Count("model_and_reader_accepted", 1)
		if o.mismatch >= 0 || o.released != len(modelPT) {
			m.violate(e.group("accepted-plaintext-differs"), e.key("accepted-plaintext-differs"),
				fmt.Sprintf("%s, %s %s: accepted, but plaintext differs from the model's (%d bytes vs %d, first difference at %d)", e.base.name, e.class, e.edit, o.released, len(modelPT), o.mismatch), e.replay(o))
		}
	default:
		if o.mismatch < 0 && o.released == len(modelPT) {
			m.r.Count("rejected_with_same_release_as_model", 1)
		} else {
			m.r.Count("rejected_with_other_release_than_model", 1) // informational: the property does not constrain it
		}
	}
	if o.afterErr != "" {
		m.violate(e.group("not-sticky"), e.key("not-sticky"),
			fmt.Sprintf("%s, %s %s: %s", e.base.name, e.class, e.edit, o.afterErr), e.replay(o))
	}
	return o
}
