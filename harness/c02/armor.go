package main

import (
	"bytes"
	"fmt"
	"strings"

	"filippo.io/age"
	"filippo.io/age/armor"
	"filippo.io/age/zverif/ax"
	"filippo.io/age/zverif/keys"
	"filippo.io/age/zverif/mon"
	"filippo.io/age/zverif/refage"
)

// Armor-level tampering behind the payload.
//
// With an armored input there are two "end of message" verdicts: the STREAM
// layer's (final chunk authenticated) and the armor layer's (END line present,
// at most a little white space after it). When the plaintext is an exact
// non-zero multiple of 64 KiB the final chunk is full-size, the last payload
// read ends exactly at the last payload byte, and the armor verdict reaches the
// caller only through the stream reader's 1-byte end-of-file probe — after the
// whole plaintext has been released. When, in addition, the Base64 body ends on
// a full 64-column line, even the END line is only looked at by that probe.
//
// Files: plaintext 65535, 65536, 65537, 131072, 196608 x recipient lists of 1
// and 5 X25519 and a list padded (one stanza of an unknown type) so that the
// body ends on a full line; armored by the real armor.NewWriter.

const bytesPerLine = 48

func (m *monitor) armorBase(n int, listName string, rcpts []age.Recipient) *base {
	b := &base{name: fmt.Sprintf("arm/len=%d,rcpt=%s", n, listName), origin: "age.Encrypt+armor.NewWriter", armored: true}
	b.pt, b.ptDesc = m.plaintext(n)
	var err error
	b.file, err = ax.Encrypt(b.pt, true, rcpts...)
	if err != nil {
		m.r.Inconclusive("%s: armored encryption failed: %v", b.name, err)
		return nil
	}
	e := &edited{base: b, class: "unmodified-armored", edit: "identity", segs: [][]byte{b.file}}
	ok := true
	for _, via := range e.kinds() {
		o := m.judgeB(e.with(via), b.pt, true)
		m.r.Distinct(b.name + "|unmodified@" + via)
		ok = ok && o != nil && o.clean() && o.mismatch < 0 && o.released == len(b.pt)
	}
	if !ok {
		return nil // reported by judgeB
	}
	return b
}

// padTo returns a recipient list [X1, U(k)] whose binary file length for an
// n-byte plaintext is a multiple of 48, so that the armor body ends on a full
// 64-column line; nil if no padding stanza of <= 200 body bytes does it.
func padTo(n int) ([]age.Recipient, int) {
	for k := 0; k <= 200; k++ {
		u := &keys.Unknown{Stanzas: []*age.Stanza{{Type: "pad-verif", Args: []string{"x"}, Body: make([]byte, k)}}}
		rc := []age.Recipient{keys.P("X1").Recipient, u}
		bin, err := ax.Encrypt(make([]byte, n%7), false, rc...) // header length does not depend on the plaintext
		if err != nil {
			return nil, 0
		}
		hdr := refage.HeaderEnd(bin)
		payload := nonceLen + (n/chunk)*encChunk
		if n%chunk != 0 || n == 0 {
			payload += n%chunk + refage.TagSize
		}
		if (hdr+payload)%bytesPerLine == 0 {
			return rc, k
		}
	}
	return nil, 0
}

func rearmor(bin []byte) []byte {
	var buf bytes.Buffer
	w := armor.NewWriter(&buf)
	w.Write(bin)
	w.Close()
	return buf.Bytes()
}

func (m *monitor) stageArmor(jobs *[]job) {
	rng := m.r.RNG("armor")
	x := func(names ...string) []age.Recipient { return keys.Recipients(keys.Ps(names...)) }
	fullLineFullChunk := 0
	for _, n := range []int{chunk - 1, chunk, chunk + 1, 2 * chunk, 3 * chunk} {
		lists := []struct {
			name string
			r    []age.Recipient
		}{{"1", x("X1")}, {"5", x("X2", "X3", "X1", "X4", "X2")}}
		if pad, k := padTo(n); pad != nil {
			lists = append(lists, struct {
				name string
				r    []age.Recipient
			}{fmt.Sprintf("1+pad%d", k), pad})
		} else {
			m.r.Inconclusive("armor stage: no padding found that ends the body of a %d-byte plaintext on a full line", n)
		}
		for _, l := range lists {
			b := m.armorBase(n, l.name, l.r)
			if b == nil {
				continue
			}
			text := string(b.file)
			endAt := strings.LastIndex(text, armor.Footer)
			if endAt < 0 || !strings.HasSuffix(text, armor.Footer+"\n") {
				m.r.Inconclusive("%s: armor writer output does not end in the END line", b.name)
				continue
			}
			body := b.file[:endAt] // BEGIN line and all body lines, each with its newline
			lastLine := body[bytes.LastIndexByte(body[:len(body)-1], '\n')+1 : len(body)-1]
			fullLine := len(lastLine) == 64
			shape := fmt.Sprintf("final chunk full=%v, last body line full=%v", n%chunk == 0, fullLine)
			m.r.Tab("armored_files", shape)
			if n%chunk == 0 && fullLine {
				fullLineFullChunk++
			}
			cost := 6 * (1 + n/chunk)
			add := func(class, edit string, segs ...[]byte) {
				m.addA(jobs, cost, &edited{base: b, class: class, edit: edit, segs: segs})
			}
			footer := []byte(armor.Footer + "\n")
			// data after the END line
			add("armor-after-end", "append:1-byte", b.file, []byte("x"))
			add("armor-after-end", "append:1-byte-after-blank-line", b.file, []byte("\n\nx"))
			add("armor-after-end", "append:a-line", b.file, []byte("sent from my phone\n"))
			add("armor-after-end", "append:second-armored-file", b.file, b.file)
			add("armor-after-end", "append:1KiB-text", b.file, bytes.Repeat([]byte("lorem ipsum dolor\n"), 57))
			add("armor-after-end", "append:last-body-line-again", b.file, append(append([]byte{}, lastLine...), '\n'))
			add("armor-after-end", "append:garbage-bytes", b.file, mon.Bytes(rng, 33))
			// more white space than the armor format tolerates
			add("armor-whitespace", "append:1025-spaces", b.file, bytes.Repeat([]byte(" "), 1025))
			add("armor-whitespace", "append:2000-newlines", b.file, bytes.Repeat([]byte("\n"), 2000))
			add("armor-whitespace", "append:64KiB-crlf", b.file, bytes.Repeat([]byte("\r\n"), 32768))
			// END line missing or cut
			add("armor-no-end", "end-line-removed", body)
			add("armor-no-end", "end-line-and-last-newline-removed", body[:len(body)-1])
			for _, keep := range []int{1, 5, 16, len(armor.Footer) - 5, len(armor.Footer) - 1} {
				add("armor-cut-end", fmt.Sprintf("end-line-cut-after-%d-chars", keep), body, footer[:keep])
				add("armor-cut-end", fmt.Sprintf("end-line-cut-after-%d-chars+newline", keep), body, footer[:keep], []byte("\n"))
			}
			add("armor-cut-end", "begin-line-instead-of-end", body, []byte(armor.Header+"\n"))
			// an empty line before END; the last body line dropped or cut
			add("armor-body", "empty-line-before-end", body, []byte("\n"), footer)
			add("armor-body", "last-body-line-removed", body[:len(body)-len(lastLine)-1], footer)
			add("armor-body", "last-body-line-cut-by-4-chars", body[:len(body)-5], []byte("\n"), footer)
			add("armor-body", "last-body-line-twice", body, lastLine, []byte("\n"), footer)
			// payload bytes appended inside the armor (binary extended, then armored again)
			bin, err := refage.Dearmor(b.file)
			if err != nil {
				m.r.Inconclusive("%s: the reference cannot de-armor the writer's output: %v", b.name, err)
				continue
			}
			for _, k := range []int{1, 2, 16, 47, 48, 1024} {
				add("armor-payload-extended", fmt.Sprintf("rearmored+%d-random-bytes", k), rearmor(append(append([]byte{}, bin...), mon.Bytes(rng, k)...)))
			}
			hdr := refage.HeaderEnd(bin)
			add("armor-payload-extended", "rearmored+own-first-chunk-again",
				rearmor(append(append([]byte{}, bin...), refage.SplitChunks(bin[hdr+nonceLen:])[0]...)))
			add("armor-payload-extended", "rearmored-without-last-byte", rearmor(bin[:len(bin)-1]))
		}
	}
	if fullLineFullChunk == 0 {
		m.r.Inconclusive("armor stage: no armored file with a full-size final chunk whose body ends on a full 64-column line")
	}
}
