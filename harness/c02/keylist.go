package main

import (
	"bytes"
	"fmt"
	"strings"

	"filippo.io/age"
	"filippo.io/age/zverif/ax"
	"filippo.io/age/zverif/keys"
	"filippo.io/age/zverif/mon"
	"filippo.io/age/zverif/refage"
)

// The library's own line-oriented consumers of the reader age.Decrypt returns:
// age.ParseIdentities and age.ParseRecipients over an encrypted key list (what
// cmd/age does for passphrase-protected identity files).
//
// Plaintexts are key lists, 2-4 chunks long: native identities / recipients,
// one per line, between "#" comment lines padded so that every plaintext
// offset k*65536 falls inside a comment, inside a key line, exactly on a line
// end, or on a blank line. The payload is then tampered with as everywhere in
// C02 and ParseX(Decrypt(...)) is called. Oracle: a tampered payload must end
// in an ERROR of that call, never nil with a shortened list; the intact file
// must parse to the full list (control).

var boundaryKinds = []string{"inside-comment", "inside-key-line", "on-line-end", "on-blank-line"}

func keyListPlaintext(secret bool, nChunks int, kindAt func(k int) string, rng interface{ Intn(int) int }) ([]byte, int) {
	var pool []string
	for i := 0; i < 8; i++ {
		x := keys.NewX(fmt.Sprintf("keylist-%d", i))
		if secret {
			pool = append(pool, x.SecretStr)
		} else {
			pool = append(pool, x.PublicStr)
		}
	}
	var sb bytes.Buffer
	nkeys := 0
	comment := func(total int) { // a comment line of exactly total bytes, newline included
		sb.WriteString("# ")
		sb.WriteString(strings.Repeat("-", total-3))
		sb.WriteString("\n")
	}
	key := func() {
		sb.WriteString(pool[nkeys%len(pool)])
		sb.WriteString("\n")
		nkeys++
	}
	for k := 1; k < nChunks; k++ {
		T := k * chunk
		for sb.Len() < T-3000 {
			comment(500 + rng.Intn(400))
			key()
			if rng.Intn(4) == 0 {
				sb.WriteString("\n")
			}
		}
		switch kindAt(k) {
		case "inside-comment":
			comment(T - 60 - sb.Len())
			comment(150)
		case "inside-key-line":
			comment(T - 30 - sb.Len())
			key()
		case "on-line-end":
			comment(T - sb.Len())
			key()
		case "on-blank-line":
			comment(T - sb.Len())
			sb.WriteString("\n")
			key()
		}
	}
	// the tail after the last boundary: a short final chunk with more keys
	for i := 0; i < 6+rng.Intn(6); i++ {
		comment(300 + rng.Intn(600))
		key()
	}
	return sb.Bytes(), nkeys
}

func classifyOffset(pt []byte, T int) string {
	start := bytes.LastIndexByte(pt[:T], '\n') + 1
	end := T + bytes.IndexByte(pt[T:], '\n')
	line := pt[start:end]
	switch {
	case len(line) == 0:
		return "on-blank-line"
	case start == T:
		return "on-line-end"
	case line[0] == '#':
		return "inside-comment"
	}
	return "inside-key-line"
}

func (m *monitor) stageKeyList(jobs *[]job) {
	rng := m.r.RNG("keylist")
	type layout struct {
		secret  bool
		nChunks int
		kindAt  func(k int) string
		name    string
	}
	var layouts []layout
	for _, secret := range []bool{true, false} {
		for i, kind := range boundaryKinds {
			kind := kind
			n := 2 + i%3
			layouts = append(layouts, layout{secret, n, func(int) string { return kind }, kind})
		}
		// four chunks, a different kind at every boundary
		layouts = append(layouts, layout{secret, 4, func(k int) string { return boundaryKinds[(k+1)%4] }, "mixed"})
	}
	for _, l := range layouts {
		l := l // captured by the jobs below (go.mod language version < 1.22)
		parser := "ParseRecipients"
		if l.secret {
			parser = "ParseIdentities"
		}
		pt, nkeys := keyListPlaintext(l.secret, l.nChunks, l.kindAt, rng)
		b := &base{name: fmt.Sprintf("keylist/%s/%dchunks/%s", parser, l.nChunks, l.name), origin: "age.Encrypt(key list)", pt: pt,
			ptDesc: fmt.Sprintf("key list of %d native keys between padded comments, %d bytes (keyListPlaintext, seed %d)", nkeys, len(pt), m.r.Seed)}
		var err error
		b.file, err = ax.Encrypt(pt, false, keys.P("X1").Recipient)
		if err != nil {
			m.r.Inconclusive("%s: %v", b.name, err)
			continue
		}
		b.hdrLen = refage.HeaderEnd(b.file)
		b.chunks = refage.SplitChunks(b.payload())
		nc := len(b.chunks)
		for k := 1; k < nc; k++ {
			got := classifyOffset(pt, k*chunk)
			m.r.Tab("keylist_offset_k*65536_falls", parser+": "+got)
			if got != l.kindAt(k) {
				m.r.Inconclusive("%s: offset %d was meant to fall %s but falls %s", b.name, k*chunk, l.kindAt(k), got)
			}
		}
		// control: the intact file parses to the full list, through every source kind
		okCtl := true
		for _, kind := range allKinds {
			n, perr := m.parseKeyList(l.secret, [][]byte{b.file}, kind)
			m.r.Eval(1)
			if perr != nil || n != nkeys {
				okCtl = false
				m.violate("rejected-canonical/keylist", fmt.Sprintf("rejected-canonical/keylist/%s@%s", b.name, kind),
					fmt.Sprintf("%s: %s(Decrypt(intact file)) gives %d of %d keys, error %v", b.name, parser, n, nkeys, perr), map[string]any{"file": b.name, "plaintext": b.ptDesc})
			}
		}
		if !okCtl {
			continue
		}
		m.r.Count("keylist_controls_passed", 1)
		var edits []*edited
		add := func(e *edited) { e.class = "keylist-" + e.class; edits = append(edits, e) }
		for k := 0; k <= nc; k++ {
			bd := b.boundary(k)
			for _, d := range []int{-17, -1, 0, 1, 17} {
				if cut := bd + d; cut >= b.hdrLen && cut < len(b.file) {
					add(b.trunc("trunc", cut))
				}
			}
		}
		for k := 1; k < nc; k++ {
			end := b.boundary(k) + len(b.chunks[k])
			add(b.flip("flip", end-1-rng.Intn(refage.TagSize), rng.Intn(8)))
			add(b.flip("flip", b.boundary(k)+rng.Intn(len(b.chunks[k])-refage.TagSize), rng.Intn(8)))
			add(b.flip("flip", b.boundary(k), 0))
		}
		ident := make([]int, nc)
		for k := range ident {
			ident[k] = k
		}
		for k := 0; k < nc; k++ {
			add(b.arrange("drop", fmt.Sprintf("drop%d", k), append(append([]int{}, ident[:k]...), ident[k+1:]...)))
			add(b.arrange("repeat", fmt.Sprintf("twice%d", k), append(append(append([]int{}, ident[:k+1]...), k), ident[k+1:]...)))
			if k+1 < nc {
				o := append([]int{}, ident...)
				o[k], o[k+1] = o[k+1], o[k]
				add(b.arrange("swap", fmt.Sprintf("swap%d,%d", k, k+1), o))
			}
		}
		add(b.arrange("repeat", "first-chunk-at-the-end", append(append([]int{}, ident...), 0)))
		for _, t := range []int{1, 16, 1000} {
			add(b.extend("extend", fmt.Sprintf("%d-random-bytes", t), mon.Bytes(rng, t)))
		}
		add(b.extend("extend", "LF", []byte("\n")))
		add(b.extend("extend", "own-last-chunk-again", b.chunks[nc-1]))
		for _, e := range edits {
			e := e
			*jobs = append(*jobs, job{3 * nc, func() { m.judgeKeyList(l.secret, parser, nkeys, e) }})
		}
	}
}

// parseKeyList = ParseX(Decrypt(source)); it returns the number of keys parsed.
func (m *monitor) parseKeyList(secret bool, segs [][]byte, kind string) (int, error) {
	rd, err := age.Decrypt(openSource(segs, kind), m.id)
	if err != nil {
		return 0, err
	}
	if secret {
		ids, err := age.ParseIdentities(rd)
		return len(ids), err
	}
	rs, err := age.ParseRecipients(rd)
	return len(rs), err
}

func (m *monitor) judgeKeyList(secret bool, parser string, nkeys int, e *edited) {
	if segEqual(e.segs, e.base.file) {
		return
	}
	// two deliveries: the hashed one (with the end reports of truncating classes) and a plain one
	vias := []string{e.hashedKind(true)[0], "filled,read"}
	for i, via := range vias {
		if i == 1 && strings.HasPrefix(vias[0], "filled,") {
			continue
		}
		ev := e.with(via)
		kind, _ := ev.delivery()
		var n int
		var perr error
		m.r.Guard(ev.key("panic"), func() { n, perr = m.parseKeyList(secret, e.segs, kind) })
		m.r.Eval(1)
		m.r.Distinct(e.base.name + "|" + e.class + "|" + e.edit + "@" + kind)
		m.r.Tab("edit_class", e.class)
		m.r.Count("keylist_tampered_cases_"+parser, 1)
		if perr == nil {
			rp := e.replay(&outcome{mismatch: -1})
			rp["consumer"] = "age." + parser + "(age.Decrypt(src, X1))"
			rp["observed"] = fmt.Sprintf("nil error, %d of %d keys", n, nkeys)
			k := fmt.Sprintf("accepted/%s/%s/%s@%s,%s", e.class, e.base.name, e.edit, kind, parser)
			m.violate("accepted/"+e.class+"/"+parser, k,
				fmt.Sprintf("%s, %s %s: age.%s over the decrypted stream returned no error and %d of the %d keys although the payload was modified",
					e.base.name, e.class, e.edit, parser, n, nkeys), rp)
		} else {
			m.r.Tab("keylist_parser_error", errShape(perr.Error()))
		}
		m.r.SampleN("keylist:"+e.class, 1, map[string]any{"oracle": "a (parser)", "file": e.base.name, "edit": e.edit, "via": kind, "consumer": parser, "error": fmt.Sprint(perr), "keys": n})
	}
}

// errShape drops line numbers and offsets so the table stays small.
func errShape(s string) string {
	out := make([]byte, 0, len(s))
	for i := 0; i < len(s); i++ {
		if s[i] >= '0' && s[i] <= '9' {
			if len(out) == 0 || out[len(out)-1] != 'N' {
				out = append(out, 'N')
			}
			continue
		}
		out = append(out, s[i])
	}
	if len(out) > 90 {
		out = out[:90]
	}
	return string(out)
}
