// C02 — tampered, truncated or reordered payload is never accepted.
//
// Monitor: the real age.Decrypt (and the plaintext reader it returns) is run
// over edited copies of valid files; see DESIGN.md §4 C02.
//
//	oracle (a)  edits an attacker can make without the key (bit flips,
//	            truncation, extension, any arrangement of the file's own
//	            ciphertext chunks and foreign bytes, crash-point prefixes of an
//	            interrupted real writer): the result must be an error, never a
//	            clean io.EOF, and the bytes released before it must be,
//	            position for position, a prefix of the original plaintext;
//	oracle (b)  sequences that also use chunks sealed with the file's real
//	            stream key (other counter, other final flag, short, empty,
//	            re-split plaintext): accept/reject must equal the verdict of the
//	            reference acceptance model refage.StreamDecrypt, an accepted
//	            plaintext must equal the model's, and no two different payloads
//	            under one key may be accepted with the same plaintext.
//
// Every edited file reaches age.Decrypt through a source kind (plain, data
// returned together with io.EOF, caller-supplied bufio.Reader, one byte at a
// time) and the plaintext reader is drained in a consumption mode (Read loop,
// io.Copy, io.ReadAll, Read then io.Copy); trailing-data classes go through
// the full product, everything else through a hashed combination (oracle.go).
package main

import (
	"bytes"
	"fmt"
	"os"
	"sort"
	"time"

	"filippo.io/age/zverif/ax"
	"filippo.io/age/zverif/keys"
	"filippo.io/age/zverif/mon"
	"filippo.io/age/zverif/refage"
)

const (
	chunk    = refage.ChunkSize    // 65536
	encChunk = refage.EncChunkSize // 65552
	nonceLen = 16
)

// base is one valid file together with everything the oracles need.
type base struct {
	name   string // stable name: origin + plaintext length
	origin string // "age.Encrypt" or "refage"
	ptDesc string
	pt     []byte
	file   []byte
	hdrLen int

	fileKey   []byte // known for refage-built files only
	streamKey []byte
	chunks    [][]byte // encrypted chunks, slices of file

	modelAgrees bool // the reference accepts the unmodified file with the same plaintext
	armored     bool // file is ASCII armor; it is read through armor.NewReader
}

func (b *base) head() []byte    { return b.file[:b.hdrLen+nonceLen] } // header + nonce
func (b *base) payload() []byte { return b.file[b.hdrLen+nonceLen:] }

// boundary k = file offset where encrypted chunk k starts; boundary
// len(chunks) = end of file.
func (b *base) boundary(k int) int {
	if k >= len(b.chunks) {
		return len(b.file)
	}
	return b.hdrLen + nonceLen + k*encChunk
}

func (m *monitor) plaintext(n int) ([]byte, string) {
	label := fmt.Sprintf("c02-pt-%d-%d", m.r.Seed, n)
	return mon.DetBytes(label, n), fmt.Sprintf("mon.DetBytes(%q, %d)", label, n)
}

// realBase encrypts with the real age.Encrypt to X1. The file the real writer
// produced is itself judged by the model (oracle b, class "unmodified").
func (m *monitor) realBase(n int) *base {
	b := &base{name: fmt.Sprintf("enc/len=%d", n), origin: "age.Encrypt"}
	b.pt, b.ptDesc = m.plaintext(n)
	var err error
	b.file, err = ax.Encrypt(b.pt, false, keys.P("X1").Recipient)
	if err != nil {
		m.r.Inconclusive("%s: age.Encrypt failed: %v", b.name, err)
		return nil
	}
	b.hdrLen = refage.HeaderEnd(b.file)
	if b.hdrLen < 0 || len(b.file) < b.hdrLen+nonceLen {
		m.r.Inconclusive("%s: cannot locate the end of the header in the writer's output", b.name)
		return nil
	}
	op, merr := refage.Decrypt(b.file, keys.P("X1").Ref)
	if op == nil || op.StreamKey == nil {
		m.r.Inconclusive("%s: the reference cannot open the header of the writer's output: %v", b.name, merr)
		return nil
	}
	b.streamKey = op.StreamKey
	b.chunks = refage.SplitChunks(b.payload())
	return m.checkUnmodified(b, op.Plaintext, merr == nil)
}

// refBase builds the file with refage from fixed values (known file key).
func (m *monitor) refBase(n int) *base {
	b := &base{name: fmt.Sprintf("ref/len=%d", n), origin: "refage"}
	b.pt, b.ptDesc = m.plaintext(n)
	b.fileKey = mon.DetBytes(fmt.Sprintf("c02-fk-%d-%d", m.r.Seed, n), 16)
	eph := mon.DetBytes(fmt.Sprintf("c02-eph-%d-%d", m.r.Seed, n), 32)
	nonce := mon.DetBytes(fmt.Sprintf("c02-nonce-%d-%d", m.r.Seed, n), nonceLen)
	st, err := refage.X25519Wrap(b.fileKey, keys.NewX("X1").Public, eph)
	if err != nil {
		m.r.Inconclusive("%s: reference X25519 wrap failed: %v", b.name, err)
		return nil
	}
	b.file = refage.BuildFile(b.fileKey, []refage.Stanza{st}, nonce, b.pt)
	b.hdrLen = refage.HeaderEnd(b.file)
	b.streamKey = refage.StreamKey(b.fileKey, nonce)
	b.chunks = refage.SplitChunks(b.payload())
	mpt, _, merr := refage.StreamDecrypt(b.streamKey, b.payload())
	return m.checkUnmodified(b, mpt, merr == nil)
}

// checkUnmodified judges the valid file itself: reader and model must both
// accept it (oracle b). The file is usable as a base for oracle (a) as soon as
// the real reader decrypts it cleanly to what was encrypted; key-crafted
// sequences (needModel) additionally need the model to agree.
func (m *monitor) checkUnmodified(b *base, modelPT []byte, modelOK bool) *base {
	e := &edited{base: b, class: "unmodified", edit: "identity", segs: [][]byte{b.file}}
	for _, via := range e.kinds() {
		m.judgeB(e.with(via), modelPT, modelOK)
		m.r.Distinct(b.name + "|unmodified@" + via)
	}
	e = e.with("filled,read")
	var o *outcome
	m.r.Guard(e.key("panic"), func() { o = m.decrypt(e, b.pt) })
	readerOK := o != nil && o.clean() && o.mismatch < 0 && o.released == len(b.pt)
	b.modelAgrees = modelOK && bytes.Equal(modelPT, b.pt)
	// Recorded, not judged: the untampered file from a source whose end report
	// (after the complete file) is not the bare io.EOF. The end-of-file probe
	// wants exactly io.EOF, so /repo reports most of these as errors; whether a
	// complete file followed by a source error is "accepted" is not C02's matter.
	if readerOK && len(b.pt) <= 1<<20 {
		for _, via := range e.endProduct(nil) {
			ev := e.with(via)
			var o2 *outcome
			m.r.Guard(ev.key("panic"), func() { o2 = m.decrypt(ev, b.pt) })
			if o2 != nil {
				kind, _ := ev.delivery()
				base, end := splitKind(kind)
				res := "error"
				if o2.clean() {
					res = "clean end"
				}
				m.r.Tab("untampered_file_then_nonbare_end_report(recorded,not judged)", end+"/"+endTiming(base)+": "+res)
			}
		}
	}
	if !readerOK {
		if o != nil && o.clean() {
			m.r.Inconclusive("%s: the unmodified file decrypts cleanly to something else than what was encrypted (not a C02 matter)", b.name)
		} else if !modelOK {
			m.r.Inconclusive("%s: neither the reader nor the model accepts the unmodified file", b.name)
		}
		return nil // a reader that rejects the valid file was reported by judgeB
	}
	return b
}

func main() {
	r := mon.Start("C02", "exploration")
	r.Rule = "case = (valid file: origin + plaintext length, edit of the bytes after the header); an edit is a bit flip, truncation length, " +
		"extension, arrangement of the file's own ciphertext chunks, chunk sequence over key-crafted variants, re-split of the plaintext, or " +
		"crash point of the real writer; non-trivial = the edited bytes differ from the valid file (or, for oracle b, the sequence was judged by " +
		"the model) and were pushed through the real age.Decrypt reader to its first error; distinct by (file, edit class, edit)"
	r.Assumptions = []string{
		"files have one X25519 recipient (the payload code does not depend on the recipient type); plaintexts up to 300 chunks",
		"the reference acceptance model refage.StreamDecrypt (validated against the CCTV vectors at start-up) decides key-crafted sequences",
		"chunk-sequence enumeration is bounded: alphabet of counters 0-3 x final flag x {own plaintext chunks, 1-byte, 65535-byte, empty} + one foreign chunk, length <= 3 (quick) / <= 4 (thorough)",
		"AEAD forgeries by chance (2^-128) are ignored",
		"released-byte constraint for rejected key-crafted sequences is not checked (the property does not state one)",
	}
	r.MinEvals, r.MinDistinct = 20000, 20000

	if nv, err := refage.SelfCheck(); err != nil {
		fmt.Fprintf(os.Stderr, "INCONCLUSIVE: reference implementation fails its CCTV self-check: %v\n", err)
		os.Exit(2)
	} else {
		r.Set("reference_self_check_vectors", nv)
	}

	m := &monitor{r: r, id: keys.P("X1").Identity}
	pairDelivery = r.Thorough()
	var jobs []job

	t0 := time.Now()
	lap := func(what string) {
		if os.Getenv("C02_TIMING") != "" {
			fmt.Printf("   timing: %-10s %6.2fs\n", what, time.Since(t0).Seconds())
		}
		t0 = time.Now()
	}
	m.stageBig(&jobs) // first: the longest jobs
	lap("big")
	m.stageSequences(&jobs)
	lap("sequences")
	m.stageMulti(&jobs)
	lap("multi")
	m.stageSmall(&jobs)
	lap("small")
	m.stageResplit(&jobs)
	lap("resplit")
	m.stageCrash(&jobs)
	lap("crash")
	m.stageArmor(&jobs)
	lap("armor")
	m.stageKeyList(&jobs)
	lap("keylist")

	// longest first, stable
	sort.SliceStable(jobs, func(i, j int) bool { return jobs[i].cost > jobs[j].cost })
	r.Set("jobs", len(jobs))
	waitLeftover := m.stageLeftover() // process runs, on their own pools next to the CPU-bound jobs
	waitPipeFeed := m.stagePipeFeed()
	waitIDFile := m.stageIDFile()
	mon.Par(len(jobs), func(i int) { jobs[i].f() })
	lap("jobs")
	waitLeftover()
	waitPipeFeed()
	waitIDFile()
	lap("run")

	m.checkUniqueness()
	m.checkEndCoverage()
	for _, p := range []string{"ParseIdentities", "ParseRecipients"} {
		if r.Counter("keylist_tampered_cases_"+p) < 100 {
			m.r.Inconclusive("key-list stage: only %d tampered cases went through age.%s", r.Counter("keylist_tampered_cases_"+p), p)
		}
	}
	m.report()

	r.Set("max_true_prefix_released_before_an_error", m.maxPrefix.Load())
	r.Set("exhaustive_subspaces", m.exhaustive)
	r.Finish()
}

type job struct {
	cost int // rough relative cost, for scheduling only
	f    func()
}
