package main

import (
	"bytes"
	"crypto/sha256"
	"encoding/hex"
	"fmt"
	"os"
	"path/filepath"
	"strings"
	"time"

	"filippo.io/age/zverif/ax"
	"filippo.io/age/zverif/cli"
	"filippo.io/age/zverif/keys"
	"filippo.io/age/zverif/mon"
	"filippo.io/age/zverif/refage"
)

// The tool's OWN consumer of a decrypted stream: passphrase-protected identity
// files given with -i (cmd/age EncryptedIdentity), with payload tampering, by
// the CONTENT of their plaintext.
//
// Identity files are built with refage (scrypt work factor 8), one full chunk,
// two full chunks and 2.5 chunks long, with plaintext shapes
//
//	key-first   the useful native key, then only comments (a consumer that
//	            stops early already has all it needs)
//	key-last    comments, then the useful key
//	pem-first   an OpenSSH private key (PEM), then comments
//	armor-first an armored block, then comments
//
// and tampered as everywhere in C02. `age -d -i FILE target.age` (passphrase
// typed at a pty) and `age -e -i FILE` are run. Oracle: a tampered identity
// file is never USED: exit non-zero and nothing on stdout. Intact key-first /
// key-last files are controls and must work; whether the intact pem-first /
// armor-first files are accepted at all is recorded, not judged.

const idPass = "c02-identity-file-passphrase"

func padComments(n int) []byte {
	var b bytes.Buffer
	line := func(k int) { // k >= 2 bytes, newline included
		b.WriteByte('#')
		b.WriteString(strings.Repeat(".", k-2))
		b.WriteByte('\n')
	}
	for n > 256 {
		line(128)
		n -= 128
	}
	if n >= 2 {
		line(n)
	} else if n == 1 {
		b.WriteByte('\n')
	}
	return b.Bytes()
}

type idFile struct {
	shape   string
	size    int
	file    []byte
	hdrLen  int
	chunks  [][]byte
	target  string // path of the file it should open
	control bool   // intact file must work
}

type idCase struct {
	f    *idFile
	edit string // "" = intact
	data []byte
	mode string // "-d" or "-e"
}

func (m *monitor) stageIDFile() (wait func()) {
	bin := os.Getenv("AGE_BIN")
	if bin == "" {
		m.r.Inconclusive("identity-file stage: AGE_BIN is not set (run through ./check)")
		return func() {}
	}
	scratch := os.Getenv("VERIF_SCRATCH")
	if scratch == "" {
		scratch = os.TempDir()
	}
	dir, err := os.MkdirTemp(scratch, "c02-idfile-")
	if err != nil {
		m.r.Inconclusive("identity-file stage: %v", err)
		return func() {}
	}
	secret := []byte("C02-TARGET-PLAINTEXT that only the key inside the identity file can release\n")
	write := func(name string, b []byte) string {
		p := filepath.Join(dir, name)
		if err := os.WriteFile(p, b, 0o600); err != nil {
			m.r.Inconclusive("identity-file stage: %v", err)
		}
		return p
	}
	tX, err1 := ax.Encrypt(secret, false, keys.P("X1").Recipient)
	tE, err2 := ax.Encrypt(secret, false, keys.P("E1").Recipient)
	inner, err3 := ax.Encrypt([]byte("inner"), true, keys.P("X2").Recipient)
	if err1 != nil || err2 != nil || err3 != nil {
		m.r.Inconclusive("identity-file stage: cannot build targets: %v %v %v", err1, err2, err3)
		return func() {}
	}
	targetX, targetE := write("target-x1.age", tX), write("target-e1.age", tE)
	write("in.txt", []byte("hello\n"))
	keyLine := []byte(keys.NewX("X1").SecretStr + "\n")
	pem := keys.Data("ed1")
	if len(pem) == 0 || pem[len(pem)-1] != '\n' {
		pem = append(append([]byte{}, pem...), '\n')
	}

	var files []*idFile
	sizes := []int{chunk, 2*chunk + chunk/2}
	for _, shape := range []string{"key-first", "key-last", "pem-first", "armor-first"} {
		ss := sizes
		if m.r.Thorough() || shape == "key-first" || shape == "pem-first" {
			ss = append(append([]int{}, sizes...), 2*chunk)
		}
		for _, size := range ss {
			var pt []byte
			f := &idFile{shape: shape, size: size, target: targetX}
			switch shape {
			case "key-first":
				pt = append(append([]byte{}, keyLine...), padComments(size-len(keyLine))...)
				f.control = true
			case "key-last":
				pt = append(padComments(size-len(keyLine)), keyLine...)
				f.control = true
			case "pem-first":
				pt = append(append([]byte{}, pem...), padComments(size-len(pem))...)
				f.target = targetE
			case "armor-first":
				pt = append(append([]byte{}, inner...), padComments(size-len(inner))...)
			}
			if len(pt) != size {
				m.r.Inconclusive("identity-file stage: %s/%d: plaintext is %d bytes", shape, size, len(pt))
				continue
			}
			label := fmt.Sprintf("c02-idfile-%s-%d-%d", shape, size, m.r.Seed)
			fk, salt, nonce := mon.DetBytes(label+"-fk", 16), mon.DetBytes(label+"-salt", 16), mon.DetBytes(label+"-nonce", 16)
			f.file = refage.BuildFile(fk, []refage.Stanza{refage.ScryptWrap(fk, idPass, salt, 8)}, nonce, pt)
			f.hdrLen = refage.HeaderEnd(f.file)
			f.chunks = refage.SplitChunks(f.file[f.hdrLen+nonceLen:])
			files = append(files, f)
		}
	}

	rng := m.r.RNG("idfile")
	var cases []idCase
	for _, f := range files {
		nc := len(f.chunks)
		head := f.file[:f.hdrLen+nonceLen]
		join := func(cs ...[]byte) []byte {
			out := append([]byte{}, head...)
			for _, c := range cs {
				out = append(out, c...)
			}
			return out
		}
		var edits []idCase
		add := func(name string, data []byte) { edits = append(edits, idCase{f: f, edit: name, data: data}) }
		add("", f.file)
		add("final-chunk-dropped", join(f.chunks[:nc-1]...))
		lastStart := len(f.file) - len(f.chunks[nc-1])
		add("cut-inside-last-chunk", f.file[:lastStart+len(f.chunks[nc-1])/2])
		add("cut-16-bytes-before-the-end", f.file[:len(f.file)-16])
		flipAt := lastStart + 20000%len(f.chunks[nc-1])
		if nc >= 2 {
			flipAt = f.hdrLen + nonceLen + encChunk + 30000 // inside chunk 2
		}
		fl := append([]byte{}, f.file...)
		fl[flipAt] ^= 0x04
		add(fmt.Sprintf("bit-flip-in-chunk-%d", min(nc, 2)), fl)
		tg := append([]byte{}, f.file...)
		tg[len(tg)-3] ^= 0x80
		add("bit-flip-in-the-last-tag", tg)
		add("append-1-byte", append(append([]byte{}, f.file...), 'x'))
		add("append-LF", append(append([]byte{}, f.file...), '\n'))
		add("append-17-random-bytes", append(append([]byte{}, f.file...), mon.Bytes(rng, 17)...))
		add("append-last-chunk-again", append(append([]byte{}, f.file...), f.chunks[nc-1]...))
		if nc >= 2 {
			add("chunk-2-dropped", join(append(append([][]byte{}, f.chunks[:1]...), f.chunks[2:]...)...))
			add("chunk-2-twice", join(append(append([][]byte{}, f.chunks[:2]...), f.chunks[1:]...)...))
		}
		for i, e := range edits {
			e.mode = "-d"
			cases = append(cases, e)
			// -e -i on the intact file and on every other tampering (all of them in thorough)
			if e.edit == "" || i%2 == 1 || m.r.Thorough() {
				e.mode = "-e"
				cases = append(cases, e)
			}
		}
	}
	m.r.Set("identity_file_process_runs_planned", len(cases))

	done := make(chan struct{})
	go func() {
		defer close(done)
		mon.ParN(12, len(cases), func(i int) {
			c := cases[i]
			name := fmt.Sprintf("%s/%d/%s/%s", c.f.shape, c.f.size, orIntact(c.edit), c.mode)
			m.r.Guard("panic/idfile/"+name, func() { m.idFileCase(bin, dir, i, name, c, secret) })
		})
		os.RemoveAll(dir)
	}()
	return func() {
		<-done
		if n := m.r.Counter("identity_file_tampered_runs_judged"); n < 40 {
			m.r.Inconclusive("identity-file stage: only %d tampered runs were judged", n)
		}
		if m.r.Counter("identity_file_controls_passed") < 4 {
			m.r.Inconclusive("identity-file stage: fewer than 4 intact key-first/key-last controls passed (%d)", m.r.Counter("identity_file_controls_passed"))
		}
	}
}

func orIntact(s string) string {
	if s == "" {
		return "intact"
	}
	return s
}

func (m *monitor) idFileCase(bin, dir string, idx int, name string, c idCase, secret []byte) {
	idPath := filepath.Join(dir, fmt.Sprintf("id-%d.age", idx))
	if err := os.WriteFile(idPath, c.data, 0o600); err != nil {
		m.r.Inconclusive("identity-file %s: %v", name, err)
		return
	}
	argv := []string{bin, "-d", "-i", idPath, c.f.target}
	cmd := &cli.Cmd{Dir: dir, TTY: true, Timeout: 120 * time.Second,
		Script: []cli.TTYStep{{Expect: "Enter passphrase", Send: idPass + "\n", Blind: 2 * time.Second}}}
	if c.mode == "-e" {
		argv = []string{bin, "-e", "-i", idPath, "in.txt"}
	}
	cmd.Argv = argv
	res := cli.Run(cmd)
	m.r.Eval(1)
	m.r.Distinct("idfile|" + name)
	if res.Err != nil || res.TimedOut {
		m.r.Inconclusive("identity-file %s: driver error %v (timed out: %v)", name, res.Err, res.TimedOut)
		return
	}
	prompted := bytes.Contains(res.TTYOut, []byte("passphrase"))
	m.r.Tab("identity_file_runs", fmt.Sprintf("%s %s %s -> exit %d", c.f.shape, c.mode, map[bool]string{true: "intact", false: "tampered"}[c.edit == ""], res.Exit))
	rp := map[string]any{"argv": "age " + strings.Join(argv[1:3], " ") + " FILE " + filepath.Base(argv[len(argv)-1]), "identity_file": fmt.Sprintf("scrypt (work factor 8, passphrase %q) over a %d-byte plaintext of shape %s, built by refage from values derived from the seed", idPass, c.f.size, c.f.shape),
		"edit": orIntact(c.edit), "identity_file_len": len(c.data), "exit": res.Exit, "prompted": prompted, "stdout_len": len(res.Stdout), "stderr": string(mon.Trunc(res.Stderr, 300))}
	h := sha256.Sum256(c.data)
	rp["identity_file_sha256"] = hex.EncodeToString(h[:])
	switch {
	case c.edit == "" && c.f.control:
		ok := res.Exit == 0 && (c.mode == "-e" && len(res.Stdout) > 0 || c.mode == "-d" && bytes.Equal(res.Stdout, secret))
		if c.mode == "-e" && ok {
			if op, err := refage.Decrypt(res.Stdout, keys.P("X1").Ref); err != nil || !bytes.Equal(op.Plaintext, []byte("hello\n")) {
				ok = false
			}
		}
		if !ok {
			m.violate("rejected-canonical/identity-file", "rejected-canonical/identity-file/"+name,
				fmt.Sprintf("identity-file %s: the intact passphrase-protected identity file does not work: exit %d, %d bytes on stdout, prompted=%v, stderr %q", name, res.Exit, len(res.Stdout), prompted, mon.Trunc(res.Stderr, 200)), rp)
		} else {
			m.r.Count("identity_file_controls_passed", 1)
		}
	case c.edit == "":
		m.r.Tab("identity_file_intact_pem/armor_shapes(recorded,not judged)", fmt.Sprintf("%s %s -> exit %d", c.f.shape, c.mode, res.Exit))
	default:
		m.r.Count("identity_file_tampered_runs_judged", 1)
		if prompted {
			m.r.Count("identity_file_tampered_runs_prompted", 1)
		}
		if res.Exit == 0 || len(res.Stdout) > 0 {
			what := "the target plaintext was released"
			if c.mode == "-e" {
				what = "a file was encrypted to the key inside it"
			}
			m.violate("accepted/identity-file/"+c.mode, "accepted/identity-file/"+name,
				fmt.Sprintf("identity-file %s: a tampered identity file was used: exit %d, %d bytes on stdout (%s)", name, res.Exit, len(res.Stdout), what), rp)
		}
	}
	m.r.SampleN("idfile:"+c.f.shape+c.mode, 1, map[string]any{"oracle": "a (tool, -i FILE)", "case": name, "exit": res.Exit, "stdout_len": len(res.Stdout), "stderr": string(mon.Trunc(res.Stderr, 120))})
}
