package main

import (
	"bytes"
	"crypto/sha256"
	"fmt"
	"io"
	"sort"
	"strings"

	"filippo.io/age"
	"filippo.io/age/zverif/keys"
	"filippo.io/age/zverif/mon"
	"filippo.io/age/zverif/refage"
)

// ---- edit constructors ------------------------------------------------------

// pos names a file offset relative to the end of the header ("h+N"; the nonce
// is h+0..h+15, the payload starts at h+16), which is stable across runs.
func (b *base) pos(off int) string { return fmt.Sprintf("h+%d", off-b.hdrLen) }

func (b *base) flip(class string, off, bit int) *edited {
	return &edited{base: b, class: class, edit: fmt.Sprintf("flip@%s.bit%d", b.pos(off), bit),
		segs: [][]byte{b.file[:off], {b.file[off] ^ (1 << bit)}, b.file[off+1:]}}
}

func (b *base) trunc(class string, cut int) *edited {
	return &edited{base: b, class: class, edit: fmt.Sprintf("cut@%s", b.pos(cut)), segs: [][]byte{b.file[:cut]}, isCut: true, cut: cut}
}

func (b *base) extend(class, what string, tail []byte) *edited {
	return &edited{base: b, class: class, edit: fmt.Sprintf("append:%s", what), segs: [][]byte{b.file, tail}}
}

// arrange builds header+nonce followed by the file's own chunks in the given
// order (indices may repeat or be missing).
func (b *base) arrange(class, tag string, order []int) *edited {
	segs := make([][]byte, 0, len(order)+1)
	segs = append(segs, b.head())
	names := make([]string, len(order))
	for i, k := range order {
		segs = append(segs, b.chunks[k])
		names[i] = fmt.Sprint(k)
	}
	ed := tag + "[" + strings.Join(names, ",") + "]"
	if len(order) > 16 {
		// the 300-chunk file: the tag alone names the arrangement
		ed = fmt.Sprintf("%s[%d chunks]", tag, len(order))
	}
	return &edited{base: b, class: class, edit: ed, segs: segs}
}

func (m *monitor) addA(jobs *[]job, cost int, e *edited) {
	*jobs = append(*jobs, job{cost, func() { m.judgeA(e) }})
}

// ---- small files: exhaustive flips, truncations, extensions -------------------

var smallLens = []int{0, 1, 15, 16, 17, 31, 32, 33, 47, 48, 49, 63, 64, 65}

func (m *monitor) stageSmall(jobs *[]job) {
	rng := m.r.RNG("small-ext")
	nf, nt, ne := 0, 0, 0
	for _, n := range smallLens {
		b := m.realBase(n)
		if b == nil {
			continue
		}
		L := len(b.file)
		for off := b.hdrLen; off < L; off++ {
			for bit := 0; bit < 8; bit++ {
				m.addA(jobs, 1, b.flip("flip-small", off, bit))
				nf++
			}
		}
		for cut := b.hdrLen; cut < L; cut++ {
			m.addA(jobs, 1, b.trunc("trunc-small", cut))
			nt++
		}
		for k := 1; k <= 64; k++ {
			m.addA(jobs, 1, b.extend("extend-small", fmt.Sprintf("%d-random-bytes", k), mon.Bytes(rng, k)))
			m.addA(jobs, 1, b.extend("extend-small", fmt.Sprintf("%d-zero-bytes", k), make([]byte, k)))
			tail := b.file[L-min(k, L):]
			m.addA(jobs, 1, b.extend("extend-small", fmt.Sprintf("own-last-%d-bytes", len(tail)), tail))
			ne += 3
		}
		m.addA(jobs, 3, b.extend("extend-small", "whole-random-chunk", mon.Bytes(rng, encChunk)))
		m.addA(jobs, 1, b.extend("extend-small", "own-chunk-again", b.chunks[0]))
		ne += 2
	}
	m.setExh("small files (plaintext lengths 0,1,15..17,31..33,47..49,63..65): every single-bit flip of nonce and payload", nf)
	m.setExh("small files: every truncation length from header-only to full-1", nt)
	m.setExh("small files: every extension length 1..64 (three fillings) and by one whole chunk", ne)
}

func (m *monitor) setExh(what string, n int) {
	m.mu.Lock()
	if m.exhaustive == nil {
		m.exhaustive = map[string]int{}
	}
	m.exhaustive[what] += n
	m.mu.Unlock()
}

// ---- multi-chunk files ------------------------------------------------------------

func (m *monitor) multiLens() []int {
	l := []int{chunk - 1, chunk, chunk + 1, 2 * chunk, 2*chunk + 1000, 3 * chunk, 4*chunk + 777, 5 * chunk}
	if m.r.Thorough() {
		l = append(l, 6*chunk+1, 7*chunk)
	}
	return l
}

func (m *monitor) stageMulti(jobs *[]job) {
	rng := m.r.RNG("multi")
	for _, n := range m.multiLens() {
		b := m.realBase(n)
		if b == nil {
			continue
		}
		nc := len(b.chunks)
		L := len(b.file)
		cost := nc

		// bit flips: whole nonce, +-32 bytes around every chunk boundary (this
		// covers every tag), sampled interior
		seen := map[int]bool{}
		for k := 0; k <= nc; k++ {
			bd := b.boundary(k)
			for off := bd - 32; off < bd+32; off++ {
				if off < b.hdrLen || off >= L || seen[off] {
					continue
				}
				seen[off] = true
				class := "flip-boundary-body"
				rel := (off - b.hdrLen - nonceLen) % encChunk
				switch {
				case off < b.hdrLen+nonceLen:
					class = "flip-nonce"
				case off >= L-refage.TagSize || rel >= chunk:
					class = "flip-tag"
				}
				for bit := 0; bit < 8; bit++ {
					m.addA(jobs, cost, b.flip(class, off, bit))
				}
			}
		}
		for i := 0; i < m.r.Pick(48, 1500); i++ {
			off := b.hdrLen + nonceLen + rng.Intn(L-b.hdrLen-nonceLen)
			m.addA(jobs, cost, b.flip("flip-interior-sampled", off, rng.Intn(8)))
		}

		// truncations: +-40 bytes around every boundary, sampled interior
		seenCut := map[int]bool{}
		for k := 0; k <= nc; k++ {
			bd := b.boundary(k)
			for cut := bd - 40; cut <= bd+40; cut++ {
				if cut < b.hdrLen || cut >= L || seenCut[cut] {
					continue
				}
				seenCut[cut] = true
				class := "trunc-near-boundary"
				if cut == bd {
					class = "trunc-at-boundary"
				}
				m.addA(jobs, cost, b.trunc(class, cut))
			}
		}
		for i := 0; i < m.r.Pick(40, 800); i++ {
			m.addA(jobs, cost, b.trunc("trunc-interior-sampled", b.hdrLen+rng.Intn(L-b.hdrLen)))
		}
		// truncations that get every end report of the source: the middle of
		// every non-final chunk, and four places inside the final chunk
		for k := 0; k < nc-1; k++ {
			m.addA(jobs, 4*cost, b.trunc("trunc-mid-chunk", b.boundary(k)+encChunk/2+k))
		}
		fin := b.boundary(nc - 1)
		for _, cut := range dedupInts(fin+1, fin+(L-fin)/2, L-refage.TagSize-1, L-1) {
			if cut > fin && cut < L {
				m.addA(jobs, 4*cost, b.trunc("trunc-inside-final", cut))
			}
		}

		// extensions
		for _, k := range []int{1, 2, 15, 16, 17, 31, 32, 64, encChunk - 1, encChunk, encChunk + 1} {
			m.addA(jobs, cost, b.extend("extend", fmt.Sprintf("%d-random-bytes", k), mon.Bytes(rng, k)))
		}

		// the CONTENT of the appended data: tails made only of white space (what
		// the armor format tolerates after its END line must not be tolerated
		// after the last chunk of a binary file), look-alikes, NULs, and mixes
		// that end in one non-blank byte
		for _, t := range whitespaceTails() {
			m.addA(jobs, cost, b.extend("extend-whitespace", t.name, t.data))
		}

		// drops: every non-empty set of chunks removed
		if nc <= 7 {
			for mask := 1; mask < 1<<nc; mask++ {
				var keep []int
				for k := 0; k < nc; k++ {
					if mask&(1<<k) == 0 {
						keep = append(keep, k)
					}
				}
				m.addA(jobs, cost, b.arrange("drop", "keep", keep))
			}
		}
		// duplications: a copy of chunk i inserted at every position; runs of
		// 2..4 chunks repeated in place
		ident := make([]int, nc)
		for k := range ident {
			ident[k] = k
		}
		for i := 0; i < nc; i++ {
			for at := 0; at <= nc; at++ {
				o := append(append(append([]int{}, ident[:at]...), i), ident[at:]...)
				m.addA(jobs, cost, b.arrange("duplicate", fmt.Sprintf("copy%d@%d", i, at), o))
			}
		}
		for i := 0; i < nc; i++ {
			for l := 2; l <= 4 && i+l <= nc; l++ {
				o := append(append(append([]int{}, ident[:i+l]...), ident[i:i+l]...), ident[i+l:]...)
				m.addA(jobs, cost, b.arrange("duplicate", fmt.Sprintf("run%d+%d", i, l), o))
			}
		}
		// permutations: all of them for <= 5 chunks, otherwise every
		// permutation of every window of 4 consecutive chunks
		if nc <= 5 {
			permute(ident, func(p []int) { m.addA(jobs, cost, b.arrange("permute", "order", append([]int{}, p...))) })
		} else {
			for w := 0; w+4 <= nc; w++ {
				permute(ident[w:w+4], func(p []int) {
					o := append(append(append([]int{}, ident[:w]...), p...), ident[w+4:]...)
					m.addA(jobs, cost, b.arrange("permute", fmt.Sprintf("window%d", w), o))
				})
			}
		}
		// every sequence over the file's own chunks up to a length bound
		maxLen := 4
		if m.r.Thorough() {
			maxLen = min(nc+1, 6)
			if nc >= 6 {
				maxLen = 5
			}
		}
		var seq []int
		var rec func()
		rec = func() {
			m.addA(jobs, cost, b.arrange("own-chunk-sequence", "seq", append([]int{}, seq...)))
			if len(seq) == maxLen {
				return
			}
			for k := 0; k < nc; k++ {
				seq = append(seq, k)
				rec()
				seq = seq[:len(seq)-1]
			}
		}
		rec()
		m.r.Tab("own_chunk_sequences_max_len", fmt.Sprintf("%s:%d", b.name, maxLen))
	}
}

type tail struct {
	name string
	data []byte
}

func whitespaceTails() []tail {
	rep := func(s string, n int) []byte { return bytes.Repeat([]byte(s), n) }
	return []tail{
		{"LF", []byte("\n")}, {"SP", []byte(" ")}, {"CRLF", []byte("\r\n")}, {"TAB-SP-LF-LF", []byte("\t \n\n")},
		{"VT-FF", []byte("\v\f")}, {"CR", []byte("\r")},
		{"1000xLF", rep("\n", 1000)}, {"1023xSP", rep(" ", 1023)}, {"1024xSP", rep(" ", 1024)}, {"1025xSP", rep(" ", 1025)},
		{"40000xCRLF", rep("\r\n", 40000)},
		{"0x85", []byte{0x85}}, {"0xA0", []byte{0xA0}}, {"U+0085", []byte{0xC2, 0x85}}, {"U+00A0", []byte{0xC2, 0xA0}},
		{"NUL", []byte{0}}, {"16xNUL", make([]byte, 16)}, {"LF-NUL", []byte("\n\x00")},
		{"SP-LF-x", []byte(" \n x")}, {"1000xSP-then-x", append(rep(" ", 1000), 'x')}, {"LF-LF-0x01", []byte("\n\n\x01")},
		{"2000xLF-then-x", append(rep("\n", 2000), 'x')},
	}
}

func permute(a []int, f func([]int)) {
	p := append([]int{}, a...)
	var rec func(k int)
	rec = func(k int) {
		if k == len(p) {
			f(p)
			return
		}
		for i := k; i < len(p); i++ {
			p[k], p[i] = p[i], p[k]
			rec(k + 1)
			p[k], p[i] = p[i], p[k]
		}
	}
	rec(0)
}

// ---- the 300-chunk file (both tiers): takes the counter past one byte ---------

const bigChunks = 300

func (m *monitor) stageBig(jobs *[]job) {
	n := (bigChunks-1)*chunk + 4321
	b := m.realBase(n)
	rng := m.r.RNG("big")
	if b != nil {
		nc := len(b.chunks)
		focus := map[int]bool{}
		for _, k := range []int{0, 1, 2, 3, 4, 5, 6, 7, 8, 16, 127, 128, 129, 254, 255, 256, 257, 258, 298, 299} {
			focus[k] = true
		}
		for i := 0; i < 8; i++ {
			focus[rng.Intn(nc)] = true
		}
		// truncation at every chunk boundary, +-1 (thorough: every boundary;
		// quick: focus set), +-40 around the focus set in thorough
		for k := 0; k <= nc; k++ {
			bd := b.boundary(k)
			if k < nc {
				m.addA(jobs, 4+k, b.trunc("big-trunc-at-boundary", bd))
			}
			w := 0
			if focus[k] || m.r.Thorough() {
				w = 1
			}
			if focus[k] && m.r.Thorough() {
				w = 40
			}
			for d := -w; d <= w; d++ {
				if d == 0 || bd+d < b.hdrLen || bd+d >= len(b.file) {
					continue
				}
				m.addA(jobs, 4+k, b.trunc("big-trunc-near-boundary", bd+d))
			}
		}
		for _, d := range []int{15, 16, 17, 4321, 4337} {
			m.addA(jobs, nc, b.trunc("big-trunc-near-boundary", len(b.file)-d))
		}
		ident := make([]int, nc)
		for k := range ident {
			ident[k] = k
		}
		without := func(lo, hi int) []int { return append(append([]int{}, ident[:lo]...), ident[hi:]...) }
		fk := sortedKeys(focus)
		for _, k := range fk {
			if k < nc {
				m.addA(jobs, nc, b.arrange("big-drop", fmt.Sprintf("drop%d", k), without(k, k+1)))
			}
			if k+1 < nc {
				o := append([]int{}, ident...)
				o[k], o[k+1] = o[k+1], o[k]
				m.addA(jobs, nc, b.arrange("big-swap", fmt.Sprintf("swap%d,%d", k, k+1), o))
			}
			if k < nc {
				o := append(append(append([]int{}, ident[:k+1]...), k), ident[k+1:]...)
				m.addA(jobs, nc, b.arrange("big-duplicate", fmt.Sprintf("twice%d", k), o))
				// the short final chunk moved in front of chunk k
				if k < nc-1 {
					o2 := append(append(append([]int{}, ident[:k]...), nc-1), ident[k:nc-1]...)
					m.addA(jobs, nc, b.arrange("big-move-final", fmt.Sprintf("final-before%d", k), o2))
				}
			}
		}
		// edits at the distance where one counter byte wraps
		for _, r := range [][2]int{{0, 256}, {1, 257}, {10, 266}, {43, 299}, {0, 255}, {0, 257}, {0, 128}} {
			m.addA(jobs, nc, b.arrange("big-drop", fmt.Sprintf("drop%d..%d", r[0], r[1]-1), without(r[0], r[1])))
		}
		for _, r := range [][2]int{{0, 256}, {1, 257}, {2, 258}, {43, 299}, {0, 255}, {1, 256}, {0, 128}, {5, 250}} {
			o := append([]int{}, ident...)
			o[r[0]], o[r[1]] = o[r[1]], o[r[0]]
			m.addA(jobs, nc, b.arrange("big-swap", fmt.Sprintf("swap%d,%d", r[0], r[1]), o))
		}
		// a block of 256 chunks repeated / rotated
		m.addA(jobs, 2*nc, b.arrange("big-duplicate", "twice0..255", append(append([]int{}, ident[:256]...), ident...)))
		m.addA(jobs, nc, b.arrange("big-rotate", "rotate256", append(append([]int{}, ident[256:nc-1]...), append(append([]int{}, ident[:256]...), nc-1)...)))
		// bit flips: nonce, tags and bodies around the byte carry and the end
		for i := 0; i < 4; i++ {
			m.addA(jobs, 2, b.flip("big-flip-nonce", b.hdrLen+rng.Intn(nonceLen), rng.Intn(8)))
		}
		for _, k := range fk {
			if k >= nc {
				continue
			}
			end := b.boundary(k) + len(b.chunks[k])
			m.addA(jobs, 4+k, b.flip("big-flip-tag", end-1-rng.Intn(refage.TagSize), rng.Intn(8)))
			if len(b.chunks[k]) > refage.TagSize {
				m.addA(jobs, 4+k, b.flip("big-flip-body", b.boundary(k)+rng.Intn(len(b.chunks[k])-refage.TagSize), rng.Intn(8)))
			}
		}
		for i := 0; i < m.r.Pick(8, 200); i++ {
			off := b.hdrLen + nonceLen + rng.Intn(len(b.payload()))
			m.addA(jobs, 4+(off-b.hdrLen)/encChunk, b.flip("big-flip-sampled", off, rng.Intn(8)))
		}
		for _, k := range []int{1, 16, 17, encChunk} {
			m.addA(jobs, nc, b.extend("big-extend", fmt.Sprintf("%d-random-bytes", k), mon.Bytes(rng, k)))
		}
		m.addA(jobs, nc, b.extend("big-extend", "own-chunk-0-again", b.chunks[0]))
		m.addA(jobs, nc, b.extend("big-extend", "own-final-chunk-again", b.chunks[nc-1]))
	}

	// oracle (b) at 300 chunks: the canonical file written by the reference
	// must be accepted (checked by refBase), and counter variants must be
	// rejected: low counter byte only (wraps at 256), counter restarting at 0
	// after chunk 255, counter off by one from chunk 256 on.
	rb := m.refBase(n)
	if rb == nil || !rb.modelAgrees {
		return
	}
	type variant struct {
		name string
		ctr  func(k int) uint64
	}
	for _, v := range []variant{
		{"counter-low-byte-only", func(k int) uint64 { return uint64(k % 256) }},
		{"counter-skips-256", func(k int) uint64 {
			if k >= 256 {
				return uint64(k + 1)
			}
			return uint64(k)
		}},
	} {
		v := v
		*jobs = append(*jobs, job{3 * bigChunks, func() {
			segs := [][]byte{rb.head()}
			var payload []byte
			for k := 0; k < bigChunks; k++ {
				lo, hi := k*chunk, min((k+1)*chunk, len(rb.pt))
				payload = append(payload, refage.SealChunk(rb.streamKey, v.ctr(k), k == bigChunks-1, rb.pt[lo:hi])...)
			}
			segs = append(segs, payload)
			mpt, _, merr := refage.StreamDecrypt(rb.streamKey, payload)
			e := &edited{base: rb, class: "big-keycrafted-counter", edit: v.name, segs: segs}
			for _, via := range e.kindPair() {
				m.r.Distinct(rb.name + "|" + e.class + "|" + e.edit + "@" + via)
				if o := m.judgeB(e.with(via), mpt, merr == nil); o != nil && o.clean() {
					m.noteAccepted(e.with(via), payload)
				}
			}
			m.r.SampleN("b:big", 3, map[string]any{"oracle": "b", "file": rb.name, "edit": v.name, "model_accepts": merr == nil})
		}})
	}
}

func sortedKeys(s map[int]bool) []int {
	var out []int
	for k := range s {
		out = append(out, k)
	}
	sort.Ints(out)
	return out
}

// ---- chunk-sequence enumeration with key-crafted variants ----------------------

type symbol struct {
	name     string
	ct       []byte
	feasible bool // obtainable without the key: a chunk of the file as sealed, or foreign bytes
}

// alphabet of DESIGN §4 C02: each own plaintext chunk, a 1-byte, a 65535-byte
// and an empty chunk sealed with the file's real stream key under every
// counter 0-3 x final flag, plus one chunk sealed under a foreign key and one
// stray byte.
func (m *monitor) alphabet(b *base) []symbol {
	var parts [][]byte
	for lo := 0; ; lo += chunk {
		hi := min(lo+chunk, len(b.pt))
		parts = append(parts, b.pt[lo:hi])
		if hi == len(b.pt) {
			break
		}
	}
	type src struct {
		name string
		pt   []byte
	}
	var srcs []src
	for i, p := range parts {
		srcs = append(srcs, src{fmt.Sprintf("P%d", i), p})
	}
	srcs = append(srcs,
		src{"b1", mon.DetBytes("c02-short-1", 1)},
		src{"b65535", mon.DetBytes("c02-short-65535", chunk-1)},
		src{"empty", nil})
	own := map[string]bool{}
	for _, c := range b.chunks {
		own[string(c)] = true
	}
	seen := map[string]bool{}
	var out []symbol
	for _, s := range srcs {
		for ctr := 0; ctr < 4; ctr++ {
			for _, last := range []bool{false, true} {
				ct := refage.SealChunk(b.streamKey, uint64(ctr), last, s.pt)
				if seen[string(ct)] {
					continue // e.g. the own empty chunk and the crafted empty chunk coincide
				}
				seen[string(ct)] = true
				fl := "n"
				if last {
					fl = "f"
				}
				out = append(out, symbol{fmt.Sprintf("%s@%d%s", s.name, ctr, fl), ct, own[string(ct)]})
			}
		}
	}
	foreign := refage.SealChunk(mon.DetBytes("c02-foreign-key", 32), 0, false, mon.DetBytes("c02-foreign-pt", chunk))
	out = append(out, symbol{"foreign", foreign, true})
	// one stray byte: "every amount of trailing data" in sequence form
	out = append(out, symbol{"junk1", []byte{0x5a}, true})
	return out
}

func (m *monitor) stageSequences(jobs *[]job) {
	type plan struct{ n, quick, thorough int }
	for _, p := range []plan{
		{chunk + 100, 3, 4}, // one full chunk + a short final one
		{2 * chunk, 3, 3},   // two full chunks, the final one full-size
		{0, 3, 4},           // the empty file: its only chunk is the empty final chunk
		{10, 3, 3},          // one short chunk
		{3*chunk + 5, 2, 3}, // four plaintext chunks: larger alphabet, shorter sequences
	} {
		b := m.refBase(p.n)
		if b == nil || !b.modelAgrees {
			continue
		}
		alpha := m.alphabet(b)
		maxLen := m.r.Pick(p.quick, p.thorough)
		m.r.Tab("sequence_enumeration", fmt.Sprintf("%s: alphabet=%d maxlen=%d", b.name, len(alpha), maxLen))
		A := len(alpha)
		total := 0
		for l, c := 0, 1; l <= maxLen; l, c = l+1, c*A {
			total += c
		}
		m.setExh(fmt.Sprintf("%s: every chunk sequence of length <= %d over an alphabet of %d (own + key-crafted + foreign)", b.name, maxLen, A), total)
		// one job per prefix of length min(l,2): the rest is enumerated inside
		for l := 0; l <= maxLen; l++ {
			pl := min(l, 2)
			np := 1
			for i := 0; i < pl; i++ {
				np *= A
			}
			for pi := 0; pi < np; pi++ {
				l, pi, pl := l, pi, pl
				inner := 1
				for i := pl; i < l; i++ {
					inner *= A
				}
				*jobs = append(*jobs, job{1 + inner/8, func() {
					seq := make([]int, l)
					x := pi
					for i := pl - 1; i >= 0; i-- {
						seq[i] = x % A
						x /= A
					}
					var buf []byte
					for k := 0; k < inner; k++ {
						y := k
						for i := l - 1; i >= pl; i-- {
							seq[i] = y % A
							y /= A
						}
						buf = m.sequenceCase(b, alpha, seq, buf)
					}
				}})
			}
		}
	}
}

func (m *monitor) sequenceCase(b *base, alpha []symbol, seq []int, buf []byte) []byte {
	payload := buf[:0]
	segs := make([][]byte, 0, len(seq)+1)
	segs = append(segs, b.head())
	names := make([]string, len(seq))
	feasible := true
	for i, s := range seq {
		payload = append(payload, alpha[s].ct...)
		segs = append(segs, alpha[s].ct)
		names[i] = alpha[s].name
		feasible = feasible && alpha[s].feasible
	}
	ed := "seq=" + strings.Join(names, "+")
	if len(seq) == 0 {
		ed = "seq=(none)"
	}
	if bytes.Equal(payload, b.payload()) {
		m.r.Count("sequences_equal_to_the_original_file", 1) // judged by checkUnmodified
		return payload
	}
	mpt, _, merr := refage.StreamDecrypt(b.streamKey, payload)
	class := "sequence-keycrafted"
	if feasible {
		class = "sequence-own+foreign"
	}
	e := &edited{base: b, class: class, edit: ed, segs: segs, long: len(seq) >= 4}
	var o *outcome
	for _, via := range e.kindPair() {
		m.r.Distinct(b.name + "|seq|" + ed + "@" + via)
		o = m.judgeB(e.with(via), mpt, merr == nil)
		if o != nil && o.clean() {
			m.noteAccepted(e.with(via), payload)
		}
	}
	if merr == nil {
		m.r.SampleN("b:accepted:"+b.name, 1, map[string]any{"oracle": "b", "file": b.name, "sequence": ed, "model": "accepts", "plaintext_len": len(mpt), "reader": fmt.Sprint(o)})
	} else {
		m.r.SampleN("b:rejected", 2, map[string]any{"oracle": "b", "file": b.name, "sequence": ed, "model": "rejects", "reader": fmt.Sprint(o)})
	}
	if feasible {
		// no key needed to build it: oracle (a) applies as well
		m.judgeA(e)
	}
	return payload
}

// ---- re-splitting one plaintext -------------------------------------------------

func (m *monitor) stageResplit(jobs *[]job) {
	for _, n := range []int{0, 1, 100, chunk, chunk + 100, 2 * chunk, 2*chunk + 5} {
		b := m.refBase(n)
		if b == nil || !b.modelAgrees {
			continue
		}
		cand := map[int]bool{}
		for _, c := range []int{0, 1, 100, chunk - 1, chunk, chunk + 1, 2*chunk - 1, 2 * chunk, 2*chunk + 1, n - 1, n} {
			if c >= 0 && c <= n {
				cand[c] = true
			}
		}
		cuts := sortedKeys(cand)
		// every non-decreasing list of <= 3 interior cut points (<= 4 parts; equal cuts give empty parts)
		var lists [][]int
		var cur []int
		var rec func(from int)
		rec = func(from int) {
			lists = append(lists, append([]int{}, cur...))
			if len(cur) == 3 {
				return
			}
			for i := from; i < len(cuts); i++ {
				cur = append(cur, cuts[i])
				rec(i)
				cur = cur[:len(cur)-1]
			}
		}
		rec(0)
		m.setExh(fmt.Sprintf("%s: every split into <= 4 parts at cut points %v x 3 final-flag patterns", b.name, cuts), 3*len(lists))
		for _, cl := range lists {
			for _, flags := range []string{"last", "none", "all"} {
				cl, flags := cl, flags
				*jobs = append(*jobs, job{len(cl) + 1, func() { m.resplitCase(b, cl, flags) }})
			}
		}
	}
}

func (m *monitor) resplitCase(b *base, cuts []int, flags string) {
	pts := append(append([]int{0}, cuts...), len(b.pt))
	var payload []byte
	for i := 0; i+1 < len(pts); i++ {
		last := flags == "all" || (flags == "last" && i+2 == len(pts))
		payload = append(payload, refage.SealChunk(b.streamKey, uint64(i), last, b.pt[pts[i]:pts[i+1]])...)
	}
	if bytes.Equal(payload, b.payload()) {
		m.r.Count("resplits_equal_to_the_canonical_chunking", 1)
		return
	}
	mpt, _, merr := refage.StreamDecrypt(b.streamKey, payload)
	e := &edited{base: b, class: "resplit", edit: fmt.Sprintf("cuts=%v,final-flag=%s", cuts, flags), segs: [][]byte{b.head(), payload}}
	if merr == nil {
		// a different byte string carrying the same plaintext cannot be canonical
		m.r.Inconclusive("%s %s: the model accepts a non-canonical chunking (model defect)", b.name, e.edit)
	}
	var o *outcome
	for _, via := range e.kindPair() {
		m.r.Distinct(b.name + "|resplit|" + e.edit + "@" + via)
		o = m.judgeB(e.with(via), mpt, merr == nil)
		if o != nil && o.clean() {
			m.noteAccepted(e.with(via), payload)
		}
	}
	m.r.SampleN("b:resplit", 2, map[string]any{"oracle": "b", "file": b.name, "edit": e.edit, "model_accepts": merr == nil, "reader": fmt.Sprint(o)})
}

// ---- uniqueness: one accepted chunking per plaintext -----------------------------

type acceptedRec struct {
	base    *base
	key     string
	edit    string
	ptSum   [32]byte
	paySum  [32]byte
	ptLen   int
	replay  map[string]any
	keyName string
}

// noteAccepted records a payload the real reader accepted (decrypting it once
// more to hash the plaintext); checkUniqueness then demands that no two
// different payloads under one stream key were accepted with the same
// plaintext. This part of the oracle does not use the model.
func (m *monitor) noteAccepted(e *edited, payload []byte) {
	kind, _ := e.delivery()
	rd, err := age.Decrypt(openSource(e.segs, kind), m.id)
	if err != nil {
		return
	}
	h := sha256.New()
	n, err := io.Copy(h, rd)
	if err != nil {
		return
	}
	rec := acceptedRec{base: e.base, key: e.key("two-chunkings-accepted"), edit: e.class + " " + e.edit, ptLen: int(n),
		paySum: sha256.Sum256(payload), replay: e.replay(&outcome{readErr: io.EOF, released: int(n), mismatch: -1})}
	copy(rec.ptSum[:], h.Sum(nil))
	m.mu.Lock()
	m.accepted = append(m.accepted, rec)
	m.mu.Unlock()
}

func (m *monitor) checkUniqueness() {
	m.mu.Lock()
	acc := m.accepted
	m.mu.Unlock()
	sort.Slice(acc, func(i, j int) bool {
		if len(acc[i].key) != len(acc[j].key) {
			return len(acc[i].key) < len(acc[j].key)
		}
		return acc[i].key < acc[j].key
	})
	type gk struct {
		b  *base
		pt [32]byte
	}
	first := map[gk]acceptedRec{}
	for _, a := range acc {
		k := gk{a.base, a.ptSum}
		f, ok := first[k]
		if !ok {
			first[k] = a
			continue
		}
		if f.paySum == a.paySum {
			continue
		}
		m.violate("two-chunkings-accepted/"+a.base.origin, a.key,
			fmt.Sprintf("%s: two different payloads under the same key and nonce were both accepted with the same %d-byte plaintext: [%s] and [%s]",
				a.base.name, a.ptLen, f.edit, a.edit), a.replay)
	}
	// the unmodified file is one more accepted payload for its plaintext
	for _, a := range acc {
		if a.ptLen == len(a.base.pt) && a.ptSum == sha256.Sum256(a.base.pt) && a.paySum != sha256.Sum256(a.base.payload()) {
			m.violate("two-chunkings-accepted/"+a.base.origin, a.key+"/vs-original",
				fmt.Sprintf("%s: a payload different from the valid file was accepted with the file's own plaintext: [%s]", a.base.name, a.edit), a.replay)
		}
	}
	m.r.Set("distinct_accepted_payloads_checked_for_uniqueness", len(acc))
}

// ---- crash points of the real writer ---------------------------------------------

type crashSpec struct {
	call, partial int // fail at call index (>=0) after accepting partial bytes
	byteOff       int // or: fail when the stream would pass byteOff (>=0)
	once          bool
	goOn          bool // the caller ignores the error and keeps writing / closes (otherwise it dies there)
	seg           int  // plaintext written in pieces of seg bytes (0 = one Write)
}

func (c crashSpec) String() string {
	s := ""
	if c.call >= 0 {
		s = fmt.Sprintf("call%d+%d", c.call, c.partial)
	} else {
		s = fmt.Sprintf("byte%d", c.byteOff)
	}
	if c.once {
		s += ",once"
	}
	if c.goOn {
		s += ",caller-continues"
	} else {
		s += ",writer-dies"
	}
	if c.seg > 0 {
		s += fmt.Sprintf(",writes-of-%d", c.seg)
	}
	return s
}

func (m *monitor) stageCrash(jobs *[]job) {
	rng := m.r.RNG("crash")
	lens := []int{0, 1, 64, chunk, chunk + 1, 2*chunk + 1000, 5 * chunk}
	if m.r.Thorough() {
		lens = append(lens, 3*chunk, 7*chunk+9)
	}
	rcp := keys.P("X1").Recipient
	for _, n := range lens {
		n := n // captured by the jobs below (go.mod language version < 1.22)
		pt, ptDesc := m.plaintext(n)
		// learn the write-call pattern of an undisturbed run
		ow := &mon.ObservingWriter{}
		w, err := age.Encrypt(ow, rcp)
		if err == nil {
			_, err = w.Write(pt)
		}
		if err == nil {
			err = w.Close()
		}
		if err != nil {
			m.r.Inconclusive("crash len=%d: undisturbed encryption failed: %v", n, err)
			continue
		}
		calls := append([]int{}, ow.Calls...)
		L := ow.Len()
		m.r.Tab("crash_write_calls", fmt.Sprintf("len=%d: %d calls, %d bytes", n, len(calls), L))

		var specs []crashSpec
		for k, sz := range calls {
			for _, p := range dedupInts(0, 1, sz/2, sz-1, sz) {
				if p < 0 {
					continue
				}
				specs = append(specs, crashSpec{call: k, partial: p, byteOff: -1})
				specs = append(specs, crashSpec{call: k, partial: p, byteOff: -1, once: true, goOn: true})
				if n > 30000 {
					specs = append(specs, crashSpec{call: k, partial: p, byteOff: -1, goOn: true, seg: 30000})
				}
			}
		}
		offs := map[int]bool{L: true}
		if L <= 400 {
			for o := 0; o <= L; o++ {
				offs[o] = true
			}
			m.setExh(fmt.Sprintf("crash points, plaintext length %d: the writer's destination fails at every byte offset 0..%d and at every write call", n, L), L+1)
		} else {
			w := m.r.Pick(3, 40)
			at := 0
			for _, sz := range calls {
				for d := -w; d <= w; d++ {
					if at+d >= 0 && at+d <= L {
						offs[at+d] = true
					}
				}
				at += sz
			}
			for d := 0; d <= w; d++ {
				offs[L-d] = true
			}
			for i := 0; i < m.r.Pick(10, 200); i++ {
				offs[rng.Intn(L)] = true
			}
		}
		for _, o := range sortedKeys(offs) {
			specs = append(specs, crashSpec{call: -1, byteOff: o})
			if o%3 == 0 {
				specs = append(specs, crashSpec{call: -1, byteOff: o, once: true, goOn: true})
			}
		}
		for _, sp := range specs {
			sp := sp
			*jobs = append(*jobs, job{2 + n/chunk, func() { m.crashCase(n, pt, ptDesc, L, sp) }})
		}
	}
}

func dedupInts(v ...int) []int {
	seen := map[int]bool{}
	var out []int
	for _, x := range v {
		if !seen[x] {
			seen[x] = true
			out = append(out, x)
		}
	}
	return out
}

func (m *monitor) crashCase(n int, pt []byte, ptDesc string, fullLen int, sp crashSpec) {
	fw := mon.NewFaultWriter()
	fw.FailAtCall, fw.Partial, fw.FailAtByte, fw.Once = sp.call, sp.partial, sp.byteOff, sp.once
	name := fmt.Sprintf("crash/len=%d", n)
	var werr error
	m.r.Guard("panic/crash-writer/"+name+"/"+sp.String(), func() {
		w, err := age.Encrypt(fw, keys.P("X1").Recipient)
		if err != nil {
			werr = err
			return
		}
		p := pt
		for first := true; first || len(p) > 0; first = false {
			k := len(p)
			if sp.seg > 0 && sp.seg < k {
				k = sp.seg
			}
			if _, err := w.Write(p[:k]); err != nil {
				werr = err
				if !sp.goOn {
					return // the process died here
				}
			}
			p = p[k:]
		}
		if err := w.Close(); err != nil && werr == nil {
			werr = err
		}
	})
	left := append([]byte{}, fw.Buf...)
	b := &base{name: name, origin: "age.Encrypt interrupted", pt: pt, ptDesc: ptDesc, file: nil, hdrLen: refage.HeaderEnd(left)}
	e := &edited{base: b, class: "crash-point", edit: sp.String(), segs: [][]byte{left}}
	m.r.Distinct(name + "|crash|" + sp.String())
	if fw.Fired > 0 {
		m.r.Count("crash_faults_fired", 1)
	} else {
		m.r.Count("crash_runs_without_fault", 1)
	}
	switch {
	case len(left) < b.hdrLen || b.hdrLen < 0:
		m.r.Tab("crash_left_behind", "part of the header")
	case len(left) < fullLen:
		m.r.Tab("crash_left_behind", "header + part of the payload")
	case len(left) == fullLen:
		m.r.Tab("crash_left_behind", "complete file")
	default:
		m.r.Tab("crash_left_behind", "more than a complete file")
	}
	op, merr := refage.Decrypt(left, keys.P("X1").Ref)
	if merr == nil && op != nil {
		// the final chunk was completely written: a valid file
		e = e.with(e.hashedKind(false)[0])
		o := m.judgeB(e, op.Plaintext, true)
		if o != nil && o.clean() && !bytes.Equal(op.Plaintext, pt) {
			m.r.Inconclusive("%s %s: the destination holds a valid file of a different plaintext", name, sp)
		}
		return
	}
	// incomplete: oracle (a); the source may report its premature end in any way
	e = e.with(e.hashedKind(true)[0])
	var o *outcome
	m.r.Guard(e.key("panic"), func() { o = m.decrypt(e, pt) })
	m.r.Eval(1)
	if o == nil {
		return
	}
	m.r.Tab("edit_class", e.class)
	m.tabDelivery(e)
	m.r.Tab("result", o.errClass())
	m.checkA(e, o)
	m.r.SampleN("a:crash", 2, map[string]any{"oracle": "a", "file": name, "crash": sp.String(), "writer_error": fmt.Sprint(werr),
		"bytes_left_behind": len(left), "complete_file_len": fullLen, "observed": o.String()})
}
