package main

import (
	"bytes"
	"context"
	"fmt"
	"io"
	"os"
	"os/exec"
	"path/filepath"
	"sync"
	"syscall"
	"time"

	"filippo.io/age/zverif/cli"
	"filippo.io/age/zverif/keys"
	"filippo.io/age/zverif/mon"
	"filippo.io/age/zverif/refage"
	"golang.org/x/sys/unix"
)

// cliDamagedAndStreamingStage, two further views of the tool's I/O routes:
//
//  (1) DAMAGED files by route. A 3-chunk file damaged in its last chunk is
//      decrypted with the ciphertext on stdin (a pipe; a redirect from a
//      file) or named as INPUT, towards a pipe, a terminal, "-o -" on a
//      terminal and "-o FILE". What arrived at the destination before the
//      error, and the exit status, must be the same on every route.
//  (2) STREAMING towards a terminal. Header + 2.5 chunks are written to a
//      stdin pipe that stays open; the first complete chunk of plaintext must
//      arrive at the terminal before anything more is sent. A pipe as
//      destination is the control: expiry of the (generous) wait is a
//      violation only if the control received its chunk.

const lineText = "The quick brown fox jumps over the lazy dog 0123456789 +-*/=.\n" // 64 bytes, LF only

func cliText(n int) []byte {
	t := bytes.Repeat([]byte(lineText), n/len(lineText)+1)[:n]
	t[n-1] = '\n'
	return t
}

func cliFile(label string, pt []byte) []byte {
	x1 := keys.NewX("X1")
	fk := mon.DetBytes("c12cli2-fk-"+label, 16)
	s, _ := refage.X25519Wrap(fk, x1.Public, mon.DetBytes("c12cli2-eph-"+label, 32))
	return refage.BuildFile(fk, []refage.Stanza{s}, mon.DetBytes("c12cli2-nonce-"+label, 16), pt)
}

func cliDamagedAndStreamingStage(r *mon.Run) {
	age := os.Getenv("AGE_BIN")
	if age == "" {
		r.Count("cli_damaged_stage_skipped_no_binary", 1)
		return
	}
	work, err := os.MkdirTemp(os.Getenv("VERIF_SCRATCH"), "c12dmg.")
	if err != nil {
		r.Inconclusive("C12 CLI damaged-file stage: %v", err)
		return
	}
	defer os.RemoveAll(work)
	key := filepath.Join(work, "x1.key")
	os.WriteFile(key, []byte(keys.NewX("X1").SecretStr+"\n"), 0o600)
	cliDamagedByRoute(r, age, work, key)
	cliStreamingToTerminal(r, age, work, key)
}

// ---- (1) damaged files by route ----

type dmgResult struct {
	exit int
	got  []byte
	note string
	err  error
}

func (a dmgResult) same(b dmgResult) bool { return a.exit == b.exit && bytes.Equal(a.got, b.got) }

func cliDamagedByRoute(r *mon.Run, age, work, key string) {
	pt := cliText(180000) // chunks of 65536, 65536, 48928 bytes
	valid := cliFile("damaged", pt)
	flipped := append([]byte(nil), valid...)
	flipped[len(flipped)-1] ^= 0x80
	damages := []struct {
		name string
		file []byte
	}{
		{"last-byte-flipped", flipped},
		{"cut-inside-last-chunk", valid[:len(valid)-20000]},
		{"valid", valid},
	}
	ins := []string{"stdin-pipe", "stdin-file-redirect", "INPUT-path"}
	outs := []string{"pipe", "terminal", "-o -", "-o FILE"}
	var ctr int
	var cmu sync.Mutex
	runOnce := func(file []byte, in, out string) dmgResult {
		cmu.Lock()
		ctr++
		d := filepath.Join(work, fmt.Sprintf("r%d", ctr))
		cmu.Unlock()
		os.MkdirAll(d, 0o700)
		defer os.RemoveAll(d)
		os.WriteFile(filepath.Join(d, "input.age"), file, 0o600)
		argv := []string{age, "-d", "-i", key}
		c := &cli.Cmd{Dir: d, Timeout: 90 * time.Second}
		switch out {
		case "terminal":
			c.Stdout, c.NoCTTY = "tty", true
		case "-o -":
			c.Stdout, c.NoCTTY = "tty", true
			argv = append(argv, "-o", "-")
		case "-o FILE":
			argv = append(argv, "-o", "result.out")
		}
		switch in {
		case "stdin-pipe":
			c.StdinPieces = [][]byte{file}
		case "stdin-file-redirect":
			c.StdinFile = filepath.Join(d, "input.age")
		default:
			argv = append(argv, "input.age")
		}
		c.Argv = argv
		res := cli.Run(c)
		r.Count("cli_damaged_route_runs", 1)
		if res.Err != nil {
			return dmgResult{err: res.Err}
		}
		var got []byte
		switch out {
		case "terminal", "-o -":
			got = bytes.ReplaceAll(res.TTYOut, []byte("\r"), nil)
		case "pipe":
			got = res.Stdout
		default:
			got, _ = os.ReadFile(filepath.Join(d, "result.out"))
		}
		return dmgResult{exit: res.Exit, got: got, note: string(mon.Trunc(res.Stderr, 160))}
	}
	type job struct {
		dmg     int
		in, out string
	}
	var jobs []job
	for di := range damages {
		for _, in := range ins {
			for _, out := range outs {
				jobs = append(jobs, job{di, in, out})
			}
		}
	}
	results := make([]dmgResult, len(jobs))
	mon.ParN(12, len(jobs), func(i int) { results[i] = runOnce(damages[jobs[i].dmg].file, jobs[i].in, jobs[i].out) })
	at := func(di int, in, out string) (int, dmgResult) {
		for i, j := range jobs {
			if j.dmg == di && j.in == in && j.out == out {
				return i, results[i]
			}
		}
		return -1, dmgResult{}
	}
	for di, dm := range damages {
		_, base := at(di, "stdin-pipe", "pipe")
		if base.err != nil {
			r.Inconclusive("C12 CLI damaged %s: driver error on the pipe-to-pipe route: %v", dm.name, base.err)
			continue
		}
		if dm.name == "valid" && (base.exit != 0 || !bytes.Equal(base.got, pt)) {
			r.Inconclusive("C12 CLI damaged-file stage: the valid control does not decrypt pipe to pipe: exit %d, %d bytes, %s", base.exit, len(base.got), base.note)
			continue
		}
		for _, in := range ins {
			for _, out := range outs {
				i, x := at(di, in, out)
				name := fmt.Sprintf("cli damaged %s %s -> %s", dm.name, in, out)
				r.Eval(1)
				r.Distinct(name)
				r.Tab("cli_damaged_route", in+" -> "+out)
				if x.err == nil && !x.same(base) {
					// retry once: a second attempt decides
					x = runOnce(dm.file, in, out)
					results[i] = x
					r.Count("cli_damaged_route_runs_retried", 1)
				}
				if x.err != nil {
					r.Inconclusive("%s: driver error %v", name, x.err)
					continue
				}
				if x.same(base) {
					r.Count("cli_damaged_routes_equal_to_pipe_route", 1)
					continue
				}
				// control: the same route must deliver the valid file
				if _, v := at(len(damages)-1, in, out); dm.name != "valid" && (v.err != nil || v.exit != 0 || !bytes.Equal(v.got, pt)) {
					r.Inconclusive("%s: differs from the pipe route, but the route does not deliver the valid file either (exit %d, %d bytes)", name, v.exit, len(v.got))
					continue
				}
				r.Violate(fmt.Sprintf("cli-differs:%s-file/route=%s->%s", map[bool]string{true: "valid", false: "damaged"}[dm.name == "valid"], in, out),
					fmt.Sprintf("%s: exit %d with %d plaintext bytes at the destination (stderr %q); ciphertext on a stdin pipe and stdout a pipe: exit %d with %d bytes",
						name, x.exit, len(x.got), x.note, base.exit, len(base.got)),
					map[string]any{"file": "refage.BuildFile, 180000 bytes of 64-byte ASCII lines to X1; damage: " + dm.name, "input": in, "output": out})
			}
		}
		r.SampleN("cli-damaged", 2, map[string]any{"stage": "cli damaged by route", "damage": dm.name, "pipe_to_pipe": fmt.Sprintf("exit %d, %d bytes released", base.exit, len(base.got)),
			"routes": len(ins) * len(outs)})
	}
}

// ---- (2) streaming towards a terminal ----

func openPTY() (*os.File, *os.File, error) {
	m, err := os.OpenFile("/dev/ptmx", os.O_RDWR|syscall.O_NOCTTY, 0)
	if err != nil {
		return nil, nil, err
	}
	if err := unix.IoctlSetPointerInt(int(m.Fd()), unix.TIOCSPTLCK, 0); err != nil {
		m.Close()
		return nil, nil, err
	}
	n, err := unix.IoctlGetInt(int(m.Fd()), unix.TIOCGPTN)
	if err != nil {
		m.Close()
		return nil, nil, err
	}
	s, err := os.OpenFile(fmt.Sprintf("/dev/pts/%d", n), os.O_RDWR|syscall.O_NOCTTY, 0)
	if err != nil {
		m.Close()
		return nil, nil, err
	}
	return m, s, nil
}

type streamObs struct {
	arrivedBeforeRest int  // plaintext bytes at the destination when the wait ended
	inTime            bool // the first chunk arrived within the wait
	waited            time.Duration
	final             []byte
	exit              int
	err               error
}

// streamRun feeds `first` to age's stdin, waits (bounded) until `need` bytes
// have arrived at the destination, then sends `rest`, closes and collects.
func streamRun(age, key, dir string, toTTY bool, first, rest []byte, need int, wait time.Duration) (o streamObs) {
	ctx, cancel := context.WithTimeout(context.Background(), wait+90*time.Second)
	defer cancel()
	cmd := exec.CommandContext(ctx, age, "-d", "-i", key)
	cmd.Dir = dir
	cmd.Env = []string{"PATH=" + os.Getenv("PATH"), "HOME=/nonexistent", "LANG=C"}
	cmd.SysProcAttr = &syscall.SysProcAttr{Setsid: true}
	cmd.WaitDelay = 5 * time.Second
	inR, inW, err := os.Pipe()
	if err != nil {
		o.err = err
		return
	}
	cmd.Stdin = inR
	var src *os.File // what the harness reads the destination from
	var dstChild *os.File
	if toTTY {
		m, s, err := openPTY()
		if err != nil {
			o.err = err
			return
		}
		src, dstChild = m, s
	} else {
		pr, pw, err := os.Pipe()
		if err != nil {
			o.err = err
			return
		}
		src, dstChild = pr, pw
	}
	cmd.Stdout = dstChild
	var stderr bytes.Buffer
	cmd.Stderr = &stderr
	if err := cmd.Start(); err != nil {
		o.err = err
		return
	}
	inR.Close()
	dstChild.Close()

	var mu sync.Mutex
	var got []byte
	done := make(chan struct{})
	go func() {
		defer close(done)
		buf := make([]byte, 32768)
		for {
			n, err := src.Read(buf)
			if n > 0 {
				mu.Lock()
				for _, c := range buf[:n] {
					if c != '\r' || !toTTY {
						got = append(got, c)
					}
				}
				mu.Unlock()
			}
			if err != nil {
				return
			}
		}
	}()
	arrived := func() int { mu.Lock(); defer mu.Unlock(); return len(got) }

	wrote := make(chan error, 1)
	go func() { _, err := inW.Write(first); wrote <- err }()
	start := time.Now()
	for time.Since(start) < wait && arrived() < need {
		time.Sleep(5 * time.Millisecond)
	}
	o.waited = time.Since(start)
	o.arrivedBeforeRest = arrived()
	o.inTime = o.arrivedBeforeRest >= need
	// the rest, then end of input
	go func() {
		<-wrote
		inW.Write(rest)
		inW.Close()
	}()
	werr := cmd.Wait()
	select {
	case <-done:
	case <-time.After(30 * time.Second):
	}
	src.Close()
	mu.Lock()
	o.final = append([]byte(nil), got...)
	mu.Unlock()
	if cmd.ProcessState != nil {
		o.exit = cmd.ProcessState.ExitCode()
	}
	if werr != nil && cmd.ProcessState == nil {
		o.err = werr
	}
	_ = io.Discard
	return
}

func cliStreamingToTerminal(r *mon.Run, age, work, key string) {
	pt := cliText(3*chunk + 32768) // 3.5 chunks
	file := cliFile("streaming", pt)
	hdr16 := refage.HeaderEnd(file) + 16
	cut := hdr16 + 2*encChunk + encChunk/2 // header + 2.5 chunks
	first, rest := file[:cut], file[cut:]
	const wait = 40 * time.Second
	var tty, pipe streamObs
	var wg sync.WaitGroup
	wg.Add(2)
	go func() { defer wg.Done(); tty = streamRun(age, key, work, true, first, rest, chunk, wait) }()
	go func() { defer wg.Done(); pipe = streamRun(age, key, work, false, first, rest, chunk, wait) }()
	wg.Wait()
	r.Eval(2)
	r.Distinct("cli streaming stdin-pipe -> terminal")
	r.Distinct("cli streaming stdin-pipe -> pipe (control)")
	r.Count("cli_streaming_runs", 2)
	desc := func(o streamObs) string {
		return fmt.Sprintf("%d plaintext bytes had arrived after %.1fs with header + 2.5 chunks delivered and stdin still open; after the rest and end of input: exit %d, %d bytes in total",
			o.arrivedBeforeRest, o.waited.Seconds(), o.exit, len(o.final))
	}
	r.Sample(map[string]any{"stage": "cli streaming", "terminal": desc(tty), "pipe_control": desc(pipe)})
	if tty.err != nil || pipe.err != nil {
		r.Inconclusive("C12 CLI streaming stage: driver error: terminal %v, pipe %v", tty.err, pipe.err)
		return
	}
	okFinal := func(o streamObs) bool { return o.exit == 0 && bytes.Equal(o.final, pt) }
	if !pipe.inTime || !okFinal(pipe) {
		r.Inconclusive("C12 CLI streaming stage: the pipe control did not behave: %s", desc(pipe))
		return
	}
	if !tty.inTime {
		r.Violate("cli-streaming:terminal-holds-back-plaintext/stdin-pipe",
			"age -d with the ciphertext on a stdin pipe and stdout a terminal: "+desc(tty)+"; with stdout a pipe under the same conditions: "+desc(pipe),
			map[string]any{"file": "refage.BuildFile, 3.5 chunks of 64-byte ASCII lines to X1", "first_write": cut, "required_before_more_input": chunk, "wait_s": wait.Seconds()})
		return
	}
	if !okFinal(tty) {
		r.Violate("cli-differs:valid-file/route=stdin-pipe(kept open)->terminal",
			"age -d with the ciphertext trickled on a stdin pipe and stdout a terminal: "+desc(tty)+"; the plaintext is "+fmt.Sprint(len(pt))+" bytes and the pipe route delivered it",
			map[string]any{"file": "refage.BuildFile, 3.5 chunks of 64-byte ASCII lines to X1", "first_write": cut})
		return
	}
	r.Count("cli_streaming_first_chunk_arrived_while_stdin_open", 1)
}
