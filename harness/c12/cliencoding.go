package main

import (
	"bytes"
	"fmt"
	"os"
	"path/filepath"
	"strings"
	"sync"
	"time"

	"filippo.io/age/zverif/cli"
	"filippo.io/age/zverif/keys"
	"filippo.io/age/zverif/mon"
	"filippo.io/age/zverif/refage"
)

// cliEncodingStage: inputs in other TEXT ENCODINGS fed to the tool under
// different deliveries. An armored file re-encoded as UTF-16LE (BOM, CRLF),
// UTF-16BE (BOM), UTF-8 with BOM and UTF-32LE (BOM) is given to `age -d` as
// INPUT path, as stdin from a file, on a stdin pipe written whole and on a
// stdin pipe trickled in pieces of 1, 3, 7 / 101, 1001, 4095, 4097 bytes.
// Plaintext, exit status and error class must be the same for every delivery
// of the same bytes; whether such a file is accepted at all is not judged.
// The plain armored file and the binary file are controls (must succeed).

func reencode(text []byte, enc string) []byte {
	var out []byte
	switch enc {
	case "utf16le-bom-crlf":
		out = []byte{0xFF, 0xFE}
		for _, c := range bytes.ReplaceAll(text, []byte("\n"), []byte("\r\n")) {
			out = append(out, c, 0)
		}
	case "utf16be-bom":
		out = []byte{0xFE, 0xFF}
		for _, c := range text {
			out = append(out, 0, c)
		}
	case "utf8-bom":
		out = append([]byte{0xEF, 0xBB, 0xBF}, text...)
	case "utf32le-bom":
		out = []byte{0xFF, 0xFE, 0, 0}
		for _, c := range text {
			out = append(out, c, 0, 0, 0)
		}
	default:
		out = text
	}
	return out
}

func errLineClass(stderr []byte) string {
	s := string(stderr)
	if i := strings.IndexByte(s, '\n'); i >= 0 {
		s = s[:i]
	}
	if i := strings.IndexAny(s, "\"'"); i >= 0 {
		s = s[:i]
	}
	return s
}

func cliEncodingStage(r *mon.Run) {
	age := os.Getenv("AGE_BIN")
	if age == "" {
		r.Count("cli_encoding_stage_skipped_no_binary", 1)
		return
	}
	work, err := os.MkdirTemp(os.Getenv("VERIF_SCRATCH"), "c12enc.")
	if err != nil {
		r.Inconclusive("C12 CLI encoding stage: %v", err)
		return
	}
	defer os.RemoveAll(work)
	key := filepath.Join(work, "x1.key")
	os.WriteFile(key, []byte(keys.NewX("X1").SecretStr+"\n"), 0o600)

	type input struct {
		name    string
		enc     string
		data    []byte
		pt      []byte
		control bool
		pieces  []int
	}
	var inputs []input
	for _, n := range []int{200, 5000} {
		pt := cliText(n)
		bin := cliFile(fmt.Sprintf("enc-%d", n), pt)
		arm := refage.Armor(bin, "\n")
		pieces := []int{1, 3, 7}
		if n == 5000 {
			pieces = []int{101, 1001, 4095, 4097}
		}
		for _, enc := range []string{"utf16le-bom-crlf", "utf16be-bom", "utf8-bom", "utf32le-bom"} {
			inputs = append(inputs, input{fmt.Sprintf("%s/len=%d", enc, n), enc, reencode(arm, enc), pt, false, pieces})
		}
		inputs = append(inputs, input{fmt.Sprintf("plain-armored/len=%d", n), "plain-armored", arm, pt, true, pieces},
			input{fmt.Sprintf("binary/len=%d", n), "binary", bin, pt, true, pieces})
	}
	type res struct {
		exit int
		out  []byte
		cls  string
		note string
		err  error
	}
	same := func(a, b res) bool { return a.exit == b.exit && bytes.Equal(a.out, b.out) && a.cls == b.cls }
	var ctr int
	var cmu sync.Mutex
	run := func(in *input, delivery string, piece int) res {
		cmu.Lock()
		ctr++
		d := filepath.Join(work, fmt.Sprintf("r%d", ctr))
		cmu.Unlock()
		os.MkdirAll(d, 0o700)
		defer os.RemoveAll(d)
		os.WriteFile(filepath.Join(d, "input"), in.data, 0o600)
		argv := []string{age, "-d", "-i", key}
		c := &cli.Cmd{Dir: d, Timeout: 120 * time.Second}
		switch delivery {
		case "INPUT-path":
			argv = append(argv, "input")
		case "stdin-file":
			c.StdinFile = filepath.Join(d, "input")
		case "stdin-pipe-whole":
			c.StdinPieces = [][]byte{in.data}
		default:
			for p := in.data; len(p) > 0; {
				n := piece
				if n > len(p) {
					n = len(p)
				}
				c.StdinPieces = append(c.StdinPieces, p[:n])
				p = p[n:]
			}
			c.StdinPause = 30 * time.Millisecond
			if piece <= 7 {
				c.StdinPause = 2 * time.Millisecond
			}
		}
		c.Argv = argv
		x := cli.Run(c)
		r.Count("cli_encoding_runs", 1)
		if x.Err != nil {
			return res{err: x.Err}
		}
		return res{exit: x.Exit, out: x.Stdout, cls: errLineClass(x.Stderr), note: string(mon.Trunc(x.Stderr, 200))}
	}
	type job struct {
		in       *input
		delivery string
		piece    int
	}
	var jobs []job
	for i := range inputs {
		in := &inputs[i]
		for _, dl := range []string{"INPUT-path", "stdin-file", "stdin-pipe-whole"} {
			jobs = append(jobs, job{in, dl, 0})
		}
		for _, p := range in.pieces {
			if in.control && !r.Thorough() && p != in.pieces[0] && p != in.pieces[len(in.pieces)-1] {
				continue
			}
			jobs = append(jobs, job{in, fmt.Sprintf("stdin-pipe-pieces-of-%d", p), p})
		}
	}
	results := make([]res, len(jobs))
	mon.ParN(16, len(jobs), func(i int) { results[i] = run(jobs[i].in, jobs[i].delivery, jobs[i].piece) })
	base := map[string]res{}
	for i, j := range jobs {
		if j.delivery == "INPUT-path" {
			base[j.in.name] = results[i]
		}
	}
	for i, j := range jobs {
		x, b := results[i], base[j.in.name]
		name := fmt.Sprintf("cli re-encoded input %s delivery=%s", j.in.name, j.delivery)
		r.Eval(1)
		r.Distinct(name)
		r.Tab("cli_encoding_x_delivery", j.in.enc+" | "+j.delivery)
		if b.err != nil || x.err != nil {
			r.Inconclusive("%s: driver error %v / %v", name, x.err, b.err)
			continue
		}
		if j.in.control && (x.exit != 0 || !bytes.Equal(x.out, j.in.pt)) {
			x = run(j.in, j.delivery, j.piece)
			if x.err != nil || x.exit != 0 || !bytes.Equal(x.out, j.in.pt) {
				r.Inconclusive("%s: a control failed twice: exit %d, %d bytes, stderr %q", name, x.exit, len(x.out), x.note)
			}
			continue
		}
		if !same(x, b) {
			x = run(j.in, j.delivery, j.piece) // retry once
			r.Count("cli_encoding_runs_retried", 1)
		}
		if x.err != nil {
			r.Inconclusive("%s: driver error %v", name, x.err)
			continue
		}
		if same(x, b) {
			r.Count("cli_encoding_deliveries_equal_to_INPUT_path", 1)
			r.Tab("cli_encoding_outcome", j.in.enc+": exit "+fmt.Sprint(b.exit)+" "+b.cls)
			continue
		}
		r.Violate(fmt.Sprintf("cli-differs:reencoded-input/%s/delivery=%s", j.in.enc, j.delivery),
			fmt.Sprintf("%s: exit %d, %d output bytes, stderr %q; the same bytes named as INPUT: exit %d, %d output bytes, stderr %q",
				name, x.exit, len(x.out), x.note, b.exit, len(b.out), b.note),
			map[string]any{"input": "refage.Armor(refage.BuildFile(" + fmt.Sprint(len(j.in.pt)) + " bytes of ASCII lines to X1)) re-encoded as " + j.in.enc, "delivery": j.delivery, "bytes": len(j.in.data)})
	}
	if r.Counter("cli_encoding_deliveries_equal_to_INPUT_path") == 0 {
		r.Inconclusive("C12 CLI encoding stage: no delivery was compared")
	}
}
