package main

import (
	"bytes"
	"fmt"
	"os"
	"path/filepath"
	"sync"
	"time"

	"filippo.io/age/zverif/cli"
	"filippo.io/age/zverif/keys"
	"filippo.io/age/zverif/mon"
	"filippo.io/age/zverif/refage"
)

// cliOutputStage: the tool's OUTPUT side. `age -d` of one and the same valid
// file must deliver the same plaintext with exit 0 whether the result goes to
// a terminal (OUTPUT omitted), to the terminal through the documented
// override "-o -", to a pipe or to "-o FILE" — also when the CONTENT of the
// plaintext is aligned against internal buffer sizes: printable LF-only UTF-8
// texts in which a 2-, 3- or 4-byte character straddles a multiple of 4096 /
// 8192, of 32768 (io.Copy's buffer) or of 65536 (the chunk size) in every
// split position, and the same text shifted past the offset as a control.
//
// A failed or altered result is a violation only when a control shows that
// the route itself works (same route, shifted text; same text, pipe route);
// every run is retried once, and a control that fails twice makes the case
// inconclusive, not violated.

type outText struct {
	name    string // boundary kind + split, e.g. "32k/3-byte-1|2"
	kind    string // 4k, 32k, 64k
	split   string
	control bool
	text    []byte
	file    []byte
}

var outSplits = []struct {
	name string
	char string
	head int
}{
	{"2-byte-1|1", "é", 1},
	{"3-byte-1|2", "€", 1}, {"3-byte-2|1", "€", 2},
	{"4-byte-1|3", "😀", 1}, {"4-byte-2|2", "😀", 2}, {"4-byte-3|1", "😀", 3},
}

// straddleText: n bytes of printable ASCII lines (LF only) with the character
// laid across every given offset, `head` of its bytes before the offset.
func straddleText(n int, char string, head int, offsets []int) []byte {
	const line = "The quick brown fox jumps over the lazy dog 0123456789 +-*/=.\n" // 64 bytes
	t := bytes.Repeat([]byte(line), n/len(line)+1)[:n]
	t[n-1] = '\n'
	for _, off := range offsets {
		copy(t[off-head:], char)
	}
	return t
}

func outTexts(thorough bool) []outText {
	kinds := []struct {
		kind    string
		n       int
		offsets []int
	}{
		{"4k", 30000, []int{4096, 8192, 12288, 20480}},
		{"32k", 110000, []int{32768, 98304}},
		{"64k", 200000, []int{65536, 131072, 196608}},
	}
	x1 := keys.NewX("X1")
	var out []outText
	mk := func(name, kind, split string, control bool, text []byte) {
		fk := mon.DetBytes("c12out-fk-"+name, 16)
		s, _ := refage.X25519Wrap(fk, x1.Public, mon.DetBytes("c12out-eph-"+name, 32))
		out = append(out, outText{name, kind, split, control, text,
			refage.BuildFile(fk, []refage.Stanza{s}, mon.DetBytes("c12out-nonce-"+name, 16), text)})
	}
	for _, k := range kinds {
		for _, sp := range outSplits {
			t := straddleText(k.n, sp.char, sp.head, k.offsets)
			mk(k.kind+"/"+sp.name, k.kind, sp.name, false, t)
			if thorough || k.kind == "32k" {
				// the same text moved on by as many bytes as lay before the
				// offset (one for the 1|x splits): no character straddles anything
				mk(k.kind+"/"+sp.name+"/shifted", k.kind, sp.name, true, append(bytes.Repeat([]byte("#"), sp.head), t...))
			}
		}
	}
	return out
}

var outRoutes = []string{"terminal", "-o -", "pipe", "-o FILE"}

func cliOutputStage(r *mon.Run) {
	age := os.Getenv("AGE_BIN")
	if age == "" {
		r.Count("cli_output_stage_skipped_no_binary", 1)
		return
	}
	work, err := os.MkdirTemp(os.Getenv("VERIF_SCRATCH"), "c12out.")
	if err != nil {
		r.Inconclusive("C12 CLI output stage: %v", err)
		return
	}
	defer os.RemoveAll(work)
	x1 := keys.NewX("X1")
	os.WriteFile(filepath.Join(work, "x1.key"), []byte(x1.SecretStr+"\n"), 0o600)

	type result struct {
		exit int
		got  []byte
		note string
		err  error
	}
	runOnce := func(t *outText, route string, idx int) result {
		d := filepath.Join(work, fmt.Sprintf("run%d", idx))
		os.MkdirAll(d, 0o700)
		defer os.RemoveAll(d)
		os.WriteFile(filepath.Join(d, "input.age"), t.file, 0o600)
		argv := []string{age, "-d", "-i", filepath.Join(work, "x1.key")}
		c := &cli.Cmd{Dir: d, Timeout: 90 * time.Second}
		switch route {
		case "terminal":
			c.Stdout, c.NoCTTY = "tty", true
		case "-o -":
			c.Stdout, c.NoCTTY = "tty", true
			argv = append(argv, "-o", "-")
		case "-o FILE":
			argv = append(argv, "-o", "result.out")
		}
		c.Argv = append(argv, "input.age")
		res := cli.Run(c)
		if res.Err != nil {
			return result{err: res.Err}
		}
		var got []byte
		switch route {
		case "terminal", "-o -":
			// the line discipline turns LF into CR LF; the texts are LF-only
			got = bytes.ReplaceAll(res.TTYOut, []byte("\r"), nil)
		case "pipe":
			got = res.Stdout
		default:
			got, _ = os.ReadFile(filepath.Join(d, "result.out"))
		}
		return result{exit: res.Exit, got: got, note: string(mon.Trunc(res.Stderr, 200))}
	}
	var ctr int
	var cmu sync.Mutex
	next := func() int { cmu.Lock(); defer cmu.Unlock(); ctr++; return ctr }
	good := func(t *outText, x result) bool { return x.err == nil && x.exit == 0 && bytes.Equal(x.got, t.text) }
	// run with one retry: a second attempt decides
	run := func(t *outText, route string) result {
		x := runOnce(t, route, next())
		r.Count("cli_output_runs", 1)
		if !good(t, x) {
			r.Count("cli_output_runs_retried", 1)
			x = runOnce(t, route, next())
			r.Count("cli_output_runs", 1)
		}
		return x
	}

	texts := outTexts(r.Thorough())
	type job struct {
		t     *outText
		route string
	}
	var jobs []job
	for i := range texts {
		t := &texts[i]
		for _, route := range outRoutes {
			if t.control && !r.Thorough() && (route == "-o -" || route == "-o FILE") {
				continue
			}
			jobs = append(jobs, job{t, route})
		}
	}
	results := make([]result, len(jobs))
	mon.ParN(12, len(jobs), func(i int) { results[i] = run(jobs[i].t, jobs[i].route) })
	at := map[string]result{}
	for i, j := range jobs {
		at[j.t.name+"|"+j.route] = results[i]
	}
	r.Set("cli_output_texts", len(texts))
	byName := map[string]*outText{}
	for i := range texts {
		byName[texts[i].name] = &texts[i]
	}

	for i := range texts {
		t := &texts[i]
		pipe, havePipe := at[t.name+"|pipe"]
		for _, route := range outRoutes {
			x, ok := at[t.name+"|"+route]
			if !ok {
				continue
			}
			name := fmt.Sprintf("cli output %s route=%q", t.name, route)
			r.Eval(1)
			r.Distinct(name)
			r.Tab("cli_output_route_x_boundary", route+" | "+t.kind)
			if x.err != nil {
				r.Inconclusive("%s: driver error %v", name, x.err)
				continue
			}
			if good(t, x) {
				r.Count("cli_output_plaintext_delivered_exit_0", 1)
				continue
			}
			what := fmt.Sprintf("%s: exit %d, %d bytes delivered (plaintext is %d bytes, first difference at %d), stderr %q",
				name, x.exit, len(x.got), len(t.text), firstDiff(x.got, t.text), x.note)
			// controls: the route works for the shifted text (or this IS the
			// control), and the same text arrives intact through the pipe
			if t.control || route == "pipe" {
				r.Inconclusive("%s: a control failed twice: %s", name, what)
				continue
			}
			if !havePipe || !good(t, pipe) {
				r.Inconclusive("%s: differs, but the pipe route for the same text failed too: %s", name, what)
				continue
			}
			if c, ok := at[t.name+"/shifted|"+route]; ok && !good(byName[t.name+"/shifted"], c) {
				r.Inconclusive("%s: differs, but so does the shifted control on the same route: %s", name, what)
				continue
			}
			r.Violate(fmt.Sprintf("cli-differs:decrypt-output/route=%s/straddle=%s", route, t.kind),
				what+"; the same file decrypts to the full plaintext with exit 0 through a pipe",
				map[string]any{"text": fmt.Sprintf("straddleText: %d bytes of 64-byte ASCII lines, a %s character laid across the offsets of kind %s", len(t.text), t.split, t.kind),
					"route": route, "argv": "age -d -i x1.key [-o - | -o result.out] input.age", "stdout": map[string]string{"terminal": "pty, no -o", "-o -": "pty", "pipe": "pipe", "-o FILE": "n/a"}[route]})
		}
	}
	if r.Counter("cli_output_plaintext_delivered_exit_0") == 0 {
		r.Inconclusive("C12 CLI output stage: no route delivered any plaintext")
	}
	r.Sample(map[string]any{"stage": "cli output", "text": "32k/3-byte-1|2: 110000 bytes of ASCII lines with a 3-byte character across offsets 32768 and 98304 (1 byte before, 2 after)",
		"routes": outRoutes, "delivered_with_exit_0": r.Counter("cli_output_plaintext_delivered_exit_0"), "runs": r.Counter("cli_output_runs")})
}
