package main

import (
	"bufio"
	"bytes"
	"fmt"
	"io"
	"math/rand"
	"os"
	"sort"
	"strings"
	"time"

	"filippo.io/age"
	"filippo.io/age/armor"
	"filippo.io/age/internal/format"
	"filippo.io/age/internal/stream"
	"filippo.io/age/zverif/ax"
	"filippo.io/age/zverif/mon"
)

// How the caller consumes the plaintext reader: Read in a loop with a buffer
// of the given size, or (negative values, shared with ax) io.Copy into a plain
// Writer — which uses the reader's own WriteTo if it has one — or io.ReadAll.
var readBufs = []int{1, 2, 100, 4096, 65535, 65536, 65537, 200000, ax.CopyMode, ax.ReadAllMode}

var quickBigBufs = []int{1, 100, 4096, 65535, 65536, 65537, 200000, ax.CopyMode, ax.ReadAllMode}

// schedules the white-space family runs under in the quick tier
var wsQuickSchedules = map[string]bool{"whole": true, "whole+eof": true, "1byte": true, "1byte+eof": true, "7": true, "random": true,
	"bufio16over1byte": true, "bufio4096": true, "bufio16/counted": true}

func bufName(b int) string {
	switch b {
	case ax.CopyMode:
		return "io.Copy"
	case ax.ReadAllMode:
		return "io.ReadAll"
	}
	return fmt.Sprint(b)
}

// hookWriter is the plain destination of io.Copy: no ReadFrom, so io.Copy
// must use the source's WriteTo or plain Reads.
type hookWriter struct {
	o     *outcome
	after func(released int)
}

func (h hookWriter) Write(p []byte) (int, error) {
	h.o.out = append(h.o.out, p...)
	if h.after != nil {
		h.after(len(h.o.out))
	}
	return len(p), nil
}

// outcome is the compared value: bytes released before the first error and
// that error's string ("EOF" for a clean end). hdr is used by the Parse layer.
type outcome struct {
	out   []byte
	err   string
	phase string // which call returned the error (reported, not compared)
	hdr   string
}

func (o *outcome) equal(b *outcome) bool {
	return o.err == b.err && o.hdr == b.hdr && bytes.Equal(o.out, b.out)
}

func (o *outcome) String() string {
	s := fmt.Sprintf("%d bytes then %q (from %s)", len(o.out), o.err, o.phase)
	if o.hdr != "" {
		s += fmt.Sprintf(" header %.80q", o.hdr)
	}
	return s
}

// sched is a delivery schedule; the returned counter (nil when the schedule's
// reader is itself a *bufio.Reader whose inside cannot be observed) counts the
// bytes the source has handed out. own is the size of a buffer that belongs
// to the caller and sits above the counter.
type sched struct {
	name string
	mk   func(data []byte, rng *rand.Rand) (io.Reader, *mon.CountingReader)
	own  int
}

func schedules(thorough bool) []sched {
	var out []sched
	base := mon.Schedules()
	for _, s := range base {
		s := s
		out = append(out, sched{name: s.Name, mk: func(d []byte, rng *rand.Rand) (io.Reader, *mon.CountingReader) {
			rd := s.New(d, rng)
			if _, ok := rd.(*bufio.Reader); ok {
				return rd, nil
			}
			cr := &mon.CountingReader{R: rd}
			return cr, cr
		}})
	}
	find := func(name string) mon.Schedule {
		for _, s := range base {
			if s.Name == name {
				return s
			}
		}
		panic("c12: schedule " + name + " missing")
	}
	counted := func(name, inner string, size int) sched {
		in := find(inner)
		return sched{name: name, own: size, mk: func(d []byte, rng *rand.Rand) (io.Reader, *mon.CountingReader) {
			cr := &mon.CountingReader{R: in.New(d, rng)}
			return bufio.NewReaderSize(cr, size), cr
		}}
	}
	out = append(out, counted("bufio16/counted", "whole", 16), counted("bufio4096over7/counted", "7", 4096))
	if thorough {
		// further seeded piece sequences (the name selects the random stream)
		for _, n := range []string{"random", "random+eof"} {
			for k := 2; k <= 4; k++ {
				for _, s := range out {
					if s.name == n {
						s.name = fmt.Sprintf("%s#%d", n, k)
						out = append(out, s)
						break
					}
				}
			}
		}
	}
	return out
}

// readAll consumes rd to its first error, with a fixed Read-buffer size or in
// one of the consumption modes; after is called after every Read (or, under
// io.Copy, after every Write to the destination) with the number of bytes
// released so far. A clean end is recorded as "EOF" in every mode.
func readAll(rd io.Reader, bufSize int, o *outcome, phase string, after func(released int)) {
	switch bufSize {
	case ax.CopyMode:
		_, err := io.Copy(hookWriter{o, after}, rd)
		o.err, o.phase = "EOF", "io.Copy"
		if err != nil {
			o.err = err.Error()
		}
		return
	case ax.ReadAllMode:
		b, err := io.ReadAll(rd)
		o.out = append(o.out, b...)
		if after != nil {
			after(len(o.out))
		}
		o.err, o.phase = "EOF", "io.ReadAll"
		if err != nil {
			o.err = err.Error()
		}
		return
	}
	buf := make([]byte, bufSize)
	zero := 0
	for {
		n, err := rd.Read(buf)
		if n < 0 || n > len(buf) {
			o.err, o.phase = fmt.Sprintf("verif: Read returned n=%d for a %d-byte buffer", n, len(buf)), phase
			return
		}
		o.out = append(o.out, buf[:n]...)
		if after != nil {
			after(len(o.out))
		}
		if err != nil {
			o.err, o.phase = err.Error(), phase
			return
		}
		if n == 0 {
			if zero++; zero > 5000 {
				o.err, o.phase = "verif: reader made no progress in 5000 calls", phase
				return
			}
		} else {
			zero = 0
		}
	}
}

// ahead is a read-ahead observation that broke the bound.
type ahead struct {
	when     string
	consumed int
	bound    int
	released int
}

// binBound is the property's allowance in binary bytes after `released`
// plaintext bytes: header+16 + 65552*(chunks released+1) + 8 KiB.
func binBound(hdr16, released int) int {
	ch := (released + chunk - 1) / chunk
	return hdr16 + encChunk*(ch+1) + slack
}

// textBound converts a binary allowance to armor text (66 columns per 48
// bytes covers CRLF) plus the armor reader's own 8 KiB.
func textBound(bin, lead int) int {
	return len(armor.Header) + 2 + (bin+47)/48*66 + slack + lead
}

type watcher struct {
	m      *monitor
	cr     *mon.CountingReader
	total  int
	bound  func(released int) int
	need   func(released int) int // what had to be consumed at least (for the max statistic)
	broken *ahead

	binding  int64
	maxAhead int64
}

func (w *watcher) check(when string, call, released int) {
	if w == nil || w.cr == nil {
		return
	}
	b := w.bound(released)
	if w.total > b {
		w.binding++
	}
	if w.need != nil {
		if a := int64(w.cr.N - w.need(released)); a > w.maxAhead {
			w.maxAhead = a
		}
	}
	if w.cr.N > b && w.broken == nil {
		if call > 0 {
			when = fmt.Sprintf("%s #%d", when, call)
		}
		w.broken = &ahead{when, w.cr.N, b, released}
	}
}

// done publishes the run's statistics and returns the first broken bound.
func (w *watcher) done() *ahead {
	if w.binding > 0 {
		w.m.binding.Add(w.binding)
	}
	maxInto(&w.m.maxAhead, w.maxAhead)
	return w.broken
}

// runDecrypt drives age.Decrypt (through armor.NewReader for armored files).
func (m *monitor) runDecrypt(f *dfile, src io.Reader, cr *mon.CountingReader, own, bufSize int) (*outcome, *ahead) {
	o := &outcome{}
	w := &watcher{m: m, cr: cr, total: len(f.data)}
	if f.armored {
		w.bound = func(rel int) int { return textBound(binBound(f.hdr16, rel)+own, f.lead) }
	} else {
		w.bound = func(rel int) int { return binBound(f.hdr16, rel) + own }
		w.need = func(rel int) int { return f.hdr16 + encChunk*((rel+chunk-1)/chunk) }
	}
	in := src
	if f.armored {
		in = armor.NewReader(src)
	}
	rd, err := age.Decrypt(in, f.id)
	w.check("after Decrypt returned", 0, 0)
	if err != nil {
		o.err, o.phase = err.Error(), "Decrypt"
		return o, w.done()
	}
	if rd == nil {
		o.err, o.phase = "verif: Decrypt returned (nil, nil)", "Decrypt"
		return o, w.done()
	}
	n := 0
	readAll(rd, bufSize, o, "Read", func(rel int) {
		n++
		w.check("after Read", n, rel)
	})
	return o, w.done()
}

// runDearmor drives armor.NewReader alone.
func (m *monitor) runDearmor(f *dfile, src io.Reader, cr *mon.CountingReader, own, bufSize int) (*outcome, *ahead) {
	o := &outcome{}
	w := &watcher{m: m, cr: cr, total: len(f.data)}
	w.bound = func(rel int) int { return len(armor.Header) + 2 + (rel+47)/48*66 + 66 + slack + own + f.lead }
	rd := armor.NewReader(src)
	n := 0
	readAll(rd, bufSize, o, "Read", func(rel int) {
		n++
		w.check("after Read", n, rel)
	})
	return o, w.done()
}

func headerString(h *format.Header) string {
	if h == nil {
		return "<nil>"
	}
	var sb strings.Builder
	for _, s := range h.Recipients {
		if s == nil {
			sb.WriteString("<nil stanza>;")
			continue
		}
		fmt.Fprintf(&sb, "%q %q %x;", s.Type, s.Args, s.Body)
	}
	fmt.Fprintf(&sb, "mac=%x", h.MAC)
	return sb.String()
}

// runParse drives internal/format.Parse directly; in is what is handed to
// Parse (the schedule's reader, or a bufio.Reader of size own around it).
func (m *monitor) runParse(f *dfile, in io.Reader, cr *mon.CountingReader, own, bufSize int) (*outcome, *ahead) {
	o := &outcome{}
	w := &watcher{m: m, cr: cr, total: len(f.data)}
	w.bound = func(rel int) int { return f.hdr16 - 16 + rel + slack + own }
	h, payload, err := format.Parse(in)
	w.check("after Parse returned", 0, 0)
	if err != nil {
		o.err, o.phase = err.Error(), "Parse"
		if h != nil || payload != nil {
			o.hdr = "non-nil results with an error"
		}
		return o, w.done()
	}
	o.hdr = headerString(h)
	if payload == nil {
		o.err, o.phase = "verif: Parse returned a nil payload reader", "Parse"
		return o, w.done()
	}
	readAll(payload, bufSize, o, "payload Read", nil)
	return o, w.done()
}

// runStream drives internal/stream.NewReader directly over the payload.
func (m *monitor) runStream(f *dfile, in io.Reader, cr *mon.CountingReader, own, bufSize int) (*outcome, *ahead) {
	o := &outcome{}
	w := &watcher{m: m, cr: cr, total: len(f.data) - f.hdr16}
	w.bound = func(rel int) int { return binBound(0, rel) + own }
	rd, err := stream.NewReader(f.streamKey, in)
	w.check("after NewReader returned", 0, 0)
	if err != nil {
		o.err, o.phase = err.Error(), "NewReader"
		return o, w.done()
	}
	n := 0
	readAll(rd, bufSize, o, "Read", func(rel int) {
		n++
		w.check("after Read", n, rel)
	})
	return o, w.done()
}

func (f *dfile) payload() []byte {
	if len(f.data) < f.hdr16 {
		return nil
	}
	return f.data[f.hdr16:]
}

func (m *monitor) baselines(f *dfile) {
	r := m.r
	const b = 32 * 1024
	f.bDecrypt, _ = m.runDecrypt(f, bytes.NewReader(f.data), nil, 0, b)
	r.Eval(1)
	r.Tab("baseline_result", f.fmtName()+": "+errClass(f.bDecrypt.err))
	if f.pt != nil {
		if f.bDecrypt.err != "EOF" || !bytes.Equal(f.bDecrypt.out, f.pt) {
			r.Violate("dec-baseline-not-plaintext:"+f.name(), fmt.Sprintf("%s: baseline decryption of a valid file gives %s, want the %d plaintext bytes and EOF", f.name(), f.bDecrypt, len(f.pt)), f.replay())
		}
	}
	if f.dearmor {
		f.bDearmor, _ = m.runDearmor(f, bytes.NewReader(f.data), nil, 0, b)
		r.Eval(1)
		r.Tab("baseline_dearmor_result", errClass(f.bDearmor.err))
		// age.Decrypt over the armored text must behave like age.Decrypt over
		// what plain de-armoring releases ("through a buffered reader or not")
		nf := &dfile{base: f.base, class: f.class, data: f.data, id: f.id, hdr16: f.hdr16}
		want, _ := m.runDecrypt(nf, dearmoredSource(f), nil, 0, b)
		r.Eval(1)
		r.Count("decrypt_vs_dearmored_checks", 1)
		if f.leadLines >= 100 {
			r.Count("lead100_runs/decrypt-vs-dearmored", 1)
		}
		if !want.equal(f.bDecrypt) {
			kc := f.class
			if f.kclass != "" {
				kc = f.kclass
			}
			rp := f.replay()
			rp["decrypt_over_armor"], rp["decrypt_over_dearmored_bytes"], rp["plain_dearmor"] = f.bDecrypt.String(), want.String(), f.bDearmor.String()
			r.Violate("decrypt-differs-from-dearmored:"+kc, fmt.Sprintf("%s: age.Decrypt(armor.NewReader(text)) gives %s, but plain de-armoring (Read loop) releases %s and age.Decrypt over exactly that gives %s",
				f.name(), f.bDecrypt, f.bDearmor, want), rp)
		}
	}
	if f.parseToo {
		f.bParse, _ = m.runParse(f, bytes.NewReader(f.data), nil, 0, b)
		r.Eval(1)
	}
	if f.streamKey != nil && f.payload() != nil {
		f.bStream, _ = m.runStream(f, bytes.NewReader(f.payload()), nil, 0, b)
		r.Eval(1)
		if !f.bStream.equal(&outcome{out: f.bDecrypt.out, err: f.bDecrypt.err}) {
			// the same payload through Decrypt and through the bare stream
			// reader: informational (they are the same code), not a verdict
			r.Count("stream_layer_baseline_differs_from_decrypt_baseline", 1)
		}
	}
}

// errClass shortens an error string for coverage tables (quoted input removed).
func errClass(s string) string {
	if i := strings.Index(s, "\""); i >= 0 {
		s = s[:i] + "…"
	}
	if len(s) > 90 {
		s = s[:90] + "…"
	}
	return s
}

// deliveryClass: does the source trickle (pieces of at most 7 bytes, so the
// armor reader's bufio never holds a whole line ahead) or deliver in bulk?
func deliveryClass(sched string) string {
	switch sched {
	case "1byte", "1byte+eof", "7", "bufio16over1byte", "bufio4096over7/counted":
		return "trickled"
	case "random", "random+eof", "halves":
		return "mixed"
	}
	if strings.HasPrefix(sched, "random") {
		return "mixed"
	}
	return "bulk"
}

type task struct {
	f *dfile
	s sched
}

func (m *monitor) decryptSweep(files []*dfile) {
	r := m.r
	mon.Par(len(files), func(i int) {
		r.Guard("baseline:"+files[i].name(), func() { m.baselines(files[i]) })
	})
	for _, f := range files {
		if f.marmor {
			r.Tab("files_by_class", f.fmtName()+"/"+f.kclass)
			r.Tab("malformed_armor_shapes", f.class)
		} else {
			r.Tab("files_by_class", f.fmtName()+"/"+f.class)
		}
		r.Tab("files_by_length", lenClass(f.length))
	}
	{
		var ok []*dfile
		for _, f := range files {
			if f.bDecrypt != nil { // otherwise the guard reported a panic
				ok = append(ok, f)
			}
		}
		files = ok
	}
	ss := schedules(r.Thorough())
	r.Set("delivery_schedules", len(ss))
	r.Set("read_buffer_sizes_and_modes", func() []string {
		var o []string
		for _, b := range readBufs {
			o = append(o, bufName(b))
		}
		return o
	}())
	var tasks []task
	for _, f := range files {
		for _, s := range ss {
			tasks = append(tasks, task{f, s})
		}
	}
	mon.Par(len(tasks), func(i int) {
		t := tasks[i]
		t1 := time.Now()
		r.Guard("dec:"+t.f.name()+"/sched="+t.s.name, func() { m.runTask(t) })
		if d := time.Since(t1); d > 3*time.Second && os.Getenv("C12_TIMING") != "" {
			fmt.Printf("   timing: slow task %s sched=%s %.1fs\n", t.f.name(), t.s.name, d.Seconds())
		}
	})
	th := time.Now()
	m.emptyAnswerSweep()
	m.bigBufferSweep(ss)
	m.headerLineSweep(ss)
	m.headerSizeSweep(ss)
	if os.Getenv("C12_TIMING") != "" {
		fmt.Printf("   timing: header-line+size sweeps %.2fs\n", time.Since(th).Seconds())
	}
	m.reportDiffers(ss)
	for _, f := range files[:min(len(files), 3)] {
		r.Sample(map[string]any{"file": f.name(), "bytes": len(f.data), "baseline": f.bDecrypt.String(),
			"schedules": len(ss), "read_buffers": len(readBufs), "runs_compared_all_layers": f.runs.Load(), "runs_differing_from_baseline": f.mismatches.Load()})
	}
	for _, f := range files {
		if f.marmor && (strings.HasSuffix(f.class, "groups-of-46-bytes-each-padded") || strings.HasSuffix(f.class, "60-columns-then-4-empty-lines")) && f.bDearmor != nil {
			r.SampleN("marmor-"+f.class, 1, map[string]any{"file": f.name(), "derivation": f.how, "text_head": string(mon.Trunc(f.data, 240)),
				"baseline_dearmor": f.bDearmor.String(), "baseline_decrypt": f.bDecrypt.String(),
				"runs_compared_all_layers": f.runs.Load(), "runs_differing_from_baseline": f.mismatches.Load()})
		}
		if f.class == "trailing-1" || f.class == "armor-badchar" || f.class == "trunc-boundary" {
			r.SampleN("damaged-"+f.class, 1, map[string]any{"file": f.name(), "derivation": f.how, "baseline": f.bDecrypt.String(),
				"runs_compared_all_layers": f.runs.Load(), "runs_differing_from_baseline": f.mismatches.Load()})
		}
	}
}

// groupKey is everything of a comparison except the delivery schedule.
type groupKey struct{ layer, fm, class, consume, bufio string }

func (g groupKey) key(sched string) string {
	return fmt.Sprintf("differs:%s/%s/%s%s/sched=%s%s", g.layer, g.fm, g.class, g.consume, sched, g.bufio)
}

type mismatch struct {
	what string
	rp   map[string]any
}

type group struct {
	ran    map[string]bool      // schedules under which this combination was run
	failed map[string]*mismatch // first differing run per schedule
	nfail  int
}

func groupOf(layer string, f *dfile, bufio, buf int) groupKey {
	g := groupKey{layer: layer, fm: f.fmtName(), class: f.class}
	if f.kclass != "" {
		g.class = f.kclass
	}
	if buf < 0 {
		g.consume = "/consume=" + bufName(buf)
	}
	if bufio > 0 {
		// bufio.NewReader re-uses a handed-in reader only from 4096 bytes up
		if bufio < 4096 {
			g.bufio = "/handed-in-bufio<4096"
		} else {
			g.bufio = "/handed-in-bufio>=4096"
		}
	}
	return g
}

// compare records one compared run and, if it differs from the baseline, the
// mismatch; violations are reported by reportDiffers after the sweep so that
// a result that differs under every schedule gets one key, not sixteen.
// compareKind is compare for a named consumer kind.
func (m *monitor) compareKind(layer string, f *dfile, s sched, kind string, got, want *outcome) {
	gk := groupOf(layer, f, 0, 1)
	gk.consume = "/consume=" + kind
	m.compareG(gk, layer, f, s, 0, kind, got, want)
}

func (m *monitor) compare(layer string, f *dfile, s sched, bufio, buf int, got, want *outcome) {
	m.compareG(groupOf(layer, f, bufio, buf), layer, f, s, bufio, bufName(buf), got, want)
}

func (m *monitor) compareG(gk groupKey, layer string, f *dfile, s sched, bufio int, how string, got, want *outcome) {
	f.runs.Add(1)
	eq := got.equal(want)
	m.gmu.Lock()
	g := m.groups[gk]
	if g == nil {
		g = &group{ran: map[string]bool{}, failed: map[string]*mismatch{}}
		m.groups[gk] = g
	}
	g.ran[s.name] = true
	first := false
	if !eq {
		g.nfail++
		if g.failed[s.name] == nil {
			g.failed[s.name] = &mismatch{}
			first = true
		}
	}
	mm := g.failed[s.name]
	m.gmu.Unlock()
	if eq {
		return
	}
	f.mismatches.Add(1)
	if !first {
		return
	}
	rp := f.replay()
	rp["layer"], rp["schedule"], rp["handed_in_bufio_size"], rp["read_buffer_or_mode"] = layer, s.name, bufio, how
	rp["got"], rp["want"] = got.String(), want.String()
	what := fmt.Sprintf("%s through %s, schedule %s, handed-in bufio %d, read buffer/mode/consumer %s: got %s; baseline (bytes.Reader, 32 KiB Read loop) gave %s",
		f.name(), layer, s.name, bufio, how, got, want)
	if !bytes.Equal(got.out, want.out) {
		what += fmt.Sprintf("; released bytes first differ at %d", firstDiff(got.out, want.out))
	}
	m.gmu.Lock()
	mm.what, mm.rp = what, rp
	m.gmu.Unlock()
}

func (m *monitor) reportDiffers(order []sched) {
	m.gmu.Lock()
	defer m.gmu.Unlock()
	// sources that are not delivery schedules of the list (caller-side
	// bufio.Readers, *os.File, pipes) follow in name order
	{
		known := map[string]bool{}
		for _, s := range order {
			known[s.name] = true
		}
		var extra []string
		for _, g := range m.groups {
			for n := range g.ran {
				if !known[n] {
					known[n] = true
					extra = append(extra, n)
				}
			}
		}
		sort.Strings(extra)
		order = append([]sched(nil), order...)
		for _, n := range extra {
			order = append(order, sched{name: n})
		}
	}
	var gks []groupKey
	for gk, g := range m.groups {
		if len(g.failed) > 0 {
			gks = append(gks, gk)
		}
	}
	sort.Slice(gks, func(i, j int) bool { return gks[i].key("") < gks[j].key("") })
	for _, gk := range gks {
		g := m.groups[gk]
		if gk.consume != "" {
			// io.Copy / io.ReadAll differing under a schedule under which the
			// plain Read loops differ as well is the same symptom: it is
			// reported under the plain key only
			plain := gk
			plain.consume = ""
			if pg := m.groups[plain]; pg != nil {
				for sn := range pg.failed {
					if g.failed[sn] != nil {
						delete(g.failed, sn)
						m.r.Count("mode_mismatches_subsumed_by_read_loop_mismatch", 1)
					}
				}
			}
			if len(g.failed) == 0 {
				continue
			}
		}
		if len(g.failed) == len(g.ran) && len(g.ran) > 1 {
			// independent of the delivery schedule
			for _, s := range order {
				if mm := g.failed[s.name]; mm != nil {
					m.r.Violate(gk.key("*"), fmt.Sprintf("%s (differs under each of the %d schedules it was run with; %d differing runs)", mm.what, len(g.ran), g.nfail), mm.rp)
					break
				}
			}
			continue
		}
		for _, s := range order {
			if mm := g.failed[s.name]; mm != nil {
				m.r.Violate(gk.key(s.name), mm.what, mm.rp)
			}
		}
	}
}

func (m *monitor) readAhead(layer string, f *dfile, s sched, bufio, buf int, a *ahead) {
	if a == nil {
		return
	}
	when := a.when
	if strings.HasPrefix(when, "after Read") {
		when = "after a Read"
	}
	key := fmt.Sprintf("readahead:%s/%s/%s", layer, f.fmtName(), strings.ReplaceAll(when, " ", "-"))
	rp := f.replay()
	rp["layer"], rp["schedule"], rp["handed_in_bufio_size"], rp["read_buffer"] = layer, s.name, bufio, buf
	m.r.Violate(key, fmt.Sprintf("%s through %s, schedule %s, bufio %d, read buffer %d: %s, with %d plaintext bytes released, %d bytes had been consumed from the source (allowance %d, source holds %d)",
		f.name(), layer, s.name, bufio, buf, a.when, a.released, a.consumed, a.bound, len(f.data)), rp)
}

func (m *monitor) runTask(t task) {
	r := m.r
	f, s := t.f, t.s
	rngFor := func(layer string, extra ...int) *rand.Rand {
		return mon.NewRNG(r.Seed, fmt.Sprintf("c12-%s-%s-%s-%v", layer, f.name(), s.name, extra))
	}
	if ifaceSchedules[s.name] {
		m.runIfaces(f, s, rngFor)
	}
	if f.ifaceOnly {
		return
	}
	r.Tab("schedule", s.name)
	bufs1, bufs2 := readBufs, readBufs
	if f.marmor {
		bufs1, bufs2 = marmorDecryptBufs, marmorBufs
	} else if !r.Thorough() && len(f.data) > 100000 {
		// quick tier: on files of two chunks and more the 2-byte read buffer
		// repeats the 1-byte one at the same cost
		bufs1 = quickBigBufs
		bufs2 = quickBigBufs
		if deliveryClass(s.name) == "trickled" {
			// a trickling source costs one Read per 1..7 source bytes whatever
			// the consumer does: fewer consumer sizes go with it on big files
			bufs1 = []int{1, 4096, 65537, ax.CopyMode}
			bufs2 = bufs1
		}
	}
	if f.ws && !r.Thorough() && !wsQuickSchedules[s.name] {
		return
	}

	// layer 1: age.Decrypt (+ armor.NewReader)
	for _, b := range bufs1 {
		src, cr := s.mk(f.data, rngFor("decrypt", b))
		if f.marmor {
			cr = nil
		}
		if f.marmor && !f.ws {
			r.Count("malformed_armor_runs/age.Decrypt/"+deliveryClass(s.name), 1)
		}
		if f.leadLines >= 100 {
			r.Count("lead100_runs/age.Decrypt", 1)
		}
		got, ah := m.runDecrypt(f, src, cr, s.own, b)
		r.Eval(1)
		r.Distinct(fmt.Sprintf("decrypt/%s/%s/%d", f.name(), s.name, b))
		r.Tab("read_buffer_or_mode", bufName(b))
		if cr != nil {
			r.Count("runs_with_counted_source", 1)
		}
		m.compare("age.Decrypt", f, s, 0, b, got, f.bDecrypt)
		m.readAhead("age.Decrypt", f, s, 0, b, ah)
	}

	// layer 2: armor.NewReader alone
	if f.armored && f.bDearmor != nil {
		for _, b := range bufs2 {
			src, cr := s.mk(f.data, rngFor("dearmor", b))
			if f.marmor {
				cr = nil
			}
			if f.leadLines >= 100 {
				r.Count("lead100_runs/plain-Read-loop", 1)
			}
			if f.marmor && !f.ws {
				size := "large-read"
				if b > 0 && b < 48 {
					size = "small-read"
				}
				r.Count("malformed_armor_runs/armor.NewReader/"+deliveryClass(s.name)+"/"+size, 1)
				r.Tab("malformed_armor_read_size", bufName(b))
			}
			got, ah := m.runDearmor(f, src, cr, s.own, b)
			r.Eval(1)
			r.Distinct(fmt.Sprintf("dearmor/%s/%s/%d", f.name(), s.name, b))
			m.compare("armor.NewReader", f, s, 0, b, got, f.bDearmor)
			m.readAhead("armor.NewReader", f, s, 0, b, ah)
		}
	}

	// layer 2b: consumer kinds over armor.NewReader
	if f.armored && f.bDearmor != nil && kindSchedules[s.name] && (f.marmor || len(f.data) <= 120000 || r.Thorough()) {
		m.runKinds(f, s, m.kinds, rngFor)
	}

	// handing in small bufio.Readers makes sense over schedules that are not
	// bufio.Readers themselves
	_, plain := s.mk(nil, rngFor("probe"))
	bufios := []int{0}
	if plain != nil && s.own == 0 {
		bufios = []int{0, 16, 17, 100, 4095, 4096, 4097, 65536}
	}

	// layer 3: format.Parse directly
	if f.bParse != nil {
		for _, bs := range bufios {
			for _, b := range []int{7, 4096, ax.CopyMode} {
				src, cr := s.mk(f.data, rngFor("parse", bs, b))
				in := src
				if bs > 0 {
					in = bufio.NewReaderSize(src, bs)
				}
				got, ah := m.runParse(f, in, cr, s.own+bs, b)
				r.Eval(1)
				r.Distinct(fmt.Sprintf("parse/%s/%s/%d/%d", f.name(), s.name, bs, b))
				r.Tab("parse_handed_in_bufio", fmt.Sprint(bs))
				m.compare("format.Parse", f, s, bs, b, got, f.bParse)
				m.readAhead("format.Parse", f, s, bs, b, ah)
			}
		}
	}

	// layer 4: stream.NewReader directly
	if f.bStream != nil {
		sb, rb := bufios, []int{1, 100, 65536, 65537, ax.CopyMode, ax.ReadAllMode}
		if len(sb) > 1 {
			sb = []int{0, 16, 4096}
		}
		if !r.Thorough() {
			rb = []int{1, 65537, ax.CopyMode}
		}
		for _, bs := range sb {
			for _, b := range rb {
				src, cr := s.mk(f.payload(), rngFor("stream", bs, b))
				in := src
				if bs > 0 {
					in = bufio.NewReaderSize(src, bs)
				}
				got, ah := m.runStream(f, in, cr, s.own+bs, b)
				r.Eval(1)
				r.Distinct(fmt.Sprintf("stream/%s/%s/%d/%d", f.name(), s.name, bs, b))
				r.Tab("stream_handed_in_bufio", fmt.Sprint(bs))
				m.compare("stream.NewReader", f, s, bs, b, got, f.bStream)
				m.readAhead("stream.NewReader", f, s, bs, b, ah)
			}
		}
	}
}
