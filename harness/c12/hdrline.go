package main

import (
	"bufio"
	"bytes"
	"fmt"
	"io"
	"os"
	"path/filepath"

	"filippo.io/age/zverif/keys"
	"filippo.io/age/zverif/mon"
	"filippo.io/age/zverif/refage"
)

// Line length inside the header crossed with the kind of source. Valid files
// (reference writer) with one unknown-type stanza whose OPENING line is long
// (arguments have no length limit), decrypted through every delivery
// schedule, caller-side bufio.Readers of several sizes, an *os.File and a
// pipe: identical outcome everywhere (differs: oracle) and, the file being
// valid, the plaintext followed by a clean end.

type lineSpec struct {
	L     int    // total length of the opening line, newline included
	pos   string // first | after-match | last
	parts int    // number of arguments the length is spread over
}

func (s lineSpec) name() string {
	return fmt.Sprintf("opening-line=%d/%s/%d-args", s.L, s.pos, s.parts)
}

func lineClass(L int) string {
	switch {
	case L < 4096:
		return "<4096"
	case L <= 4100:
		return "4096..4100"
	case L < 8192:
		return "4101..8191"
	case L <= 8194:
		return "8192..8194"
	}
	return ">8194"
}

// vchars returns n non-periodic printable characters without spaces.
func vchars(label string, n int) string {
	b := mon.DetBytes(label, n)
	for i := range b {
		b[i] = 33 + b[i]%94
	}
	return string(b)
}

func buildLineFile(sp lineSpec, pt []byte) []byte {
	x1 := keys.NewX("X1")
	label := sp.name()
	fk := mon.DetBytes("c12line-fk-"+label, 16)
	match, err := refage.X25519Wrap(fk, x1.Public, mon.DetBytes("c12line-eph-"+label, 32))
	if err != nil {
		return nil
	}
	// "-> c12-long" + parts x (" " + arg) + "\n"  ==  L
	room := sp.L - len("-> c12-long") - 1 - sp.parts
	if room < sp.parts {
		return nil
	}
	var args []string
	for i := 0; i < sp.parts; i++ {
		n := room / sp.parts
		if i == sp.parts-1 {
			n = room - (sp.parts-1)*(room/sp.parts)
		}
		args = append(args, vchars(fmt.Sprintf("c12line-arg-%s-%d", label, i), n))
	}
	long := refage.Stanza{Type: "c12-long", Args: args, Body: mon.DetBytes("c12line-body-"+label, 70)}
	small := refage.Stanza{Type: "c12-small", Args: []string{"x"}, Body: mon.DetBytes("c12line-small", 10)}
	var stanzas []refage.Stanza
	switch sp.pos {
	case "first":
		stanzas = []refage.Stanza{long, match}
	case "after-match":
		stanzas = []refage.Stanza{match, long, small}
	default:
		stanzas = []refage.Stanza{small, match, long}
	}
	return refage.BuildFile(fk, stanzas, mon.DetBytes("c12line-nonce-"+label, 16), pt)
}

func (m *monitor) lineSpecs() []lineSpec {
	Ls := []int{4000, 4200, 9000, 20000, 70000}
	for L := 4090; L <= 4100; L++ {
		Ls = append(Ls, L)
	}
	for L := 8190; L <= 8194; L++ {
		Ls = append(Ls, L)
	}
	var out []lineSpec
	for i, L := range Ls {
		all := []lineSpec{{L, "first", 1}, {L, "after-match", 3}, {L, "last", 1}, {L, "first", 3}, {L, "after-match", 1}, {L, "last", 7}}
		if m.r.Thorough() {
			out = append(out, all...)
		} else {
			// quick: three of the six position x argument layouts per length, rotating
			out = append(out, all[i%2*3:i%2*3+3]...)
		}
	}
	return out
}

var callerBufios = []int{16, 4096, 4097, 8192, 16384, 131072}

func (m *monitor) headerLineSweep(ss []sched) {
	r := m.r
	specs := m.lineSpecs()
	r.Set("header_long_line_files", len(specs))
	pt := mon.DetBytes("c12line-pt", 300)
	id := keys.P("X1").Identity
	scratch := os.Getenv("VERIF_SCRATCH")
	find := func(name string) sched {
		for _, s := range ss {
			if s.name == name {
				return s
			}
		}
		panic("c12: schedule " + name + " missing")
	}
	inner := []sched{find("whole"), find("1byte"), find("halves")}
	mon.Par(len(specs), func(i int) {
		sp := specs[i]
		r.Guard("hdrline:"+sp.name(), func() {
			file := buildLineFile(sp, pt)
			if file == nil {
				r.Count("header_long_line_layouts_not_constructible", 1)
				return
			}
			hdr := refage.HeaderEnd(file)
			kc := "header-long-line/" + lineClass(sp.L)
			f := &dfile{base: "len=300", length: len(pt), class: sp.name(), kclass: kc,
				how:  fmt.Sprintf("refage.BuildFile: X25519 stanza for X1 and an unknown-type stanza whose opening line is %d bytes long (%d arguments, position %s)", sp.L, sp.parts, sp.pos),
				data: file, id: id, hdr16: hdr + 16, pt: pt, hdrOnly: true}
			f.bDecrypt, _ = m.runDecrypt(f, bytes.NewReader(file), nil, 0, 32*1024)
			r.Eval(1)
			r.Tab("header_long_line_class", lineClass(sp.L))
			if f.bDecrypt.err != "EOF" || !bytes.Equal(f.bDecrypt.out, pt) {
				rp := f.replay()
				delete(rp, "hex")
				r.Violate("valid-file-refused:"+kc, fmt.Sprintf("%s: baseline decryption (bytes.Reader) of a valid file gives %s, want the %d plaintext bytes and EOF", f.name(), f.bDecrypt, len(pt)), rp)
			}
			one := func(name string, src io.Reader) {
				got, _ := m.runDecrypt(f, src, nil, 0, 4096)
				r.Eval(1)
				r.Distinct(fmt.Sprintf("hdrline/%s/%s/%d", f.class, name, f.runs.Load()))
				r.Tab("header_long_line_source", name)
				m.compare("age.Decrypt", f, sched{name: name}, 0, 4096, got, f.bDecrypt)
			}
			for _, s := range ss {
				src, _ := s.mk(file, mon.NewRNG(r.Seed, "c12-hdrline-"+sp.name()+"-"+s.name))
				one(s.name, src)
			}
			// caller-side bufio.Readers of several sizes over bulk, one-byte and halves delivery
			for _, in := range inner {
				for _, n := range callerBufios {
					src, _ := in.mk(file, mon.NewRNG(r.Seed, "c12-hdrline-bufio"))
					// one key per buffer size: the inner delivery (whole, 1byte,
					// halves) is part of the same source class
					r.Tab("header_long_line_caller_bufio_inner", in.name)
					one(fmt.Sprintf("caller-bufio%d(over whole|1byte|halves)", n), bufio.NewReaderSize(src, n))
				}
			}
			// an *os.File and a pipe
			if scratch != "" {
				p := filepath.Join(scratch, fmt.Sprintf("c12line-%d.age", i))
				if err := os.WriteFile(p, file, 0o600); err == nil {
					if fh, err := os.Open(p); err == nil {
						one("os.File", fh)
						fh.Close()
						r.Count("header_long_line_os_file_runs", 1)
					}
					os.Remove(p)
				}
			}
			if pr, pw, err := os.Pipe(); err == nil {
				go func() { pw.Write(file); pw.Close() }()
				one("os.Pipe", pr)
				io.Copy(io.Discard, pr)
				pr.Close()
				r.Count("header_long_line_pipe_runs", 1)
			}
		})
	})
}
