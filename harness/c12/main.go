// C12 — results do not depend on I/O chunking; processing is streaming.
//
// Monitor (DESIGN.md §4 C12), three parts over the real code of the tree:
//
//	(1) encryption: under one fixed deterministic random tape the ciphertext
//	    must be byte-identical for every segmentation of the written
//	    plaintext, binary and armored; every Write must return (len(p), nil);
//	    after every Write the writer may hold back at most one 64 KiB chunk
//	    (counted at the destination handed to age.Encrypt), and the armor
//	    writer at most one armor line.
//	(2) decryption / de-armoring of valid and damaged files: the pair
//	    (bytes released before the first error, error string) must equal the
//	    baseline (bytes.Reader source, 32 KiB read buffer) for every delivery
//	    schedule x read-buffer size or consumption mode (io.Copy, io.ReadAll);
//	    checked through age.Decrypt (binary and
//	    armored), armor.NewReader alone, internal/format.Parse and
//	    internal/stream.NewReader driven directly, also with small
//	    bufio.Readers handed in as the source.
//	(3) streaming: bytes consumed from a counting source after Decrypt/Parse/
//	    NewReader return and after every Read stay within
//	    header+16 + 65552*(chunks released+1) + 8 KiB.
package main

import (
	"fmt"
	"os"
	"sync"
	"sync/atomic"
	"time"

	"filippo.io/age/zverif/mon"
	"filippo.io/age/zverif/refage"
)

const (
	chunk    = refage.ChunkSize    // 65536
	encChunk = refage.EncChunkSize // 65552
	slack    = 8192
)

type monitor struct {
	r       *mon.Run
	aligned int

	kinds  []consumer
	rkinds []readerKind
	wkinds []writerKind
	ifaces ifaceLog
	gmu    sync.Mutex
	groups map[groupKey]*group

	maxHeld     atomic.Int64 // largest plaintext hold-back seen after a Write
	maxArmorLag atomic.Int64 // largest armor-writer lag seen after a Write
	maxAhead    atomic.Int64 // largest (consumed - needed) seen on the decrypting side
	binding     atomic.Int64 // read-ahead checks where the file was longer than the bound
}

func maxInto(a *atomic.Int64, v int64) {
	for {
		old := a.Load()
		if v <= old || a.CompareAndSwap(old, v) {
			return
		}
	}
}

func main() {
	r := mon.Start("C12", "exploration")
	r.Rule = "case = (file: recipient list, plaintext length, binary/armored, damage class) x " +
		"(write segmentation | layer x delivery schedule x handed-in bufio size x read-buffer size); " +
		"non-trivial = a complete encryption whose every Write was checked and whose output was compared with the single-write " +
		"ciphertext under the same tape, or a complete decryption/de-armoring/parse whose (released bytes, error) was compared " +
		"with the baseline; distinct by that tuple"
	r.Assumptions = []string{
		"plaintext lengths up to 6 chunks (400 000 bytes); unbounded sizes are not explored",
		"the plaintext reader is consumed by Read loops with 8 buffer sizes, by io.Copy into a plain Writer (uses a WriteTo of the reader if there is one) and by io.ReadAll",
		"a result that differs from the baseline under every delivery schedule it was run with is reported once with sched=* (the cause is then the consumption mode / buffer / handed-in bufio, not the schedule)",
		"header long-line sweep: valid reference-written files with one unknown-type stanza whose opening line is 4000..70000 bytes (1, 3 or 7 arguments; first / after the match / last), 300-byte plaintext; sources: every schedule, caller-side bufio.Readers of 16..131072 bytes, *os.File, os.Pipe",
		"header-size sweep: valid reference-written files with headers of round-d bytes (round = 4096*k, 64 KiB, 1 MiB; 16 MiB in thorough), one large unknown stanza or many ssh-ed25519-looking stanzas, 5000-byte plaintext behind it",
		"large-caller-buffer sweep: files of 3, 9 and 20 chunks, binary and armored; Read buffers of 65537..4 MiB, io.ReadAll, bytes.Buffer.ReadFrom, a 1 MiB bufio.Reader; at every Read return the counting source may have delivered at most what was released before the call needed + 2 chunks + 8 KiB",
		"empty-answer sweep: sources interleaving (0, nil) with pieces of 1..512 bytes (1, 2 or 5 empty answers after each piece; 99/100/101 per chunk), never after the last byte (there (0, nil) legitimately reads as 'more follows'); valid files of 300, 65535, 65536, 65537 and 131073 bytes, binary and armored",
		"CLI encoding stage: an armored file re-encoded as UTF-16LE+BOM+CRLF, UTF-16BE+BOM, UTF-8+BOM, UTF-32LE+BOM under INPUT path, stdin file, stdin pipe whole and trickled (1, 3, 7 / 101, 1001, 4095, 4097-byte pieces); only independence of the delivery is judged, not acceptance",
		"CLI damaged-by-route stage: a 3-chunk LF-only text file damaged in its last chunk, ciphertext on a stdin pipe / a redirect / as INPUT, towards a pipe, a pty, -o - on a pty and -o FILE; every route is compared with pipe-to-pipe, retried once, and judged only if the same route delivers the valid file",
		"CLI streaming stage: header + 2.5 chunks on a stdin pipe that stays open; 64 KiB must reach the pty within 40 s; a pipe destination is the control (expiry there makes the case inconclusive)",
		"CLI output stage: printable LF-only UTF-8 texts through a pty (CR stripped), -o -, a pipe and -o FILE; a differing route is a violation only if the pipe route and the shifted control succeed, every run is retried once",
		"optional interfaces (ByteReader, RuneReader, ByteScanner, WriterTo, ReaderAt, Seeker / StringWriter, ByteWriter, ReaderFrom) are discovered by type assertion on every returned value; one that is absent is recorded, not judged",
		"consumer kinds over armor.NewReader (bufio ReadByte/ReadString/Peek/WriteTo/Read, Scanner, ReadFull blocks, 1-byte CopyBuffer, iotest.OneByteReader) run under the schedules whole, 1byte, random, bufio16over1byte",
		"age.Decrypt over armor is also compared with age.Decrypt over the bytes (and error) plain de-armoring releases",
		"malformed armor texts are judged only for independence of delivery schedule and read size, never for whether they should be accepted (C08); no read-ahead bound is applied to them",
		"delivery schedules are those of mon.Schedules() (never (0,nil) reads, never transient source errors) plus two counted bufio schedules",
		"ssh-rsa recipients are left out of the encryption sweep: crypto/rsa draws a data-independent random number of tape bytes (randutil.MaybeReadByte)",
		"hold-back is measured at the destination handed to age.Encrypt; the armor writer's own lag is bounded separately by one 48-byte line",
		"the compared error value is err.Error(); which call returned it (Decrypt or Read) is reported but not compared",
		"the caller's own bufio buffer (16 or 4096 bytes in the counted schedules) is added to the read-ahead allowance",
	}
	r.MinEvals, r.MinDistinct = 4000, 3000
	if nv, err := refage.SelfCheck(); err != nil {
		fmt.Fprintf(os.Stderr, "INCONCLUSIVE: reference implementation fails its CCTV self-check: %v\n", err)
		os.Exit(2)
	} else {
		r.Set("reference_self_check_vectors", nv)
	}
	m := &monitor{r: r, groups: map[groupKey]*group{}, kinds: consumers(), rkinds: readerKinds(), wkinds: writerKinds()}

	// Serial phase: everything that encrypts runs under the process-global tap.
	t0 := time.Now()
	lap := func(what string) {
		if os.Getenv("C12_TIMING") != "" {
			fmt.Printf("   timing: %-14s %6.2fs\n", what, time.Since(t0).Seconds())
		}
	}
	m.encryptSweep()
	m.armorWriterIfaces()
	lap("encrypt sweep")
	files := m.buildFiles()
	lap("build files")

	// Parallel phase: nothing below draws randomness.
	m.decryptSweep(files)
	lap("decrypt sweep")

	r.Set("max_plaintext_held_back_after_a_write", m.maxHeld.Load())
	r.Set("max_armor_writer_lag_bytes", m.maxArmorLag.Load())
	r.Set("max_source_bytes_consumed_beyond_the_chunks_released", m.maxAhead.Load())
	r.Set("read_ahead_checks_where_the_source_was_longer_than_the_allowance", m.binding.Load())
	// vacuity guard for the malformed-armor family: it must have been run
	// under a trickled and a bulk schedule, with small and with large reads
	for _, k := range []string{"armor.NewReader/trickled/small-read", "armor.NewReader/trickled/large-read",
		"armor.NewReader/bulk/small-read", "armor.NewReader/bulk/large-read", "age.Decrypt/trickled", "age.Decrypt/bulk"} {
		if r.Counter("malformed_armor_runs/"+k) == 0 {
			r.Inconclusive("no malformed-armor text was exercised as %s", k)
		}
	}
	// which optional interfaces the returned values implement on this tree
	// (inconclusive only if the discovery itself did not run)
	m.ifaces.report(r)
	// vacuity guard for the leading-white-space family: files with >= 100
	// blank lines before BEGIN must have met a plain consumer, age.Decrypt and
	// every consumer that goes through a bufio fill loop
	need := []string{"plain-Read-loop", "age.Decrypt", "decrypt-vs-dearmored"}
	for _, c := range m.kinds {
		if c.fill {
			need = append(need, c.name)
		}
	}
	for _, k := range need {
		if r.Counter("lead100_runs/"+k) == 0 {
			r.Inconclusive("no armored file with >= 100 leading blank lines was consumed by %s", k)
		}
	}
	if r.Counter("header_size_runs/trickled") == 0 || r.Counter("header_size_runs/bulk") == 0 {
		r.Inconclusive("the header-size sweep did not run under both a trickled and a bulk schedule")
	}
	if r.Counter("header_long_line_pipe_runs") == 0 || r.Counter("header_long_line_os_file_runs") == 0 {
		r.Inconclusive("the header long-line sweep did not run over an *os.File and a pipe")
	}
	if m.binding.Load() == 0 {
		r.Inconclusive("no read-ahead check was binding (no file longer than the bound)")
	}
	if r.Counter("holdback_checks_binding") == 0 {
		r.Inconclusive("no hold-back check was binding (no plaintext longer than one chunk)")
	}
	cliStage(r)
	cliOutputStage(r)
	cliDamagedAndStreamingStage(r)
	cliEncodingStage(r)
	r.Finish()
}

func lenClass(n int) string {
	switch {
	case n <= 2:
		return fmt.Sprint(n)
	case n < chunk-1:
		return "<1chunk"
	case n <= chunk+1:
		return fmt.Sprintf("1chunk%+d", n-chunk)
	case n < 2*chunk-1:
		return "1-2chunks"
	case n <= 2*chunk+1:
		return fmt.Sprintf("2chunks%+d", n-2*chunk)
	case n < 3*chunk:
		return "2-3chunks"
	case n <= 3*chunk+1:
		return fmt.Sprintf("3chunks%+d", n-3*chunk)
	}
	return ">3chunks"
}

func firstDiff(a, b []byte) int {
	n := len(a)
	if len(b) < n {
		n = len(b)
	}
	for i := 0; i < n; i++ {
		if a[i] != b[i] {
			return i
		}
	}
	return n
}
