package main

import (
	"bytes"
	"fmt"
	"math/rand"
	"sort"
	"strings"

	"filippo.io/age/zverif/keys"
	"filippo.io/age/zverif/mon"
	"filippo.io/age/zverif/refage"
)

// Header size as the quantity that interacts with delivery. Valid files
// (written by the reference implementation) whose header length sweeps
// closely below round sizes — multiples of 4096, 64 KiB, 1 MiB, 16 MiB in the
// thorough tier — with a payload behind the header for a parser to over-read.
// Each is decrypted under the delivery schedules; the outcome must be the
// same under every schedule (the differs: oracle) and, the files being valid,
// the plaintext followed by a clean end.

type hdrSpec struct {
	round  int    // the round size
	rname  string // "4096*2", "64KiB", "1MiB"
	d      int    // header length = round - d
	layout string // "one-big-stanza" | "many-stanzas"
	last   bool   // matching stanza last (else first)
	big    bool   // >= 1 MiB: fewer schedules
}

func (s hdrSpec) name() string {
	pos := "match-first"
	if s.last {
		pos = "match-last"
	}
	return fmt.Sprintf("header=%s-%d/%s/%s", s.rname, s.d, s.layout, pos)
}

// padBodyLen is the encoded length of a stanza body of b bytes: unpadded
// base64 in 64-column lines, always closed by a short (possibly empty) line.
func padBodyLen(b int) int {
	n := (4*b + 2) / 3
	return n + n/64 + 1
}

// buildHeaderFile returns a valid file for plaintext pt whose header is
// exactly `want` bytes long, or nil if that length cannot be laid out.
func buildHeaderFile(sp hdrSpec, want int, pt []byte) (file []byte, hdrLen int) {
	x1 := keys.NewX("X1")
	label := sp.name()
	fk := mon.DetBytes("c12hdr-fk-"+label, 16)
	match, err := refage.X25519Wrap(fk, x1.Public, mon.DetBytes("c12hdr-eph-"+label, 32))
	if err != nil {
		return nil, 0
	}
	fixed := len("age-encryption.org/v1\n") + len(match.Encode()) + len("--- ") + 43 + 1
	var filler []refage.Stanza
	room := want - fixed
	if sp.layout == "many-stanzas" {
		// native-looking stanzas for other recipients (an X25519 identity
		// skips them by type): "-> ssh-ed25519 <tag> <share>" + 32-byte body
		one := refage.Stanza{Type: "ssh-ed25519", Args: []string{"c12AAA", refage.B64(mon.DetBytes("c12hdr-share", 32))}, Body: mon.DetBytes("c12hdr-body", 32)}
		sz := len(one.Encode())
		n := (room - 200) / sz
		for i := 0; i < n; i++ {
			s := one
			s.Args = []string{fmt.Sprintf("c%05d", i%100000), one.Args[1]}
			filler = append(filler, s)
		}
		if n > 0 {
			room -= n * sz
		}
	}
	// one unknown-type stanza takes up the rest: "-> c12-pad <arg>\n" + body
	const padFixed = len("-> c12-pad ") + 1
	if room < padFixed+1+padBodyLen(0) {
		return nil, 0
	}
	lo, hi := 0, room
	for lo < hi { // largest b with padFixed + 1 + padBodyLen(b) <= room
		mid := (lo + hi + 1) / 2
		if padFixed+1+padBodyLen(mid) <= room {
			lo = mid
		} else {
			hi = mid - 1
		}
	}
	arg := 1 + room - (padFixed + 1 + padBodyLen(lo))
	pad := refage.Stanza{Type: "c12-pad", Args: []string{strings.Repeat("p", arg)}, Body: mon.DetBytes("c12hdr-pad-"+label, lo)}
	filler = append(filler, pad)
	var stanzas []refage.Stanza
	if sp.last {
		stanzas = append(append(stanzas, filler...), match)
	} else {
		stanzas = append(append(stanzas, match), filler...)
	}
	file = refage.BuildFile(fk, stanzas, mon.DetBytes("c12hdr-nonce-"+label, 16), pt)
	return file, refage.HeaderEnd(file)
}

func (m *monitor) hdrSpecs() []hdrSpec {
	r := m.r
	grid := func(max, step int) []int {
		set := map[int]bool{}
		for d := 0; d <= max; d += step {
			set[d] = true
		}
		for _, d := range []int{0, 1, 2, 3, 31, 32, 33, 63, 64, 65, 255, 256, 257} {
			set[d] = true
		}
		var out []int
		for d := range set {
			out = append(out, d)
		}
		sort.Ints(out)
		return out
	}
	var specs []hdrSpec
	add := func(round int, rname string, ds []int, layout string, last bool) {
		for _, d := range ds {
			specs = append(specs, hdrSpec{round, rname, d, layout, last, round >= 1<<20})
		}
	}
	// multiples of 4096
	for _, k := range []int{1, 2, 3, 4, 8} {
		add(4096*k, fmt.Sprintf("4096*%d", k), grid(300, r.Pick(7, 1)), "one-big-stanza", k%2 == 0)
		if k >= 2 {
			add(4096*k, fmt.Sprintf("4096*%d", k), grid(300, r.Pick(29, 5)), "many-stanzas", k%2 == 1)
		}
	}
	// 64 KiB: every value 0..600
	add(65536, "64KiB", grid(600, r.Pick(3, 1)), "one-big-stanza", true)
	add(65536, "64KiB", grid(600, r.Pick(17, 3)), "one-big-stanza", false)
	add(65536, "64KiB", grid(600, r.Pick(17, 3)), "many-stanzas", true)
	// 1 MiB
	add(1<<20, "1MiB", grid(700, r.Pick(26, 13)), "one-big-stanza", true)
	add(1<<20, "1MiB", grid(700, r.Pick(234, 13)), "one-big-stanza", false)
	add(1<<20, "1MiB", grid(700, r.Pick(234, 13)), "many-stanzas", true)
	if r.Thorough() {
		add(1<<20, "1MiB", grid(4200, 97), "one-big-stanza", true)
		add(16<<20, "16MiB", []int{0, 1, 33, 64, 255, 256, 257, 1000, 3000}, "one-big-stanza", true)
	}
	return specs
}

var hdrBigSchedules = map[string]bool{"whole": true, "whole+eof": true, "1byte": true, "halves": true, "4096": true,
	"random": true, "bufio16": true, "bufio65536": true}

func (m *monitor) headerSizeSweep(ss []sched) {
	r := m.r
	specs := m.hdrSpecs()
	r.Set("header_size_files", len(specs))
	pt := mon.DetBytes("c12hdr-pt", 5000)
	id := keys.P("X1").Identity
	mon.Par(len(specs), func(i int) {
		sp := specs[i]
		r.Guard("hdrsize:"+sp.name(), func() {
			file, hdr := buildHeaderFile(sp, sp.round-sp.d, pt)
			if file == nil {
				r.Count("header_size_layouts_not_constructible", 1)
				return
			}
			if hdr != sp.round-sp.d {
				r.Inconclusive("%s: the reference writer produced a %d-byte header, wanted %d", sp.name(), hdr, sp.round-sp.d)
				return
			}
			f := &dfile{base: "len=5000", length: len(pt), class: sp.name(), kclass: "header-size/" + sp.rname + "/" + sp.layout,
				how:  fmt.Sprintf("refage.BuildFile: X25519 stanza for X1 plus filler (%s), header exactly %d bytes = %s - %d, payload %d plaintext bytes", sp.layout, hdr, sp.rname, sp.d, len(pt)),
				data: file, id: id, hdr16: hdr + 16, pt: pt, hdrOnly: true}
			f.bDecrypt, _ = m.runDecrypt(f, bytes.NewReader(file), nil, 0, 32*1024)
			r.Eval(1)
			r.Tab("header_size_round", sp.rname+" "+sp.layout)
			if f.bDecrypt.err != "EOF" || !bytes.Equal(f.bDecrypt.out, pt) {
				rp := f.replay()
				delete(rp, "hex")
				r.Violate("valid-file-refused:header-size/"+sp.rname+"/"+sp.layout, fmt.Sprintf("%s: baseline decryption (bytes.Reader) of a valid file gives %s, want the %d plaintext bytes and EOF", f.name(), f.bDecrypt, len(pt)), rp)
			}
			for _, s := range ss {
				if sp.big && !hdrBigSchedules[s.name] {
					continue
				}
				rng := mon.NewRNG(r.Seed, "c12-hdrsize-"+sp.name()+"-"+s.name)
				m.hdrRun(f, s, rng)
			}
		})
	})
}

func (m *monitor) hdrRun(f *dfile, s sched, rng *rand.Rand) {
	r := m.r
	src, cr := s.mk(f.data, rng)
	got, ah := m.runDecrypt(f, src, cr, s.own, 4096)
	r.Eval(1)
	r.Distinct("hdrsize/" + f.class + "/" + s.name)
	r.Count("header_size_runs/"+deliveryClass(s.name), 1)
	m.compare("age.Decrypt", f, s, 0, 4096, got, f.bDecrypt)
	m.readAhead("age.Decrypt", f, s, 0, 4096, ah)
}
