package main

import (
	"encoding/base64"
	"fmt"
	"math/rand"
	"strings"

	"filippo.io/age/zverif/refage"
)

// Malformed armor. The oracle stays C12's: for one and the same text, the
// outcome of de-armoring (and of age.Decrypt over it) must not depend on the
// delivery schedule or on the consumer's read size. Whether the text should
// be accepted at all is C08's business and is not judged here.

type marmor struct {
	kind  string // key class: padded, short, linebreaks, empty, whitespace, long, mixed
	shape string
	text  []byte
}

// Read sizes for malformed armor at the armor.NewReader layer: around the
// 48-byte line, small, medium, bulk, and the two consumption modes.
var marmorBufs = []int{1, 2, 7, 47, 48, 49, 100, 512, 4096, 65536, 200000, -1, -2}

// through age.Decrypt the consumer's read size hardly reaches the armor
// reader (format.Parse and the stream reader sit in between)
var marmorDecryptBufs = []int{1, 47, 48, 4096, 65536, -1, -2}

const (
	begin = refage.ArmorBegin + "\n"
	end   = refage.ArmorEnd + "\n"
)

// wrapCols re-wraps a base64 string at w columns; eol(i) is the terminator of
// line i.
func wrapCols(b64 string, w int, eol func(i int) string) string {
	var sb strings.Builder
	for i := 0; len(b64) > 0; i++ {
		n := w
		if n > len(b64) {
			n = len(b64)
		}
		sb.WriteString(b64[:n])
		sb.WriteString(eol(i))
		b64 = b64[n:]
	}
	return sb.String()
}

func constEOL(s string) func(int) string { return func(int) string { return s } }

// groups armors bin as g-byte groups, each encoded (and padded) on its own line.
func groups(bin []byte, g int, eol string) string {
	var sb strings.Builder
	for len(bin) > 0 {
		n := g
		if n > len(bin) {
			n = len(bin)
		}
		sb.WriteString(base64.StdEncoding.EncodeToString(bin[:n]))
		sb.WriteString(eol)
		bin = bin[n:]
	}
	return sb.String()
}

// canonical body lines (each with its LF) of bin.
func canonLines(bin []byte) []string {
	body := groups(bin, 48, "\n")
	ls := strings.SplitAfter(body, "\n")
	if len(ls) > 0 && ls[len(ls)-1] == "" {
		ls = ls[:len(ls)-1]
	}
	return ls
}

// malformedArmor generates the family for one binary file.
func malformedArmor(bin []byte, rng *rand.Rand, full bool) []marmor {
	var out []marmor
	add := func(kind, shape, body string) {
		out = append(out, marmor{kind, shape, []byte(begin + body + end)})
	}
	b64 := base64.StdEncoding.EncodeToString(bin)
	raw := strings.TrimRight(b64, "=")
	lines := canonLines(bin)
	nl := len(lines)
	positions := map[string]int{"first": 0, "middle": nl / 2, "last-full": nl - 2}
	if nl < 4 {
		positions = map[string]int{"first": 0}
	}
	posNames := []string{"first", "middle", "last-full"}
	editLine := func(k int, f func(l string) string) string {
		c := append([]string(nil), lines...)
		c[k] = f(c[k])
		return strings.Join(c, "")
	}

	// padded: every group carries its own padding; 64-column lines ending in = / ==
	for _, g := range []int{46, 47} {
		add("padded", fmt.Sprintf("groups-of-%d-bytes-each-padded", g), groups(bin, g, "\n"))
	}
	if full {
		add("padded", "groups-of-46-bytes-each-padded-crlf", groups(bin, 46, "\r\n"))
		add("padded", "groups-of-1-byte-each-padded", groups(bin, 1, "\n"))
		add("padded", "groups-of-44-bytes-each-padded", groups(bin, 44, "\n"))
	}
	// one padded 64-column line in an otherwise canonical body
	for _, pn := range posNames {
		k, ok := positions[pn]
		if !ok || k < 0 || k*48+47 >= len(bin) {
			continue
		}
		for _, g := range []int{47, 46} {
			body := groups(bin[:k*48], 48, "\n") + groups(bin[k*48:k*48+g], g, "\n") + groups(bin[k*48+g:], 48, "\n")
			add("padded", fmt.Sprintf("one-%d-byte-padded-line-at-%s", g, pn), body)
		}
	}

	// short lines that are not last
	for _, w := range []int{60, 4, 32} {
		add("short", fmt.Sprintf("wrapped-at-%d-columns", w), wrapCols(b64, w, constEOL("\n")))
	}
	add("short", "groups-of-45-bytes", groups(bin, 45, "\n"))

	// line breaks inside the 64-column window: w columns followed by filler
	// CR/LF bytes up to 65 bytes ending in LF, and two-piece windows
	fill := func(w int, filler string) string { return wrapCols(raw, w, constEOL(filler)) }
	add("linebreaks", "60-columns-then-4-empty-lines", fill(60, "\n\n\n\n\n"))
	add("linebreaks", "60-columns-crlf-crlf-lf", fill(60, "\r\n\r\n\n"))
	add("linebreaks", "56-columns-then-8-empty-lines", fill(56, strings.Repeat("\n", 9)))
	add("linebreaks", "30-columns-crlf-30-columns-crcrlf", wrapCols(raw, 30, func(i int) string {
		if i%2 == 0 {
			return "\r\n"
		}
		return "\r\r\n"
	}))
	add("linebreaks", "32-columns-lf-28-columns-4lf", wrapCols(raw, 30, func(i int) string {
		if i%2 == 0 {
			return "\n"
		}
		return "\n\n\n\n"
	}))
	for _, c := range []int{4, 30, 32, 60, 63} {
		for _, e := range []struct{ name, s string }{{"lf", "\n"}, {"crlf", "\r\n"}, {"crcrlf", "\r\r\n"}, {"cr", "\r"}} {
			if !full && !(c == 60 || (c == 30 && e.name != "cr") || (c == 4 && e.name == "crlf")) {
				continue
			}
			// every canonical line split once at column c with the given break
			var sb strings.Builder
			for _, l := range lines {
				if len(l) > c+1 {
					sb.WriteString(l[:c] + e.s + l[c:])
				} else {
					sb.WriteString(l)
				}
			}
			add("linebreaks", fmt.Sprintf("every-line-split-at-column-%d-by-%s", c, e.name), sb.String())
			if k, ok := positions["middle"]; ok && len(lines[k]) > c+1 {
				add("linebreaks", fmt.Sprintf("middle-line-split-at-column-%d-by-%s", c, e.name),
					editLine(k, func(l string) string { return l[:c] + e.s + l[c:] }))
			}
		}
	}
	add("linebreaks", "crcrlf-line-ends", wrapCols(b64, 64, constEOL("\r\r\n")))
	add("linebreaks", "cr-only-line-ends", wrapCols(b64, 64, constEOL("\r")))
	add("linebreaks", "60-columns-cr-cr-cr-cr-lf", fill(60, "\r\r\r\r\n"))

	// empty lines inserted in runs
	for _, run := range []int{1, 2, 4, 65} {
		for _, pn := range posNames {
			k, ok := positions[pn]
			if !ok || k < 0 || (!full && pn == "last-full" && run != 4) {
				continue
			}
			add("empty", fmt.Sprintf("%d-empty-lines-after-%s-line", run, pn),
				editLine(k, func(l string) string { return l + strings.Repeat("\n", run) }))
		}
	}
	add("empty", "65-empty-lines-before-the-body", strings.Repeat("\n", 65)+strings.Join(lines, ""))
	add("empty", "130-empty-lines-only", strings.Repeat("\n", 130))
	add("empty", "empty-line-after-every-line", wrapCols(b64, 64, constEOL("\n\n")))
	add("empty", "crlf-empty-line-after-every-line", wrapCols(b64, 64, constEOL("\r\n\r\n")))

	// white space inside lines
	for _, ws := range []struct{ name, s string }{{"space", " "}, {"tab", "\t"}} {
		if k, ok := positions["middle"]; ok {
			add("whitespace", ws.name+"-replaces-column-10-of-middle-line", editLine(k, func(l string) string { return l[:10] + ws.s + l[11:] }))
			add("whitespace", ws.name+"-inserted-at-column-10-of-middle-line", editLine(k, func(l string) string { return l[:10] + ws.s + l[10:] }))
			add("whitespace", ws.name+"-appended-to-middle-line", editLine(k, func(l string) string { return l[:len(l)-1] + ws.s + "\n" }))
			add("whitespace", ws.name+"-prepended-to-middle-line", editLine(k, func(l string) string { return ws.s + l }))
		}
		add("whitespace", "63-columns-then-"+ws.name, wrapCols(raw, 63, constEOL(ws.s+"\n")))
	}

	// lines longer than 64 columns
	for _, w := range []int{65, 68, 76, 128} {
		add("long", fmt.Sprintf("wrapped-at-%d-columns", w), wrapCols(b64, w, constEOL("\n")))
	}
	add("long", "whole-body-on-one-line", b64+"\n")
	if k, ok := positions["middle"]; ok && k+1 < nl {
		add("long", "middle-line-joined-with-the-next", editLine(k, func(l string) string { return l[:len(l)-1] }))
	}

	// seeded mixtures: every line gets one of the edits above at random
	for v := 0; v < 6; v++ {
		var sb strings.Builder
		rest := raw
		for len(rest) > 0 {
			w := []int{64, 64, 60, 30, 32, 63, 48, 4}[rng.Intn(8)]
			if w > len(rest) {
				w = len(rest)
			}
			sb.WriteString(rest[:w])
			rest = rest[w:]
			e := []string{"\n", "\n", "\r\n", "\r\r\n", "\n\n", "\n\n\n\n\n", "\r\n\r\n\n", " \n", "=\n"}[rng.Intn(9)]
			// keep many windows at exactly 65 bytes
			if rng.Intn(2) == 0 && w < 64 {
				e = strings.Repeat("\n", 65-w)
			}
			sb.WriteString(e)
		}
		add("mixed", fmt.Sprintf("seeded-mixture-%d", v), sb.String())
	}
	return out
}
