package main

import (
	"bytes"
	"fmt"
	"io"

	"filippo.io/age/armor"
	"filippo.io/age/zverif/ax"
	"filippo.io/age/zverif/keys"
	"filippo.io/age/zverif/mon"
	"filippo.io/age/zverif/refage"
)

// Sources that answer (0, nil) — legal for an io.Reader: "nothing yet" —
// interleaved with small pieces, so that hundreds to thousands of empty
// answers occur while ONE chunk is gathered, but never two in a row without
// progress in between (k in a row only for the explicit k = 2, 5 variants,
// far below bufio's 100). No empty answer is given once the data is
// exhausted: the stream reader's end-of-file probe legitimately reads
// (0, nil) there as "more follows" (DESIGN §3.3), which is not the subject.
// Oracle unchanged: plaintext and error equal the whole-buffer baseline.

type emptyReader struct {
	data    []byte
	pos     int
	piece   int // bytes per data answer
	k       int // empty answers after every data answer
	every   int // >0: burst mode — one empty answer whenever pos crosses a multiple of `every`
	pending int
	nextGap int
	empties int
}

func (e *emptyReader) Read(p []byte) (int, error) {
	if len(p) == 0 {
		return 0, nil
	}
	if e.pos >= len(e.data) {
		return 0, io.EOF
	}
	if e.pending > 0 {
		e.pending--
		e.empties++
		return 0, nil
	}
	n := e.piece
	if n > len(p) {
		n = len(p)
	}
	if n > len(e.data)-e.pos {
		n = len(e.data) - e.pos
	}
	copy(p, e.data[e.pos:e.pos+n])
	e.pos += n
	if e.pos < len(e.data) {
		if e.every > 0 {
			if e.pos >= e.nextGap {
				e.pending = 1
				e.nextGap += e.every
			}
		} else {
			e.pending = e.k
		}
	}
	return n, nil
}

type emptyDelivery struct {
	name  string
	piece int
	k     int
	burst int  // empty answers per encrypted chunk, spread evenly (pieces of chunk/burst bytes)
	small bool // only for files of at most one chunk and a bit (the per-byte deliveries)
}

func emptyDeliveries() []emptyDelivery {
	var out []emptyDelivery
	for _, p := range []int{1, 3, 7, 16, 64, 512} {
		out = append(out, emptyDelivery{name: fmt.Sprintf("empties:piece=%d,k=1", p), piece: p, k: 1, small: p <= 3})
	}
	for _, k := range []int{2, 5} {
		for _, p := range []int{7, 64} {
			out = append(out, emptyDelivery{name: fmt.Sprintf("empties:piece=%d,k=%d", p, k), piece: p, k: k})
		}
	}
	for _, b := range []int{99, 100, 101} {
		out = append(out, emptyDelivery{name: fmt.Sprintf("empties:burst-of-%d-per-chunk", b), piece: 4096, burst: b})
	}
	return out
}

func (d emptyDelivery) reader(data []byte) *emptyReader {
	e := &emptyReader{data: data, piece: d.piece, k: d.k}
	if d.burst > 0 {
		e.every = encChunk / d.burst
		e.nextGap = e.every
		e.piece = e.every // one data answer per gap: d.burst empty answers per chunk
	}
	return e
}

func (m *monitor) emptyAnswerSweep() {
	r := m.r
	x1 := keys.P("X1")
	type job struct {
		f *dfile
		d emptyDelivery
		i int
	}
	var jobs []job
	dels := emptyDeliveries()
	for _, n := range []int{300, 65535, 65536, 65537, 131073} {
		pt := mon.DetBytes(fmt.Sprintf("c12-empty-pt-%d", n), n)
		fk := mon.DetBytes(fmt.Sprintf("c12-empty-fk-%d", n), 16)
		st, _ := refage.X25519Wrap(fk, keys.NewX("X1").Public, mon.DetBytes(fmt.Sprintf("c12-empty-eph-%d", n), 32))
		bin := refage.BuildFile(fk, []refage.Stanza{st}, mon.DetBytes(fmt.Sprintf("c12-empty-nonce-%d", n), 16), pt)
		hdr := refage.HeaderEnd(bin)
		o, err := refage.Decrypt(bin, x1.Ref)
		if err != nil {
			r.Inconclusive("empty-answer sweep: the reference does not open its own file: %v", err)
			continue
		}
		for _, armored := range []bool{false, true} {
			data := bin
			if armored {
				data = refage.Armor(bin, "\n")
			}
			f := &dfile{base: fmt.Sprintf("len=%d", n), length: n, armored: armored, class: "valid", kclass: "empty-answers",
				how:  fmt.Sprintf("refage.BuildFile(mon.DetBytes(%q, %d)) to X1", fmt.Sprintf("c12-empty-pt-%d", n), n),
				data: data, id: x1.Identity, hdr16: hdr + 16, pt: pt, hdrOnly: true, dearmor: armored}
			if !armored {
				f.streamKey = o.StreamKey
			}
			m.baselines(f)
			for i, d := range dels {
				if d.small && n > 70000 {
					continue
				}
				jobs = append(jobs, job{f, d, i})
			}
		}
	}
	mon.Par(len(jobs), func(ji int) {
		j := jobs[ji]
		f, d := j.f, j.d
		r.Guard("empties:"+f.name()+"/"+d.name, func() {
			s := sched{name: d.name}
			// thin cross product: two consumption modes per (file, delivery), rotating
			modes := [][]int{{4096, ax.CopyMode}, {65537, ax.ReadAllMode}, {100, 200000}}[(j.i+f.length)%3]
			for _, b := range modes {
				src := d.reader(f.data)
				got, _ := m.runDecrypt(f, src, nil, 0, b)
				r.Eval(1)
				r.Distinct(fmt.Sprintf("empties/decrypt/%s/%s/%d", f.name(), d.name, b))
				r.Count("empty_answers_given", int64(src.empties))
				r.Tab("empty_answer_delivery", d.name)
				m.compare("age.Decrypt", f, s, 0, b, got, f.bDecrypt)
			}
			if f.armored && f.bDearmor != nil {
				src := d.reader(f.data)
				o := &outcome{}
				readAll(armor.NewReader(src), modes[0], o, "Read", nil)
				r.Eval(1)
				r.Distinct(fmt.Sprintf("empties/dearmor/%s/%s", f.name(), d.name))
				m.compare("armor.NewReader", f, s, 0, modes[0], o, f.bDearmor)
			}
			if f.bStream != nil {
				src := d.reader(f.payload())
				got, _ := m.runStream(f, src, nil, 0, modes[0])
				r.Eval(1)
				r.Distinct(fmt.Sprintf("empties/stream/%s/%s", f.name(), d.name))
				r.Count("empty_answers_given", int64(src.empties))
				m.compare("stream.NewReader", f, s, 0, modes[0], got, f.bStream)
			}
		})
	})
	if r.Counter("empty_answers_given") < 100000 {
		r.Inconclusive("the empty-answer sweep gave only %d empty answers", r.Counter("empty_answers_given"))
	}
	_ = bytes.MinRead
}
