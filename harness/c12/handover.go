package main

import (
	"bufio"
	"bytes"
	"fmt"
	"io"
	"math/rand"
	"strings"

	"filippo.io/age"
	"filippo.io/age/armor"
	"filippo.io/age/zverif/ax"
	"filippo.io/age/zverif/mon"
)

// Hand-over modes: how the plaintext reaches the WriteCloser returned by
// age.Encrypt other than through Write calls made by the caller. Under the
// same tape every mode must give the single-Write ciphertext.

// plainSrc hides every optional interface of a source (WriterTo ...) so that
// io.Copy must use the destination's ReadFrom if it has one, else Reads. It
// takes a snapshot before every Read: by then everything delivered so far has
// been handed to the encryptor.
type plainSrc struct {
	r         io.Reader
	delivered int
	before    func(delivered int)
}

func (p *plainSrc) Read(b []byte) (int, error) {
	if p.before != nil {
		p.before(p.delivered)
	}
	n, err := p.r.Read(b)
	p.delivered += n
	return n, err
}

// onlyWriter hides a ReadFrom of the encryptor so that io.CopyBuffer goes
// through the caller's buffer and Write.
type onlyWriter struct{ w io.Writer }

func (o onlyWriter) Write(p []byte) (int, error) { return o.w.Write(p) }

// eofClass names how a schedule reports the end of the plaintext.
func eofClass(name string) string {
	switch {
	case strings.HasPrefix(name, "bufio"):
		return "bufio.Reader"
	case strings.HasSuffix(name, "+eof"):
		return "eof-with-data"
	}
	return "eof-separate"
}

const (
	howCopy     = "io.Copy"         // ReadFrom of the encryptor if it has one, else 32 KiB Reads + Write
	howReadFrom = "ReadFrom"        // the encryptor's ReadFrom called directly (skipped if it has none)
	howCopyBuf  = "io.CopyBuffer7k" // Write only, 7000-byte caller buffer reused for every piece
)

// encryptFrom encrypts pt under a fresh tape, handing it over from a source
// with the given delivery schedule. skipped is set when the mode does not
// apply (no ReadFrom).
func encryptFrom(label string, pt []byte, armored bool, recips []age.Recipient, sc mon.Schedule, how string, rng *rand.Rand) (er *encRun, skipped bool) {
	er = &encRun{}
	t := mon.InstallTap(mon.NewDetStream(label))
	defer t.Uninstall()
	final := &mon.ObservingWriter{}
	var dst io.Writer = final
	var aw io.WriteCloser
	if armored {
		aw = armor.NewWriter(final)
		dst = aw
	}
	tw := &teeW{w: dst}
	w, err := age.Encrypt(tw, recips...)
	if err != nil {
		er.fail = "Encrypt: " + err.Error()
		return
	}
	er.hdr = len(tw.buf)
	snapshot := func(delivered int) {
		er.snaps = append(er.snaps, snap{delivered, len(tw.buf), final.Len()})
	}
	var src io.Reader = sc.New(pt, rng)
	if _, isBufio := src.(*bufio.Reader); !isBufio {
		// a bufio.Reader source keeps its own WriteTo (which in turn looks
		// for the destination's ReadFrom); everything else is made plain
		src = &plainSrc{r: src, before: snapshot}
	}
	var n int64
	switch how {
	case howCopy:
		n, err = io.Copy(w, src)
	case howReadFrom:
		rf, ok := w.(io.ReaderFrom)
		if !ok {
			return nil, true
		}
		n, err = rf.ReadFrom(src)
	case howCopyBuf:
		n, err = io.CopyBuffer(onlyWriter{w}, src, make([]byte, 7000))
	default:
		panic("c12: unknown hand-over " + how)
	}
	if err != nil {
		er.fail = fmt.Sprintf("%s returned (%d, %v)", how, n, err)
		return
	}
	if n != int64(len(pt)) {
		er.fail = fmt.Sprintf("%s reported %d of %d bytes with nil error", how, n, len(pt))
		return
	}
	snapshot(len(pt))
	if err := w.Close(); err != nil {
		er.fail = "Close: " + err.Error()
		return
	}
	if aw != nil {
		if err := aw.Close(); err != nil {
			er.fail = "armor Close: " + err.Error()
			return
		}
	}
	er.out, er.bin = final.Buf, tw.buf
	return
}

// handovers runs every hand-over mode for one case and compares with the
// single-Write baseline. It returns (modes compared, byte-identical).
func (m *monitor) handovers(c encCase, fm, label string, pt []byte, recips []age.Recipient, base *encRun, hdr16 int,
	replay func(string, []int) map[string]any) (compared, identical int) {
	r := m.r
	differs := func(mode, detail string, out []byte, rp map[string]any) {
		compared++
		if bytes.Equal(out, base.out) {
			identical++
			return
		}
		r.Violate(fmt.Sprintf("enc-differs:%s/via=%s/%s", fm, mode, lenClass(c.length)),
			fmt.Sprintf("%s: handing the plaintext over by %s gives a different ciphertext under the same tape: %d bytes vs %d with a single Write, first difference at byte %d",
				c.name(), detail, len(out), len(base.out), firstDiff(out, base.out)), rp)
	}

	// (a) the shared helper's modes
	for _, via := range ax.Vias {
		rp := replay("via="+via, nil)
		rp["hand_over"] = "ax.EncryptVia(plaintext, armored, " + fmt.Sprintf("%q", via) + ", recipients...)"
		t := mon.InstallTap(mon.NewDetStream(label))
		out, err := ax.EncryptVia(pt, c.armored, via, recips...)
		t.Uninstall()
		r.Eval(1)
		r.Distinct("enc/" + c.name() + "/via=" + via)
		r.Tab("hand_over", via)
		if err != nil {
			m.encFailure(c, fm, "via="+via, &encRun{fail: err.Error()}, rp)
			continue
		}
		differs(via, "ax.EncryptVia mode "+via, out, rp)
	}

	// (b) io.Copy / ReadFrom / io.CopyBuffer from sources with every delivery
	// schedule (end of input in a separate call, together with the last
	// bytes, one byte at a time, through a bufio.Reader ...)
	for _, sc := range mon.Schedules() {
		// quick tier: sources that trickle (one Read per 1..7 bytes) go with
		// every chunk-multiple length and with lengths up to 70 000 only
		if !r.Thorough() && c.length > 70000 && c.length%chunk != 0 {
			switch sc.Name {
			case "1byte", "1byte+eof", "7", "bufio16over1byte":
				continue
			}
		}
		hows := []string{howCopy}
		switch sc.Name {
		case "whole", "whole+eof", "1byte+eof", "random":
			hows = []string{howCopy, howReadFrom, howCopyBuf}
		}
		for _, how := range hows {
			rng := mon.NewRNG(r.Seed, fmt.Sprintf("c12-hand-%s-%s-%s", c.name(), sc.Name, how))
			er, skipped := encryptFrom(label, pt, c.armored, recips, sc, how, rng)
			if skipped {
				r.Count("readfrom_runs_skipped_writer_has_no_ReadFrom", 1)
				continue
			}
			mode := how + "/" + eofClass(sc.Name)
			r.Eval(1)
			r.Distinct("enc/" + c.name() + "/" + how + "/" + sc.Name)
			r.Tab("hand_over", mode)
			r.Tab("hand_over_source_schedule", sc.Name)
			rp := replay("via="+how, nil)
			rp["hand_over"], rp["source_schedule"] = how, "mon.Schedules()["+sc.Name+"] wrapped so that it has no WriteTo (bufio ones unwrapped)"
			if er.fail != "" {
				m.encFailure(c, fm, "via="+mode, er, rp)
				continue
			}
			r.Count("hand_over_observations_checked", int64(len(er.snaps)))
			m.checkSnaps(c, fm, "via="+mode, er, hdr16, rp)
			differs(mode, how+" from a source with schedule "+sc.Name, er.out, rp)
		}
	}
	return
}
