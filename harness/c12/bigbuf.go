package main

import (
	"bufio"
	"bytes"
	"fmt"
	"io"

	"filippo.io/age"
	"filippo.io/age/armor"
	"filippo.io/age/zverif/keys"
	"filippo.io/age/zverif/mon"
	"filippo.io/age/zverif/refage"
)

// Caller buffers LARGER than a chunk. The streaming clause — a chunk is
// released without consuming more than about one further chunk — must hold
// whatever len(p): when a Read of the plaintext reader returns, the source
// may have been asked for at most what the bytes released BEFORE that call
// needed, plus two chunks and 8 KiB (for the first Read: header + nonce + 2
// chunks + 8 KiB). Decided on bytes consumed from a counting source at the
// moment each Read returns, never on time. The consumers are Read loops with
// buffers of 65537 .. 4 MiB bytes, io.ReadAll, bytes.Buffer.ReadFrom and a
// 1 MiB bufio.Reader around the returned reader; a spy between the consumer
// and the reader sees every underlying Read.

type spyReader struct {
	rd       io.Reader
	cr       *mon.CountingReader
	released int
	bound    func(prevReleased int) int
	calls    int
	maxBuf   int
	broken   *ahead
	maxOver  int
}

func (s *spyReader) Read(p []byte) (int, error) {
	prev := s.released
	n, err := s.rd.Read(p)
	s.calls++
	if len(p) > s.maxBuf {
		s.maxBuf = len(p)
	}
	if n > 0 {
		s.released += n
	}
	b := s.bound(prev)
	if over := s.cr.N - (b - slack); over > s.maxOver {
		s.maxOver = over
	}
	if s.cr.N > b && s.broken == nil {
		s.broken = &ahead{when: fmt.Sprintf("when Read #%d (buffer of %d bytes) returned %d bytes", s.calls, len(p), n), consumed: s.cr.N, bound: b, released: prev}
	}
	return n, err
}

type bigConsumer struct {
	name string
	run  func(rd io.Reader, o *outcome)
}

func bigConsumers() []bigConsumer {
	var cs []bigConsumer
	for _, n := range []int{65537, 131072, 262144, 1 << 20, 4 << 20} {
		n := n
		cs = append(cs, bigConsumer{fmt.Sprintf("Read(%d)", n), func(rd io.Reader, o *outcome) { readAll(rd, n, o, "Read", nil) }})
	}
	cs = append(cs,
		bigConsumer{"io.ReadAll", func(rd io.Reader, o *outcome) {
			b, err := io.ReadAll(rd)
			o.out, o.err, o.phase = b, errString(err), "io.ReadAll"
		}},
		bigConsumer{"bytes.Buffer.ReadFrom", func(rd io.Reader, o *outcome) {
			var buf bytes.Buffer
			_, err := buf.ReadFrom(rd)
			o.out, o.err, o.phase = buf.Bytes(), errString(err), "ReadFrom"
		}},
		bigConsumer{"bufio(1MiB)+Read(4096)", func(rd io.Reader, o *outcome) {
			readAll(bufio.NewReaderSize(rd, 1<<20), 4096, o, "bufio Read", nil)
		}},
	)
	return cs
}

func (m *monitor) bigBufferSweep(ss []sched) {
	r := m.r
	x1 := keys.P("X1")
	find := func(name string) sched {
		for _, s := range ss {
			if s.name == name {
				return s
			}
		}
		panic("c12: schedule " + name + " missing")
	}
	srcs := []sched{find("4096"), find("whole"), find("random")}
	cons := bigConsumers()
	type job struct {
		name    string
		chunks  int
		armored bool
		data    []byte
		pt      []byte
		hdr16   int
		s       sched
		c       bigConsumer
	}
	var jobs []job
	for _, k := range []int{3, 9, 20} {
		n := k*chunk - 100
		pt := mon.DetBytes(fmt.Sprintf("c12-big-pt-%d", k), n)
		fk := mon.DetBytes(fmt.Sprintf("c12-big-fk-%d", k), 16)
		st, _ := refage.X25519Wrap(fk, keys.NewX("X1").Public, mon.DetBytes(fmt.Sprintf("c12-big-eph-%d", k), 32))
		bin := refage.BuildFile(fk, []refage.Stanza{st}, mon.DetBytes(fmt.Sprintf("c12-big-nonce-%d", k), 16), pt)
		hdr16 := refage.HeaderEnd(bin) + 16
		for _, armored := range []bool{false, true} {
			data := bin
			if armored {
				data = refage.Armor(bin, "\n")
			}
			for si, s := range srcs {
				for ci, c := range cons {
					// quick: every consumer with the incremental source; the
					// other two sources with a rotating third of the consumers
					if !r.Thorough() && si > 0 && (ci+k+si)%3 != 0 {
						continue
					}
					jobs = append(jobs, job{fmt.Sprintf("%d-chunks/%s", k, map[bool]string{false: "binary", true: "armored"}[armored]), k, armored, data, pt, hdr16, s, c})
				}
			}
		}
	}
	r.Set("big_buffer_cases", len(jobs))
	mon.Par(len(jobs), func(i int) {
		j := jobs[i]
		name := fmt.Sprintf("bigbuf %s source=%s consumer=%s", j.name, j.s.name, j.c.name)
		r.Guard(name, func() {
			src, cr := j.s.mk(j.data, mon.NewRNG(r.Seed, "c12-"+name))
			if cr == nil {
				return
			}
			var in io.Reader = src
			if j.armored {
				in = armor.NewReader(src)
			}
			rd, err := age.Decrypt(in, x1.Identity)
			r.Eval(1)
			r.Distinct(name)
			fm := map[bool]string{false: "binary", true: "armored"}[j.armored]
			if err != nil || rd == nil {
				r.Violate("valid-file-refused:big-buffer/"+fm, fmt.Sprintf("%s: Decrypt of a valid file failed: %v", name, err), map[string]any{"case": name})
				return
			}
			spy := &spyReader{rd: rd, cr: cr}
			spy.bound = func(prev int) int {
				b := j.hdr16 + encChunk*((prev+chunk-1)/chunk+2) + slack
				if j.armored {
					return textBound(b, 0)
				}
				return b
			}
			o := &outcome{}
			j.c.run(spy, o)
			r.Count("big_buffer_reads_checked", int64(spy.calls))
			r.Tab("big_buffer_consumer", j.c.name)
			if spy.maxBuf > chunk {
				r.Count("big_buffer_runs_with_read_buffer_over_one_chunk", 1)
			}
			if len(j.data) > spy.bound(0) {
				r.Count("big_buffer_runs_binding", 1)
			}
			rp := map[string]any{"file": fmt.Sprintf("refage.BuildFile(mon.DetBytes(%q, %d)) to X1, %s", fmt.Sprintf("c12-big-pt-%d", j.chunks), len(j.pt), fm),
				"source_schedule": j.s.name, "consumer": j.c.name}
			if o.err != "EOF" || !bytes.Equal(o.out, j.pt) {
				r.Violate(fmt.Sprintf("differs:age.Decrypt/%s/big-buffer/consumer=%s", fm, j.c.name),
					fmt.Sprintf("%s: got %s, want the %d plaintext bytes and EOF", name, o, len(j.pt)), rp)
			}
			if a := spy.broken; a != nil {
				r.Violate(fmt.Sprintf("readahead:age.Decrypt/%s/large-caller-buffer/consumer=%s", fm, j.c.name),
					fmt.Sprintf("%s: %s, with %d plaintext bytes released before that call, %d bytes had been consumed from the source (allowance %d = what was released before + 2 chunks + 8 KiB; source holds %d)",
						name, a.when, a.released, a.consumed, a.bound, len(j.data)), rp)
			}
		})
	})
	if r.Counter("big_buffer_runs_with_read_buffer_over_one_chunk") == 0 || r.Counter("big_buffer_runs_binding") == 0 {
		r.Inconclusive("the large-caller-buffer sweep saw no Read with a buffer over one chunk on a file longer than the allowance")
	}
}
