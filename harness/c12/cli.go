package main

import (
	"bytes"
	"fmt"
	"os"
	"path/filepath"
	"time"

	"filippo.io/age/zverif/cli"
	"filippo.io/age/zverif/keys"
	"filippo.io/age/zverif/mon"
	"filippo.io/age/zverif/refage"
)

// cliStage: the tool's result must not depend on how its standard input
// delivers the bytes either. `age -d` sniffs the start of its input (armor or
// binary, mangled intros) before handing it to the library; a producer that
// trickles the file — a first write of N bytes, a pause, then the rest — must
// give the same exit status and the same plaintext as one that delivers it in
// one piece.
func cliStage(r *mon.Run) {
	age := os.Getenv("AGE_BIN")
	if age == "" {
		r.Count("cli_stage_skipped_no_binary", 1)
		return
	}
	work, err := os.MkdirTemp(os.Getenv("VERIF_SCRATCH"), "c12cli.")
	if err != nil {
		return
	}
	defer os.RemoveAll(work)
	x1 := keys.NewX("X1")
	os.WriteFile(filepath.Join(work, "x1.key"), []byte(x1.SecretStr+"\n"), 0o600)
	type file struct {
		name string
		data []byte
		pt   []byte
		ok   bool // decrypts
		free bool // no expectation about the baseline itself (only delivery-independence is judged)
	}
	var files []file
	for _, n := range []int{0, 100, 70000} {
		pt := mon.DetBytes(fmt.Sprintf("c12cli-%d", n), n)
		fk := mon.DetBytes(fmt.Sprintf("c12cli-fk-%d", n), 16)
		s, _ := refage.X25519Wrap(fk, x1.Public, mon.DetBytes(fmt.Sprintf("c12cli-eph-%d", n), 32))
		bin := refage.BuildFile(fk, []refage.Stanza{s}, mon.DetBytes(fmt.Sprintf("c12cli-nonce-%d", n), 16), pt)
		files = append(files,
			file{name: fmt.Sprintf("binary-%d", n), data: bin, pt: pt, ok: true},
			file{name: fmt.Sprintf("armored-%d", n), data: refage.Armor(bin, "\n"), pt: pt, ok: true},
			file{name: fmt.Sprintf("armored-crlf-%d", n), data: refage.Armor(bin, "\r\n"), pt: pt, ok: true},
			file{name: fmt.Sprintf("armored-leading-blank-lines-%d", n), data: append([]byte("\n  \n"), refage.Armor(bin, "\n")...), pt: pt, free: true})
		if n == 100 {
			bad := append([]byte(nil), bin...)
			bad[len(bad)-1] ^= 1
			files = append(files, file{name: "binary-tampered", data: bad}, file{name: "armored-tampered", data: refage.Armor(bad, "\n")})
		}
	}
	firsts := []int{1, 5, 10, 21, 22, 23, 25, 33, 34, 35, 36, 60, 200}
	if !r.Thorough() {
		firsts = []int{1, 10, 22, 25, 33, 34, 35, 200}
	}
	type job struct {
		f     file
		first int // 0 = one piece
		twice bool
	}
	var jobs []job
	for _, f := range files {
		jobs = append(jobs, job{f: f})
		for _, n := range firsts {
			if n < len(f.data) {
				jobs = append(jobs, job{f: f, first: n})
			}
		}
		if len(f.data) > 40 {
			jobs = append(jobs, job{f: f, first: 10, twice: true})
		}
	}
	run := func(j job) *cli.Result {
		c := &cli.Cmd{Argv: []string{age, "-d", "-i", filepath.Join(work, "x1.key")}, Dir: work}
		switch {
		case j.first == 0:
			c.Stdin = j.f.data
		case j.twice:
			c.StdinPieces = [][]byte{j.f.data[:10], j.f.data[10:25], j.f.data[25:]}
			c.StdinPause = 250 * time.Millisecond
		default:
			c.StdinPieces = [][]byte{j.f.data[:j.first], j.f.data[j.first:]}
			c.StdinPause = 250 * time.Millisecond
		}
		return cli.Run(c)
	}
	base := map[string]*cli.Result{}
	for _, f := range files {
		res := run(job{f: f})
		base[f.name] = res
		if res.Err != nil || (!f.free && ((f.ok && (res.Exit != 0 || !bytes.Equal(res.Stdout, f.pt))) || (!f.ok && res.Exit == 0))) {
			r.Inconclusive("C12 CLI baseline %s: %v %s", f.name, res.Err, res)
		}
	}
	mon.ParN(12, len(jobs), func(i int) {
		j := jobs[i]
		if j.first == 0 {
			return
		}
		res := run(j)
		b := base[j.f.name]
		name := fmt.Sprintf("cli stdin %s first-write=%d three-pieces=%v", j.f.name, j.first, j.twice)
		r.Eval(1)
		r.Distinct(name)
		r.Count("cli_stage_runs", 1)
		if res.Err != nil || b == nil || b.Err != nil {
			r.Inconclusive("%s: driver error %v", name, res.Err)
			return
		}
		if res.Exit != b.Exit || !bytes.Equal(res.Stdout, b.Stdout) {
			kind := "binary"
			if len(j.f.name) > 7 && j.f.name[:7] == "armored" {
				kind = "armored"
			}
			r.Violate(fmt.Sprintf("cli-differs:%s/trickled-stdin", kind),
				fmt.Sprintf("%s: exit %d and %d output bytes, but exit %d and %d bytes when the same file arrives in one piece (stderr %q)", name, res.Exit, len(res.Stdout), b.Exit, len(b.Stdout), mon.Trunc(res.Stderr, 160)),
				map[string]any{"file": j.f.name, "first_write": j.first})
		}
	})
}
