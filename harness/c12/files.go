package main

import (
	"bytes"
	"crypto/sha256"
	"fmt"
	"strings"
	"sync/atomic"

	"filippo.io/age"
	"filippo.io/age/zverif/ax"
	"filippo.io/age/zverif/keys"
	"filippo.io/age/zverif/mon"
	"filippo.io/age/zverif/refage"
)

// dfile is one input of the decrypting side: a valid file or one
// representative of a damage class, binary or armored.
type dfile struct {
	base    string // "len=65537" / "len=70000+bighdr" ...
	length  int
	armored bool
	class   string
	how     string // how the bytes were derived (for replays)
	data    []byte

	id        age.Identity
	hdrOnly   bool   // header-size sweep file (built and dropped inside its task)
	ifaceOnly bool   // quick tier: only the optional-interface kinds run on this file
	kclass    string // class used in violation keys (class when empty)
	ws        bool   // valid armor with added leading/trailing white space (treated like marmor for read sizes)
	leadLines int    // white-space-only lines before BEGIN
	marmor    bool   // malformed armor text: own read sizes, no read-ahead bound (it assumes canonical line density)
	dearmor   bool   // armored files whose armor text is of interest on its own
	hdr16     int    // header + nonce length of the undamaged binary file
	lead      int    // extra armor text that is not payload (leading white space, CRs)
	pt        []byte // plaintext (class "valid" only)

	streamKey []byte // binary files: key and payload for the direct stream layer
	parseToo  bool   // binary files whose class is interesting for format.Parse

	runs, mismatches atomic.Int64 // compared runs over this file / runs that differed

	// baselines
	bDecrypt, bDearmor, bParse, bStream *outcome
}

func (f *dfile) fmtName() string {
	if f.armored {
		return "armored"
	}
	return "binary"
}

func (f *dfile) name() string { return f.base + "/" + f.fmtName() + "/" + f.class }

func (f *dfile) replay() map[string]any {
	h := sha256.Sum256(f.data)
	rp := map[string]any{"file": f.name(), "derivation": f.how, "bytes": len(f.data), "sha256": fmt.Sprintf("%x", h)}
	if len(f.data) <= 2048 {
		rp["hex"] = fmt.Sprintf("%x", f.data)
	}
	return rp
}

func flip(b []byte, off int, bit uint) []byte {
	c := append([]byte(nil), b...)
	c[off] ^= 1 << bit
	return c
}

type damage struct {
	class string
	how   string
	data  []byte
}

// payloadDamages returns one representative per tamper class of a valid
// binary file whose header+nonce is hdr16 bytes long.
func payloadDamages(file []byte, hdr16 int) []damage {
	var out []damage
	add := func(class, how string, d []byte) { out = append(out, damage{class, how, d}) }
	payload := len(file) - hdr16
	nch := (payload + encChunk - 1) / encChunk
	start := func(k int) int { return hdr16 + k*encChunk }
	lastLen := len(file) - start(nch-1)

	add("flip-chunk0", fmt.Sprintf("bit 0 of byte %d (chunk 0, byte 5) flipped", hdr16+5), flip(file, hdr16+5, 0))
	if nch >= 3 {
		k := nch / 2
		off := start(k) + encChunk/3
		add("flip-middle", fmt.Sprintf("bit 3 of byte %d (chunk %d of %d) flipped", off, k, nch), flip(file, off, 3))
	}
	add("flip-last", fmt.Sprintf("bit 7 of the last byte (%d) flipped", len(file)-1), flip(file, len(file)-1, 7))
	if nch >= 2 {
		add("flip-last-first-byte", fmt.Sprintf("bit 1 of byte %d (first byte of the last chunk) flipped", start(nch-1)), flip(file, start(nch-1), 1))
		cut := start(0) + encChunk/2
		add("trunc-mid-chunk0", fmt.Sprintf("truncated to %d bytes (middle of chunk 0)", cut), file[:cut])
		add("trunc-boundary", fmt.Sprintf("truncated to %d bytes (start of the last chunk)", start(nch-1)), file[:start(nch-1)])
	}
	if nch >= 3 {
		add("trunc-boundary-1", fmt.Sprintf("truncated to %d bytes (end of chunk 0)", start(1)), file[:start(1)])
	}
	cut := start(nch-1) + lastLen/2
	add("trunc-mid-last", fmt.Sprintf("truncated to %d bytes (middle of the last chunk)", cut), file[:cut])
	add("trunc-1", "last byte removed", file[:len(file)-1])
	add("trunc-after-nonce", fmt.Sprintf("truncated to %d bytes (header and nonce only)", hdr16), file[:hdr16])
	add("trailing-1", "one byte 0x00 appended", append(append([]byte(nil), file...), 0))
	add("trailing-100", "100 bytes appended", append(append([]byte(nil), file...), mon.DetBytes("c12-garbage", 100)...))
	add("trailing-70000", "70000 bytes appended", append(append([]byte(nil), file...), mon.DetBytes("c12-garbage", 70000)...))
	return out
}

func headerDamages(file []byte, hdr16 int) []damage {
	hdr := hdr16 - 16
	return []damage{
		{"hdr-trunc", fmt.Sprintf("truncated to %d bytes (inside the header)", hdr/2), file[:hdr/2]},
		{"hdr-trunc-before-mac-eol", fmt.Sprintf("truncated to %d bytes (MAC line without its newline)", hdr-1), file[:hdr-1]},
		{"nonce-trunc", fmt.Sprintf("truncated to %d bytes (inside the nonce)", hdr+8), file[:hdr+8]},
		{"hdr-only", fmt.Sprintf("truncated to %d bytes (header, no nonce)", hdr), file[:hdr]},
		{"mac-flip", fmt.Sprintf("byte %d (inside the MAC) replaced", hdr-10), func() []byte {
			c := append([]byte(nil), file...)
			if c[hdr-10] == 'A' {
				c[hdr-10] = 'B'
			} else {
				c[hdr-10] = 'A'
			}
			return c
		}()},
	}
}

// armorDamages edits a valid LF armor text (at least 3 lines of body for the
// mid-file classes).
func armorDamages(text []byte) []damage {
	var out []damage
	add := func(class, how string, d []byte) { out = append(out, damage{class, how, d}) }
	lines := bytes.SplitAfter(text, []byte("\n")) // last element is empty
	if len(lines) > 0 && len(lines[len(lines)-1]) == 0 {
		lines = lines[:len(lines)-1]
	}
	join := func(ls [][]byte) []byte { return bytes.Join(ls, nil) }
	nb := len(lines) - 2 // body lines
	mid := 1 + nb/2
	off := 0
	for _, l := range lines[:mid] {
		off += len(l)
	}
	if nb >= 1 {
		c := append([]byte(nil), text...)
		c[off+len(lines[mid])/2] = '!'
		add("armor-badchar", fmt.Sprintf("text byte %d (line %d) replaced by '!'", off+len(lines[mid])/2, mid), c)
		add("armor-trunc-midline", fmt.Sprintf("text truncated to %d bytes (inside line %d)", off+len(lines[mid])/2, mid), text[:off+len(lines[mid])/2])
		add("armor-trunc-line-end", fmt.Sprintf("text truncated to %d bytes (end of line %d)", off+len(lines[mid]), mid), text[:off+len(lines[mid])])
	}
	if nb >= 3 {
		// remove the newline between two full lines: 128 columns
		c := append([]byte(nil), text[:off+len(lines[mid])-1]...)
		c = append(c, text[off+len(lines[mid]):]...)
		add("armor-longline", fmt.Sprintf("newline at text byte %d removed", off+len(lines[mid])-1), c)
		// drop one body line
		add("armor-line-dropped", fmt.Sprintf("line %d removed", mid), join(append(append([][]byte(nil), lines[:mid]...), lines[mid+1:]...)))
	}
	add("armor-no-footer", "END line removed", join(lines[:len(lines)-1]))
	add("armor-no-final-newline", "final newline removed", text[:len(text)-1])
	add("armor-trailing-garbage", "\"garbage\\n\" appended after the END line", append(append([]byte(nil), text...), "garbage\n"...))
	add("armor-bad-header", "first byte replaced by '+'", append([]byte("+"), text[1:]...))
	return out
}

func (m *monitor) decLengths() []int {
	r := m.r
	rng := r.RNG("dec-lengths")
	ls := []int{0, 1, 65536, 65537, 131072, 196609, 3 + rng.Intn(300), 200000 + rng.Intn(60000)}
	if r.Thorough() {
		ls = append(ls, 2, 65535, 131071, 131073, 196608, 3+rng.Intn(60000), 65538+rng.Intn(65000), 327680, 400000,
			48*(1+rng.Intn(1000)), 131074+rng.Intn(65000), 262144+rng.Intn(65000))
	}
	return ls
}

// buildFiles produces every input of the decrypting side (serially, under a
// deterministic tape so that file bytes are reproducible from the seed).
func (m *monitor) buildFiles() []*dfile {
	r := m.r
	t := mon.InstallTap(mon.NewDetStream(fmt.Sprintf("c12-files-%d", r.Seed)))
	defer t.Uninstall()

	type baseSpec struct {
		name      string
		length    int
		party     string
		extra     age.Recipient
		full      bool // every damage class (otherwise the reduced set below)
		ifaceOnly bool
	}
	reduced := map[string]bool{"flip-last": true, "trunc-boundary": true, "trunc-mid-last": true, "trailing-1": true,
		"hdr-trunc": true, "nonce-trunc": true, "mac-flip": true, "armor-badchar": true, "armor-trailing-garbage": true, "armor-no-final-newline": true}
	var specs []baseSpec
	for i, n := range m.decLengths() {
		// quick tier: every class on 0, 1, 65536, 131072 and 196609 bytes (the
		// first, third, fifth and sixth lengths), the reduced set elsewhere
		full := r.Thorough() || i <= 1 || i == 2 || i == 4 || i == 5
		specs = append(specs, baseSpec{fmt.Sprintf("len=%d", n), n, "X1", nil, full, false})
	}
	if !r.Thorough() {
		// 65535 bytes: in the quick tier only for the optional-interface kinds
		specs = append(specs, baseSpec{"len=65535", 65535, "X1", nil, false, true})
	}
	specs = append(specs, baseSpec{fmt.Sprintf("len=%d+armor-aligned", m.alignedLength()), m.alignedLength(), "X1", nil, r.Thorough(), false})
	specs = append(specs, baseSpec{"len=70000+bighdr", 70000, "X1", bigHeader(), r.Thorough(), false},
		baseSpec{"len=66000+scrypt", 66000, "S1", nil, r.Thorough(), false})

	var files []*dfile
	seen := map[[32]byte]bool{}
	for _, sp := range specs {
		p := keys.P(sp.party)
		recips := []age.Recipient{p.Recipient}
		if sp.extra != nil {
			recips = []age.Recipient{sp.extra, p.Recipient}
		}
		ptLabel := fmt.Sprintf("c12-dpt-%d-%d", r.Seed, sp.length)
		pt := mon.DetBytes(ptLabel, sp.length)
		bin, err := ax.Encrypt(pt, false, recips...)
		if err != nil {
			r.Violate("encrypt-refused:"+sp.name, sp.name+": "+err.Error(), nil)
			continue
		}
		arm, err := ax.Encrypt(pt, true, recips...)
		if err != nil {
			r.Violate("encrypt-refused:"+sp.name+"/armored", sp.name+": "+err.Error(), nil)
			continue
		}
		o, err := refage.Decrypt(bin, p.Ref)
		if err != nil || !bytes.Equal(o.Plaintext, pt) {
			r.Violate("dec-base-not-plaintext:"+sp.name, fmt.Sprintf("%s: the reference implementation does not open the file written by the tree: %v", sp.name, err), nil)
			continue
		}
		hdr16 := o.HeaderLen + 16
		origin := fmt.Sprintf("ax.Encrypt(mon.DetBytes(%q, %d)) to %s under tape c12-files-%d", ptLabel, sp.length, sp.party, r.Seed)
		mk := func(armored bool, class, how string, data []byte) *dfile {
			if !sp.full && !reduced[class] && !strings.HasPrefix(class, "valid") {
				return nil
			}
			h := sha256.Sum256(append([]byte{map[bool]byte{false: 0, true: 1}[armored]}, data...))
			if seen[h] {
				return nil
			}
			seen[h] = true
			f := &dfile{base: sp.name, length: sp.length, armored: armored, class: class, how: origin + "; " + how,
				data: data, id: p.Identity, hdr16: hdr16, ifaceOnly: sp.ifaceOnly}
			// armor of a damaged payload is ordinary valid armor: de-armoring it
			// alone repeats the "valid" case, so only the thorough tier does it
			f.dearmor = armored && (r.Thorough() || strings.HasPrefix(class, "valid") || strings.HasPrefix(class, "armor-") || class == "hdr-trunc")
			files = append(files, f)
			return f
		}
		// binary
		if f := mk(false, "valid", "unmodified", bin); f != nil {
			f.pt, f.streamKey, f.parseToo = pt, o.StreamKey, true
		}
		for _, d := range payloadDamages(bin, hdr16) {
			if f := mk(false, d.class, d.how, d.data); f != nil {
				f.streamKey = o.StreamKey
			}
			// the same damaged payload, armored canonically
			mk(true, d.class, d.how+"; then refage.Armor(LF)", refage.Armor(d.data, "\n"))
		}
		for _, d := range headerDamages(bin, hdr16) {
			if f := mk(false, d.class, d.how, d.data); f != nil {
				f.parseToo = true
			}
			if d.class == "hdr-trunc" || d.class == "nonce-trunc" {
				mk(true, d.class, d.how+"; then refage.Armor(LF)", refage.Armor(d.data, "\n"))
			}
		}
		// armored
		if f := mk(true, "valid", "unmodified (armor.NewWriter)", arm); f != nil {
			f.pt = pt
		}
		if f := mk(true, "valid-crlf", "refage.Armor(binary file, CRLF)", refage.Armor(bin, "\r\n")); f != nil {
			f.pt = pt
			f.lead = len(f.data) - len(arm)
		}
		ws := append([]byte(" \n\t\r\n\n"), arm...)
		ws = append(ws, "\n \r\n\t\n"...)
		if f := mk(true, "valid-whitespace", "white-space lines before BEGIN and after END", ws); f != nil {
			f.pt = pt
			f.lead = len(ws) - len(arm)
		}
		for _, d := range armorDamages(arm) {
			mk(true, d.class, d.how, d.data)
		}
	}
	// malformed armor over two small files (one shorter, one longer than the
	// armor reader's 4096-byte bufio)
	nm := 0
	for i, n := range []int{1080, 5000} {
		p := keys.P("X1")
		ptLabel := fmt.Sprintf("c12-mpt-%d-%d", r.Seed, n)
		bin, err := ax.Encrypt(mon.DetBytes(ptLabel, n), false, p.Recipient)
		if err != nil {
			r.Violate(fmt.Sprintf("encrypt-refused:len=%d", n), err.Error(), nil)
			continue
		}
		hdr := refage.HeaderEnd(bin)
		rng := r.RNG(fmt.Sprintf("c12-marmor-%d", n))
		for _, ma := range malformedArmor(bin, rng, r.Thorough() || i == 0) {
			h := sha256.Sum256(append([]byte{1}, ma.text...))
			if seen[h] {
				continue
			}
			seen[h] = true
			files = append(files, &dfile{base: fmt.Sprintf("len=%d", n), length: n, armored: true, marmor: true, dearmor: true,
				class: "marmor-" + ma.kind + "-" + ma.shape, kclass: "malformed-armor/" + ma.kind,
				how:  fmt.Sprintf("ax.Encrypt(mon.DetBytes(%q, %d)) to X1 under tape c12-files-%d; base64 body re-laid-out: %s (%s)", ptLabel, n, r.Seed, ma.shape, ma.kind),
				data: ma.text, id: p.Identity, hdr16: hdr + 16})
			nm++
		}
	}
	r.Set("malformed_armor_texts", nm)
	files = append(files, m.wsFiles(seen)...)
	r.Set("decrypt_side_files", len(files))
	return files
}

// alignedLength returns a plaintext length (about 1000) whose file for the
// single recipient X1 is a multiple of 48 bytes long, so that its armor ends
// with a full 64-column line. Must be called while a tap is installed or not
// at all concurrently with tape-driven encryption (it encrypts once).
func (m *monitor) alignedLength() int {
	if m.aligned > 0 {
		return m.aligned
	}
	file, err := ax.Encrypt(make([]byte, 1000), false, keys.P("X1").Recipient)
	if err != nil {
		m.aligned = 1000
		return m.aligned
	}
	m.aligned = 1000 + (48-len(file)%48)%48
	return m.aligned
}
