package main

import (
	"bytes"
	"encoding/binary"
	"fmt"
	"io"
	"math/rand"
	"sort"
	"sync"
	"unicode/utf8"

	"filippo.io/age"
	"filippo.io/age/armor"
	"filippo.io/age/internal/stream"
	"filippo.io/age/zverif/mon"
)

// Optional interfaces of the values the library returns. Consumers such as
// compress/flate, encoding/gob, image decoders, binary.ReadUvarint, io.Copy
// and fmt type-assert them and use them when present, so each one that IS
// implemented by the tree under test is a further way of consuming the same
// stream: released bytes and error must equal the plain Read-loop baseline.
// Discovery is a run-time type assertion on every value, so methods a future
// tree adds are picked up without touching the monitor.

var ifaceNames = []string{"io.ByteReader", "io.RuneReader", "io.ByteScanner", "io.RuneScanner", "io.WriterTo", "io.ReaderAt", "io.Seeker",
	"io.StringWriter", "io.ByteWriter", "io.ReaderFrom", "io.Closer"}

func implemented(v any) map[string]bool {
	out := map[string]bool{}
	if _, ok := v.(io.ByteReader); ok {
		out["io.ByteReader"] = true
	}
	if _, ok := v.(io.RuneReader); ok {
		out["io.RuneReader"] = true
	}
	if _, ok := v.(io.ByteScanner); ok {
		out["io.ByteScanner"] = true
	}
	if _, ok := v.(io.RuneScanner); ok {
		out["io.RuneScanner"] = true
	}
	if _, ok := v.(io.WriterTo); ok {
		out["io.WriterTo"] = true
	}
	if _, ok := v.(io.ReaderAt); ok {
		out["io.ReaderAt"] = true
	}
	if _, ok := v.(io.Seeker); ok {
		out["io.Seeker"] = true
	}
	if _, ok := v.(io.StringWriter); ok {
		out["io.StringWriter"] = true
	}
	if _, ok := v.(io.ByteWriter); ok {
		out["io.ByteWriter"] = true
	}
	if _, ok := v.(io.ReaderFrom); ok {
		out["io.ReaderFrom"] = true
	}
	if _, ok := v.(io.Closer); ok {
		out["io.Closer"] = true
	}
	return out
}

// ifaceLog records, per returned value, how often it was inspected and which
// optional interfaces it implemented.
type ifaceLog struct {
	mu        sync.Mutex
	inspected map[string]int
	seen      map[string]map[string]int
}

func (l *ifaceLog) note(value string, v any) map[string]bool {
	im := implemented(v)
	l.mu.Lock()
	if l.inspected == nil {
		l.inspected, l.seen = map[string]int{}, map[string]map[string]int{}
	}
	l.inspected[value]++
	if l.seen[value] == nil {
		l.seen[value] = map[string]int{}
	}
	l.seen[value][fmt.Sprintf("concrete type %T", v)]++
	for k := range im {
		l.seen[value][k]++
	}
	l.mu.Unlock()
	return im
}

var ifaceValues = []string{"age.Decrypt reader", "armor.NewReader reader", "stream.NewReader reader", "age.Encrypt writer", "armor.NewWriter writer"}

func (l *ifaceLog) report(r *mon.Run) {
	l.mu.Lock()
	defer l.mu.Unlock()
	rep := map[string]any{}
	for _, v := range ifaceValues {
		impl, absent, types := []string{}, []string{}, []string{}
		for _, n := range ifaceNames {
			if l.seen[v][n] > 0 {
				impl = append(impl, n)
			} else {
				absent = append(absent, n)
			}
		}
		for k := range l.seen[v] {
			if len(k) > 9 && k[:9] == "concrete " {
				types = append(types, k[14:])
			}
		}
		sort.Strings(types)
		rep[v] = map[string]any{"values_inspected": l.inspected[v], "concrete_types": types, "implemented": impl, "absent": absent}
		if l.inspected[v] == 0 {
			r.Inconclusive("optional-interface discovery never ran on the %s", v)
		}
	}
	r.Set("optional_interfaces", rep)
}

// schedules under which the interface kinds run
var ifaceSchedules = map[string]bool{"whole": true, "1byte+eof": true}

// runeTrace is the (rune, size) sequence utf8 decoding gives for b, which is
// what ReadRune must deliver (the original of an invalid byte is not
// recoverable from a RuneReader, so traces are compared instead of bytes).
func runeTrace(b []byte) []byte {
	var out []byte
	for len(b) > 0 {
		r, size := utf8.DecodeRune(b)
		out = binary.BigEndian.AppendUint32(out, uint32(r))
		out = append(out, byte(size))
		b = b[size:]
	}
	return out
}

type readerKind struct {
	iface string
	name  string
	trace bool // outcome is a rune trace
	run   func(rd io.Reader, o *outcome)
}

func readerKinds() []readerKind {
	fail := func(o *outcome, phase string, err error) { o.err, o.phase = errString(err), phase }
	return []readerKind{
		{"io.ByteReader", "ReadByte-only", false, func(rd io.Reader, o *outcome) {
			br := rd.(io.ByteReader)
			for {
				c, err := br.ReadByte()
				if err != nil {
					fail(o, "ReadByte", err)
					return
				}
				o.out = append(o.out, c)
			}
		}},
		{"io.ByteReader", "ReadByte+Read7-alternating", false, func(rd io.Reader, o *outcome) {
			br := rd.(io.ByteReader)
			buf := make([]byte, 7)
			for i := 0; i < 1<<24; i++ {
				c, err := br.ReadByte()
				if err != nil {
					fail(o, "ReadByte", err)
					return
				}
				o.out = append(o.out, c)
				n, err := rd.Read(buf)
				o.out = append(o.out, buf[:n]...)
				if err != nil {
					fail(o, "Read", err)
					return
				}
			}
			o.err = "verif: no end"
		}},
		{"io.ByteReader", "Read7-first-then-ReadByte", false, func(rd io.Reader, o *outcome) {
			buf := make([]byte, 7)
			n, err := rd.Read(buf)
			o.out = append(o.out, buf[:n]...)
			if err != nil {
				fail(o, "Read", err)
				return
			}
			br := rd.(io.ByteReader)
			for {
				c, err := br.ReadByte()
				if err != nil {
					fail(o, "ReadByte", err)
					return
				}
				o.out = append(o.out, c)
			}
		}},
		{"io.ByteScanner", "ReadByte-UnreadByte-ReadByte", false, func(rd io.Reader, o *outcome) {
			bs := rd.(io.ByteScanner)
			for i := 0; ; i++ {
				c, err := bs.ReadByte()
				if err != nil {
					fail(o, "ReadByte", err)
					return
				}
				if i%3 == 0 {
					if err := bs.UnreadByte(); err != nil {
						o.err, o.phase = "UnreadByte: "+err.Error(), "UnreadByte"
						return
					}
					c2, err := bs.ReadByte()
					if err != nil || c2 != c {
						o.err, o.phase = fmt.Sprintf("ReadByte after UnreadByte gave (%#x, %v), want (%#x, nil)", c2, err, c), "ReadByte"
						return
					}
				}
				o.out = append(o.out, c)
			}
		}},
		{"io.RuneReader", "ReadRune-only", true, func(rd io.Reader, o *outcome) {
			rr := rd.(io.RuneReader)
			for {
				r, size, err := rr.ReadRune()
				if err != nil {
					fail(o, "ReadRune", err)
					return
				}
				o.out = binary.BigEndian.AppendUint32(o.out, uint32(r))
				o.out = append(o.out, byte(size))
			}
		}},
		{"io.WriterTo", "WriteTo-only", false, func(rd io.Reader, o *outcome) {
			_, err := rd.(io.WriterTo).WriteTo(hookWriter{o, nil})
			fail(o, "WriteTo", err)
		}},
		{"io.WriterTo", "Read7-first-then-WriteTo", false, func(rd io.Reader, o *outcome) {
			buf := make([]byte, 7)
			n, err := rd.Read(buf)
			o.out = append(o.out, buf[:n]...)
			if err != nil {
				fail(o, "Read", err)
				return
			}
			_, err = rd.(io.WriterTo).WriteTo(hookWriter{o, nil})
			fail(o, "WriteTo", err)
		}},
		{"io.ReaderAt", "ReadAt-1000-byte-blocks", false, func(rd io.Reader, o *outcome) {
			ra := rd.(io.ReaderAt)
			blk := make([]byte, 1000)
			for {
				n, err := ra.ReadAt(blk, int64(len(o.out)))
				o.out = append(o.out, blk[:n]...)
				if err != nil {
					fail(o, "ReadAt", err)
					return
				}
			}
		}},
		{"io.Seeker", "Read10-Seek-to-start-ReadAll", false, func(rd io.Reader, o *outcome) {
			buf := make([]byte, 10)
			rd.Read(buf)
			if pos, err := rd.(io.Seeker).Seek(0, io.SeekStart); err != nil || pos != 0 {
				o.err, o.phase = fmt.Sprintf("Seek(0, SeekStart) = (%d, %v)", pos, err), "Seek"
				return
			}
			readAll(rd, 4096, o, "Read", nil)
		}},
	}
}

// runIfaces inspects the three reader values for one file and schedule and
// drives every kind whose interface is implemented.
func (m *monitor) runIfaces(f *dfile, s sched, rngFor func(string, ...int) *rand.Rand) {
	r := m.r
	type value struct {
		name, layer string
		base        *outcome
		open        func(k int) (io.Reader, *outcome)
	}
	vals := []value{{"age.Decrypt reader", "age.Decrypt", f.bDecrypt, func(k int) (io.Reader, *outcome) {
		src, _ := s.mk(f.data, rngFor("iface-decrypt", k))
		if f.armored {
			src = armor.NewReader(src)
		}
		rd, err := age.Decrypt(src, f.id)
		if err != nil {
			return nil, &outcome{err: err.Error(), phase: "Decrypt"}
		}
		return rd, nil
	}}}
	if f.armored && f.bDearmor != nil {
		vals = append(vals, value{"armor.NewReader reader", "armor.NewReader", f.bDearmor, func(k int) (io.Reader, *outcome) {
			src, _ := s.mk(f.data, rngFor("iface-dearmor", k))
			return armor.NewReader(src), nil
		}})
	}
	if f.bStream != nil {
		vals = append(vals, value{"stream.NewReader reader", "stream.NewReader", f.bStream, func(k int) (io.Reader, *outcome) {
			src, _ := s.mk(f.payload(), rngFor("iface-stream", k))
			rd, err := stream.NewReader(f.streamKey, src)
			if err != nil {
				return nil, &outcome{err: err.Error(), phase: "NewReader"}
			}
			return rd, nil
		}})
	}
	for _, v := range vals {
		rd, _ := v.open(-1)
		if rd == nil {
			continue // no value returned for this input (the error is the other layers' business)
		}
		im := m.ifaces.note(v.name, rd)
		r.Eval(1)
		for k, kind := range m.rkinds {
			if !im[kind.iface] {
				continue
			}
			rd, _ := v.open(k)
			if rd == nil {
				continue
			}
			o := &outcome{}
			kind.run(rd, o)
			r.Eval(1)
			name := kind.iface + "." + kind.name
			r.Distinct(fmt.Sprintf("iface/%s/%s/%s/%s", v.layer, f.name(), s.name, name))
			r.Tab("optional_interface_kind", v.layer+": "+name)
			want := v.base
			if kind.trace {
				want = &outcome{out: runeTrace(v.base.out), err: v.base.err, phase: v.base.phase}
			}
			m.compareKind(v.layer, f, s, name, o, want)
		}
	}
}

// ---- write side ----

type writerKind struct {
	iface string
	name  string
	run   func(w io.Writer, pt []byte) (int64, error)
}

func writerKinds() []writerKind {
	return []writerKind{
		{"io.StringWriter", "WriteString-1000-byte-pieces", func(w io.Writer, pt []byte) (int64, error) {
			sw := w.(io.StringWriter)
			var total int64
			for len(pt) > 0 {
				n := 1000
				if n > len(pt) {
					n = len(pt)
				}
				m, err := sw.WriteString(string(pt[:n]))
				total += int64(m)
				if err != nil {
					return total, err
				}
				if m != n {
					return total, nil
				}
				pt = pt[n:]
			}
			return total, nil
		}},
		{"io.StringWriter", "WriteString-whole", func(w io.Writer, pt []byte) (int64, error) {
			n, err := w.(io.StringWriter).WriteString(string(pt))
			return int64(n), err
		}},
		{"io.ByteWriter", "WriteByte-only", func(w io.Writer, pt []byte) (int64, error) {
			bw := w.(io.ByteWriter)
			for i, c := range pt {
				if err := bw.WriteByte(c); err != nil {
					return int64(i), err
				}
			}
			return int64(len(pt)), nil
		}},
		{"io.ByteWriter", "WriteByte+Write7-alternating", func(w io.Writer, pt []byte) (int64, error) {
			bw := w.(io.ByteWriter)
			var total int64
			for len(pt) > 0 {
				if err := bw.WriteByte(pt[0]); err != nil {
					return total, err
				}
				total++
				pt = pt[1:]
				n := 7
				if n > len(pt) {
					n = len(pt)
				}
				m, err := w.Write(append([]byte(nil), pt[:n]...))
				total += int64(m)
				if err != nil || m != n {
					return total, err
				}
				pt = pt[n:]
			}
			return total, nil
		}},
		{"io.ReaderFrom", "ReadFrom-plain-source", func(w io.Writer, pt []byte) (int64, error) {
			return w.(io.ReaderFrom).ReadFrom(&plainSrc{r: bytes.NewReader(pt)})
		}},
		{"io.ReaderFrom", "Write7-first-then-ReadFrom", func(w io.Writer, pt []byte) (int64, error) {
			n := 7
			if n > len(pt) {
				n = len(pt)
			}
			m, err := w.Write(append([]byte(nil), pt[:n]...))
			if err != nil || m != n {
				return int64(m), err
			}
			k, err := w.(io.ReaderFrom).ReadFrom(&plainSrc{r: bytes.NewReader(pt[n:])})
			return int64(n) + k, err
		}},
	}
}

// encryptIfaces: for one encryption case, inspect the WriteCloser returned by
// age.Encrypt and hand the plaintext over through every optional interface it
// implements, under the same tape as the single-Write baseline.
func (m *monitor) encryptIfaces(c encCase, fm, label string, pt []byte, recips []age.Recipient, base *encRun,
	replay func(string, []int) map[string]any) {
	r := m.r
	run := func(kind *writerKind) (out []byte, im map[string]bool, fail string) {
		t := mon.InstallTap(mon.NewDetStream(label))
		defer t.Uninstall()
		var buf bytes.Buffer
		var dst io.Writer = &buf
		var aw io.WriteCloser
		if c.armored {
			aw = armor.NewWriter(&buf)
			dst = aw
		}
		w, err := age.Encrypt(dst, recips...)
		if err != nil {
			return nil, nil, "Encrypt: " + err.Error()
		}
		im = m.ifaces.note("age.Encrypt writer", w)
		if kind == nil {
			return nil, im, ""
		}
		if !im[kind.iface] {
			return nil, im, "skip"
		}
		n, err := kind.run(w, pt)
		if err != nil {
			return nil, im, fmt.Sprintf("%s returned (%d, %v)", kind.name, n, err)
		}
		if n != int64(len(pt)) {
			return nil, im, fmt.Sprintf("%s reported %d of %d bytes with nil error", kind.name, n, len(pt))
		}
		if err := w.Close(); err != nil {
			return nil, im, "Close: " + err.Error()
		}
		if aw != nil {
			if err := aw.Close(); err != nil {
				return nil, im, "armor Close: " + err.Error()
			}
		}
		return buf.Bytes(), im, ""
	}
	_, im, fail := run(nil)
	r.Eval(1)
	if fail != "" {
		return
	}
	for i := range m.wkinds {
		kind := &m.wkinds[i]
		if !im[kind.iface] {
			continue
		}
		out, _, fail := run(kind)
		r.Eval(1)
		mode := kind.iface + "." + kind.name
		r.Distinct("enc/" + c.name() + "/iface=" + mode)
		r.Tab("optional_interface_kind", "age.Encrypt: "+mode)
		rp := replay("via="+mode, nil)
		if fail != "" {
			m.encFailure(c, fm, "via="+mode, &encRun{fail: fail}, rp)
			continue
		}
		if !bytes.Equal(out, base.out) {
			r.Violate(fmt.Sprintf("enc-differs:%s/via=%s/%s", fm, mode, lenClass(c.length)),
				fmt.Sprintf("%s: handing the plaintext over through %s gives a different ciphertext under the same tape: %d bytes vs %d with a single Write, first difference at byte %d",
					c.name(), mode, len(out), len(base.out), firstDiff(out, base.out)), rp)
		}
	}
}

// armorWriterIfaces does the same for armor.NewWriter on its own (no tape
// needed: armoring is deterministic).
func (m *monitor) armorWriterIfaces() {
	r := m.r
	for _, n := range []int{0, 1, 47, 48, 49, 1000, 65536} {
		data := mon.DetBytes(fmt.Sprintf("c12-armorw-%d", n), n)
		var base bytes.Buffer
		bw := armor.NewWriter(&base)
		im := m.ifaces.note("armor.NewWriter writer", bw)
		r.Eval(1)
		if n > 0 {
			bw.Write(data)
		} else {
			bw.Write(nil)
		}
		bw.Close()
		for i := range m.wkinds {
			kind := &m.wkinds[i]
			if !im[kind.iface] {
				continue
			}
			var buf bytes.Buffer
			w := armor.NewWriter(&buf)
			cnt, err := kind.run(w, data)
			cerr := w.Close()
			r.Eval(1)
			mode := kind.iface + "." + kind.name
			r.Distinct(fmt.Sprintf("armorw/%d/%s", n, mode))
			r.Tab("optional_interface_kind", "armor.NewWriter: "+mode)
			if err != nil || cerr != nil || cnt != int64(n) || !bytes.Equal(buf.Bytes(), base.Bytes()) {
				r.Violate(fmt.Sprintf("armor-writer-differs:via=%s", mode),
					fmt.Sprintf("armor.NewWriter, %d bytes through %s: (%d, %v), Close %v, %d text bytes; a single Write gives %d text bytes, first difference at %d",
						n, mode, cnt, err, cerr, buf.Len(), base.Len(), firstDiff(buf.Bytes(), base.Bytes())),
					map[string]any{"data": fmt.Sprintf("mon.DetBytes(%q, %d)", fmt.Sprintf("c12-armorw-%d", n), n), "mode": mode})
			}
		}
	}
}
