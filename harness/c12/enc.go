package main

import (
	"bytes"
	"crypto/sha256"
	"encoding/hex"
	"fmt"
	"io"
	"math/rand"
	"strings"

	"filippo.io/age"
	"filippo.io/age/armor"
	"filippo.io/age/zverif/keys"
	"filippo.io/age/zverif/mon"
	"filippo.io/age/zverif/refage"
)

// teeW sits where age.Encrypt's destination is: it keeps the binary bytes the
// encryptor has emitted so far and passes them on (to the final destination,
// or to the armor writer).
type teeW struct {
	w   io.Writer
	buf []byte
}

func (t *teeW) Write(p []byte) (int, error) {
	t.buf = append(t.buf, p...)
	return t.w.Write(p)
}

// segmentation of a plaintext of length L into consecutive write sizes
// (zeros are empty writes). A nil result with ok=false means "not applicable
// to this length". "nowrite" (no Write call at all) applies to L == 0 only.
type segSpec struct {
	name string
	gen  func(L int, rng *rand.Rand) ([]int, bool)
}

func steps(k int) func(int, *rand.Rand) ([]int, bool) {
	return func(L int, _ *rand.Rand) ([]int, bool) {
		if L == 0 {
			return nil, false
		}
		var out []int
		for L > 0 {
			n := k
			if n > L {
				n = L
			}
			out = append(out, n)
			L -= n
		}
		return out, true
	}
}

func segRandom(L int, rng *rand.Rand) ([]int, bool) {
	if L == 0 {
		return []int{0, 0}, true
	}
	var out []int
	for L > 0 {
		var n int
		switch rng.Intn(8) {
		case 0:
			n = 0
		case 1:
			n = 1 + rng.Intn(3)
		case 2:
			n = 1 + rng.Intn(100)
		case 3:
			n = 1 + rng.Intn(5000)
		case 4:
			n = chunk - 2 + rng.Intn(5)
		case 5:
			n = 1 + rng.Intn(140000)
		case 6:
			// land exactly on the next chunk boundary of the plaintext
			n = -1
		default:
			n = 1 + rng.Intn(70000)
		}
		if n == -1 {
			n = L % chunk
			if n == 0 {
				n = chunk
			}
		}
		if n > L {
			n = L
		}
		out = append(out, n)
		L -= n
	}
	if rng.Intn(2) == 0 {
		out = append(out, 0)
	}
	return out, true
}

// empty writes before, between and after pieces of size k
func segEmpties(k int) func(int, *rand.Rand) ([]int, bool) {
	return func(L int, _ *rand.Rand) ([]int, bool) {
		out := []int{0}
		for L > 0 {
			n := k
			if n > L {
				n = L
			}
			out = append(out, n, 0)
			if len(out)%5 == 0 {
				out = append(out, 0)
			}
			L -= n
		}
		return append(out, 0), true
	}
}

func (m *monitor) segmentations() []segSpec {
	s := []segSpec{
		{"nowrite", func(L int, _ *rand.Rand) ([]int, bool) { return nil, L == 0 }},
		{"step1", func(L int, rng *rand.Rand) ([]int, bool) {
			if L > 140000 {
				return nil, false
			}
			return steps(1)(L, rng)
		}},
		{"step7", steps(7)},
		{"step4096", steps(4096)},
		{"step65535", steps(65535)},
		{"step65536", steps(65536)},
		{"step65537", steps(65537)},
		{"step70000", steps(70000)},
		{"step131072", steps(131072)},
		{"empties4096", segEmpties(4096)},
		{"empties65536", segEmpties(65536)},
		{"empties-whole", segEmpties(1 << 30)},
	}
	for i := 0; i < m.r.Pick(3, 10); i++ {
		s = append(s, segSpec{fmt.Sprintf("random%d", i), segRandom})
	}
	return s
}

// one write as observed from outside
type snap struct {
	written int // plaintext handed to Write so far (after this call)
	bin     int // binary bytes that reached age.Encrypt's destination
	text    int // bytes at the final destination (armored runs)
}

type encRun struct {
	out   []byte // bytes at the final destination
	bin   []byte // binary bytes emitted by the encryptor
	snaps []snap
	hdr   int // bytes at age.Encrypt's destination when Encrypt returned
	fail  string
}

// decodable returns how many binary bytes are represented by the first T
// bytes of an LF armor text produced by the armor writer.
func decodable(T int) int {
	t := T - (len(armor.Header) + 1)
	if t <= 0 {
		return 0
	}
	lines, rem := t/65, t%65
	if rem > 64 {
		rem = 64
	}
	return (lines*64 + rem) / 4 * 3
}

// encryptSeg runs one encryption of pt under a fresh deterministic tape with
// the given label. sizes == nil && single means the baseline single Write.
func encryptSeg(label string, pt []byte, armored bool, recips []age.Recipient, sizes []int, single bool) (er *encRun) {
	er = &encRun{}
	t := mon.InstallTap(mon.NewDetStream(label))
	defer t.Uninstall()
	final := &mon.ObservingWriter{}
	var dst io.Writer = final
	var aw io.WriteCloser
	if armored {
		aw = armor.NewWriter(final)
		dst = aw
	}
	tw := &teeW{w: dst}
	w, err := age.Encrypt(tw, recips...)
	if err != nil {
		er.fail = "Encrypt: " + err.Error()
		return
	}
	er.hdr = len(tw.buf)
	written := 0
	write := func(i int, p []byte) bool {
		n, err := w.Write(p)
		written += len(p)
		er.snaps = append(er.snaps, snap{written, len(tw.buf), final.Len()})
		if err != nil || n != len(p) {
			er.fail = fmt.Sprintf("Write #%d of %d bytes (after %d bytes) returned (%d, %v), want (%d, nil)", i, len(p), written-len(p), n, err, len(p))
			return false
		}
		return true
	}
	if single {
		if !write(0, pt) {
			return
		}
	} else {
		mx := 0
		for _, n := range sizes {
			if n > mx {
				mx = n
			}
		}
		scratch := make([]byte, mx)
		for i, n := range sizes {
			// the caller reuses one buffer for every Write, as io.Copy does
			p := scratch[:n]
			copy(p, pt[written:written+n])
			ok := write(i, p)
			for j := range p {
				p[j] = 0xA5
			}
			if !ok {
				return
			}
		}
		if written != len(pt) {
			panic("c12: segmentation does not cover the plaintext")
		}
	}
	if err := w.Close(); err != nil {
		er.fail = "Close: " + err.Error()
		return
	}
	if aw != nil {
		if err := aw.Close(); err != nil {
			er.fail = "armor Close: " + err.Error()
			return
		}
	}
	er.out, er.bin = final.Buf, tw.buf
	return
}

type encCase struct {
	list    []string
	extra   age.Recipient // optional harness recipient appended to the list
	length  int
	armored bool
}

func (c encCase) name() string {
	f := "binary"
	if c.armored {
		f = "armored"
	}
	l := fmt.Sprint(c.list)
	if c.extra != nil {
		l += "+bighdr"
	}
	return fmt.Sprintf("list=%s/%s/len=%d", l, f, c.length)
}

func (c encCase) recipients() []age.Recipient {
	rs := keys.Recipients(keys.Ps(c.list...))
	if c.extra != nil {
		rs = append(rs, c.extra)
	}
	return rs
}

// bigHeader makes the header longer than format.Parse's 4096-byte bufio.
func bigHeader() age.Recipient {
	return &keys.Unknown{Stanzas: []*age.Stanza{
		{Type: "c12-big", Args: []string{"a", "b"}, Body: mon.DetBytes("c12-bighdr-1", 3000)},
		{Type: "c12-big", Args: []string{"c"}, Body: mon.DetBytes("c12-bighdr-2", 2400)},
	}}
}

func (m *monitor) encLengths() []int {
	r := m.r
	rng := r.RNG("enc-lengths")
	ls := []int{0, 1, 2, 65535, 65536, 65537, 131071, 131072, 131073, 196608, 196609}
	ls = append(ls, 3+rng.Intn(4000), 65538+rng.Intn(65000), 200000+rng.Intn(60000), m.alignedLength())
	if r.Thorough() {
		ls = append(ls, 3+rng.Intn(60000), 131074+rng.Intn(65000), 262144, 327680, 327681, 400000)
	}
	return ls
}

func (m *monitor) encryptSweep() {
	r := m.r
	var cases []encCase
	lists := [][]string{{"X1"}, {"S1"}, {"X2", "E1", "U1"}}
	for li, l := range lists {
		for _, n := range m.encLengths() {
			for _, a := range []bool{false, true} {
				// the recipient list is orthogonal to the segmentation: the full
				// length set goes with X1, the other lists get a rotating subset
				// in the quick tier
				if !r.Thorough() && li > 0 && (n+li)%3 != 0 && n != 131072 {
					continue
				}
				cases = append(cases, encCase{list: l, length: n, armored: a})
			}
		}
	}
	cases = append(cases, encCase{list: []string{"X1"}, extra: bigHeader(), length: 70000, armored: false},
		encCase{list: []string{"X1"}, extra: bigHeader(), length: 70000, armored: true})
	segs := m.segmentations()
	r.Set("write_segmentations", len(segs)+1)
	for ci, c := range cases {
		c := c
		r.Guard("enc:"+c.name(), func() { m.encCase(ci, c, segs) })
	}
}

func (m *monitor) encCase(ci int, c encCase, segs []segSpec) {
	r := m.r
	pt := mon.DetBytes(fmt.Sprintf("c12-pt-%d-%d", r.Seed, c.length), c.length)
	label := fmt.Sprintf("c12-tape-%d-%s", r.Seed, c.name())
	recips := c.recipients()
	replay := func(seg string, sizes []int) map[string]any {
		rp := map[string]any{"case": c.name(), "tape": "mon.NewDetStream(" + fmt.Sprintf("%q", label) + ")",
			"plaintext": fmt.Sprintf("mon.DetBytes(%q, %d)", fmt.Sprintf("c12-pt-%d-%d", r.Seed, c.length), c.length), "segmentation": seg}
		if len(sizes) <= 64 {
			rp["write_sizes"] = sizes
		} else {
			rp["write_sizes_head"] = sizes[:64]
			rp["write_calls"] = len(sizes)
		}
		return rp
	}
	fm := "binary"
	if c.armored {
		fm = "armored"
	}

	base := encryptSeg(label, pt, c.armored, recips, nil, true)
	r.Eval(1)
	if base.fail != "" && base.out == nil {
		m.encFailure(c, fm, "seg=single", base, replay("single", []int{c.length}))
		return
	}
	hdrEnd := refage.HeaderEnd(base.bin)
	if hdrEnd < 0 {
		r.Violate("enc-output-unparseable:"+c.name(), c.name()+": single-write output has no age header", replay("single", []int{c.length}))
		return
	}
	hdr16 := hdrEnd + 16
	m.checkSnaps(c, fm, "seg=single", base, hdr16, replay("single", []int{c.length}))
	// the baseline must be a file for this plaintext (sanity of the oracle's
	// reference point; judged by the independent implementation)
	if len(c.list) > 0 {
		if o, err := refage.Decrypt(base.bin, keys.P(c.list[0]).Ref); err != nil || !bytes.Equal(o.Plaintext, pt) {
			r.Violate("enc-baseline-not-plaintext:"+c.name(), fmt.Sprintf("%s: the single-write ciphertext does not open to the plaintext under the reference implementation: %v", c.name(), err), replay("single", []int{c.length}))
			return
		}
	}
	r.Distinct("enc/" + c.name() + "/single")
	r.Tab("enc_length", lenClass(c.length))
	compared, identical := 0, 0
	for si, sg := range segs {
		rng := mon.NewRNG(r.Seed, fmt.Sprintf("c12-seg-%s-%d", c.name(), si))
		sizes, ok := sg.gen(c.length, rng)
		if !ok {
			continue
		}
		er := encryptSeg(label, pt, c.armored, recips, sizes, false)
		r.Eval(1)
		r.Distinct("enc/" + c.name() + "/" + sg.name)
		segClass := sg.name
		if len(segClass) > 6 && segClass[:6] == "random" {
			segClass = "random"
		}
		r.Tab("segmentation", segClass)
		r.Count("write_calls_checked", int64(len(er.snaps)))
		rp := replay(sg.name, sizes)
		if er.fail != "" {
			m.encFailure(c, fm, "seg="+segClass, er, rp)
			continue
		}
		m.checkSnaps(c, fm, "seg="+segClass, er, hdr16, rp)
		compared++
		if bytes.Equal(er.out, base.out) {
			identical++
		} else {
			d := firstDiff(er.out, base.out)
			r.Violate(fmt.Sprintf("enc-differs:%s/seg=%s/%s", fm, segClass, lenClass(c.length)),
				fmt.Sprintf("%s: segmentation %s (%d writes) gives a different ciphertext under the same tape: %d bytes vs %d with a single write, first difference at byte %d",
					c.name(), sg.name, len(sizes), len(er.out), len(base.out), d), rp)
		}
	}
	hc, hi := m.handovers(c, fm, label, pt, recips, base, hdr16, replay)
	m.encryptIfaces(c, fm, label, pt, recips, base, replay)
	h := sha256.Sum256(base.out)
	r.SampleN("enc-"+fm, 2, map[string]any{"case": c.name(), "tape_label": label, "ciphertext_bytes": len(base.out),
		"ciphertext_sha256_prefix": hex.EncodeToString(h[:8]), "segmentations_compared_with_single_write": compared, "byte_identical": identical,
		"hand_over_modes_compared_with_single_write": hc, "hand_over_byte_identical": hi})
}

func (m *monitor) encFailure(c encCase, fm, seg string, er *encRun, rp map[string]any) {
	kind := "enc-error"
	if len(er.fail) > 6 && er.fail[:6] == "Write " {
		kind = "write-return"
	}
	if strings.Contains(er.fail, "reported") && strings.Contains(er.fail, "with nil error") {
		kind = "copy-return"
	}
	m.r.Violate(fmt.Sprintf("%s:%s/%s/%s", kind, fm, seg, lenClass(c.length)), c.name()+" "+seg+": "+er.fail, rp)
}

// checkSnaps applies the hold-back bound to every observed Write.
func (m *monitor) checkSnaps(c encCase, fm, seg string, er *encRun, hdr16 int, rp map[string]any) {
	r := m.r
	if er.hdr != hdr16 {
		r.Count("header_not_complete_when_encrypt_returned", 1)
	}
	for i, s := range er.snaps {
		chunks := 0
		if s.bin > hdr16 {
			chunks = (s.bin - hdr16) / encChunk
		}
		held := s.written - chunk*chunks
		maxInto(&m.maxHeld, int64(held))
		if s.written > chunk {
			r.Count("holdback_checks_binding", 1)
		}
		if held > chunk {
			r.Violate(fmt.Sprintf("holdback:%s/%s", fm, seg),
				fmt.Sprintf("%s %s: at observation #%d, %d plaintext bytes had been handed over but only %d complete chunks (%d bytes) reached the destination: %d bytes held back (> 65536)",
					c.name(), seg, i, s.written, chunks, s.bin, held), rp)
			return
		}
		if c.armored {
			lag := s.bin - decodable(s.text)
			maxInto(&m.maxArmorLag, int64(lag))
			if lag > 48 {
				r.Violate(fmt.Sprintf("armor-holdback:%s", seg),
					fmt.Sprintf("%s %s: at observation #%d the armor writer had taken %d bytes but only %d are represented in the %d text bytes at the destination",
						c.name(), seg, i, s.bin, decodable(s.text), s.text), rp)
				return
			}
		}
	}
}
