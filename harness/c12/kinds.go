package main

import (
	"bufio"
	"bytes"
	"errors"
	"fmt"
	"io"
	"math/rand"
	"strings"
	"testing/iotest"

	"filippo.io/age/armor"
	"filippo.io/age/zverif/ax"
	"filippo.io/age/zverif/keys"
	"filippo.io/age/zverif/mon"
	"filippo.io/age/zverif/refage"
)

// Consumer kinds at the armor.NewReader level beyond Read sizes, io.Copy and
// io.ReadAll: what the caller puts between itself and the armor reader. The
// oracle is unchanged: (released bytes, error) equal to the plain Read-loop
// baseline; io.ErrNoProgress out of a wrapper is just another error string.

type consumer struct {
	name string
	fill bool // goes through bufio's fill loop (or Scanner's), which gives up after 100 empty reads
	run  func(ar io.Reader, o *outcome)
}

func errString(err error) string {
	if err == nil || err == io.EOF {
		return "EOF"
	}
	return err.Error()
}

func consumers() []consumer {
	var cs []consumer
	for _, n := range []int{16, 4096} {
		n := n
		pre := fmt.Sprintf("bufio%d.", n)
		cs = append(cs,
			consumer{pre + "ReadByte", true, func(ar io.Reader, o *outcome) {
				br := bufio.NewReaderSize(ar, n)
				for {
					c, err := br.ReadByte()
					if err != nil {
						o.err, o.phase = errString(err), "ReadByte"
						return
					}
					o.out = append(o.out, c)
				}
			}},
			consumer{pre + "ReadString", true, func(ar io.Reader, o *outcome) {
				br := bufio.NewReaderSize(ar, n)
				for {
					s, err := br.ReadString('\n')
					o.out = append(o.out, s...)
					if err != nil {
						o.err, o.phase = errString(err), "ReadString"
						return
					}
				}
			}},
			consumer{pre + "Peek+Discard", true, func(ar io.Reader, o *outcome) {
				br := bufio.NewReaderSize(ar, n)
				for {
					b, err := br.Peek(1)
					o.out = append(o.out, b...)
					if err != nil {
						o.err, o.phase = errString(err), "Peek"
						return
					}
					br.Discard(1)
				}
			}},
			consumer{pre + "WriteTo", true, func(ar io.Reader, o *outcome) {
				_, err := bufio.NewReaderSize(ar, n).WriteTo(hookWriter{o, nil})
				o.err, o.phase = errString(err), "bufio WriteTo"
			}},
			consumer{pre + "Read", false, func(ar io.Reader, o *outcome) {
				readAll(bufio.NewReaderSize(ar, n), 1000, o, "bufio Read", nil)
			}},
		)
	}
	cs = append(cs,
		consumer{"bufio.Scanner", true, func(ar io.Reader, o *outcome) {
			sc := bufio.NewScanner(ar)
			sc.Buffer(make([]byte, 0, 1<<16), 1<<22)
			sc.Split(func(data []byte, atEOF bool) (int, []byte, error) {
				if len(data) == 0 {
					return 0, nil, nil
				}
				return len(data), data, nil
			})
			for sc.Scan() {
				o.out = append(o.out, sc.Bytes()...)
			}
			o.err, o.phase = errString(sc.Err()), "Scanner"
		}},
		consumer{"iotest.OneByteReader+ReadAll", false, func(ar io.Reader, o *outcome) {
			b, err := io.ReadAll(iotest.OneByteReader(ar))
			o.out = append(o.out, b...)
			o.err, o.phase = errString(err), "ReadAll"
		}},
		consumer{"io.CopyBuffer1", false, func(ar io.Reader, o *outcome) {
			_, err := io.CopyBuffer(hookWriter{o, nil}, ar, make([]byte, 1))
			o.err, o.phase = errString(err), "io.CopyBuffer"
		}},
	)
	for _, k := range []int{1, 48, 1000} {
		k := k
		cs = append(cs, consumer{fmt.Sprintf("io.ReadFull%d", k), false, func(ar io.Reader, o *outcome) {
			blk := make([]byte, k)
			for {
				n, err := io.ReadFull(ar, blk)
				o.out = append(o.out, blk[:n]...)
				if err == io.ErrUnexpectedEOF {
					err = io.EOF // a short last block is a clean end
				}
				if err != nil {
					o.err, o.phase = errString(err), "io.ReadFull"
					return
				}
			}
		}})
	}
	return cs
}

var kindSchedules = map[string]bool{"whole": true, "1byte": true, "random": true, "bufio16over1byte": true}

// runKinds drives every consumer kind over armor.NewReader for one file and
// schedule.
func (m *monitor) runKinds(f *dfile, s sched, cs []consumer, rngFor func(string, ...int) *rand.Rand) {
	r := m.r
	for i, c := range cs {
		src, _ := s.mk(f.data, rngFor("kind", i))
		o := &outcome{}
		c.run(armor.NewReader(src), o)
		r.Eval(1)
		r.Distinct(fmt.Sprintf("dearmor-kind/%s/%s/%s", f.name(), s.name, c.name))
		r.Tab("armor_consumer_kind", c.name)
		if f.leadLines >= 100 {
			r.Count("lead100_runs/"+c.name, 1)
		}
		m.compareKind("armor.NewReader", f, s, c.name, o, f.bDearmor)
	}
}

// dearmoredSource delivers what plain de-armoring of f released, then the
// same error (or a clean end): age.Decrypt over the armored text must behave
// like age.Decrypt over this.
func dearmoredSource(f *dfile) io.Reader {
	if f.bDearmor.err == "EOF" {
		return bytes.NewReader(f.bDearmor.out)
	}
	return &mon.FaultReader{Data: f.bDearmor.out, FailAt: len(f.bDearmor.out), Err: errors.New(f.bDearmor.err)}
}

// leading/trailing white space around valid armor.
type wsFile struct {
	shape string
	text  []byte
	lead  int // white-space-only lines before BEGIN
}

func wsFamily(arm []byte, rng *rand.Rand, full bool) []wsFile {
	var out []wsFile
	add := func(shape, pre, post string) {
		out = append(out, wsFile{shape, []byte(pre + string(arm) + post), strings.Count(pre, "\n")})
	}
	rep := strings.Repeat
	for _, k := range []int{1, 2, 50, 99, 100, 101, 102, 200, 500, 1000, 1023, 1024, 1025, 1100} {
		add(fmt.Sprintf("%d-blank-lf-lines-before", k), rep("\n", k), "")
	}
	for _, k := range []int{1, 50, 99, 100, 101, 200, 500, 511, 512, 513, 1000, 1024, 1025} {
		if !full && (k == 50 || k == 513 || k == 1000) {
			continue
		}
		add(fmt.Sprintf("%d-blank-crlf-lines-before", k), rep("\r\n", k), "")
	}
	add("100-space-lines-before", rep(" \n", 100), "")
	add("340-tab-lines-before", rep("\t\n", 340), "")
	add("511-space-lines-before", rep(" \n", 511), "")
	add("512-space-lines-before", rep(" \n", 512), "")
	add("513-space-lines-before", rep(" \n", 513), "")
	add("one-line-of-1022-spaces-before", rep(" ", 1022)+"\n", "")
	add("one-line-of-1023-spaces-before", rep(" ", 1023)+"\n", "")
	add("one-line-of-1030-spaces-before", rep(" ", 1030)+"\n", "")
	add("10-lines-of-100-spaces-before", rep(rep(" ", 100)+"\n", 10), "")
	add("11-lines-of-100-spaces-before", rep(rep(" ", 100)+"\n", 11), "")
	add("150-lines-of-space-tab-cr-mix-before", rep(" \t\r\n", 150), "")
	// seeded mixtures filling the allowance up to a target size
	for _, target := range []int{1000, 1023, 1024, 1025, 1200} {
		var sb strings.Builder
		for sb.Len() < target {
			l := []string{"\n", "\n", "\n", " \n", "\t\n", "\r\n", "  \t \n", " \r\n"}[rng.Intn(8)]
			if sb.Len()+len(l) > target {
				l = rep(" ", target-sb.Len()-1) + "\n"
			}
			sb.WriteString(l)
		}
		add(fmt.Sprintf("seeded-mix-of-%d-bytes-before", target), sb.String(), "")
	}
	// trailing white space after END
	for _, k := range []int{1, 2, 100, 1000, 1022, 1023, 1024, 1025, 2000} {
		add(fmt.Sprintf("%d-lf-after", k), "", rep("\n", k))
	}
	add("500-crlf-after", "", rep("\r\n", 500))
	add("1000-spaces-after", "", rep(" ", 1000))
	add("1023-spaces-after", "", rep(" ", 1023))
	add("300-space-tab-lf-after", "", rep(" \t\n", 300))
	add("150-blank-before-500-lf-after", rep("\n", 150), rep("\n", 500))
	add("1023-blank-before-1022-lf-after", rep("\n", 1023), rep("\n", 1022))
	add("120-crlf-before-space-after", rep("\r\n", 120), " ")
	return out
}

// wsFiles builds the white-space family over one small and (thorough) one
// two-chunk file. Called while the file tape is installed.
func (m *monitor) wsFiles(seen map[[32]byte]bool) []*dfile {
	r := m.r
	var files []*dfile
	sizes := []int{1080}
	if r.Thorough() {
		sizes = append(sizes, 70000)
	}
	for _, n := range sizes {
		p := keys.P("X1")
		ptLabel := fmt.Sprintf("c12-wpt-%d-%d", r.Seed, n)
		arm, err := ax.Encrypt(mon.DetBytes(ptLabel, n), true, p.Recipient)
		if err != nil {
			r.Violate(fmt.Sprintf("encrypt-refused:len=%d/armored", n), err.Error(), nil)
			continue
		}
		bin, err := refage.Dearmor(arm)
		if err != nil {
			r.Violate(fmt.Sprintf("enc-output-unparseable:len=%d/armored", n), "armor.NewWriter output is not canonical armor: "+err.Error(), nil)
			continue
		}
		hdr := refage.HeaderEnd(bin)
		for _, w := range wsFamily(arm, r.RNG(fmt.Sprintf("c12-ws-%d", n)), true) {
			kc := "armor-whitespace/"
			switch {
			case w.lead >= 100:
				kc += "lead>=100-lines"
			case w.lead > 0:
				kc += "lead<100-lines"
			default:
				kc += "trailing-only"
			}
			files = append(files, &dfile{base: fmt.Sprintf("len=%d", n), length: n, armored: true, marmor: true, ws: true, dearmor: true,
				class: "ws-" + w.shape, kclass: kc, leadLines: w.lead,
				how:  fmt.Sprintf("ax.Encrypt(mon.DetBytes(%q, %d), armored) to X1 under tape c12-files-%d; white space added: %s", ptLabel, n, r.Seed, w.shape),
				data: w.text, id: p.Identity, hdr16: hdr + 16})
		}
	}
	r.Set("armor_whitespace_texts", len(files))
	return files
}
