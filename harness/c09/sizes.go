package main

// Plugin key strings of every SIZE, taken all the way through the
// constructors that make usable values — not only through the bare codec.
//
// The property quantifies over "all plugin names and payloads": whatever
// plugin.EncodeRecipient / EncodeIdentity print must parse back
// (ParseRecipient / ParseIdentity: same name, same payload), and the string
// must be accepted by plugin.NewRecipient / NewIdentity — the only way to turn
// it into an age.Recipient / age.Identity — which must report the same name.
// Payload lengths run from 0 through 1 KiB, 4 KiB, the lengths at which the
// string crosses 8192 characters, 8 KiB, 16 KiB, 64 KiB, 100 KiB (thorough:
// 1 MiB), for a 1-character, a 10-character and a long name.
//
// The tools are only recorded, not judged: cmd/age has a documented line limit
// for -R files, and without a plugin binary every run fails anyway; the table
// shows by which class of error.

import (
	"bytes"
	"fmt"
	"os"
	"path/filepath"
	"strings"
	"sync"
	"time"

	"filippo.io/age/internal/bech32"
	"filippo.io/age/plugin"
	"filippo.io/age/zverif/cli"
)

var sizeNames = []string{"x", "yubikey-ab", strings.Repeat("long-plugin.name_", 4)[:60]}

func sizeLengths() []int {
	var ls []int
	add := func(lo, hi int) {
		for l := lo; l <= hi; l++ {
			ls = append(ls, l)
		}
	}
	add(0, 40)
	add(1020, 1028)
	add(4093, 4099)
	add(5040, 5130) // the string crosses 8192 characters here (for every name used)
	add(8188, 8196)
	add(16382, 16386)
	ls = append(ls, 65535, 65536, 65537, 100<<10)
	if R.Thorough() {
		add(41, 300)
		add(5000, 5039)
		ls = append(ls, 1<<20, 1<<20+3)
	}
	return ls
}

var (
	sizeMu   sync.Mutex
	sizeLong = map[string]int64{} // constructor -> strings longer than 8192 characters accepted
)

func jobsSizes() []func(*batch) {
	ui := &plugin.ClientUI{}
	var jobs []func(*batch)
	ls := sizeLengths()
	const chunk = 16
	for ni, name := range sizeNames {
		for c := 0; c < len(ls); c += chunk {
			name, ni := name, ni
			part := ls[c:min(c+chunk, len(ls))]
			jobs = append(jobs, func(b *batch) {
				for _, L := range part {
					sizeCase(b, ui, ni, name, L)
				}
			})
		}
	}
	jobs = append(jobs, sizesCLI)
	return jobs
}

func sizeClass(n int) string {
	switch {
	case n <= 90:
		return "<= 90 characters"
	case n <= 8192:
		return "91..8192 characters"
	case n <= 65536:
		return "8193..65536 characters"
	}
	return "> 65536 characters"
}

func sizeCase(b *batch, ui *plugin.ClientUI, ni int, name string, L int) {
	data := detBytes(fmt.Sprintf("c09-size-%d-%d-%d", R.Seed, ni, L), L)
	more := map[string]any{"name": name, "payload_len": L}
	R.Distinct(fmt.Sprintf("size:%s:%d", name, L))
	type fam struct {
		what  string
		enc   func(string, []byte) string
		parse func(string) (string, []byte, error)
		p     *parser
		hrp   string
		upper bool
		ctor  string
		make  func(string) (string, string, error) // returns Name(), Recipient().Name() ("" if n/a)
	}
	for _, f := range []fam{
		{"plugin.EncodeRecipient", plugin.EncodeRecipient, plugin.ParseRecipient, pPlugR, "age1" + name, false, "plugin.NewRecipient",
			func(s string) (string, string, error) {
				r, err := plugin.NewRecipient(s, ui)
				if err != nil {
					return "", "", err
				}
				return r.Name(), r.Name(), nil
			}},
		{"plugin.EncodeIdentity", plugin.EncodeIdentity, plugin.ParseIdentity, pPlugI, "AGE-PLUGIN-" + strings.ToUpper(name) + "-", true, "plugin.NewIdentity",
			func(s string) (string, string, error) {
				i, err := plugin.NewIdentity(s, ui)
				if err != nil {
					return "", "", err
				}
				return i.Name(), i.Recipient().Name(), nil
			}},
	} {
		f := f
		R.Guard("sizes:"+f.what, func() {
			s := f.enc(name, data)
			b.evals++
			cls := sizeClass(len(s))
			more := map[string]any{"name": name, "payload_len": L, "string_len": len(s), "string_head": string(truncateB([]byte(s), 60))}
			b.add("plugin strings of every size: "+f.ctor, cls)
			if s == "" {
				violate("valid-name-refused:"+f.what+":size", fmt.Sprintf("%s(%q, %d bytes) printed nothing", f.what, name, L), more)
				return
			}
			if want := encode5(f.hrp, to5(data), f.upper); s != want {
				violate("encode-differs-from-reference:"+f.what+":size", fmt.Sprintf("%s(%q, %d bytes) printed a %d-character string that is not the Bech32 spelling (first difference at %d)", f.what, name, L, len(s), firstStrDiff(s, want)), more)
				return
			}
			n2, d2, err := f.parse(s)
			b.evals++
			if err != nil || n2 != name || !bytes.Equal(d2, data) {
				violate("round-trip:"+f.what+":size:"+cls, fmt.Sprintf("%s printed a %d-character string for (%q, %d bytes); parsing it back gives (%q, %d bytes, %v)", f.what, len(s), name, L, n2, len(d2), err), more)
				return
			}
			n3, n4, err := f.make(s)
			b.evals++
			if err != nil {
				violate("printed-string-refused:"+f.ctor+":"+cls,
					fmt.Sprintf("%s refuses the %d-character string that %s printed for (%q, %d bytes), which Parse accepts: %v", f.ctor, len(s), f.what, name, L, err), more)
				return
			}
			if n3 != name || n4 != name {
				violate("round-trip:"+f.ctor+":name", fmt.Sprintf("%s on the string printed for (%q, %d bytes) reports the names %q / %q", f.ctor, name, L, n3, n4), more)
				return
			}
			// the bare codec at this size
			h, d3, err := bech32.Decode(s)
			b.evals++
			if err != nil || !bytes.Equal(d3, data) || !strings.EqualFold(h, f.hrp) {
				violate("round-trip:bech32.Decode:size:"+cls, fmt.Sprintf("bech32.Decode of the %d-character string printed for (%q, %d bytes): (%q, %d bytes, %v)", len(s), name, L, h, len(d3), err), more)
				return
			}
			b.add("inverse", f.what+" -> Parse -> "+f.ctor+" at every size")
			if len(s) > 8192 {
				sizeMu.Lock()
				sizeLong[f.ctor]++
				sizeMu.Unlock()
			}
		})
	}
	_ = more
}

func firstStrDiff(a, b string) int {
	n := min(len(a), len(b))
	for i := 0; i < n; i++ {
		if a[i] != b[i] {
			return i
		}
	}
	return n
}

// sizesCLI records (no verdict) how the tools treat long plugin strings in -r,
// -R file and -i file: without a plugin binary every run fails; the table
// shows whether by "plugin cannot be started" (the string got past parsing) or
// by a refusal of the string.
func sizesCLI(b *batch) {
	age := os.Getenv("AGE_BIN")
	if age == "" {
		return
	}
	base, err := os.MkdirTemp(os.Getenv("VERIF_SCRATCH"), "c09sizes.")
	if err != nil {
		return
	}
	defer os.RemoveAll(base)
	os.WriteFile(filepath.Join(base, "input"), []byte("x\n"), 0o600)
	os.WriteFile(filepath.Join(base, "ct.age"), []byte("age-encryption.org/v1\n-> X25519 AAAAAAAAAAAAAAAAAAAAAAAAAAAAAAAAAAAAAAAAAAA\nAAAAAAAAAAAAAAAAAAAAAAAAAAAAAAAAAAAAAAAAAAA\n--- AAAAAAAAAAAAAAAAAAAAAAAAAAAAAAAAAAAAAAAAAAA\n"), 0o600)
	for _, L := range []int{16, 4000, 5090, 5130, 20000} {
		data := detBytes(fmt.Sprintf("c09-size-cli-%d", L), L)
		rs := plugin.EncodeRecipient("nosuchplugin", data)
		is := plugin.EncodeIdentity("nosuchplugin", data)
		os.WriteFile(filepath.Join(base, "rfile"), []byte(rs+"\n"), 0o600)
		os.WriteFile(filepath.Join(base, "ifile"), []byte(is+"\n"), 0o600)
		for _, c := range []struct {
			route string
			argv  []string
		}{
			{"age -r STRING", []string{age, "-r", rs, "-o", "out", "input"}},
			{"age -R file", []string{age, "-R", "rfile", "-o", "out", "input"}},
			{"age -d -i file", []string{age, "-d", "-i", "ifile", "-o", "out", "ct.age"}},
			{"age -e -i file", []string{age, "-e", "-i", "ifile", "-o", "out", "input"}},
		} {
			res := cli.Run(&cli.Cmd{Dir: base, Argv: c.argv, Timeout: 60 * time.Second})
			b.evals++
			cls := "other: " + string(truncateB(bytes.TrimSpace(res.Stderr), 60))
			e := string(res.Stderr)
			switch {
			case res.Err != nil:
				cls = "driver error"
			case res.Exit == 0:
				cls = "exit 0"
			case strings.Contains(e, "couldn't start plugin") || strings.Contains(e, "executable file not found"):
				cls = "got past parsing: plugin cannot be started"
			case strings.Contains(e, "too long"):
				cls = "refused: too long"
			case strings.Contains(e, "malformed") || strings.Contains(e, "unknown"):
				cls = "refused: malformed / unknown type"
			}
			b.add("tools with long plugin strings (recorded, not judged)", fmt.Sprintf("%s, %d-character string: %s", c.route, len(rs), cls))
			os.Remove(filepath.Join(base, "out"))
		}
	}
}

func finishSizes() {
	sizeMu.Lock()
	defer sizeMu.Unlock()
	R.Set("plugin_strings_over_8192_characters_accepted_by_constructor", sizeLong)
	// vacuity: a run in which no long string reached the constructors says nothing
	// about sizes. (On a tree that refuses them, the violations speak.)
	for _, c := range []string{"plugin.NewRecipient", "plugin.NewIdentity"} {
		if sizeLong[c] == 0 && !hasPendingPrefix("printed-string-refused:"+c) {
			R.Inconclusive("sizes stage: no plugin string longer than 8192 characters reached %s", c)
		}
	}
}

func hasPendingPrefix(p string) bool {
	pendMu.Lock()
	defer pendMu.Unlock()
	for k := range pend {
		if strings.HasPrefix(k, p) {
			return true
		}
	}
	return false
}
