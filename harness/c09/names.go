package main

import (
	"bytes"
	"fmt"
	"math/rand"
	"strings"

	"filippo.io/age/internal/bech32"
	"filippo.io/age/plugin"
	"filippo.io/age/zverif/mon"
	"filippo.io/age/zverif/refage"
)

const nameAllowed = "abcdefghijklmnopqrstuvwxyzABCDEFGHIJKLMNOPQRSTUVWXYZ0123456789+-._"
const nameAlphabet = nameAllowed + "/\\: "

func validName(n string) bool {
	if n == "" {
		return false
	}
	for i := 0; i < len(n); i++ {
		if strings.IndexByte(nameAllowed, n[i]) < 0 {
			return false
		}
	}
	return true
}

func jobsPluginNames() []func(*batch) {
	var names []string
	maxLen := R.Pick(2, 3)
	var rec func(prefix string, left int)
	rec = func(prefix string, left int) {
		if prefix != "" {
			names = append(names, prefix)
		}
		if left == 0 {
			return
		}
		for i := 0; i < len(nameAlphabet); i++ {
			rec(prefix+nameAlphabet[i:i+1], left-1)
		}
	}
	rec("", maxLen)
	exhaustive := len(names)
	// every printable ASCII character alone and in pairs
	for a := byte(0x20); a <= 0x7e; a++ {
		names = append(names, string([]byte{a}))
		for c := byte(0x20); c <= 0x7e; c++ {
			names = append(names, string([]byte{a, c}))
		}
	}
	// sampled longer names
	rng := R.RNG("plugin-names")
	for i := 0; i < R.Pick(20000, 60000); i++ {
		n := 3 + rng.Intn(14)
		if !R.Thorough() && i%2 == 0 {
			n = 3
		}
		var sb strings.Builder
		for j := 0; j < n; j++ {
			if rng.Intn(12) == 0 {
				sb.WriteByte(nameAlphabet[66+rng.Intn(4)])
			} else {
				sb.WriteByte(nameAllowed[rng.Intn(len(nameAllowed))])
			}
		}
		names = append(names, sb.String())
	}
	names = append(names, "", strings.Repeat("a", 64), strings.Repeat("Z", 200), "age", "secret-key", "AGE-PLUGIN-x", "plugin-", "-", "--", "1", "11", "x1", "1x")
	R.Set("plugin_names", map[string]any{"total": len(names), "exhaustive_up_to_length": maxLen, "exhaustive_count": exhaustive, "alphabet": nameAlphabet})

	const chunk = 2000
	var jobs []func(*batch)
	for c := 0; c*chunk < len(names); c++ {
		c := c
		jobs = append(jobs, func(b *batch) {
			rng := mon.NewRNG(R.Seed, fmt.Sprintf("plugin-name-data/%d", c))
			hi := (c + 1) * chunk
			if hi > len(names) {
				hi = len(names)
			}
			for _, n := range names[c*chunk : hi] {
				checkName(b, rng, n)
			}
		})
	}
	// names outside ASCII never make a valid string
	jobs = append(jobs, func(b *batch) {
		rng := R.RNG("plugin-names-nonascii")
		for _, rp := range nonASCII {
			for _, pat := range []string{"%s", "a%s", "%sa", "na%sme"} {
				name := fmt.Sprintf(pat, rp.s)
				data := mon.Bytes(rng, rng.Intn(40))
				more := map[string]any{"name_hex": fmt.Sprintf("%x", name)}
				R.Distinct("name-nonascii:" + name)
				b.add("plugin names", "with a non-ASCII / non-printable character")
				for _, lowerData := range []bool{true, false} {
					mustReject(b, pPlugR, spell("age1"+name, to5(data), !lowerData), "nonascii-accepted", rp.name+":plugin-name", "plugin recipient whose name contains "+rp.name, more)
					mustReject(b, pPlugI, spell("AGE-PLUGIN-"+name+"-", to5(data), lowerData), "nonascii-accepted", rp.name+":plugin-name", "plugin identity whose name contains "+rp.name, more)
				}
				R.Guard("encode-nonascii-name", func() {
					for _, e := range []string{plugin.EncodeRecipient(name, data), plugin.EncodeIdentity(name, data)} {
						b.evals++
						if e != "" {
							// printed by the library: must at least parse back
							nr, dr, err1 := plugin.ParseRecipient(e)
							ni, di, err2 := plugin.ParseIdentity(e)
							if !(err1 == nil && nr == name && bytes.Equal(dr, data)) && !(err2 == nil && ni == name && bytes.Equal(di, data)) {
								violate("round-trip:plugin.Encode*:non-ascii-name:"+rp.name, fmt.Sprintf("Encode printed %q for the name %q, which does not parse back to it", e, name), more)
							}
						}
					}
				})
			}
		}
	})
	return jobs
}

func checkName(b *batch, rng *rand.Rand, name string) {
	data := mon.Bytes(rng, rng.Intn(65))
	valid := validName(name)
	lower, upper := strings.ToLower(name), strings.ToUpper(name)
	R.Distinct("name:" + name)
	cls := fmt.Sprintf("length %d, %s", len(name), map[bool]string{true: "valid", false: "invalid"}[valid])
	if len(name) > 3 {
		cls = fmt.Sprintf("length 4+, %s", map[bool]string{true: "valid", false: "invalid"}[valid])
	}
	b.add("plugin names", cls)
	b.add("plugin payload length", fmt.Sprintf("%02d", len(data)/8*8))
	more := map[string]any{"name": name, "data_hex": fmt.Sprintf("%x", data)}

	type fam struct {
		what   string
		enc    func(string, []byte) string
		parse  func(string) (string, []byte, error)
		p      *parser
		refHRP string
	}
	for _, f := range []fam{
		{"plugin.EncodeRecipient/ParseRecipient", plugin.EncodeRecipient, plugin.ParseRecipient, pPlugR, "age1" + lower},
		{"plugin.EncodeIdentity/ParseIdentity", plugin.EncodeIdentity, plugin.ParseIdentity, pPlugI, "AGE-PLUGIN-" + upper + "-"},
	} {
		f := f
		ref := ""
		if name != "" {
			ref = encode5(f.refHRP, to5(data), f.p == pPlugI)
		}
		R.Guard("plugin-name:"+f.what, func() {
			e := f.enc(name, data)
			b.evals++
			if valid && e == "" {
				violate("valid-name-refused:"+f.what, fmt.Sprintf("%s refuses to encode the valid plugin name %q", f.what, name), more)
				return
			}
			if e != "" {
				// printed by the library => parses back to the same (lower-case) name and payload
				n2, d2, err := f.parse(e)
				b.evals++
				if err != nil || n2 != lower || !bytes.Equal(d2, data) {
					violate("round-trip:"+f.what+":"+map[bool]string{true: "valid-name", false: "invalid-name"}[valid],
						fmt.Sprintf("%s printed %q for (%q, %x); parsing it back gives (%q, %x, %v)", f.what, e, name, data, n2, d2, err), more)
					return
				}
				if valid && e != ref {
					violate("encode-differs-from-reference:"+f.what, fmt.Sprintf("%s printed %q for (%q, %x); Bech32 spells it %q", f.what, e, name, data, ref), more)
					return
				}
				b.add("inverse", f.what+" round trip")
			}
		})
		if ref == "" {
			continue
		}
		if valid {
			mustAccept(b, f.p, ref, "reference spelling under a valid plugin name", more)
		} else {
			canonIfAccepted(b, f.p, ref, "reference spelling under an invalid plugin name", more)
		}
	}
	if valid {
		R.SampleN("plugin-name", 2, map[string]any{"name": name, "payload_len": len(data), "recipient": plugin.EncodeRecipient(name, data), "identity": plugin.EncodeIdentity(name, data), "result": "both parse back to the lower-case name and payload"})
	}
}

// ---- the bare bech32 package ---------------------------------------------------------------

func jobsBech32Level() []func(*batch) {
	total := R.Pick(20000, 300000)
	const chunk = 2000
	var jobs []func(*batch)
	for c := 0; c*chunk < total; c++ {
		c := c
		jobs = append(jobs, func(b *batch) {
			rng := mon.NewRNG(R.Seed, fmt.Sprintf("bech32-level/%d", c))
			for i := 0; i < chunk; i++ {
				bech32Case(b, rng)
			}
		})
	}
	return jobs
}

func bech32Case(b *batch, rng *rand.Rand) {
	style := rng.Intn(3) // 0 lower, 1 upper, 2 letterless
	n := 1 + rng.Intn(20)
	h := make([]byte, n)
	for i := range h {
		for {
			c := byte(33 + rng.Intn(94))
			if style == 2 && isLetter(c) || style == 0 && isUpper(c) && isLetter(c) || style == 1 && isLetter(c) && !isUpper(c) {
				continue
			}
			h[i] = c
			break
		}
	}
	hrp := string(h)
	styleName := []string{"lower-case HRP", "upper-case HRP", "letterless HRP"}[style]
	if style != 2 && !hasLetter(hrp) {
		styleName = "letterless HRP"
	}
	data := mon.Bytes(rng, rng.Intn(65))
	ref := refage.Bech32Encode(hrp, data)
	R.Distinct("bech32:" + ref)
	more := map[string]any{"hrp": hrp, "data_hex": fmt.Sprintf("%x", data)}
	b.add("bech32 level", styleName)
	R.Guard("bech32-level", func() {
		lib, err := bech32.Encode(hrp, data)
		b.evals++
		if err != nil || lib != ref {
			violate("encode-differs-from-reference:bech32.Encode", fmt.Sprintf("bech32.Encode(%q, %x) = %q, %v; Bech32 spells it %q", hrp, data, lib, err, ref), more)
			return
		}
		h2, d2, err := bech32.Decode(lib)
		b.evals++
		if err != nil || h2 != hrp || !bytes.Equal(d2, data) {
			violate("round-trip:bech32.Decode", fmt.Sprintf("bech32.Decode(Encode(%q, %x)) = (%q, %x, %v)", hrp, data, h2, d2, err), more)
			return
		}
		b.add("inverse", "bech32 Encode/Decode round trip")
	})
	mustAccept(b, pBech, ref, "reference spelling, "+styleName, more)
	// the same string with the data part in the other case
	var other string
	if ref == strings.ToUpper(ref) && hasLetter(hrp) {
		other = hrp + strings.ToLower(ref[len(hrp):])
	} else {
		other = hrp + strings.ToUpper(ref[len(hrp):])
	}
	if other == ref {
		return
	}
	if hasLetter(hrp) {
		mustReject(b, pBech, other, "mixed-case-accepted", "random HRP, data part in the other case", "random HRP, data part in the other case", more)
	} else {
		canonIfAccepted(b, pBech, other, "letterless HRP, data part in upper case", more)
	}
}
