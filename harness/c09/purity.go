package main

// "Arguments are left alone."
//
// The property speaks of strings printed by the library parsing back to the
// same key *for all payloads*. A printing function that writes into memory it
// was only given to read keeps every single string right and still breaks
// that: the payload the caller holds next to the one just printed is no longer
// the one the caller put there. So every call into the printing and parsing
// functions is also made with
//
//	byte-slice arguments that are sub-slices of a larger arena filled with
//	non-zero sentinel bytes (payload lengths 0..40, spare capacity behind the
//	slice 0, 1, 3, 4, 5, 64 and "rest of the arena"), strings that are
//	substrings of a larger string,
//
// and afterwards
//
//	(a) the whole arena — before the slice, the slice, the bytes between len
//	    and cap, and beyond cap — must equal its snapshot;
//	(b) printing payload A, then payload B that lies right behind A in the
//	    same arena, then parsing both strings gives exactly A and B (and the
//	    same for a prefix of a record followed by the whole record);
//	(c) slices returned by Decode / Parse* are the caller's: changing one
//	    does not change another result, later calls do not change it, and the
//	    library hands out the same value again for the same input;
//	(d) the same call on the same argument gives the same result twice.

import (
	"bytes"
	"fmt"
	"strings"
	"sync"

	"filippo.io/age"
	"filippo.io/age/internal/bech32"
	"filippo.io/age/plugin"
	"filippo.io/age/zverif/mon"
)

type printFn struct {
	name  string
	print func(data []byte) string
	parse func(s string) ([]byte, error)
}

func printFns() []printFn {
	var fns []printFn
	for _, hrp := range []string{"age", "AGE-SECRET-KEY-", "age1example", "xyz"} {
		hrp := hrp
		fns = append(fns, printFn{"bech32.Encode",
			func(d []byte) string { s, _ := bech32.Encode(hrp, d); return s },
			func(s string) ([]byte, error) { _, d, err := bech32.Decode(s); return d, err }})
	}
	for _, name := range []string{"example", "x", "fido2-hmac"} {
		name := name
		fns = append(fns,
			printFn{"plugin.EncodeRecipient", func(d []byte) string { return plugin.EncodeRecipient(name, d) },
				func(s string) ([]byte, error) { _, d, err := plugin.ParseRecipient(s); return d, err }},
			printFn{"plugin.EncodeIdentity", func(d []byte) string { return plugin.EncodeIdentity(name, d) },
				func(s string) ([]byte, error) { _, d, err := plugin.ParseIdentity(s); return d, err }})
	}
	return fns
}

var (
	purityMu   sync.Mutex
	purityHard = map[string]int64{} // calls with spare capacity >= 4 and len%5 != 0, per printing function
)

// sentinelArena returns n non-zero pseudo-random bytes.
func sentinelArena(label string, n int) []byte {
	a := detBytes(label, n)
	for i := range a {
		if a[i] == 0 {
			a[i] = 0xA5
		}
	}
	return a
}

const arenaPre, arenaPost = 16, 96

var spareCaps = []int{0, 1, 3, 4, 5, 64, -1} // -1: capacity runs to the end of the arena

func jobsPurity() []func(*batch) {
	reps := R.Pick(2, 20)
	var jobs []func(*batch)
	for fi, f := range printFns() {
		fi, f := fi, f
		jobs = append(jobs, func(b *batch) {
			hard := int64(0)
			for L := 0; L <= 40; L++ {
				for _, spare := range spareCaps {
					for rep := 0; rep < reps; rep++ {
						arena := sentinelArena(fmt.Sprintf("c09-arena-%d-%d-%d-%d-%d", R.Seed, fi, L, spare, rep), arenaPre+L+arenaPost)
						snap := append([]byte(nil), arena...)
						hi := arenaPre + L + spare
						if spare < 0 {
							hi = len(arena)
						}
						arg := arena[arenaPre : arenaPre+L : hi]
						want := append([]byte(nil), arg...)
						more := map[string]any{"function": f.name, "payload_len": L, "spare_capacity": cap(arg) - L, "payload_hex": fmt.Sprintf("%x", want)}
						R.Distinct(fmt.Sprintf("purity:%d:%d:%d:%d", fi, L, spare, rep))
						b.add("arguments-left-alone: printing calls, by spare capacity", fmt.Sprintf("%s, spare %d", f.name, spare))
						if cap(arg)-L >= 4 && L%5 != 0 {
							hard++
						}
						var s1, s2 string
						R.Guard("purity:"+f.name, func() { s1 = f.print(arg); s2 = f.print(arg) })
						b.evals += 2
						if !bytes.Equal(arena, snap) {
							at := firstDiffAt(arena, snap)
							violate("argument-modified:"+f.name,
								fmt.Sprintf("%s(payload of %d bytes with %d bytes of spare capacity) changed the caller's memory at offset %+d relative to the end of the payload (arena byte %#x -> %#x)",
									f.name, L, cap(arg)-L, at-(arenaPre+L), snap[at], arena[at]), more)
							copy(arena, snap)
						}
						if s1 != s2 {
							violate("not-deterministic:"+f.name, fmt.Sprintf("%s printed %q and then %q for the same %d-byte payload", f.name, s1, s2, L), more)
						}
						// the string parses back to the payload the caller put there
						var d1, d2 []byte
						var err error
						R.Guard("purity:parse:"+f.name, func() { d1, err = f.parse(s1); d2, _ = f.parse(s1) })
						b.evals += 2
						if err != nil || !bytes.Equal(d1, want) {
							violate("round-trip:"+f.name+":arena", fmt.Sprintf("%s printed %q for %x, which parses back as %x (%v)", f.name, s1, want, d1, err), more)
							continue
						}
						// (c) results are the caller's
						if !bytes.Equal(d1, d2) {
							violate("not-deterministic:parse-of-"+f.name, fmt.Sprintf("parsing %q twice gave %x and %x", s1, d1, d2), more)
						}
						for i := range d1 {
							d1[i] ^= 0xff
						}
						if full := d1[:cap(d1)]; len(full) > len(d1) {
							for i := len(d1); i < len(full); i++ {
								full[i] = 0xEE
							}
						}
						if !bytes.Equal(d2, want) {
							violate("returned-slices-alias:parse-of-"+f.name, fmt.Sprintf("changing the slice returned for %q changed the slice returned by a second call: %x, want %x", s1, d2, want), more)
						}
						// later calls (also on other inputs) leave d2 alone
						R.Guard("purity:later:"+f.name, func() {
							other := sentinelArena("c09-other-"+s1, L+3)
							so := f.print(other)
							f.parse(so)
							f.parse(s1[:len(s1)-1] + "q")
							f.parse(so)
						})
						if !bytes.Equal(d2, want) {
							violate("returned-value-not-stable:parse-of-"+f.name, fmt.Sprintf("the slice returned for %q changed to %x after later calls, want %x", s1, d2, want), more)
						}
						if !bytes.Equal(arena, snap) {
							violate("argument-modified:"+f.name+":by-later-calls", fmt.Sprintf("the arena holding the %d-byte payload changed during later parse calls", L), more)
						}
					}
				}
			}
			purityMu.Lock()
			purityHard[f.name] += hard
			purityMu.Unlock()
		})
		// (b) adjacent payloads, and a prefix followed by the whole record
		jobs = append(jobs, func(b *batch) {
			for LA := 0; LA <= 40; LA++ {
				for _, LB := range []int{1, 4, 5, 7, 16, 32, 33, 40} {
					for _, limitCap := range []bool{false, true} {
						arena := sentinelArena(fmt.Sprintf("c09-adj-%d-%d-%d-%d", R.Seed, fi, LA, LB), arenaPre+LA+LB+arenaPost)
						snap := append([]byte(nil), arena...)
						a0, b0 := arenaPre, arenaPre+LA
						A := arena[a0 : a0+LA]
						if limitCap {
							A = arena[a0 : a0+LA : b0+LB]
						}
						B := arena[b0 : b0+LB]
						wantA, wantB := append([]byte(nil), A...), append([]byte(nil), B...)
						more := map[string]any{"function": f.name, "len_a": LA, "len_b": LB, "a_hex": fmt.Sprintf("%x", wantA), "b_hex": fmt.Sprintf("%x", wantB)}
						R.Distinct(fmt.Sprintf("purity-adj:%d:%d:%d:%v", fi, LA, LB, limitCap))
						b.add("arguments-left-alone: adjacent payloads", f.name)
						var sA, sB string
						var dA, dB []byte
						var eA, eB error
						parseCopy := func(s string) ([]byte, error) {
							d, err := f.parse(s)
							return append([]byte(nil), d...), err
						}
						R.Guard("purity-adjacent:"+f.name, func() {
							sA = f.print(A)
							sB = f.print(B)
							dA, eA = parseCopy(sA)
							dB, eB = parseCopy(sB)
						})
						b.evals += 4
						if eA != nil || eB != nil || !bytes.Equal(dA, wantA) || !bytes.Equal(dB, wantB) {
							// is it the neighbourhood, or does this payload never round-trip?
							var cA, cB []byte
							var ceA, ceB error
							R.Guard("purity-adjacent-clean:"+f.name, func() {
								cA, ceA = parseCopy(f.print(append(make([]byte, 0, len(wantA)), wantA...)))
								cB, ceB = parseCopy(f.print(append(make([]byte, 0, len(wantB)), wantB...)))
							})
							if ceA != nil || ceB != nil || !bytes.Equal(cA, wantA) || !bytes.Equal(cB, wantB) {
								violate("round-trip:"+f.name+":arena", fmt.Sprintf("%s: payloads %x / %x print and parse back as %x (%v) / %x (%v) even from slices of their own", f.name, wantA, wantB, cA, ceA, cB, ceB), more)
							} else {
								violate("adjacent-payload-corrupted:"+f.name,
									fmt.Sprintf("%s printed A (%d bytes) and then B (%d bytes) lying right behind A in one buffer; the strings parse back as A=%x (%v) B=%x (%v), the caller had A=%x B=%x (printed from slices of their own, both round-trip)", f.name, LA, LB, dA, eA, dB, eB, wantA, wantB), more)
							}
						}
						if !bytes.Equal(arena, snap) {
							violate("argument-modified:"+f.name, fmt.Sprintf("%s changed the caller's buffer holding two adjacent payloads (%d and %d bytes) at arena offset %d", f.name, LA, LB, firstDiffAt(arena, snap)), more)
							copy(arena, snap)
						}
						// prefix of a record, then the whole record
						rec := arena[a0 : a0+LA+LB]
						wantRec := append([]byte(nil), rec...)
						var sP, sW string
						var dW []byte
						var eW error
						R.Guard("purity-prefix:"+f.name, func() {
							sP = f.print(rec[:LA])
							sW = f.print(rec)
							dW, eW = parseCopy(sW)
						})
						b.evals += 3
						_ = sP
						if eW != nil || !bytes.Equal(dW, wantRec) {
							var cW []byte
							var ceW error
							R.Guard("purity-prefix-clean:"+f.name, func() {
								cW, ceW = parseCopy(f.print(append(make([]byte, 0, len(wantRec)), wantRec...)))
							})
							if ceW == nil && bytes.Equal(cW, wantRec) {
								violate("adjacent-payload-corrupted:"+f.name+":prefix-then-whole",
									fmt.Sprintf("%s printed the first %d bytes of a %d-byte record and then the whole record; the second string parses back as %x (%v), the record was %x", f.name, LA, LA+LB, dW, eW, wantRec), more)
							} else {
								violate("round-trip:"+f.name+":arena", fmt.Sprintf("%s: payload %x prints and parses back as %x (%v) even from a slice of its own", f.name, wantRec, cW, ceW), more)
							}
						}
						copy(arena, snap)
					}
				}
			}
		})
	}
	jobs = append(jobs, purityStrings)
	return jobs
}

func firstDiffAt(a, b []byte) int {
	for i := range a {
		if a[i] != b[i] {
			return i
		}
	}
	return -1
}

// purityStrings: string arguments handed over as substrings of a larger
// string; printing methods without arguments called twice.
func purityStrings(b *batch) {
	rng := R.RNG("purity-strings")
	ui := &plugin.ClientUI{}
	for i := 0; i < R.Pick(40, 400); i++ {
		k := mon.Bytes(rng, 32)
		sI := encode5("AGE-SECRET-KEY-", to5(k), true)
		data := mon.Bytes(rng, rng.Intn(41))
		pR := encode5("age1example", to5(data), false)
		pI := encode5("AGE-PLUGIN-EXAMPLE-", to5(data), true)
		R.Distinct("purity-strings:" + sI)
		b.add("arguments-left-alone: string arguments as substrings", "key sets")
		R.Guard("purity-strings", func() {
			id, err := age.ParseX25519Identity(asSub(sI))
			if err != nil {
				violate("valid-string-rejected:ParseX25519Identity:substring of a larger string", fmt.Sprintf("%q rejected when handed over as a substring: %v", sI, err), nil)
				return
			}
			s1 := id.String()
			r1 := id.Recipient().String()
			s2 := id.String()
			r2 := id.Recipient().String()
			b.evals += 5
			if s1 != sI || s2 != sI || r1 != r2 {
				violate("not-deterministic:X25519Identity.String", fmt.Sprintf("identity parsed from %q prints %q, %q; recipient %q, %q", sI, s1, s2, r1, r2), nil)
				return
			}
			rc, err := age.ParseX25519Recipient(asSub(r1))
			if err != nil || rc.String() != r1 || rc.String() != r1 {
				violate("not-deterministic:X25519Recipient.String", fmt.Sprintf("recipient %q handed over as a substring: %v / %v", r1, rc, err), nil)
			}
			b.evals += 3
			for _, c := range []struct {
				what string
				f    func(string) (string, []byte, error)
				s    string
			}{{"plugin.ParseRecipient", plugin.ParseRecipient, pR}, {"plugin.ParseIdentity", plugin.ParseIdentity, pI},
				{"bech32.Decode", bech32.Decode, pR}, {"bech32.Decode", bech32.Decode, sI}} {
				n1, d1, err1 := c.f(asSub(c.s))
				n2, d2, err2 := c.f(c.s)
				b.evals += 2
				wantD := data
				if c.s == sI {
					wantD = k
				}
				if err1 != nil || err2 != nil || n1 != n2 || !bytes.Equal(d1, wantD) || !bytes.Equal(d2, wantD) {
					violate("not-deterministic:"+c.what+":substring", fmt.Sprintf("%s(%q) as a substring gives (%q, %x, %v), alone (%q, %x, %v), payload %x", c.what, c.s, n1, d1, err1, n2, d2, err2, wantD), nil)
				}
			}
			pr, err := plugin.NewRecipient(asSub(pR), ui)
			pr2, err2 := plugin.NewRecipient(pR, ui)
			pi, err3 := plugin.NewIdentity(asSub(pI), ui)
			pi2, err4 := plugin.NewIdentity(pI, ui)
			b.evals += 4
			if err != nil || err2 != nil || err3 != nil || err4 != nil {
				violate("valid-string-rejected:plugin.NewRecipient/NewIdentity", fmt.Sprintf("%q / %q: %v %v %v %v", pR, pI, err, err2, err3, err4), nil)
				return
			}
			if pr.Name() != "example" || pr2.Name() != "example" || pi.Name() != "example" || pi2.Name() != "example" || pi.Recipient().Name() != "example" {
				violate("round-trip:plugin.NewRecipient/NewIdentity:name", fmt.Sprintf("names %q %q %q %q for %q / %q", pr.Name(), pr2.Name(), pi.Name(), pi2.Name(), pR, pI), nil)
			}
		})
	}
}

// asSub returns s as a substring of a larger string (never its own allocation).
func asSub(s string) string {
	big := strings.Repeat("l", 7) + s + strings.Repeat("Q1", 9)
	return big[7 : 7+len(s)]
}

func finishPurity() {
	purityMu.Lock()
	defer purityMu.Unlock()
	R.Set("arguments_left_alone_calls_with_spare_capacity_ge_4_and_len_not_multiple_of_5", purityHard)
	for _, fn := range []string{"bech32.Encode", "plugin.EncodeRecipient", "plugin.EncodeIdentity"} {
		if purityHard[fn] == 0 {
			R.Inconclusive("arguments-left-alone: %s was never called with spare capacity >= 4 behind a payload whose length is not a multiple of 5", fn)
		}
	}
}
