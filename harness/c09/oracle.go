package main

import (
	"encoding/hex"
	"errors"
	"fmt"
	"runtime/debug"
	"strings"

	"filippo.io/age"
	"filippo.io/age/internal/bech32"
	"filippo.io/age/plugin"
	"filippo.io/age/zverif/refage"
)

// parser is one entry point of the code under test, reduced to "does it
// accept s, and if so, what does the library print for what it parsed".
type parser struct {
	name string
	run  func(s string) (ok bool, reenc string, canonWaived bool, err error)
}

var (
	pNatR = &parser{"ParseX25519Recipient", func(s string) (bool, string, bool, error) {
		r, err := age.ParseX25519Recipient(s)
		if err != nil {
			return false, "", false, err
		}
		if r == nil {
			return false, "", false, errors.New("nil recipient with nil error")
		}
		return true, r.String(), false, nil
	}}
	pNatI = &parser{"ParseX25519Identity", func(s string) (bool, string, bool, error) {
		i, err := age.ParseX25519Identity(s)
		if err != nil {
			return false, "", false, err
		}
		if i == nil {
			return false, "", false, errors.New("nil identity with nil error")
		}
		return true, i.String(), false, nil
	}}
	pPlugR = &parser{"plugin.ParseRecipient", func(s string) (bool, string, bool, error) {
		name, data, err := plugin.ParseRecipient(s)
		if err != nil {
			return false, "", false, err
		}
		return true, plugin.EncodeRecipient(name, data), false, nil
	}}
	pPlugI = &parser{"plugin.ParseIdentity", func(s string) (bool, string, bool, error) {
		name, data, err := plugin.ParseIdentity(s)
		if err != nil {
			return false, "", false, err
		}
		return true, plugin.EncodeIdentity(name, data), false, nil
	}}
	pBech = &parser{"bech32.Decode", func(s string) (bool, string, bool, error) {
		hrp, data, err := bech32.Decode(s)
		if err != nil {
			return false, "", false, err
		}
		re, eerr := bech32.Encode(hrp, data)
		if eerr != nil {
			re = "<bech32.Encode refuses what Decode returned: " + eerr.Error() + ">"
		}
		// The property speaks of recipient and identity strings; all of their
		// human-readable parts contain letters. Without a letter the case of
		// the string cannot be carried by the HRP, and Encode prints lower
		// case: not demanded, only counted.
		return true, re, !hasLetter(hrp), nil
	}}
)

func hasLetter(s string) bool {
	for i := 0; i < len(s); i++ {
		if c := s[i] | 0x20; c >= 'a' && c <= 'z' {
			return true
		}
	}
	return false
}

var errPanicked = errors.New("panic")

func call(p *parser, s string) (ok bool, re string, waived bool, err error) {
	defer func() {
		if x := recover(); x != nil {
			violate("panic:"+p.name, fmt.Sprintf("%s panicked on %+q: %v\n%s", p.name, s, x, debug.Stack()), input(p, s, nil))
			ok, err = false, errPanicked
		}
	}()
	return p.run(s)
}

func input(p *parser, s string, more map[string]any) map[string]any {
	m := map[string]any{"parser": p.name, "input": s, "input_hex": hex.EncodeToString([]byte(s))}
	for k, v := range more {
		m[k] = v
	}
	return m
}

var errClasses = []string{"mixed case", "separator", "invalid character human-readable", "invalid character data part",
	"invalid character", "invalid checksum", "illegal zero padding", "non-zero padding", "invalid type", "unknown type",
	"invalid X25519 public key", "invalid X25519 secret key", "not a plugin", "invalid plugin name"}

// errClass is used for the coverage tables only, never by an oracle.
func errClass(err error) string {
	if err == nil {
		return "nil"
	}
	e := err.Error()
	// the native recipient error quotes the input first
	if i := strings.LastIndex(e, "\": "); i >= 0 {
		e = e[i:]
	}
	for _, c := range errClasses {
		if strings.Contains(e, c) {
			return c
		}
	}
	return "other"
}

// mustReject: the property names s as never acceptable to p.
func mustReject(b *batch, p *parser, s, kind, detail, gen string, more map[string]any) bool {
	ok, re, _, err := call(p, s)
	b.evals++
	if !ok {
		b.add("rejections by error class: "+p.name, errClass(err))
		b.add("must-reject cases: "+p.name, kind)
		return true
	}
	violate(kind+":"+p.name+":"+detail,
		fmt.Sprintf("%s accepted %+q [%s, %s, %s]; the library prints the parsed value as %+q", p.name, s, gen, kind, detail, re),
		input(p, s, more))
	return false
}

// canonIfAccepted: nothing forbids p to accept s, but if it does, what it
// parsed must print back as exactly s.
func canonIfAccepted(b *batch, p *parser, s, gen string, more map[string]any) (accepted bool) {
	ok, re, waived, err := call(p, s)
	b.evals++
	if !ok {
		b.add("rejections by error class: "+p.name, errClass(err))
		return false
	}
	if re == s {
		b.add("accepted and canonical: "+p.name, gen)
		return true
	}
	if waived {
		b.add("accepted, letterless HRP, prints in lower case (outside the property)", gen)
		return true
	}
	violate("noncanonical:"+p.name+":"+gen,
		fmt.Sprintf("%s accepted %+q [%s] but what it parsed is printed as %+q: two spellings of one key", p.name, s, gen, re),
		input(p, s, more))
	return true
}

// mustAccept: s is a valid string; it must parse and print back to itself.
func mustAccept(b *batch, p *parser, s, gen string, more map[string]any) bool {
	ok, re, _, err := call(p, s)
	b.evals++
	if !ok {
		if err != errPanicked {
			violate("valid-string-rejected:"+p.name+":"+gen, fmt.Sprintf("%s rejected the valid string %+q [%s]: %v", p.name, s, gen, err), input(p, s, more))
		}
		return false
	}
	if re != s {
		violate("round-trip:"+p.name+":"+gen, fmt.Sprintf("%s parsed the valid string %+q [%s] but prints it back as %+q", p.name, s, gen, re), input(p, s, more))
		return false
	}
	b.add("valid strings accepted and printed back: "+p.name, gen)
	return true
}

// ---- a second, 5-bit-level encoder (the reference one takes bytes only) ----

const charset = "qpzry9x8gf2tvdw0s3jn54khce6mua7l"

var gen32 = [5]uint32{0x3b6a57b2, 0x26508e6d, 0x1ea119fa, 0x3d4233dd, 0x2a1462b3}

func polymod(pre uint32, v []byte) uint32 {
	chk := pre
	for _, x := range v {
		top := chk >> 25
		chk = (chk&0x1ffffff)<<5 ^ uint32(x)
		for i := uint(0); i < 5; i++ {
			if top>>i&1 == 1 {
				chk ^= gen32[i]
			}
		}
	}
	return chk
}

// encode5 spells hrp + "1" + the given 5-bit groups + a valid checksum, in
// upper case when upper is set. hrp is taken literally apart from the case
// folding of the checksum input.
func encode5(hrp string, vals []byte, upper bool) string {
	l := strings.ToLower(hrp)
	var ex []byte
	for i := 0; i < len(l); i++ {
		ex = append(ex, l[i]>>5)
	}
	ex = append(ex, 0)
	for i := 0; i < len(l); i++ {
		ex = append(ex, l[i]&31)
	}
	c := polymod(1, ex)
	c = polymod(c, vals)
	c = polymod(c, []byte{0, 0, 0, 0, 0, 0}) ^ 1
	var sb strings.Builder
	sb.WriteString(hrp)
	sb.WriteByte('1')
	for _, v := range vals {
		sb.WriteByte(charset[v])
	}
	for i := 0; i < 6; i++ {
		sb.WriteByte(charset[(c>>uint(5*(5-i)))&31])
	}
	if upper {
		return strings.ToUpper(sb.String())
	}
	return sb.String()
}

// to5 regroups bytes into 5-bit groups, zero padded (the canonical form).
func to5(data []byte) []byte {
	var v []byte
	acc, bits := uint(0), 0
	for _, b := range data {
		acc = acc<<8 | uint(b)
		bits += 8
		for bits >= 5 {
			bits -= 5
			v = append(v, byte(acc>>uint(bits))&31)
		}
		acc &= 1<<uint(bits) - 1
	}
	if bits > 0 {
		v = append(v, byte(acc<<uint(5-bits))&31)
	}
	return v
}

// from5 regroups 5-bit groups into whole bytes and reports the left-over bits.
func from5(v []byte) (data []byte, leftBits int, left uint) {
	acc, bits := uint(0), 0
	for _, x := range v {
		acc = acc<<5 | uint(x)
		bits += 5
		for bits >= 8 {
			bits -= 8
			data = append(data, byte(acc>>uint(bits)))
		}
		acc &= 1<<uint(bits) - 1
	}
	return data, bits, acc
}

func selfCheckEncoder() error {
	for i := 0; i < 200; i++ {
		data := detBytes(fmt.Sprintf("c09-selfcheck-%d", i), i%70)
		for _, hrp := range []string{"age", "AGE-SECRET-KEY-", "age1yubikey", "AGE-PLUGIN-YUBIKEY-", "x", "a1b"} {
			upper := strings.ToUpper(hrp) == hrp && strings.ToLower(hrp) != hrp
			want := refage.Bech32Encode(hrp, data)
			if got := encode5(hrp, to5(data), upper); got != want {
				return fmt.Errorf("encode5(%q, %x) = %q, reference %q", hrp, data, got, want)
			}
			h, d, err := refage.Bech32Decode(want)
			if err != nil || h != hrp || string(d) != string(data) {
				return fmt.Errorf("reference does not decode its own %q: %q %x %v", want, h, d, err)
			}
			d2, lb, l := from5(to5(data))
			if string(d2) != string(data) || lb >= 5 || l != 0 {
				return fmt.Errorf("from5/to5 disagree on %x", data)
			}
		}
	}
	return nil
}
