package main

import (
	"bytes"
	"crypto/ecdh"
	"encoding/hex"
	"fmt"
	"strings"

	"filippo.io/age"
	"filippo.io/age/plugin"
	"filippo.io/age/zverif/mon"
	"filippo.io/age/zverif/refage"
)

func detBytes(label string, n int) []byte { return mon.DetBytes(label, n) }

// base is one valid key string that the mutation sections start from.
type base struct {
	s    string
	typ  string  // recipient | identity | plugin-recipient | plugin-identity
	nat  *parser // native parser that must accept s (nil for plugin strings)
	plug *parser // plugin parser of the same family (recipient / identity)
	sep  int     // index of the separator '1'
	up   bool    // the string is upper case
}

func newBase(s, typ string) base {
	b := base{s: s, typ: typ, sep: strings.LastIndexByte(s, '1')}
	switch typ {
	case "recipient":
		b.nat, b.plug = pNatR, pPlugR
	case "identity":
		b.nat, b.plug, b.up = pNatI, pPlugI, true
	case "plugin-recipient":
		b.plug = pPlugR
	case "plugin-identity":
		b.plug, b.up = pPlugI, true
	}
	return b
}

func fixedKeys() [][]byte {
	var ks [][]byte
	ks = append(ks, make([]byte, 32), bytes.Repeat([]byte{0xff}, 32), bytes.Repeat([]byte{0x01}, 32))
	for _, bit := range []int{0, 7, 127, 128, 255} {
		k := make([]byte, 32)
		k[bit/8] = 1 << uint(bit%8)
		ks = append(ks, k)
	}
	for i := 0; i < 8; i++ {
		ks = append(ks, detBytes(fmt.Sprintf("c09-fixed-key-%d", i), 32))
	}
	return ks
}

// sectionKeys builds the valid strings and checks the inverse direction:
// reference spelling -> library parse -> library print -> library parse, the
// derived recipient, and that the parsed recipient and identity still are the
// same key functionally (Wrap by one, Unwrap by the other).
func sectionKeys() []base {
	r := R
	nKeys := r.Pick(40, 500)
	keys := fixedKeys()
	rng := r.RNG("keys")
	for len(keys) < nKeys {
		keys = append(keys, mon.Bytes(rng, 32))
	}
	r.Set("keys", len(keys))
	r.Set("fixed_keys", len(fixedKeys()))

	bases := make([]base, 2*len(keys))
	mon.Par(len(keys), func(i int) {
		b := newBatch()
		defer b.flush()
		k := keys[i]
		kh := hex.EncodeToString(k)
		more := map[string]any{"key_hex": kh}
		sI := refage.Bech32Encode("AGE-SECRET-KEY-", k)
		pub := refage.X25519Public(k)
		sR := refage.Bech32Encode("age", pub)
		bases[2*i] = newBase(sI, "identity")
		bases[2*i+1] = newBase(sR, "recipient")
		r.Distinct("valid:" + sI)
		r.Distinct("valid:" + sR)

		okI := mustAccept(b, pNatI, sI, "reference spelling of an identity", more)
		okR := mustAccept(b, pNatR, sR, "reference spelling of a recipient", more)
		// any 32 bytes are a syntactically valid recipient, too
		sP := refage.Bech32Encode("age", k)
		r.Distinct("valid:" + sP)
		mustAccept(b, pNatR, sP, "reference spelling of a recipient (raw 32 bytes as the point)", more)
		// bare bech32 and the plugin parsers see the same strings
		mustAccept(b, pBech, sI, "native identity at the bech32 level", more)
		mustAccept(b, pBech, sR, "native recipient at the bech32 level", more)
		canonIfAccepted(b, pPlugI, sI, "native identity offered to the plugin parser", more)
		canonIfAccepted(b, pPlugR, sR, "native recipient offered to the plugin parser", more)
		mustReject(b, pNatR, sI, "wrong-prefix-accepted", "identity-string", "native identity offered to the recipient parser", more)
		mustReject(b, pNatI, sR, "wrong-prefix-accepted", "recipient-string", "native recipient offered to the identity parser", more)
		if !okI || !okR {
			return
		}
		r.Guard("keys:"+kh, func() {
			id, err := age.ParseX25519Identity(sI)
			if err != nil {
				return // reported above
			}
			b.evals++
			// the recipient the library derives, printed, is the reference spelling of the reference public key
			if got := id.Recipient().String(); got != sR {
				violate("derived-recipient-differs", fmt.Sprintf("identity %s: Recipient().String() = %q, the key's public point spells %q", sI, got, sR), more)
				return
			}
			// second generation: parse what the library printed
			id2, err := age.ParseX25519Identity(id.String())
			if err != nil || id2.String() != sI || id2.Recipient().String() != sR {
				violate("round-trip:ParseX25519Identity:second generation", fmt.Sprintf("identity %s: printing and parsing again gives %v / %v", sI, id2, err), more)
				return
			}
			rc, err := age.ParseX25519Recipient(id.Recipient().String())
			if err != nil || rc.String() != sR {
				violate("round-trip:ParseX25519Recipient:second generation", fmt.Sprintf("recipient %s: printing and parsing again gives %v / %v", sR, rc, err), more)
				return
			}
			// same key, functionally: what the re-parsed recipient wraps, the re-parsed identity unwraps
			fileKey := detBytes("c09-filekey-"+kh, 16)
			st, err := rc.Wrap(fileKey)
			if err != nil {
				violate("same-key:wrap-failed", fmt.Sprintf("recipient %s re-parsed from its own string cannot wrap: %v", sR, err), more)
				return
			}
			got, err := id2.Unwrap(st)
			b.evals++
			if err != nil || !bytes.Equal(got, fileKey) {
				violate("same-key:unwrap-failed", fmt.Sprintf("identity %s re-parsed from its own string does not unwrap what recipient %s wrapped: %v", sI, sR, err), more)
				return
			}
			// and the independent implementation agrees it is that key
			rs := refage.Stanza{Type: st[0].Type, Args: st[0].Args, Body: st[0].Body}
			if fk, err := refage.X25519Unwrap(rs, k); err != nil || !bytes.Equal(fk, fileKey) {
				violate("same-key:reference-unwrap-failed", fmt.Sprintf("recipient parsed from %s wraps to a key other than %s: %v", sR, kh, err), more)
				return
			}
			b.add("inverse", "identity and recipient re-parsed, wrap/unwrap across the re-parsed pair")
			// plugin.EncodeX25519Recipient prints the same spelling
			pk, err := ecdh.X25519().NewPublicKey(pub)
			if err == nil {
				s, err := plugin.EncodeX25519Recipient(pk)
				b.evals++
				if err != nil || s != sR {
					violate("round-trip:plugin.EncodeX25519Recipient", fmt.Sprintf("EncodeX25519Recipient(%x) = %q, %v; want %q", pub, s, err, sR), more)
				} else {
					b.add("inverse", "plugin.EncodeX25519Recipient equals the native spelling")
				}
			}
		})
		if strings.ContainsRune(sI[bases[2*i].sep+1:], 'K') {
			b.add("workload", "identity base strings with K in the data part")
		}
		r.SampleN("valid", 2, map[string]any{"key_hex": kh, "identity": sI, "recipient": sR, "result": "parsed, printed back identically, wrap/unwrap across re-parsed pair"})
	})

	// keys generated by the library itself, from a deterministic random tape
	tap := mon.InstallTap(mon.NewDetStream(fmt.Sprintf("c09-generate-%d", r.Seed)))
	nGen := r.Pick(50, 2000)
	gb := newBatch()
	for i := 0; i < nGen; i++ {
		r.Guard("generate", func() {
			id, err := age.GenerateX25519Identity()
			if err != nil {
				r.Inconclusive("GenerateX25519Identity: %v", err)
				return
			}
			s := id.String()
			more := map[string]any{"generated": i}
			r.Distinct("valid:" + s)
			mustAccept(gb, pNatI, s, "identity printed by GenerateX25519Identity", more)
			mustAccept(gb, pNatR, id.Recipient().String(), "recipient printed for a generated identity", more)
			if _, d, err := refage.Bech32Decode(s); err != nil || len(d) != 32 {
				violate("printed-string-not-valid-bech32:X25519Identity.String", fmt.Sprintf("generated identity prints as %q, which the reference decoder refuses: %v", s, err), more)
			} else if id2, err := age.ParseX25519Identity(s); err == nil && id2.Recipient().String() != refage.Bech32Encode("age", refage.X25519Public(d)) {
				violate("derived-recipient-differs", fmt.Sprintf("generated identity %s: recipient %q is not the public point of the printed scalar", s, id2.Recipient().String()), more)
			}
		})
	}
	tap.Uninstall()
	gb.flush()
	return bases
}
