// C09 — key strings round-trip, are canonical, and typos are rejected.
//
// Monitor: substitution enumerator over the real parsers and encoders
//
//	age.ParseX25519Recipient / (*X25519Recipient).String
//	age.ParseX25519Identity  / (*X25519Identity).String
//	plugin.ParseRecipient / plugin.EncodeRecipient
//	plugin.ParseIdentity  / plugin.EncodeIdentity
//	plugin.EncodeX25519Recipient
//	internal/bech32 Decode / Encode
//
// with three oracles, none of which looks at how the code decides:
//
//	inverse     a valid string (spelled by the independent reference encoder,
//	            or printed by the library) parses, and prints back to itself
//	            and to the same key;
//	canonical   whatever a parser accepts re-encodes to exactly the input;
//	must-reject strings the property names as never acceptable: a native
//	            string with 1-4 substituted characters, any character outside
//	            printable ASCII, mixed case, a wrong prefix, a wrong payload
//	            length, non-zero (or surplus) padding.
//
// The work is split into sections (files): keys.go (valid strings, inverse),
// subst.go (single / multiple substitutions, edits, affixes, case),
// shape.go (lengths, padding, prefixes), names.go (plugin names, bech32 level).
package main

import (
	"fmt"
	"os"
	"sort"
	"sync"
	"time"

	"filippo.io/age/zverif/mon"
	"filippo.io/age/zverif/refage"
)

var R *mon.Run

func main() {
	R = mon.Start("C09", "exploration")
	r := R
	r.Rule = "case = (parser, exact input string); non-trivial = the string is a valid key string or is derived from one by a " +
		"stated edit (substitution(s), case change, affix, length/padding/prefix variant with a recomputed valid checksum, plugin name) " +
		"and the real parser was run on it and its verdict (and, when accepted, its re-encoding) compared with the oracle; " +
		"distinct by (base string, position) for the exhaustive single-substitution sweep (each position stands for ~100 substitutes, " +
		"reported in counters) and by the exact mutated string for every other generator"
	r.Assumptions = []string{
		"keys: fixed corner keys (all-zero, all-one, single-bit) plus seed-random 32-byte keys; not all 2^256",
		"single substitutions are exhaustive per base string over printable ASCII 0x20-0x7E and the listed non-ASCII / control set; 2-4 substitutions are sampled",
		"the must-reject claim for 1-4 substitutions is applied to native strings only (as the property states); for plugin strings and bare bech32 only the any-string claims (non-ASCII, mixed case, padding) and the canonical invariant are applied, plus single in-alphabet substitutions at the bech32 level (always detected by the checksum)",
		"the canonical invariant at the bare bech32.Decode level is not demanded for human-readable parts without any letter (no native or plugin string has one); such acceptances are counted, not reported",
		"a valid string is one spelled by the independent reference Bech32 encoder (refage), itself validated against the CCTV vectors at start-up",
		"checksum algebra: the same HRP+payload re-checksummed for the listed other remainders (Bech32m, 0, 2, 3, 0x3fffffff, every single-bit change of 1, six other ways of feeding the HRP into the checksum), and every 1-4 position substitution pattern that moves a valid string onto such a remainder (found by a meet-in-the-middle search over pair syndromes; counts per target under coverage.algebraic_search); patterns inside the HRP are not searched",
		"exhaustive multi-substitution stage: all double substitutions over the full substitute alphabet (printable ASCII, non-ASCII/control set, fullwidth) within the last 8 characters, within the first 4 data characters and across the separator, out-of-alphabet at a checksum position x in-alphabet anywhere after the separator, and all triples of the last 3 characters, on base strings with l, q and p among their last six characters (listed in coverage); doubles elsewhere are sampled only",
		"arguments-left-alone oracle: byte-slice arguments are sub-slices of sentinel-filled arenas (payload lengths 0-40; spare capacity 0, 1, 3, 4, 5, 64, rest of arena), strings are substrings of larger strings; the arena must be unchanged, adjacent payloads and prefix-then-whole records must print and parse back exactly, returned slices must not be shared or change later, repeated calls must agree",
		"routes stage: decorated spellings (white space, CR, NBSP, U+3000, U+0085, U+2003, zero-width space, NUL, BOM, case; and 22 wrappings an un-quoting or un-escaping layer would undo: quotes of three kinds, hex, unicode and octal escapes, percent-encoding, HTML entities, trailing backslash, shell dollar-quote, YAML item, key: value, key=value, brackets, trailing comma or semicolon, JSON) of valid native strings through the real cmd/age and age-keygen by -r, -R/-i files, -R -/-i - with standard input a pipe and a terminal, and age-keygen -y; not demanded: the line format of key files (LF with one CR removed, empty and # lines skipped, the terminal's CR->LF); plugin strings are not run through the tool (no plugin binary)",
		"sizes stage: plugin strings for payloads of 0-40, ~1 KiB, ~4 KiB, 5040-5130 (the string crosses 8192 characters), ~8 KiB, ~16 KiB, 64 KiB, 100 KiB (thorough: up to 1 MiB) bytes under a 1-, a 10- and a 60-character name go through Encode -> Parse -> plugin.NewRecipient / NewIdentity (.Name(), .Recipient().Name()); the tools' treatment of long plugin strings is recorded, not judged (documented line limit of -R files, no plugin binary)",
		"combos stage: a spelling the library refuses (decorated, other case, prefix-only / payload-only case, KELVIN SIGN, LONG S, dotted/dotless I, one substituted or dropped character) next to the canonical spelling of the same key or another valid key, in 17 arrangements of repeated -r / --recipient, -R files, -i files for -d and -e -i; a byte-identical repeat is recorded, not judged",
		"plugin names: exhaustive to length 2 (quick) / 3 (thorough) over the allowed set plus / \\ : space; payloads 0-64 bytes",
	}
	r.MinEvals, r.MinDistinct = 200000, 3000

	if n, err := refage.SelfCheck(); err != nil {
		fmt.Fprintf(os.Stderr, "INCONCLUSIVE: reference implementation fails its self-check: %v\n", err)
		os.Exit(2)
	} else {
		r.Set("refage_vectors_checked", n)
	}
	if err := selfCheckEncoder(); err != nil {
		fmt.Fprintf(os.Stderr, "INCONCLUSIVE: local 5-bit encoder disagrees with the reference: %v\n", err)
		os.Exit(2)
	}
	initNonASCII()

	bases := sectionKeys()    // valid strings, inverse, functional same-key check
	var jobs []func(b *batch) // everything else fans out over workers
	jobs = append(jobs, jobsSingleSubst(bases)...)
	jobs = append(jobs, jobsMultiSubst(bases)...)
	jobs = append(jobs, jobsEdits(bases)...)
	jobs = append(jobs, jobsLengths()...)
	jobs = append(jobs, jobsPadding()...)
	jobs = append(jobs, jobsNativePadding(bases)...)
	jobs = append(jobs, jobsPrefixes()...)
	jobs = append(jobs, jobsPluginNames()...)
	jobs = append(jobs, jobsBech32Level()...)
	jobs = append(jobs, jobsRespell(bases)...)
	jobs = append(jobs, jobsAlgebraicSubst(bases)...)
	jobs = append(jobs, jobsTail()...)
	jobs = append(jobs, jobsPurity()...)
	jobs = append(jobs, jobsSizes()...)
	// the routes stage runs processes (mostly waiting): it gets workers of its
	// own next to the CPU-bound jobs
	routeJobs := jobsRoutes()
	routeJobs = append(routeJobs, jobsCombos()...)
	routesDone := make(chan float64, 1)
	go func() {
		t0 := time.Now()
		mon.ParN(8, len(routeJobs), func(i int) {
			b := newBatch()
			defer b.flush()
			defer func() {
				if p := recover(); p != nil {
					r.Inconclusive("harness panic in routes job %d: %v", i, p)
				}
			}()
			routeJobs[i](b)
		})
		routesDone <- time.Since(t0).Seconds()
	}()
	r.Set("jobs", len(jobs)+len(routeJobs))
	mon.Par(len(jobs), func(i int) {
		b := newBatch()
		defer b.flush()
		defer func() {
			if p := recover(); p != nil {
				// a panic inside library code is caught in call(); this is a harness bug
				r.Inconclusive("harness panic in job %d: %v", i, p)
			}
		}()
		jobs[i](b)
	})

	r.Set("routes_stage_wall_s", float64(int(<-routesDone*10))/10)

	// sanity of the workload itself: F4-style inputs need a 'K' in the data part
	if agg.get("workload", "identity base strings with K in the data part") == 0 {
		r.Inconclusive("no upper-case base string carries a K in its data part: the KELVIN SIGN case was never exercised")
	}
	finishAlgebra()
	finishTail()
	finishPurity()
	finishSizes()
	finishCombos()
	finishRoutes()
	flushViolations()
	agg.publish(r)
	ex := false
	r.Exhaustive = &ex // single substitutions are exhaustive per base string; the space of keys is sampled
	r.Finish()
}

// ---- aggregated coverage tables (batched; mon.Tab takes a lock per event) ----

type aggT struct {
	mu chan struct{}
	m  map[string]map[string]int64
}

var agg = &aggT{mu: make(chan struct{}, 1), m: map[string]map[string]int64{}}

func (a *aggT) addAll(t map[[2]string]int64) {
	a.mu <- struct{}{}
	for k, v := range t {
		m := a.m[k[0]]
		if m == nil {
			m = map[string]int64{}
			a.m[k[0]] = m
		}
		m[k[1]] += v
	}
	<-a.mu
}

func (a *aggT) get(table, cell string) int64 {
	a.mu <- struct{}{}
	defer func() { <-a.mu }()
	return a.m[table][cell]
}

func (a *aggT) publish(r *mon.Run) {
	a.mu <- struct{}{}
	defer func() { <-a.mu }()
	names := make([]string, 0, len(a.m))
	for k := range a.m {
		names = append(names, k)
	}
	sort.Strings(names)
	out := map[string]map[string]int64{}
	for _, n := range names {
		out[n] = a.m[n]
		var tot int64
		for _, v := range a.m[n] {
			tot += v
		}
		r.Count("table:"+n, tot)
	}
	r.Set("c09_tables", out)
}

// batch collects the counts of one job and hands them over once.
type batch struct {
	evals int64
	tab   map[[2]string]int64
}

func newBatch() *batch { return &batch{tab: map[[2]string]int64{}} }

func (b *batch) add(table, cell string) { b.tab[[2]string{table, cell}]++ }

func (b *batch) flush() {
	R.Eval(int(b.evals))
	agg.addAll(b.tab)
	b.evals = 0
	b.tab = map[[2]string]int64{}
}

// ---- violations are collected and reported at the end, so that the witness
// printed for a key does not depend on which worker got there first: of all
// failing inputs of one key the smallest description is kept. ----

type pendingV struct {
	what   string
	replay any
	n      int64
}

var (
	pendMu sync.Mutex
	pend   = map[string]*pendingV{}
)

func violate(key, what string, replay any) {
	pendMu.Lock()
	defer pendMu.Unlock()
	p := pend[key]
	if p == nil {
		pend[key] = &pendingV{what, replay, 1}
		return
	}
	p.n++
	if len(what) < len(p.what) || len(what) == len(p.what) && what < p.what {
		p.what, p.replay = what, replay
	}
}

func flushViolations() {
	pendMu.Lock()
	defer pendMu.Unlock()
	keys := make([]string, 0, len(pend))
	for k := range pend {
		keys = append(keys, k)
	}
	sort.Strings(keys)
	for _, k := range keys {
		p := pend[k]
		R.Count("violating_inputs", p.n)
		R.Violate(k, fmt.Sprintf("%s (%d failing inputs under this key in this run)", p.what, p.n), p.replay)
	}
}
