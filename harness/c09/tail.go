package main

// Bounded EXHAUSTIVE multi-substitution stage.
//
// The sampled 2-4 substitutions (subst.go) draw from the Bech32 alphabet or at
// random, and the algebra stage (algebra.go) works with in-alphabet symbols. A
// parser that treats *positions* differently (the six checksum symbols, the
// symbol holding the padding, the characters around the separator) or treats
// out-of-alphabet characters as numbers can accept a coordinated pair that
// neither of them constructs. This stage enumerates, over the FULL substitute
// alphabet (the 94 other printable ASCII characters, the non-ASCII / control
// substitutes and the fullwidth form),
//
//	(a) every double substitution within the last 8 characters,
//	(b) every double substitution of an out-of-alphabet character at one of
//	    the last 6 positions with an in-alphabet character at any other
//	    position after the separator,
//	(c) every double substitution within the first 4 data characters, across
//	    the separator (last HRP character + first data character) and of the
//	    separator with the first data character,
//	(d) every triple substitution of the last 3 characters,
//
// on base strings whose last six characters contain 'l' (value 31, within the
// last five), 'q' (value 0) and 'p' (value 1). Oracle unchanged: a native string
// with <= 4 replaced characters must be rejected; non-ASCII and mixed case
// must be rejected by every parser; whatever else is accepted must print back
// as itself.

import (
	"fmt"
	"sort"
	"strings"
	"sync"

	"filippo.io/age/zverif/mon"
	"filippo.io/age/zverif/refage"
)

type tsub struct {
	s     string
	name  string // printable description
	class byte   // 'a' in-alphabet (string's case), 'o' other printable ASCII, 'm' letter of the other case, 'n' non-ASCII / control
}

func tailSubstitutes(bs base, pos int) []tsub {
	orig := bs.s[pos]
	out := make([]tsub, 0, 120)
	for c := byte(0x20); c <= 0x7e; c++ {
		if c == orig {
			continue
		}
		cl := byte('o')
		switch {
		case isLetter(c) && isUpper(c) != bs.up:
			cl = 'm'
		case inAlphabet(c, bs.up):
			cl = 'a'
		}
		out = append(out, tsub{string([]byte{c}), string([]byte{c}), cl})
	}
	for _, rp := range nonASCII {
		out = append(out, tsub{rp.s, rp.name, 'n'})
	}
	if fw, ok := fullwidth(orig); ok {
		out = append(out, tsub{fw.s, "fullwidth", 'n'})
	}
	return out
}

func className(c byte) string {
	switch c {
	case 'a':
		return "in-alphabet"
	case 'o':
		return "out-of-alphabet"
	case 'm':
		return "other-case-letter"
	}
	return "non-ascii"
}

// tailBases finds, per class, strings whose last six characters contain l, q
// and p, with an l among the last five.
func tailBases() []base {
	per := R.Pick(1, 4)
	rng := R.RNG("tail-bases")
	good := func(s string) bool {
		t := strings.ToLower(s[len(s)-6:])
		return strings.ContainsRune(t[1:], 'l') && strings.ContainsRune(t, 'q') && strings.ContainsRune(t, 'p')
	}
	var out []base
	rec := map[string][]string{}
	for _, cl := range []string{"recipient", "identity", "plugin-recipient", "plugin-identity"} {
		found := 0
		for try := 0; try < 2000000 && found < per; try++ {
			var s string
			switch cl {
			case "recipient":
				s = refage.Bech32Encode("age", mon.Bytes(rng, 32)) // any 32 bytes are a valid recipient
			case "identity":
				s = refage.Bech32Encode("AGE-SECRET-KEY-", mon.Bytes(rng, 32))
			case "plugin-recipient":
				s = refage.Bech32Encode("age1example", mon.Bytes(rng, 10+found*11))
			default:
				s = refage.Bech32Encode("AGE-PLUGIN-EXAMPLE-", mon.Bytes(rng, 10+found*11))
			}
			if good(s) {
				found++
				out = append(out, newBase(s, cl))
				rec[cl] = append(rec[cl], s)
			}
		}
		if found < per {
			R.Inconclusive("tail stage: no %s base string with l, q and p among its last six characters was found", cl)
		}
	}
	R.Set("exhaustive_tail_stage_base_strings", rec)
	return out
}

var (
	tailMu    sync.Mutex
	tailCount = map[string]int64{} // strings per class
)

func tailParsers(bs base) []*parser {
	if bs.nat != nil {
		return []*parser{bs.nat, pBech}
	}
	return []*parser{bs.plug, pBech}
}

// tailOffer runs the parsers on m, which differs from the valid bs.s in the
// len(pos) positions pos by the substitutes subs.
func tailOffer(b *batch, bs base, ps []*parser, m, stage string, pos []int, subs []tsub) {
	for _, p := range ps {
		ok, re, waived, _ := call(p, m)
		b.evals++
		if !ok {
			continue
		}
		var cls []string
		nonascii, mixed := false, false
		for _, s := range subs {
			cls = append(cls, className(s.class))
			nonascii = nonascii || s.class == 'n'
			mixed = mixed || s.class == 'm'
		}
		sort.Strings(cls)
		var names []string
		for _, s := range subs {
			names = append(names, s.name)
		}
		more := input(p, m, map[string]any{"base": bs.s, "positions": pos, "substitutes": names, "stage": stage})
		what := fmt.Sprintf("%s accepted %+q, which differs from the valid %q in %d characters (positions %v, %s; exhaustive stage %s); the library prints the parsed value as %+q",
			p.name, m, bs.s, len(pos), pos, strings.Join(cls, "+"), stage, re)
		switch {
		case p == bs.nat:
			violate(fmt.Sprintf("subst%d-accepted:%s:exhaustive-%s:%s", len(pos), p.name, stage, strings.Join(cls, "+")), what, more)
		case nonascii:
			violate("nonascii-accepted:"+p.name+":exhaustive-"+stage, what, more)
		case mixed:
			violate("mixed-case-accepted:"+p.name+":exhaustive-"+stage, what, more)
		case re != m && !waived:
			violate("noncanonical:"+p.name+":exhaustive-"+stage+":"+strings.Join(cls, "+"), what, more)
		default:
			b.add("accepted and canonical: "+p.name, "exhaustive "+stage)
		}
	}
}

func splice(s string, pos []int, subs []tsub) string {
	var sb strings.Builder
	sb.Grow(len(s) + 8)
	prev := 0
	for i, p := range pos {
		sb.WriteString(s[prev:p])
		sb.WriteString(subs[i].s)
		prev = p + 1
	}
	sb.WriteString(s[prev:])
	return sb.String()
}

func tailDone(b *batch, bs base, stage string, n int64) {
	b.tab[[2]string{"exhaustive multi-substitution stage: strings, by class and stage", bs.typ + ", " + stage}] += n
	tailMu.Lock()
	tailCount[bs.typ] += n
	tailMu.Unlock()
}

func jobsTail() []func(*batch) {
	var jobs []func(*batch)
	seenClass := map[string]bool{}
	for _, bs := range tailBases() {
		bs := bs
		n := len(bs.s)
		ps := tailParsers(bs)
		R.Distinct("valid:" + bs.s)
		jobs = append(jobs, func(b *batch) {
			for _, p := range ps {
				mustAccept(b, p, bs.s, "base string of the exhaustive multi-substitution stage", nil)
			}
		})
		// all pairs (p1<p2) over the full alphabet
		pairJob := func(stage string, p1, p2 int) {
			jobs = append(jobs, func(b *batch) {
				R.Distinct(fmt.Sprintf("tail:%s:%s:%d,%d", bs.s, stage, p1, p2))
				s1, s2 := tailSubstitutes(bs, p1), tailSubstitutes(bs, p2)
				pos := []int{p1, p2}
				var cnt int64
				for _, a := range s1 {
					for _, c := range s2 {
						tailOffer(b, bs, ps, splice(bs.s, pos, []tsub{a, c}), stage, pos, []tsub{a, c})
						cnt++
					}
				}
				tailDone(b, bs, stage, cnt)
			})
		}
		// (a) within the last 8 characters
		for p1 := n - 8; p1 < n; p1++ {
			for p2 := p1 + 1; p2 < n; p2++ {
				if p1 > bs.sep {
					pairJob("last-8-pairs", p1, p2)
				}
			}
		}
		// (c) first 4 data characters, and across the separator
		for p1 := bs.sep + 1; p1 <= bs.sep+4 && p1 < n-8; p1++ {
			for p2 := p1 + 1; p2 <= bs.sep+4 && p2 < n-8; p2++ {
				pairJob("first-4-data-pairs", p1, p2)
			}
		}
		pairJob("across-separator", bs.sep-1, bs.sep+1)
		pairJob("separator-and-first-data", bs.sep, bs.sep+1)
		// (b) out-of-alphabet in the checksum x in-alphabet anywhere else after the separator
		for p := n - 6; p < n; p++ {
			p := p
			jobs = append(jobs, func(b *batch) {
				R.Distinct(fmt.Sprintf("tail:%s:checksum-out-of-alphabet:%d", bs.s, p))
				var cnt int64
				var outs []tsub
				for _, s := range tailSubstitutes(bs, p) {
					if s.class != 'a' {
						outs = append(outs, s)
					}
				}
				for q := bs.sep + 1; q < n; q++ {
					if q == p {
						continue
					}
					var ins []tsub
					for _, s := range tailSubstitutes(bs, q) {
						if s.class == 'a' {
							ins = append(ins, s)
						}
					}
					for _, o := range outs {
						for _, in := range ins {
							pos, subs := []int{p, q}, []tsub{o, in}
							if q < p {
								pos, subs = []int{q, p}, []tsub{in, o}
							}
							tailOffer(b, bs, ps, splice(bs.s, pos, subs), "checksum-out-of-alphabet-x-any-in-alphabet", pos, subs)
							cnt++
						}
					}
				}
				tailDone(b, bs, "checksum-out-of-alphabet-x-any-in-alphabet", cnt)
			})
		}
		// (d) triples of the last 3 characters: one base string per class in quick
		if R.Thorough() || !seenClass[bs.typ] {
			s1, s2, s3 := tailSubstitutes(bs, n-3), tailSubstitutes(bs, n-2), tailSubstitutes(bs, n-1)
			pos := []int{n - 3, n - 2, n - 1}
			for _, a := range s1 {
				a := a
				jobs = append(jobs, func(b *batch) {
					R.Distinct(fmt.Sprintf("tail:%s:last-3-triples:%s", bs.s, a.name))
					var cnt int64
					for _, c := range s2 {
						for _, d := range s3 {
							tailOffer(b, bs, ps, splice(bs.s, pos, []tsub{a, c, d}), "last-3-triples", pos, []tsub{a, c, d})
							cnt++
						}
					}
					tailDone(b, bs, "last-3-triples", cnt)
				})
			}
		}
		seenClass[bs.typ] = true
	}
	return jobs
}

func finishTail() {
	tailMu.Lock()
	defer tailMu.Unlock()
	R.Set("exhaustive_tail_stage_strings_per_class", tailCount)
	for _, cl := range []string{"recipient", "identity", "plugin-recipient", "plugin-identity"} {
		if tailCount[cl] < 100000 {
			R.Inconclusive("exhaustive multi-substitution stage ran only %d strings for class %s (minimum 100000)", tailCount[cl], cl)
		}
	}
}
