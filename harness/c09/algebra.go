package main

// Checksum algebra.
//
// The Bech32 checksum is an affine function of the 5-bit symbols: for a valid
// string (remainder 1) and a set P of substitutions (position, xor-delta),
// remainder(s+P) = 1 ^ syndrome(P), and syndrome((j,d)) depends only on d and on
// the distance of j from the end of the string. A verifier that (wrongly)
// also accepts the remainder T, or computes the remainder over a differently
// prepared prefix, therefore accepts
//
//	(a) the same HRP and payload with the six checksum characters computed
//	    for T — a second spelling of the key — and
//	(b) every valid string with a substitution pattern of syndrome 1^T
//	    applied; for a generic T there are a few hundred such patterns of
//	    exactly four characters among the ~4*10^11 possible ones, which random
//	    sampling never meets, but a meet-in-the-middle search over pairs finds
//	    all of them in a fraction of a second.
//
// Everything here uses the harness's own polymod (oracle.go). The oracle is
// unchanged: natives with <= 4 replaced characters must be rejected; anything
// else that is accepted must print back as itself.

import (
	"fmt"
	"sort"
	"strings"
	"sync"

	"filippo.io/age/zverif/refage"
)

const bech32m = 0x2bc830a3

type tconst struct {
	name string
	t    uint32
}

// fixedTargets: remainders other than 1 that a lenient verifier might take.
func fixedTargets() []tconst {
	ts := []tconst{{"bech32m(0x2bc830a3)", bech32m}, {"0", 0}, {"2", 2}, {"3", 3}, {"0x3fffffff", 0x3fffffff}}
	for k := 0; k < 30; k++ {
		ts = append(ts, tconst{fmt.Sprintf("1^bit%02d", k), 1 ^ 1<<uint(k)})
	}
	return dedupeTargets(ts)
}

func dedupeTargets(ts []tconst) []tconst {
	seen := map[uint32]bool{1: true}
	var out []tconst
	for _, t := range ts {
		if !seen[t.t] {
			seen[t.t] = true
			out = append(out, t)
		}
	}
	return out
}

func expandHRP(hrp string) []byte {
	var ex []byte
	for i := 0; i < len(hrp); i++ {
		ex = append(ex, hrp[i]>>5)
	}
	ex = append(ex, 0)
	for i := 0; i < len(hrp); i++ {
		ex = append(ex, hrp[i]&31)
	}
	return ex
}

// prefixVariants: other ways a verifier might feed the HRP into the checksum.
func prefixVariants(hrp string) []struct {
	name string
	pre  []byte
} {
	l := strings.ToLower(hrp)
	var low, raw, nosep []byte
	for i := 0; i < len(l); i++ {
		low = append(low, l[i]&31)
		raw = append(raw, l[i])
	}
	for i := 0; i < len(l); i++ {
		nosep = append(nosep, l[i]>>5)
	}
	nosep = append(nosep, low...)
	return []struct {
		name string
		pre  []byte
	}{
		{"hrp-low-bits-only", append(append([]byte{}, low...), 0)},
		{"hrp-raw-bytes-not-expanded", append(append([]byte{}, raw...), 0)},
		{"hrp-expanded-without-separator-zero", nosep},
		{"hrp-expanded-in-upper-case", expandHRP(strings.ToUpper(hrp))},
		{"hrp-expanded-as-written", expandHRP(hrp)},
		{"hrp-left-out", nil},
	}
}

func rem(prefix, syms []byte) uint32 { return polymod(polymod(1, prefix), syms) }

// checksumFor returns the six symbols c with rem(prefix, payload++c) == target.
func checksumFor(prefix, payload []byte, target uint32) []byte {
	m := polymod(rem(prefix, payload), []byte{0, 0, 0, 0, 0, 0}) ^ target
	c := make([]byte, 6)
	for i := range c {
		c[i] = byte(m>>uint(5*(5-i))) & 31
	}
	return c
}

func symsOf(bs base) []byte {
	body := strings.ToLower(bs.s[bs.sep+1:])
	out := make([]byte, len(body))
	for i := 0; i < len(body); i++ {
		out[i] = byte(strings.IndexByte(charset, body[i]))
	}
	return out
}

func joinSyms(bs base, syms []byte) string {
	o := make([]byte, 0, len(bs.s))
	o = append(o, bs.s[:bs.sep+1]...)
	for _, v := range syms {
		c := charset[v]
		if bs.up && c >= 'a' {
			c -= 32
		}
		o = append(o, c)
	}
	return string(o)
}

// targetsFor: the fixed constants plus the remainder (under the real
// preparation) of the string's own HRP+payload checksummed under each variant
// preparation. The latter depends on the HRP and the length only.
func targetsFor(bs base) []tconst {
	ts := fixedTargets()
	hrp := bs.s[:bs.sep]
	truePre := expandHRP(strings.ToLower(hrp))
	syms := symsOf(bs)
	payload := syms[:len(syms)-6]
	for _, v := range prefixVariants(hrp) {
		c := checksumFor(v.pre, payload, 1)
		ts = append(ts, tconst{v.name, rem(truePre, append(append([]byte{}, payload...), c...))})
	}
	return dedupeTargets(ts)
}

func parsersOf(bs base) []*parser {
	var ps []*parser
	for _, p := range []*parser{bs.nat, bs.plug, pBech} {
		if p != nil {
			ps = append(ps, p)
		}
	}
	return ps
}

// offer presents a string that differs from the valid string bs.s in diff
// characters (all after the separator) and whose remainder is not 1.
func offer(b *batch, bs base, m string, diff int, tname, how string, more map[string]any) {
	for _, p := range parsersOf(bs) {
		if p == bs.nat && diff <= 4 {
			mustReject(b, p, m, fmt.Sprintf("subst%d-accepted", diff), how+":"+tname, how+" "+tname, more)
		} else {
			// same HRP, other characters, remainder != 1: if this parses it cannot print back as itself
			canonIfAccepted(b, p, m, how+" "+tname, more)
		}
	}
}

// ---- (a) the same key re-checksummed for another constant -----------------------------

func jobsRespell(native []base) []func(*batch) {
	all := append(append([]base{}, native...), pluginBases()...)
	all = append(all, algebraPluginBases(true)...)
	var jobs []func(*batch)
	for i := range all {
		bs := all[i]
		jobs = append(jobs, func(b *batch) {
			hrp := bs.s[:bs.sep]
			truePre := expandHRP(strings.ToLower(hrp))
			syms := symsOf(bs)
			payload := syms[:len(syms)-6]
			if rem(truePre, syms) != 1 {
				R.Inconclusive("base string %q does not verify under the harness polymod", bs.s)
				return
			}
			for _, t := range targetsFor(bs) {
				m := joinSyms(bs, append(append([]byte{}, payload...), checksumFor(truePre, payload, t.t)...))
				diff := 0
				for i := range m {
					if m[i] != bs.s[i] {
						diff++
					}
				}
				R.Distinct("respell:" + m)
				b.add("re-checksummed strings, by target constant", t.name)
				b.add("re-checksummed strings, by number of characters that differ", fmt.Sprint(diff))
				offer(b, bs, m, diff, t.name, "re-checksummed-for", map[string]any{"base": bs.s, "target": t.name, "target_value": fmt.Sprintf("%#x", t.t), "characters_differing": diff})
			}
		})
	}
	return jobs
}

// algebraPluginBases: plugin strings of chosen symbol counts for the search.
func algebraPluginBases(all bool) []base {
	type spec struct {
		id   bool
		name string
		n    int // payload bytes
	}
	specs := []spec{{false, "example", 33}, {true, "example", 17}} // 59 and 34 symbols
	if all || R.Thorough() {
		specs = append(specs, spec{false, "yubikey", 32}, spec{true, "se", 32}, spec{false, "x", 0}, spec{true, "x", 1}, spec{false, "tpm", 48}, spec{true, "fido2-hmac", 40})
	}
	var out []base
	for _, sp := range specs {
		data := detBytes(fmt.Sprintf("c09-algebra-%s-%d", sp.name, sp.n), sp.n)
		if sp.id {
			out = append(out, newBase(refage.Bech32Encode("AGE-PLUGIN-"+strings.ToUpper(sp.name)+"-", data), "plugin-identity"))
		} else {
			out = append(out, newBase(refage.Bech32Encode("age1"+sp.name, data), "plugin-recipient"))
		}
	}
	return out
}

// ---- (b) the linear-code search -------------------------------------------------------

// synTable holds, for strings of n symbols, the syndrome of every single
// substitution and an open-addressing table of all pair syndromes.
type synTable struct {
	n     int
	syn   [][32]uint32 // [position from the start][delta]
	mask  uint32
	slots []uint64 // bit 63 occupied | syndrome<<32 | i<<18 | di<<13 | j<<5 | dj
	pairs int
}

var (
	synMu     sync.Mutex
	synTables = map[int]*synOnce{}
)

type synOnce struct {
	once sync.Once
	t    *synTable
}

func tableFor(n int) *synTable {
	synMu.Lock()
	so := synTables[n]
	if so == nil {
		so = &synOnce{}
		synTables[n] = so
	}
	synMu.Unlock()
	so.once.Do(func() { so.t = buildTable(n) })
	return so.t
}

func buildTable(n int) *synTable {
	t := &synTable{n: n, syn: make([][32]uint32, n)}
	for j := 0; j < n; j++ {
		e := make([]byte, n-j)
		for d := 1; d < 32; d++ {
			e[0] = byte(d)
			t.syn[j][d] = polymod(0, e) // linear part: initial value 0
		}
	}
	t.pairs = n * (n - 1) / 2 * 31 * 31
	size := 1 << 10
	for size < 3*t.pairs {
		size <<= 1
	}
	t.mask = uint32(size - 1)
	t.slots = make([]uint64, size)
	for i := 0; i < n; i++ {
		for j := i + 1; j < n; j++ {
			for di := 1; di < 32; di++ {
				si := t.syn[i][di]
				for dj := 1; dj < 32; dj++ {
					s := si ^ t.syn[j][dj]
					h := (s * 2654435761) & t.mask
					for t.slots[h] != 0 {
						h = (h + 1) & t.mask
					}
					t.slots[h] = 1<<63 | uint64(s)<<32 | uint64(i)<<18 | uint64(di)<<13 | uint64(j)<<5 | uint64(dj)
				}
			}
		}
	}
	return t
}

type sub struct{ pos, delta int }

// lookup returns every pair whose syndrome is s.
func (t *synTable) lookup(s uint32, f func(i, di, j, dj int)) {
	h := (s * 2654435761) & t.mask
	for t.slots[h] != 0 {
		v := t.slots[h]
		if uint32(v>>32)&0x7fffffff == s {
			f(int(v>>18)&0xff, int(v>>13)&31, int(v>>5)&0xff, int(v)&31)
		}
		h = (h + 1) & t.mask
	}
}

// patterns returns every substitution pattern of 1..4 positions with syndrome w,
// each exactly once (positions ascending).
func (t *synTable) patterns(w uint32) [][]sub {
	var out [][]sub
	n := t.n
	for j := 0; j < n; j++ {
		for d := 1; d < 32; d++ {
			s1 := t.syn[j][d]
			if s1 == w {
				out = append(out, []sub{{j, d}})
			}
			// pairs and triples with j as the first position
			t.lookup(w^s1, func(i, di, k, dk int) {
				if j < i {
					out = append(out, []sub{{j, d}, {i, di}, {k, dk}})
				}
			})
			for k := j + 1; k < n; k++ {
				for dk := 1; dk < 32; dk++ {
					if s1^t.syn[k][dk] == w {
						out = append(out, []sub{{j, d}, {k, dk}})
					}
				}
			}
		}
	}
	// quadruples: {p1,p2} from the loops, {p3,p4} from the table, p2 < p3
	for i := 0; i < n; i++ {
		for j := i + 1; j < n; j++ {
			for di := 1; di < 32; di++ {
				si := t.syn[i][di] ^ w
				for dj := 1; dj < 32; dj++ {
					t.lookup(si^t.syn[j][dj], func(k, dk, l, dl int) {
						if j < k {
							out = append(out, []sub{{i, di}, {j, dj}, {k, dk}, {l, dl}})
						}
					})
				}
			}
		}
	}
	return out
}

type searchStat struct {
	Symbols  int    `json:"symbols"`
	Target   string `json:"target"`
	Syndrome string `json:"syndrome"`
	ByWeight [5]int `json:"patterns_found_by_number_of_positions"`
	Strings  int    `json:"strings_offered"`
	Clean    int    `json:"strings_whose_only_fault_is_the_checksum"`
}

var (
	searchMu    sync.Mutex
	searchStats []searchStat
)

// jobsAlgebraicSubst: one job per (symbol count, target constant).
func jobsAlgebraicSubst(native []base) []func(*batch) {
	var recs, ids []base
	for _, bs := range native {
		if bs.typ == "recipient" {
			recs = append(recs, bs)
		} else {
			ids = append(ids, bs)
		}
	}
	per := R.Pick(2, 12)
	// prefer seed-random keys (after the fixed corner keys) so the padding symbol varies
	pick := func(l []base) []base {
		if len(l) > 16+per {
			return l[16 : 16+per]
		}
		return l[:per]
	}
	type group struct {
		bases []base
		ts    []tconst
	}
	var groups []group
	fixed := fixedTargets()
	nFixed := len(fixed)
	// natives: recipients and identities have the same 58 symbols, so the
	// fixed constants are searched once and applied to both
	nat := append(append([]base{}, pick(recs)...), pick(ids)...)
	natT := fixed
	if !R.Thorough() {
		// Bech32m and six of the other fixed constants chosen by the seed
		natT = []tconst{fixed[0]}
		for _, k := range R.RNG("algebra-targets:native").Perm(nFixed - 1)[:6] {
			natT = append(natT, fixed[1+k])
		}
	}
	groups = append(groups, group{nat, natT})
	groups = append(groups, group{pick(recs), targetsFor(recs[0])[nFixed:]})
	groups = append(groups, group{pick(ids), targetsFor(ids[0])[nFixed:]})
	for _, pb := range algebraPluginBases(false) {
		ts := targetsFor(pb)
		if !R.Thorough() {
			// Bech32m, four of the fixed ones chosen by the seed, and the variants
			rng := R.RNG("algebra-targets:" + pb.s)
			sel := []tconst{ts[0]}
			for _, k := range rng.Perm(nFixed - 1)[:4] {
				sel = append(sel, ts[1+k])
			}
			ts = append(sel, ts[nFixed:]...)
		}
		groups = append(groups, group{[]base{pb}, ts})
	}
	var jobs []func(*batch)
	for _, g := range groups {
		for _, t := range g.ts {
			g, t := g, t
			jobs = append(jobs, func(b *batch) { algebraicSearch(b, g.bases, t) })
		}
	}
	return jobs
}

func algebraicSearch(b *batch, bases []base, t tconst) {
	n := len(bases[0].s) - bases[0].sep - 1
	tab := tableFor(n)
	pats := tab.patterns(1 ^ t.t)
	st := searchStat{Symbols: n, Target: t.name, Syndrome: fmt.Sprintf("%#x", 1^t.t)}
	for _, p := range pats {
		st.ByWeight[len(p)]++
	}
	for _, bs := range bases {
		if len(bs.s)-bs.sep-1 != n {
			R.Inconclusive("algebraic search: base strings of different lengths grouped")
			return
		}
		syms := symsOf(bs)
		truePre := expandHRP(strings.ToLower(bs.s[:bs.sep]))
		for _, p := range pats {
			e := append([]byte(nil), syms...)
			var positions []int
			for _, s := range p {
				e[s.pos] ^= byte(s.delta)
				positions = append(positions, bs.sep+1+s.pos)
			}
			if rem(truePre, e) != t.t {
				R.Inconclusive("algebraic search: constructed string has remainder %#x, wanted %#x", rem(truePre, e), t.t)
				return
			}
			m := joinSyms(bs, e)
			R.Distinct("algebraic:" + m)
			_, lb, left := from5(e[:n-6])
			clean := lb < 5 && left == 0
			st.Strings++
			if clean {
				st.Clean++
			}
			b.add("algebraically constructed <=4-substitution strings, by target constant", t.name)
			b.add("algebraically constructed <=4-substitution strings, by number of substitutions", fmt.Sprintf("%d (%s)", len(p), bs.typ))
			if clean {
				b.add("algebraically constructed strings whose padding is still zero, by target constant", t.name)
			}
			offer(b, bs, m, len(p), t.name, "algebraic-substitutions-towards",
				map[string]any{"base": bs.s, "positions": positions, "substitutions": len(p), "target": t.name, "target_value": fmt.Sprintf("%#x", t.t), "padding_still_zero": clean})
			if len(p) == 4 && clean && t.t == bech32m {
				R.SampleN("algebraic-"+bs.typ, 1, map[string]any{"base": bs.s, "mutated": m, "positions": positions, "remainder": t.name, "result": "rejected by every parser"})
			}
		}
	}
	searchMu.Lock()
	searchStats = append(searchStats, st)
	searchMu.Unlock()
}

// finishAlgebra publishes the search statistics and applies the vacuity guard.
func finishAlgebra() {
	searchMu.Lock()
	defer searchMu.Unlock()
	sort.Slice(searchStats, func(i, j int) bool {
		a, b := searchStats[i], searchStats[j]
		if a.Symbols != b.Symbols {
			return a.Symbols < b.Symbols
		}
		return a.Target < b.Target
	})
	R.Set("algebraic_search", searchStats)
	ok := map[int]bool{}
	for _, s := range searchStats {
		if strings.HasPrefix(s.Target, "bech32m") && s.ByWeight[4] > 0 && s.Clean > 0 {
			ok[s.Symbols] = true
		}
	}
	for _, n := range []int{58, 59} {
		if !ok[n] {
			R.Inconclusive("the algebraic search found no 4-substitution pattern towards the Bech32m constant for %d-symbol strings (there are hundreds): the typo clause was not exercised against a second checksum constant", n)
		}
	}
}
