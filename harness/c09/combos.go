package main

// Several key strings in ONE command.
//
// The routes stage hands the tool one string at a time. Here a non-canonical
// spelling stands next to the canonical spelling of the same key, or next to
// another valid key, in every arrangement the synopsis allows: repeated -r /
// --recipient flags in both orders and spellings, lines of one -R file in both
// orders, two -R files, -r mixed with -R, identity files with two lines and
// two -i flags for -d and for -e -i. Oracle: a string the library parsers
// reject must make the tool fail wherever it stands in the command (C09: one
// accepted spelling per key — a variant that is tolerated because the same
// key was already given is still a second accepted spelling). Controls: the
// canonical string alone and together with another valid key must work; a
// byte-identical repeat is recorded, not judged.

import (
	"bytes"
	"fmt"
	"os"
	"path/filepath"
	"strings"
	"time"

	"filippo.io/age"
	"filippo.io/age/zverif/cli"
	"filippo.io/age/zverif/refage"
)

type variant struct {
	name string
	s    string
}

func replaceFirstAfter(s string, from int, old byte, new string) (string, bool) {
	i := strings.IndexByte(s[from:], old)
	if i < 0 {
		return s, false
	}
	i += from
	return s[:i] + new + s[i+1:], true
}

// comboKey finds a key whose recipient and identity strings have k and s in the
// data part (so that the KELVIN SIGN and LONG S variants exist).
func comboKey(label string) []byte {
	for i := 0; ; i++ {
		k := detBytes(fmt.Sprintf("%s-%d", label, i), 32)
		r := refage.Bech32Encode("age", refage.X25519Public(k))
		id := refage.Bech32Encode("AGE-SECRET-KEY-", k)
		if strings.ContainsAny(r[4:], "k") && strings.ContainsAny(r[4:], "s") && strings.Contains(id[16:], "K") && strings.Contains(id[16:], "S") {
			return k
		}
	}
}

func variantsOf(v string, identity bool) []variant {
	sep := strings.LastIndexByte(v, '1')
	flip := func(s string) string {
		if identity {
			return strings.ToLower(s)
		}
		return strings.ToUpper(s)
	}
	vs := []variant{
		{"leading space", " " + v},
		{"trailing space", v + " "},
		{"trailing tab", v + "\t"},
		{"trailing NBSP U+00A0", v + "\u00a0"},
		{"BOM in front", "\ufeff" + v},
		{"trailing zero-width space U+200B", v + "\u200b"},
		{"whole string in the other case", flip(v)},
		{"mixed case", flipSome(v)},
		{"prefix in the other case, payload unchanged", flip(v[:sep]) + v[sep:]},
		{"payload in the other case, prefix unchanged", v[:sep] + flip(v[sep:])},
		{"last character dropped", v[:len(v)-1]},
	}
	k, s := byte('k'), byte('s')
	if identity {
		k, s = 'K', 'S'
	}
	if x, ok := replaceFirstAfter(v, sep+1, k, "\u212a"); ok {
		vs = append(vs, variant{"U+212A KELVIN SIGN for k", x})
		vs = append(vs, variant{"other case with U+212A KELVIN SIGN for k", strings.Replace(flip(v), map[bool]string{true: "k", false: "K"}[identity], "\u212a", 1)})
	}
	if x, ok := replaceFirstAfter(v, sep+1, s, "\u017f"); ok {
		vs = append(vs, variant{"U+017F LONG S for s", x})
	}
	// dotted / dotless i: the strings have no i; they are put where a careless fold could lose them
	vs = append(vs, variant{"U+0131 DOTLESS I inserted in the prefix", v[:2] + "\u0131" + v[2:]}, variant{"U+0130 DOTTED I appended", v + "\u0130"})
	// one substituted character
	o := []byte(v)
	n := charset[(strings.IndexByte(charset, lowerByte(o[len(o)-8]))+1)%32]
	if identity && n >= 'a' {
		n -= 32
	}
	o[len(o)-8] = n
	vs = append(vs, variant{"one character substituted", string(o)})
	return vs
}

type arrangement struct {
	name string
	kind string // encrypt | decrypt | encrypt-to-identity
	// build returns argv (without the binary) given GOOD, VARIANT, OTHERGOOD and a writer of files
	build func(good, vr, other string, file func(name string, lines ...string)) []string
	files bool // the variant travels in a file (line format applies)
}

var arrangements = []arrangement{
	{"-r GOOD -r VARIANT", "encrypt", func(g, v, o string, f func(string, ...string)) []string {
		return []string{"-r", g, "-r", v}
	}, false},
	{"-r VARIANT -r GOOD", "encrypt", func(g, v, o string, f func(string, ...string)) []string {
		return []string{"-r", v, "-r", g}
	}, false},
	{"--recipient=GOOD -r VARIANT", "encrypt", func(g, v, o string, f func(string, ...string)) []string {
		return []string{"--recipient=" + g, "-r", v}
	}, false},
	{"-r GOOD --recipient VARIANT", "encrypt", func(g, v, o string, f func(string, ...string)) []string {
		return []string{"-r", g, "--recipient", v}
	}, false},
	{"-r GOOD -r OTHERGOOD -r VARIANT", "encrypt", func(g, v, o string, f func(string, ...string)) []string {
		return []string{"-r", g, "-r", o, "-r", v}
	}, false},
	{"-r OTHERGOOD -r VARIANT", "encrypt", func(g, v, o string, f func(string, ...string)) []string {
		return []string{"-r", o, "-r", v}
	}, false},
	{"-R file: GOOD, VARIANT", "encrypt", func(g, v, o string, f func(string, ...string)) []string {
		f("r1", g, v)
		return []string{"-R", "r1"}
	}, true},
	{"-R file: VARIANT, GOOD", "encrypt", func(g, v, o string, f func(string, ...string)) []string {
		f("r1", v, g)
		return []string{"-R", "r1"}
	}, true},
	{"-R file(GOOD) -R file(VARIANT)", "encrypt", func(g, v, o string, f func(string, ...string)) []string {
		f("r1", g)
		f("r2", v)
		return []string{"-R", "r1", "-R", "r2"}
	}, true},
	{"-r GOOD -R file(VARIANT)", "encrypt", func(g, v, o string, f func(string, ...string)) []string {
		f("r2", v)
		return []string{"-r", g, "-R", "r2"}
	}, true},
	{"-R file(GOOD) -r VARIANT", "encrypt", func(g, v, o string, f func(string, ...string)) []string {
		f("r1", g)
		return []string{"-R", "r1", "-r", v}
	}, false},
	{"-d -i file: GOOD, VARIANT", "decrypt", func(g, v, o string, f func(string, ...string)) []string {
		f("i1", g, v)
		return []string{"-d", "-i", "i1"}
	}, true},
	{"-d -i file: VARIANT, GOOD", "decrypt", func(g, v, o string, f func(string, ...string)) []string {
		f("i1", v, g)
		return []string{"-d", "-i", "i1"}
	}, true},
	{"-d -i file(GOOD) -i file(VARIANT)", "decrypt", func(g, v, o string, f func(string, ...string)) []string {
		f("i1", g)
		f("i2", v)
		return []string{"-d", "-i", "i1", "-i", "i2"}
	}, true},
	{"-d -i file(VARIANT) -i file(GOOD)", "decrypt", func(g, v, o string, f func(string, ...string)) []string {
		f("i1", g)
		f("i2", v)
		return []string{"-d", "-i", "i2", "-i", "i1"}
	}, true},
	{"-e -i file: GOOD, VARIANT", "encrypt-to-identity", func(g, v, o string, f func(string, ...string)) []string {
		f("i1", g, v)
		return []string{"-e", "-i", "i1"}
	}, true},
	{"-e -i file(GOOD) -i file(VARIANT)", "encrypt-to-identity", func(g, v, o string, f func(string, ...string)) []string {
		f("i1", g)
		f("i2", v)
		return []string{"-e", "-i", "i1", "-i", "i2"}
	}, true},
}

var combosControlsOK = map[string]bool{}

func jobsCombos() []func(*batch) {
	e := routesState
	if e == nil || e.base == "" {
		return nil // reported by the routes stage
	}
	k := comboKey(fmt.Sprintf("c09-combo-key-%d", R.Seed))
	k2 := detBytes("c09-combo-other-key", 32)
	var jobs []func(*batch)
	for ai, a := range arrangements {
		a := a
		identity := a.kind != "encrypt"
		good := refage.Bech32Encode("age", refage.X25519Public(k))
		other := refage.Bech32Encode("age", refage.X25519Public(k2))
		if identity {
			good = refage.Bech32Encode("AGE-SECRET-KEY-", k)
			other = refage.Bech32Encode("AGE-SECRET-KEY-", k2)
		}
		for vi, v := range append([]variant{{"control: OTHERGOOD in place of the variant", other}, {"control: GOOD repeated byte for byte", good}}, variantsOf(good, identity)...) {
			v := v
			if !R.Thorough() {
				// quick: both controls where flags repeat, the whole-case and KELVIN variants everywhere, a seed-rotated quarter of the rest
				always := vi == 0 || (vi == 1 && !a.files) || v.name == "whole string in the other case" || v.name == "U+212A KELVIN SIGN for k"
				if !always && (vi+ai+int(R.Seed))%4 != 0 {
					continue
				}
			}
			jobs = append(jobs, func(b *batch) { e.combo(b, a, k, k2, good, other, v, 0) })
		}
	}
	return jobs
}

// libraryRejects: the verdict of the library parser on the exact string.
func libraryRejects(s string, identity bool) bool {
	if identity {
		_, err := age.ParseX25519Identity(s)
		return err != nil
	}
	_, err := age.ParseX25519Recipient(s)
	return err != nil
}

func (e *routeEnv) combo(b *batch, a arrangement, k, k2 []byte, good, other string, v variant, attempt int) {
	identity := a.kind != "encrypt"
	control := strings.HasPrefix(v.name, "control:")
	if !a.files && strings.ContainsRune(v.s, 0) {
		return
	}
	d := e.dir()
	defer os.RemoveAll(d)
	plain := []byte("c09 combos: " + a.name + " / " + v.name + "\n")
	file := func(name string, lines ...string) {
		os.WriteFile(filepath.Join(d, name), []byte(strings.Join(lines, "\n")+"\n"), 0o600)
	}
	argv := append([]string{e.age}, a.build(good, v.s, other, file)...)
	argv = append(argv, "-o", "out")
	if a.kind == "decrypt" {
		fk := detBytes("c09-combo-fk", 16)
		st, err := refage.X25519Wrap(fk, refage.X25519Public(k), detBytes("c09-combo-eph", 32))
		if err != nil {
			R.Inconclusive("combos stage: reference wrap failed: %v", err)
			return
		}
		os.WriteFile(filepath.Join(d, "ct.age"), refage.BuildFile(fk, []refage.Stanza{st}, detBytes("c09-combo-nonce", 16), plain), 0o600)
		argv = append(argv, "ct.age")
	} else {
		os.WriteFile(filepath.Join(d, "input"), plain, 0o600)
		argv = append(argv, "input")
	}
	res := cli.Run(&cli.Cmd{Dir: d, Argv: argv, Timeout: 60 * time.Second})
	b.evals++
	desc := a.name + " / " + v.name
	R.Distinct("combo:" + desc + ":" + good)
	b.add("several key strings in one command: runs, by arrangement", a.name)
	if res.Err != nil {
		R.Inconclusive("combos stage: %s: driver error %v", desc, res.Err)
		return
	}
	out, _ := os.ReadFile(filepath.Join(d, "out"))
	worked := res.Exit == 0
	if worked {
		if a.kind == "decrypt" {
			worked = bytes.Equal(out, plain)
		} else {
			worked = false
			for _, kk := range [][]byte{k, k2} {
				if o, err := refage.Decrypt(out, refage.X25519Key{Secret: kk}); err == nil && bytes.Equal(o.Plaintext, plain) {
					worked = true
				}
			}
		}
	}
	more := map[string]any{"arrangement": a.name, "variant": v.name, "variant_string": v.s, "variant_hex": fmt.Sprintf("%x", v.s), "good": good,
		"argv": strings.Join(argv[1:], " "), "exit": res.Exit, "stderr": string(truncateB(res.Stderr, 300))}
	switch {
	case v.name == "control: GOOD repeated byte for byte":
		b.add("several key strings in one command: byte-identical repeat (recorded, not judged)", fmt.Sprintf("%s: exit %d", a.name, res.Exit))
	case control:
		if !worked {
			if attempt == 0 {
				e.combo(b, a, k, k2, good, other, v, 1)
				return
			}
			R.Inconclusive("combos stage: two valid keys did not work twice in the arrangement %q: %s", a.name, res)
			return
		}
		e.mu.Lock()
		combosControlsOK[a.name] = true
		e.mu.Unlock()
		b.add("several key strings in one command: outcomes", "two valid keys work")
	default:
		if !libraryRejects(v.s, identity) {
			// not a variant the library refuses (cannot happen for the list above on a correct tree;
			// on a tree whose library accepts it, the library-level stages report it)
			b.add("several key strings in one command: outcomes", "variant accepted by the library parser: no claim here")
			return
		}
		if a.files {
			if ls := lineModel(v.s+"\n", false); len(ls) == 1 && ls[0] == good {
				b.add("several key strings in one command: outcomes", "reduced to the plain string by the line format: no claim")
				return
			}
		}
		if res.Exit == 0 {
			violate("rejected-spelling-tolerated-next-to-a-valid-key:"+a.name,
				fmt.Sprintf("age %s: exit 0 although VARIANT = %+q (%s of the valid %q) is refused by the library parser; the result is usable with the key: %v",
					a.name, v.s, v.name, good, worked), more)
			return
		}
		if len(out) > 0 {
			b.add("several key strings in one command: outcomes", "refused, but output not empty (C15's business)")
		}
		b.add("several key strings in one command: outcomes", "refused")
	}
}

func finishCombos() {
	e := routesState
	if e == nil || e.base == "" {
		return
	}
	for _, a := range arrangements {
		if !combosControlsOK[a.name] {
			R.Inconclusive("combos stage: two valid keys never worked in the arrangement %q, so refusals in it prove nothing", a.name)
		}
	}
}
