package main

import (
	"fmt"
	"strings"

	"filippo.io/age/zverif/mon"
	"filippo.io/age/zverif/refage"
)

// spell writes hrp literally, the separator, the groups and a valid checksum;
// the part after the HRP is put in upper case when dataUpper is set (so the
// HRP keeps whatever case the caller gave it).
func spell(hrp string, vals []byte, dataUpper bool) string {
	s := encode5(hrp, vals, false)
	if dataUpper {
		return s[:len(hrp)] + strings.ToUpper(s[len(hrp):])
	}
	return s
}

// ---- payload lengths 0..40 under the native prefixes ---------------------------------

func jobsLengths() []func(*batch) {
	reps := R.Pick(6, 100)
	var jobs []func(*batch)
	for L := 0; L <= 40; L++ {
		L := L
		jobs = append(jobs, func(b *batch) {
			rng := mon.NewRNG(R.Seed, fmt.Sprintf("lengths/%d", L))
			for rep := 0; rep < reps; rep++ {
				var payload []byte
				switch rep {
				case 0:
					payload = make([]byte, L)
				case 1:
					payload = []byte(strings.Repeat("\xff", L))
				default:
					payload = mon.Bytes(rng, L)
				}
				for _, t := range []struct {
					hrp string
					nat *parser
					plg *parser
				}{{"age", pNatR, pPlugR}, {"AGE-SECRET-KEY-", pNatI, pPlugI}} {
					s := refage.Bech32Encode(t.hrp, payload)
					R.Distinct("length:" + s)
					more := map[string]any{"hrp": t.hrp, "payload_len": L, "payload_hex": fmt.Sprintf("%x", payload)}
					gen := fmt.Sprintf("valid Bech32 under %q with a %d-byte payload", t.hrp, L)
					b.add("payload lengths: "+t.nat.name, fmt.Sprintf("%02d", L))
					switch {
					case L == 32:
						mustAccept(b, t.nat, s, gen, more)
					case L < 32:
						mustReject(b, t.nat, s, "wrong-length-accepted", "shorter", gen, more)
					default:
						mustReject(b, t.nat, s, "wrong-length-accepted", "longer", gen, more)
					}
					mustAccept(b, pBech, s, "valid Bech32 under a native prefix, any payload length", more)
					canonIfAccepted(b, t.plg, s, gen, more)
				}
			}
		})
	}
	return jobs
}

// ---- every padding pattern --------------------------------------------------------------

type padTarget struct {
	hrp   string
	upper bool
	own   *parser // parser of that family (nil: bare bech32 only)
	nat   bool    // own accepts 32-byte payloads only
}

var padTargets = []padTarget{
	{"age", false, pNatR, true},
	{"AGE-SECRET-KEY-", true, pNatI, true},
	{"age1name", false, pPlugR, false},
	{"AGE-PLUGIN-NAME-", true, pPlugI, false},
	{"xyz", false, nil, false},
	{"XYZ-", true, nil, false},
}

func jobsPadding() []func(*batch) {
	reps := R.Pick(2, 12)
	var jobs []func(*batch)
	for ti := range padTargets {
		for n := 0; n <= 104; n++ {
			t, n := padTargets[ti], n
			jobs = append(jobs, func(b *batch) {
				rng := mon.NewRNG(R.Seed, fmt.Sprintf("padding/%s/%d", t.hrp, n))
				for rep := 0; rep < reps; rep++ {
					vals := make([]byte, n)
					for i := range vals {
						vals[i] = byte(rng.Intn(32))
					}
					if n == 52 && rep == 0 {
						for i := range vals {
							vals[i] = 0
						}
					}
					padSweep(b, t, vals)
				}
			})
		}
	}
	return jobs
}

// padSweep runs every value of the bits left over after the last whole byte.
func padSweep(b *batch, t padTarget, vals []byte) {
	n := len(vals)
	lb := (5 * n) % 8 // left-over bits
	for pat := 0; pat < 1<<uint(lb); pat++ {
		v := append([]byte(nil), vals...)
		if lb > 0 {
			if lb <= 5 {
				v[n-1] = v[n-1]&^byte(1<<uint(lb)-1) | byte(pat)
			} else {
				v[n-1] = byte(pat) & 31
				v[n-2] = v[n-2]&^byte(1<<uint(lb-5)-1) | byte(pat>>5)
			}
		}
		s := encode5(t.hrp, v, t.upper)
		R.Distinct("padding:" + s)
		payload, gotLb, left := from5(v)
		if gotLb != lb || int(left) != pat {
			R.Inconclusive("padding generator inconsistent: n=%d lb=%d/%d pat=%d/%d", n, lb, gotLb, pat, left)
			return
		}
		more := map[string]any{"hrp": t.hrp, "groups": n, "leftover_bits": lb, "leftover_value": pat, "payload_len": len(payload)}
		cell := fmt.Sprintf("leftover bits %d, %s", lb, map[bool]string{true: "zero", false: "non-zero"}[pat == 0])
		b.add("padding: "+t.hrp, cell)
		gen := fmt.Sprintf("%d groups, %d left-over bits = %d, valid checksum", n, lb, pat)
		ps := []*parser{pBech}
		if t.own != nil {
			ps = append(ps, t.own)
		}
		for _, p := range ps {
			switch {
			case lb >= 5:
				// a whole surplus group: the encoder never prints it (canonical form)
				mustReject(b, p, s, "surplus-padding-accepted", map[bool]string{true: "zero", false: "non-zero"}[pat == 0], gen, more)
			case pat != 0:
				mustReject(b, p, s, "nonzero-padding-accepted", fmt.Sprintf("%d-bit", lb), gen, more)
			case p == t.own && t.nat && len(payload) != 32:
				mustReject(b, p, s, "wrong-length-accepted", map[bool]string{true: "shorter", false: "longer"}[len(payload) < 32], gen, more)
			default:
				mustAccept(b, p, s, "canonical padding", more)
			}
		}
	}
}

// jobsNativePadding: the 15 non-zero paddings of every native base string.
func jobsNativePadding(native []base) []func(*batch) {
	var jobs []func(*batch)
	for i := range native {
		bs := native[i]
		jobs = append(jobs, func(b *batch) {
			var vals []byte
			body := strings.ToLower(bs.s[bs.sep+1 : len(bs.s)-6])
			for i := 0; i < len(body); i++ {
				vals = append(vals, byte(strings.IndexByte(charset, body[i])))
			}
			t := padTarget{bs.s[:bs.sep], bs.up, bs.nat, true}
			padSweep(b, t, vals)
		})
	}
	return jobs
}

// ---- prefixes ---------------------------------------------------------------------------

func hrpEdits(h string) map[string]string {
	out := map[string]string{}
	flip := func(c byte) byte {
		if isLetter(c) {
			return c ^ 0x20
		}
		return c
	}
	var all []byte
	for i := 0; i < len(h); i++ {
		all = append(all, flip(h[i]))
	}
	out[string(all)] = "whole prefix in the other case"
	for i := 0; i < len(h); i++ {
		out[h[:i]+h[i+1:]] = "one character deleted"
		out[h[:i]+h[i:i+1]+h[i:]] = "one character doubled"
		if i+1 < len(h) {
			out[h[:i]+h[i+1:i+2]+h[i:i+1]+h[i+2:]] = "adjacent characters swapped"
		}
		if isLetter(h[i]) {
			out[h[:i]+string(flip(h[i]))+h[i+1:]] = "one letter in the other case"
			nx := h[i] + 1
			if h[i]|0x20 == 'z' {
				nx = h[i] - 1
			}
			out[h[:i]+string(nx)+h[i+1:]] = "one letter replaced by its neighbour"
		}
		if h[i] == '-' {
			out[h[:i]+"_"+h[i+1:]] = "dash replaced by underscore"
			out[h[:i]+"1"+h[i+1:]] = "dash replaced by 1"
		}
		out[h[:i]] = "prefix truncated"
	}
	for _, x := range []string{"-", "1", "x", "X", "1x", "-1"} {
		out[h+x] = "prefix extended"
		out[x+h] = "prefix preceded"
	}
	delete(out, h)
	delete(out, "")
	return out
}

func jobsPrefixes() []func(*batch) {
	keys := fixedKeys()[8:12]
	explicit := map[string]string{
		"age": "the recipient prefix", "AGE": "the recipient prefix, upper case", "AGE-SECRET-KEY-": "the identity prefix",
		"age-secret-key-": "the identity prefix, lower case", "age1x": "a plugin recipient prefix", "age1": "recipient prefix plus separator",
		"AGE-PLUGIN-X-": "a plugin identity prefix", "AGE-SECRET-KEY": "identity prefix without the dash", "SECRET-KEY-": "identity prefix without AGE-",
		"AGE-SECRET-": "identity prefix without KEY-", "age-secret-key": "lower case, no dash", "Age-Secret-Key-": "identity prefix, title case",
		"bc": "another Bech32 user", "npub": "another Bech32 user", "AGE-PLUGIN-SECRET-KEY-": "plugin identity named secret-key",
	}
	var jobs []func(*batch)
	for _, t := range []struct {
		hrp string
		nat *parser
		plg *parser
	}{{"age", pNatR, pPlugR}, {"AGE-SECRET-KEY-", pNatI, pPlugI}} {
		t := t
		vars := hrpEdits(t.hrp)
		for h, d := range explicit {
			if h != t.hrp {
				vars[h] = d
			}
		}
		jobs = append(jobs, func(b *batch) {
			for h, desc := range vars {
				for ki, k := range keys {
					for _, dataUpper := range []bool{false, true} {
						s := spell(h, to5(k), dataUpper)
						if strings.LastIndexByte(s, '1') != len(h) {
							continue // cannot happen: the alphabet has no '1'
						}
						R.Distinct("prefix:" + s)
						more := map[string]any{"prefix": h, "variant": desc, "data_upper": dataUpper, "key": ki}
						gen := "valid checksum under the prefix variant: " + desc
						b.add("prefix variants: "+t.nat.name, desc)
						mustReject(b, t.nat, s, "wrong-prefix-accepted", fmt.Sprintf("%q/data-upper=%v", h, dataUpper), gen, more)
						for _, p := range []*parser{pBech, t.plg} {
							if s != strings.ToLower(s) && s != strings.ToUpper(s) {
								mustReject(b, p, s, "mixed-case-accepted", "prefix variant", gen, more)
							} else {
								canonIfAccepted(b, p, s, gen, more)
							}
						}
					}
				}
			}
			// the right prefix with the data part in the other case
			for _, k := range keys {
				s := spell(t.hrp, to5(k), t.hrp == "age")
				R.Distinct("prefix:" + s)
				for _, p := range []*parser{t.nat, t.plg, pBech} {
					mustReject(b, p, s, "mixed-case-accepted", "right prefix, data part in the other case", "right prefix, data part in the other case", map[string]any{"prefix": t.hrp})
				}
			}
		})
	}
	// plugin prefixes: nothing but the canonical oracle decides these
	plug := []string{"age1", "age", "age1name", "AGE1NAME", "age2name", "agee1name", "age-plugin-name-", "AGE-PLUGIN-NAME", "AGE-PLUGIN--",
		"AGE-PLUGIN-", "AGE-PLUGIN", "AGE-PLUGINNAME-", "AGE-PLUGIN-NAME--", "AGE-PLUGIN--NAME-", "AGE-PLUGIN---", "AGE-SECRET-KEY-",
		"AGE-PLUGIN-NA ME-", "AGE-PLUGIN-NA/ME-", "age1na/me", "age1../x", "AGE-PLUGIN-../X-", "age1na me", "age1name-", "age11", "age1-",
		"AGE-PLUGIN-1-", "AGE-PLUGIN-NAME-1", "Age1name", "age1Name", "AGE-PLUGIN-name-", "age-PLUGIN-NAME-", "AGE-PLUGIN-NAME_", "AGE_PLUGIN_NAME_"}
	jobs = append(jobs, func(b *batch) {
		rng := R.RNG("plugin-prefixes")
		for _, h := range plug {
			for _, L := range []int{0, 1, 16, 32, 33} {
				data := mon.Bytes(rng, L)
				for _, dataUpper := range []bool{false, true} {
					s := spell(h, to5(data), dataUpper)
					R.Distinct("prefix:" + s)
					more := map[string]any{"prefix": h, "data_upper": dataUpper, "payload_len": L}
					b.add("prefix variants: plugin parsers", h)
					mixed := s != strings.ToLower(s) && s != strings.ToUpper(s)
					for _, p := range []*parser{pPlugR, pPlugI, pBech} {
						if mixed {
							mustReject(b, p, s, "mixed-case-accepted", "prefix variant", "plugin prefix variant, mixed case", more)
						} else {
							canonIfAccepted(b, p, s, "plugin prefix variant "+h, more)
						}
					}
				}
			}
		}
	})
	return jobs
}
