package main

import (
	"fmt"
	"math/rand"
	"sort"
	"strings"
	"unicode"

	"filippo.io/age/zverif/mon"
	"filippo.io/age/zverif/refage"
)

// ---- the non-ASCII / non-printable substitutes --------------------------------

type repl struct {
	name string // goes into the violation key
	s    string // what replaces the one character
}

var nonASCII []repl

// initNonASCII builds the fixed substitute set of DESIGN §4 C09 and adds every
// non-ASCII rune that Go's case mapping sends into ASCII (computed, so a new
// Unicode table cannot silently outdate the list).
func initNonASCII() {
	runes := map[rune]bool{0x212A: true, 0x017F: true, 0x0131: true, 0x0130: true, 0x00A0: true, 0xFEFF: true, 0x200B: true, 0x0138: true}
	var folding []string
	for r := rune(0x80); r <= unicode.MaxRune; r++ {
		if r >= 0xD800 && r <= 0xDFFF {
			continue
		}
		hit := unicode.ToLower(r) < 0x80 || unicode.ToUpper(r) < 0x80 || unicode.ToTitle(r) < 0x80
		for f := unicode.SimpleFold(r); f != r && !hit; f = unicode.SimpleFold(f) {
			hit = f < 0x80
		}
		if hit {
			runes[r] = true
			folding = append(folding, fmt.Sprintf("U+%04X", r))
		}
	}
	R.Set("non_ascii_runes_that_case_map_into_ascii", folding)
	var rs []int
	for r := range runes {
		rs = append(rs, int(r))
	}
	sort.Ints(rs)
	for _, r := range rs {
		nonASCII = append(nonASCII, repl{fmt.Sprintf("U+%04X", r), string(rune(r))})
	}
	for _, c := range []byte{0x00, 0x09, 0x0a, 0x0d, 0x1f, 0x7f} {
		nonASCII = append(nonASCII, repl{fmt.Sprintf("control-0x%02x", c), string([]byte{c})})
	}
	for _, c := range []byte{0x80, 0xbf, 0xc0, 0xff} {
		nonASCII = append(nonASCII, repl{fmt.Sprintf("byte-0x%02x", c), string([]byte{c})})
	}
	nonASCII = append(nonASCII, repl{"overlong-k", "\xc1\xab"}, repl{"overlong-K", "\xc1\x8b"})
	var names []string
	for _, x := range nonASCII {
		names = append(names, x.name)
	}
	names = append(names, "fullwidth form of the replaced character (U+FF01..U+FF5E)")
	R.Set("non_ascii_substitutes", names)
}

func fullwidth(c byte) (repl, bool) {
	if c < 0x21 || c > 0x7e {
		return repl{}, false
	}
	return repl{"fullwidth", string(rune(0xFF01 + int(c) - 0x21))}, true
}

// ---- plugin base strings --------------------------------------------------------

var pluginNamePool = []string{"x", "yubikey", "se", "tpm", "fido2-hmac", "a.b_c+d", "1", "k", "kk-kk", "name1", "z9", "sss"}

func pluginBases() []base {
	n := R.Pick(24, 200)
	rng := R.RNG("plugin-bases")
	var out []base
	for i := 0; i < n; i++ {
		name := pluginNamePool[i%len(pluginNamePool)]
		var data []byte
		switch {
		case i < 6:
			data = make([]byte, []int{0, 1, 5, 32, 33, 64}[i])
		default:
			data = mon.Bytes(rng, rng.Intn(49))
		}
		if i%2 == 0 {
			out = append(out, newBase(refage.Bech32Encode("age1"+name, data), "plugin-recipient"))
		} else {
			// make sure K occurs in the data part of some identity strings: 0x5a.. spells K-rich text
			if i%4 == 1 {
				data = append([]byte{0xb5, 0xad, 0x6b, 0x5a, 0xd6}, data...)
			}
			out = append(out, newBase(refage.Bech32Encode("AGE-PLUGIN-"+strings.ToUpper(name)+"-", data), "plugin-identity"))
		}
	}
	return out
}

// ---- exhaustive single substitutions ---------------------------------------------

func region(b base, pos int) string {
	switch {
	case pos < b.sep:
		return "hrp"
	case pos == b.sep:
		return "separator"
	case pos >= len(b.s)-6:
		return "checksum"
	}
	return "data"
}

func isLetter(c byte) bool { return c|0x20 >= 'a' && c|0x20 <= 'z' }
func isUpper(c byte) bool  { return c >= 'A' && c <= 'Z' }

func inAlphabet(c byte, upper bool) bool {
	if isLetter(c) && isUpper(c) != upper {
		return false
	}
	return strings.IndexByte(charset, lowerByte(c)) >= 0
}

func lowerByte(c byte) byte {
	if c >= 'A' && c <= 'Z' {
		return c + 32
	}
	return c
}

func jobsSingleSubst(native []base) []func(*batch) {
	all := append(append([]base{}, native...), pluginBases()...)
	R.Set("base_strings", map[string]int{"native": len(native), "plugin": len(all) - len(native)})
	var jobs []func(*batch)
	for bi := range all {
		bs := all[bi]
		jobs = append(jobs, func(b *batch) { singleSubst(b, bs) })
	}
	return jobs
}

func singleSubst(b *batch, bs base) {
	s := bs.s
	if bs.nat == nil {
		// plugin base strings are valid, too
		R.Distinct("valid:" + s)
		mustAccept(b, bs.plug, s, "reference spelling of a "+bs.typ, nil)
		mustAccept(b, pBech, s, bs.typ+" at the bech32 level", nil)
		if bs.up && strings.ContainsRune(s[bs.sep+1:], 'K') {
			b.add("workload", "plugin identity base strings with K in the data part")
		}
	}
	buf := []byte(s)
	for pos := 0; pos < len(s); pos++ {
		orig := s[pos]
		reg := region(bs, pos)
		R.Distinct(fmt.Sprintf("subst1:%s@%d", s, pos))
		// (1) every other printable ASCII character
		for c := byte(0x20); c <= 0x7e; c++ {
			if c == orig {
				continue
			}
			buf[pos] = c
			m := string(buf)
			more := map[string]any{"base": s, "position": pos, "original": string(orig), "substitute": string(c), "region": reg}
			mixed := isLetter(c) && isUpper(c) != bs.up // a letter of the other case: the string becomes mixed case
			var class string
			switch {
			case mixed && lowerByte(c) == lowerByte(orig):
				class = "case-flip"
			case mixed:
				class = "other-case-letter"
			case c == '1':
				class = "separator-char"
			case inAlphabet(c, bs.up):
				class = "bech32-alphabet"
			default:
				class = "other-ascii"
			}
			gen := "single substitution, " + class + ", in " + reg
			kind := "subst1-accepted"
			if mixed {
				kind = "mixed-case-accepted"
			}
			b.add("single substitutions: "+bs.typ, class+" in "+reg)
			detail := class + ":" + reg
			if mixed {
				detail = "single letter"
			}
			if bs.nat != nil {
				mustReject(b, bs.nat, m, kind, detail, gen, more)
			}
			// plugin parser of the same family and the bare decoder
			switch {
			case mixed:
				mustReject(b, bs.plug, m, kind, detail, gen, more)
				mustReject(b, pBech, m, kind, detail, gen, more)
			case class == "bech32-alphabet" && (reg == "data" || reg == "checksum"):
				// one wrong symbol is always caught by the checksum, at any length
				mustReject(b, pBech, m, kind, class+":"+reg, gen, more)
				if bs.nat == nil {
					mustReject(b, bs.plug, m, kind, class+":"+reg, gen, more)
				} else {
					canonIfAccepted(b, bs.plug, m, gen, more)
				}
			default:
				canonIfAccepted(b, bs.plug, m, gen, more)
				canonIfAccepted(b, pBech, m, gen, more)
			}
		}
		buf[pos] = orig
		// (2) characters outside printable ASCII: rejected by every parser, anywhere
		reps := nonASCII
		if fw, ok := fullwidth(orig); ok {
			reps = append(append([]repl{}, nonASCII...), fw)
		}
		for _, rp := range reps {
			m := s[:pos] + rp.s + s[pos+1:]
			more := map[string]any{"base": s, "position": pos, "original": string(orig), "substitute": rp.name, "region": reg}
			gen := "single substitution by " + rp.name + " in " + reg
			b.add("single substitutions: "+bs.typ, "non-ASCII/non-printable in "+reg)
			if bs.nat != nil {
				mustReject(b, bs.nat, m, "nonascii-accepted", rp.name, gen, more)
			}
			mustReject(b, bs.plug, m, "nonascii-accepted", rp.name, gen, more)
			mustReject(b, pBech, m, "nonascii-accepted", rp.name, gen, more)
		}
	}
	// (3) a pasted string with a stray character before, after or inside it
	for _, rp := range append([]repl{{"space", " "}}, nonASCII...) {
		for _, m := range []string{rp.s + s, s + rp.s, s[:bs.sep+1] + rp.s + s[bs.sep+1:]} {
			R.Distinct("affix:" + m)
			more := map[string]any{"base": s, "inserted": rp.name}
			gen := "inserted " + rp.name
			b.add("insertions: "+bs.typ, rp.name)
			for _, p := range []*parser{bs.nat, bs.plug, pBech} {
				if p == nil {
					continue
				}
				if rp.name == "space" {
					// not a substitution and (arguably) printable: only the canonical oracle applies
					canonIfAccepted(b, p, m, gen, more)
				} else {
					mustReject(b, p, m, "nonascii-accepted", rp.name+":inserted", gen, more)
				}
			}
		}
	}
	// (4) case changes of more than one character
	flipAll := func(x string) string {
		o := []byte(x)
		for i, c := range o {
			if isLetter(c) {
				o[i] = c ^ 0x20
			}
		}
		return string(o)
	}
	type cv struct{ name, s string }
	variants := []cv{
		{"whole string in the other case", flipAll(s)},
		{"HRP in the other case", flipAll(s[:bs.sep]) + s[bs.sep:]},
		{"data part in the other case", s[:bs.sep] + flipAll(s[bs.sep:])},
		{"checksum in the other case", s[:len(s)-6] + flipAll(s[len(s)-6:])},
	}
	rng := mon.NewRNG(R.Seed, "caseflips:"+s)
	for k := 0; k < 16; k++ {
		o := []byte(s)
		n := 2 + rng.Intn(6)
		for j := 0; j < n; j++ {
			p := rng.Intn(len(o))
			if isLetter(o[p]) {
				o[p] ^= 0x20
			}
		}
		variants = append(variants, cv{"several letters in the other case", string(o)})
	}
	for _, v := range variants {
		if v.s == s {
			continue
		}
		R.Distinct("case:" + v.s)
		more := map[string]any{"base": s, "variant": v.name}
		whole := v.s == flipAll(s)
		b.add("case variants: "+bs.typ, v.name)
		if bs.nat != nil {
			// whole-string flip: single case, but then the prefix is the wrong one
			kind := "mixed-case-accepted"
			if whole {
				kind = "wrong-prefix-accepted"
			}
			mustReject(b, bs.nat, v.s, kind, v.name, v.name, more)
		}
		if whole {
			// a valid Bech32 string in the other case: the bare decoder may take it
			// (and then prints it back as given); a plugin parser taking it would
			// have two spellings for one key -> canonical oracle
			canonIfAccepted(b, bs.plug, v.s, v.name, more)
			canonIfAccepted(b, pBech, v.s, v.name, more)
		} else {
			mustReject(b, bs.plug, v.s, "mixed-case-accepted", v.name, v.name, more)
			mustReject(b, pBech, v.s, "mixed-case-accepted", v.name, v.name, more)
		}
	}
}

// ---- sampled 2-4 substitutions ------------------------------------------------------

func jobsMultiSubst(native []base) []func(*batch) {
	perClass := R.Pick(40000, 400000)
	const chunk = 2000
	var ids, recs []base
	for _, b := range native {
		if b.typ == "identity" {
			ids = append(ids, b)
		} else {
			recs = append(recs, b)
		}
	}
	var jobs []func(*batch)
	for _, grp := range []struct {
		name string
		bs   []base
	}{{"identity", ids}, {"recipient", recs}} {
		for k := 2; k <= 4; k++ {
			for _, mode := range []string{"bech32-alphabet", "printable-ascii", "hrp-and-alphabet"} {
				n := perClass
				if mode != "bech32-alphabet" {
					n = perClass / 4
				}
				for c := 0; c*chunk < n; c++ {
					grp, k, mode, c := grp, k, mode, c
					jobs = append(jobs, func(b *batch) {
						rng := mon.NewRNG(R.Seed, fmt.Sprintf("multi/%s/%d/%s/%d", grp.name, k, mode, c))
						for i := 0; i < chunk; i++ {
							multiSubst(b, rng, grp.bs[rng.Intn(len(grp.bs))], k, mode)
						}
					})
				}
			}
		}
	}
	return jobs
}

func multiSubst(b *batch, rng *rand.Rand, bs base, k int, mode string) {
	s := bs.s
	buf := []byte(s)
	var positions []int
	pick := func(lo, hi int) int { // distinct position in [lo,hi)
		for {
			p := lo + rng.Intn(hi-lo)
			dup := false
			for _, q := range positions {
				dup = dup || q == p
			}
			if !dup {
				positions = append(positions, p)
				return p
			}
		}
	}
	alpha := func(p int) {
		for {
			c := charset[rng.Intn(32)]
			if bs.up && c >= 'a' {
				c -= 32
			}
			if c != s[p] {
				buf[p] = c
				return
			}
		}
	}
	for j := 0; j < k; j++ {
		switch {
		case mode == "bech32-alphabet", mode == "hrp-and-alphabet" && j > 0:
			alpha(pick(bs.sep+1, len(s)))
		case mode == "hrp-and-alphabet":
			p := pick(0, bs.sep)
			for {
				c := byte(0x21 + rng.Intn(94))
				if c != s[p] && c != '1' && !(isLetter(c) && isUpper(c) != bs.up) {
					buf[p] = c
					break
				}
			}
		default:
			p := pick(0, len(s))
			for {
				c := byte(0x20 + rng.Intn(95))
				if c != s[p] {
					buf[p] = c
					break
				}
			}
		}
	}
	m := string(buf)
	R.Distinct("multi:" + m)
	sort.Ints(positions)
	more := map[string]any{"base": s, "positions": positions, "substitutions": k, "mode": mode}
	gen := fmt.Sprintf("%d substitutions, %s", k, mode)
	b.add("sampled multiple substitutions: "+bs.typ, gen)
	mustReject(b, bs.nat, m, fmt.Sprintf("subst%d-accepted", k), mode, gen, more)
	if mode == "bech32-alphabet" {
		// <= 4 wrong symbols in a code word of <= 89 symbols: guaranteed detection
		mustReject(b, pBech, m, fmt.Sprintf("subst%d-accepted", k), mode, gen, more)
	} else {
		canonIfAccepted(b, pBech, m, gen, more)
	}
	canonIfAccepted(b, bs.plug, m, gen, more)
	if k == 4 && mode == "bech32-alphabet" {
		R.SampleN("multi-"+bs.typ, 1, map[string]any{"base": s, "mutated": m, "positions": positions, "result": "rejected by the native parser and by bech32.Decode"})
	}
}

// ---- other one-step edits: nothing forbids accepting them, but if accepted, canonical ---

func jobsEdits(native []base) []func(*batch) {
	all := append(append([]base{}, native...), pluginBases()...)
	var jobs []func(*batch)
	for bi := range all {
		bs := all[bi]
		jobs = append(jobs, func(b *batch) {
			s := bs.s
			seen := map[string]bool{s: true}
			try := func(m, gen string) {
				if seen[m] {
					return
				}
				seen[m] = true
				R.Distinct("edit:" + m)
				b.add("edits (canonical if accepted): "+bs.typ, gen)
				more := map[string]any{"base": s, "edit": gen}
				for _, p := range []*parser{bs.nat, bs.plug, pBech} {
					if p != nil {
						canonIfAccepted(b, p, m, gen, more)
					}
				}
			}
			for p := 0; p < len(s); p++ {
				try(s[:p]+s[p+1:], "one character deleted")
				try(s[:p]+s[p:p+1]+s[p:], "one character doubled")
				if p+1 < len(s) {
					try(s[:p]+s[p+1:p+2]+s[p:p+1]+s[p+2:], "adjacent characters swapped")
				}
				try(s[:p], "truncated")
			}
			al := charset
			if bs.up {
				al = strings.ToUpper(charset)
			}
			for i := 0; i < len(al); i++ {
				try(s+al[i:i+1], "one alphabet character appended")
				try(s[:bs.sep+1]+al[i:i+1]+s[bs.sep+1:], "one alphabet character inserted after the separator")
			}
			try(s+s, "string doubled")
			try(s+s[bs.sep:], "data part doubled")
		})
	}
	return jobs
}
