package main

// Routes: the same key string reaching the parser of the command line tool by
// every way a user can hand it over — a -r argument, a -R / -i file, "-R -" /
// "-i -" with standard input a pipe, and with standard input a TERMINAL (the
// line is typed, then ^D), and age-keygen -y with the identity in a file, piped
// or typed. Oracle (C09: every key has exactly one accepted spelling, strings
// with characters outside printable ASCII, mixed case or a wrong prefix are
// rejected): a decorated spelling of a valid key string must not be usable as
// that key on ANY route — the tool must fail. The undecorated string must work
// on every route (otherwise the stage is vacuous: inconclusive).
//
// What is NOT demanded, because it is the documented line format of key files
// and not a spelling of the key: lines end at LF with one CR before it
// removed, empty lines and lines starting with '#' are skipped; a terminal in
// its default mode turns a typed CR into LF. Decorations that this model
// reduces to the plain string (a trailing CR on a line route) are run and
// counted, without a claim.

import (
	"bytes"
	"fmt"
	"os"
	"path/filepath"
	"strings"
	"sync"
	"time"

	"filippo.io/age/zverif/cli"
	"filippo.io/age/zverif/refage"
)

type decoration struct {
	name         string
	f            func(v string) string
	thoroughOnly bool
	raw          bool // f returns the whole content of the key source (no line end is added)
}

func affix(pre, post string) func(string) string {
	return func(v string) string { return pre + v + post }
}

func flipSome(v string) string {
	o := []byte(v)
	for i := len(o) - 9; i < len(o)-3; i += 2 {
		if isLetter(o[i]) {
			o[i] ^= 0x20
		}
	}
	if string(o) == v {
		o[0] ^= 0x20
	}
	return string(o)
}

var decorations = []decoration{
	{"leading space", affix(" ", ""), false, false},
	{"trailing space", affix("", " "), false, false},
	{"leading tab", affix("\t", ""), false, false},
	{"trailing tab", affix("", "\t"), false, false},
	{"trailing CR", affix("", "\r"), false, false},
	{"leading CR", affix("\r", ""), false, false},
	{"leading NBSP U+00A0", affix("\u00a0", ""), false, false},
	{"trailing NBSP U+00A0", affix("", "\u00a0"), false, false},
	{"trailing U+3000", affix("", "\u3000"), false, false},
	{"leading U+3000", affix("\u3000", ""), true, false},
	{"trailing U+0085", affix("", "\u0085"), false, false},
	{"trailing U+2003", affix("", "\u2003"), false, false},
	{"leading U+2003", affix("\u2003", ""), true, false},
	{"trailing zero-width space U+200B", affix("", "\u200b"), false, false},
	{"leading zero-width space U+200B", affix("\u200b", ""), false, false},
	{"trailing NUL", affix("", "\x00"), false, false},
	{"BOM in front", affix("\ufeff", ""), false, false},
	{"trailing vertical tab", affix("", "\v"), true, false},
	{"trailing form feed", affix("", "\f"), true, false},
	{"spaces on both sides", affix("  ", "  "), false, false},
	{"whole string in the other case", func(v string) string {
		if v == strings.ToUpper(v) {
			return strings.ToLower(v)
		}
		return strings.ToUpper(v)
	}, false, false},
	{"mixed case", flipSome, false, false},
}

// wrappings: spellings that a "helpful" un-quoting or un-escaping layer would
// turn into the canonical string. None of them is the key string.
var wrappings = []decoration{
	{"wrapped in double quotes", affix(`"`, `"`), false, false},
	{"first character as \\xNN inside double quotes", func(v string) string { return fmt.Sprintf(`"\x%02x%s"`, v[0], v[1:]) }, false, false},
	{"wrapped in back quotes", affix("`", "`"), false, false},
	{"wrapped in single quotes", affix("'", "'"), false, false},
	{"a middle character as \\u00NN inside double quotes", func(v string) string {
		return fmt.Sprintf(`"%s\u%04x%s"`, v[:10], v[10], v[11:])
	}, false, false},
	{"every character as an octal escape inside double quotes", func(v string) string {
		var sb strings.Builder
		sb.WriteByte('"')
		for i := 0; i < len(v); i++ {
			fmt.Fprintf(&sb, `\%03o`, v[i])
		}
		sb.WriteByte('"')
		return sb.String()
	}, false, false},
	{"first character as \\xNN, no quotes", func(v string) string { return fmt.Sprintf(`\x%02x%s`, v[0], v[1:]) }, false, false},
	{"first character as an octal escape, no quotes", func(v string) string { return fmt.Sprintf(`\%03o%s`, v[0], v[1:]) }, false, false},
	{"first character percent-encoded", func(v string) string { return fmt.Sprintf("%%%02X%s", v[0], v[1:]) }, false, false},
	{"first character as an HTML entity", func(v string) string { return fmt.Sprintf("&#%d;%s", v[0], v[1:]) }, false, false},
	{"trailing backslash", affix("", `\`), false, false},
	{"shell $'...' text", affix("$'", "'"), false, false},
	{"YAML list item", affix("- ", ""), false, false},
	{"key: value", affix("recipient: ", ""), false, false},
	{"key=value", affix("key=", ""), false, false},
	{"angle brackets", affix("<", ">"), false, false},
	{"trailing comma", affix("", ","), false, false},
	{"trailing semicolon", affix("", ";"), false, false},
	{"parentheses", affix("(", ")"), false, false},
	{"square brackets", affix("[", "]"), false, false},
	{"JSON object", affix(`{"recipient":"`, `"}`), false, false},
	{"quoted with a trailing comma", affix(`"`, `",`), false, false},
}

// ttySpecial: bytes a terminal in its default mode acts on itself (signals, end
// of input, erase, kill, flow control, literal-next, reprint, CR->LF).
const ttySpecial = "\x03\x04\x08\x11\x12\x13\x15\x16\x17\x1a\x1c\x7f\r"

// controlBytes: a valid key string directly followed (or preceded) by one
// control / non-printable byte, before each kind of line end, and as the only
// content of a following line; plus Ctrl-Z sequences.
func controlBytes() []decoration {
	var out []decoration
	for _, c := range []byte{0x1a, 0x04, 0x00, 0x03, 0x08, 0x0b, 0x0c, 0x1b, 0x1c, 0x7f, 0x85, 0xa0, 0xff} {
		cs := string([]byte{c})
		n := fmt.Sprintf("0x%02X", c)
		out = append(out,
			decoration{n + " behind the key, LF", affix("", cs+"\n"), false, true},
			decoration{n + " behind the key, CRLF", affix("", cs+"\r\n"), false, true},
			decoration{n + " behind the key, end of input without newline", affix("", cs), false, true},
			decoration{n + " in front of the key", affix(cs, "\n"), false, true},
			decoration{n + " alone on the following line", affix("", "\n"+cs+"\n"), false, true},
		)
	}
	out = append(out,
		decoration{"0x1A behind the key, then more valid lines", func(v string) string { return v + "\x1a\n" + v + "\n" + v + "\n" }, false, true},
		decoration{"CR 0x1A behind the key", affix("", "\r\x1a\n"), false, true},
		decoration{"0x1A behind the key, then a mistyped line", func(v string) string { return v + "\x1a\n" + v[:len(v)-1] + "\n" }, false, true},
		decoration{"0x1A alone on the following line, then a mistyped line", func(v string) string { return v + "\n\x1a\n" + v[:len(v)-1] + "\n" }, false, true},
	)
	return out
}

// lineModel: what a line-oriented route hands to the key parser. tty adds the
// terminal's CR->LF translation. It returns the non-empty, non-comment lines.
func lineModel(content string, tty bool) []string {
	if tty {
		content = strings.ReplaceAll(content, "\r", "\n")
	}
	var out []string
	for _, l := range strings.Split(content, "\n") {
		l = strings.TrimSuffix(l, "\r")
		if l == "" || strings.HasPrefix(l, "#") {
			continue
		}
		out = append(out, l)
	}
	return out
}

type route struct {
	name  string
	kind  string // recipient | identity | keygen
	via   string // argv | file | pipe | tty
	noCTY bool
}

var routes = []route{
	{"age -r STRING", "recipient", "argv", false},
	{"age -R file", "recipient", "file", false},
	{"age -R - (stdin a pipe)", "recipient", "pipe", false},
	{"age -R - (stdin a terminal)", "recipient", "tty", true},
	{"age -R - (stdin the controlling terminal)", "recipient", "tty", false},
	{"age -d -i file", "identity", "file", false},
	{"age -d -i - (stdin a pipe)", "identity", "pipe", false},
	{"age -d -i - (stdin a terminal)", "identity", "tty", true},
	{"age -d -i - (stdin the controlling terminal)", "identity", "tty", false},
	{"age -e -i file", "eidentity", "file", false},
	{"age -e -i - (stdin a pipe)", "eidentity", "pipe", false},
	{"age -e -i - (stdin a terminal)", "eidentity", "tty", true},
	{"age-keygen -y file", "keygen", "file", false},
	{"age-keygen -y (stdin a pipe)", "keygen", "pipe", false},
	{"age-keygen -y (stdin a terminal)", "keygen", "tty", true},
}

type routeEnv struct {
	age, keygen, base string
	mu                sync.Mutex
	seq               int
	controlsOK        map[string]bool
	outcomes          map[string]map[string]string // kind/decoration -> via -> outcome
}

var routesState *routeEnv

func jobsRoutes() []func(*batch) {
	e := &routeEnv{age: os.Getenv("AGE_BIN"), keygen: os.Getenv("AGE_KEYGEN_BIN"), controlsOK: map[string]bool{}}
	routesState = e
	if e.age == "" || e.keygen == "" {
		R.Inconclusive("routes stage: AGE_BIN / AGE_KEYGEN_BIN not set (run through ./check)")
		return nil
	}
	var err error
	e.base, err = os.MkdirTemp(os.Getenv("VERIF_SCRATCH"), "c09routes.")
	if err != nil {
		R.Inconclusive("routes stage: %v", err)
		return nil
	}
	// two keys: a fixed one and a seed-chosen one
	ks := [][]byte{detBytes("c09-routes-key", 32), detBytes(fmt.Sprintf("c09-routes-key-%d", R.Seed), 32)}
	var jobs []func(*batch)
	for ki, k := range ks {
		for ri, rt := range routes {
			k, rt, ki := k, rt, ki
			// controls for both keys; decorations alternate between the keys in quick
			if R.Thorough() || ki == 0 {
				jobs = append(jobs, func(b *batch) { e.run(b, k, rt, decoration{"none (control)", affix("", ""), false, false}, 0) })
			}
			for di, d := range decorations {
				if !R.Thorough() && ((di+len(rt.name))%2 != ki || d.thoroughOnly) {
					continue
				}
				d := d
				jobs = append(jobs, func(b *batch) { e.run(b, k, rt, d, 0) })
			}
			for wi, w := range wrappings {
				// quick: plain double quotes and the xNN escape on every route, a
				// seed-rotated quarter of the rest; each with one of the two keys
				if !R.Thorough() && (ki != (wi+ri)%2 || (wi > 1 && (wi+ri+int(R.Seed))%4 != 0)) {
					continue
				}
				w := w
				jobs = append(jobs, func(b *batch) { e.run(b, k, rt, w, 0) })
			}
			for ci, cb := range controlBytes() {
				// quick: Ctrl-Z behind the key (LF) and alone on the next line on every route,
				// the same control byte on the file and the stdin route of a kind (so that the
				// two can be compared): selection by (ci, kind), rotated by the seed
				kindIdx := len(rt.kind)
				if !R.Thorough() && (ki != ci%2 || (ci != 0 && ci != 4 && (ci+kindIdx+int(R.Seed))%6 != 0)) {
					continue
				}
				cb := cb
				jobs = append(jobs, func(b *batch) { e.run(b, k, rt, cb, 0) })
			}
		}
	}
	return jobs
}

func (e *routeEnv) dir() string {
	e.mu.Lock()
	e.seq++
	d := filepath.Join(e.base, fmt.Sprintf("w%05d", e.seq))
	e.mu.Unlock()
	os.MkdirAll(d, 0o755)
	return d
}

func (e *routeEnv) run(b *batch, k []byte, rt route, dec decoration, attempt int) {
	control := strings.HasPrefix(dec.name, "none")
	sI := refage.Bech32Encode("AGE-SECRET-KEY-", k)
	pub := refage.X25519Public(k)
	sR := refage.Bech32Encode("age", pub)
	v := sI
	if rt.kind == "recipient" {
		v = sR
	}
	s := dec.f(v)
	content := s + "\n"
	if dec.raw {
		content = s
		if rt.via == "argv" && strings.ContainsAny(s, "\n") {
			return // several lines are not one argument
		}
		if rt.via == "tty" && strings.ContainsAny(s, ttySpecial) {
			return // the terminal itself acts on these bytes
		}
	}
	if rt.via == "argv" && strings.ContainsRune(s, 0) {
		return // a NUL cannot be part of an argument
	}
	// expectation
	claim := "must-fail"
	if control {
		claim = "must-work"
	} else if rt.via != "argv" {
		lines := lineModel(content, rt.via == "tty")
		same := len(lines) > 0
		for _, l := range lines {
			same = same && l == v
		}
		if same {
			claim = "none (the line format reduces it to the plain string)"
		}
	}
	d := e.dir()
	defer os.RemoveAll(d)
	plain := []byte("c09 routes: " + dec.name + "\n")
	c := &cli.Cmd{Dir: d, Timeout: 60 * time.Second}
	var argv []string
	feed := func() { // hand the key line over by rt.via
		switch rt.via {
		case "file":
			os.WriteFile(filepath.Join(d, "keyfile"), []byte(content), 0o600)
		case "pipe":
			c.Stdin = []byte(content)
		case "tty":
			c.StdinTTY = true
			if rt.noCTY {
				c.NoCTTY = true
			} else {
				c.TTY = true
			}
			send := content
			if !strings.HasSuffix(send, "\n") {
				send += "\x04" // first ^D hands over the unfinished line, the second is the end of input
			}
			c.Script = []cli.TTYStep{{Send: send + "\x04"}}
		}
	}
	src := "-"
	if rt.via == "file" {
		src = "keyfile"
	}
	switch rt.kind {
	case "recipient":
		os.WriteFile(filepath.Join(d, "input"), plain, 0o600)
		if rt.via == "argv" {
			argv = []string{e.age, "-r", s, "-o", "out", "input"}
		} else {
			argv = []string{e.age, "-R", src, "-o", "out", "input"}
		}
	case "identity":
		fk := detBytes("c09-routes-fk", 16)
		st, err := refage.X25519Wrap(fk, pub, detBytes("c09-routes-eph", 32))
		if err != nil {
			R.Inconclusive("routes stage: reference wrap failed: %v", err)
			return
		}
		os.WriteFile(filepath.Join(d, "ct.age"), refage.BuildFile(fk, []refage.Stanza{st}, detBytes("c09-routes-nonce", 16), plain), 0o600)
		argv = []string{e.age, "-d", "-i", src, "-o", "out", "ct.age"}
	case "eidentity":
		os.WriteFile(filepath.Join(d, "input"), plain, 0o600)
		argv = []string{e.age, "-e", "-i", src, "-o", "out", "input"}
	case "keygen":
		argv = []string{e.keygen, "-y"}
		if rt.via == "file" {
			argv = append(argv, "keyfile")
		}
	}
	feed()
	c.Argv = argv
	res := cli.Run(c)
	b.evals++
	desc := fmt.Sprintf("%s, %s", rt.name, dec.name)
	R.Distinct("route:" + desc + ":" + v)
	b.add("routes: process runs, by route", rt.name)
	b.add("routes: process runs, by claim", claim)
	if res.Err != nil {
		R.Inconclusive("routes stage: %s: driver error %v", desc, res.Err)
		return
	}
	out, _ := os.ReadFile(filepath.Join(d, "out"))
	// did the tool use the string as the key?
	worked := false
	switch rt.kind {
	case "recipient", "eidentity":
		if res.Exit == 0 {
			o, err := refage.Decrypt(out, refage.X25519Key{Secret: k})
			worked = err == nil && bytes.Equal(o.Plaintext, plain)
		}
	case "identity":
		worked = res.Exit == 0 && bytes.Equal(out, plain)
	case "keygen":
		worked = res.Exit == 0 && strings.TrimSpace(string(res.Stdout)) == sR
	}
	if rt.via == "file" || rt.via == "pipe" {
		e.mu.Lock()
		if e.outcomes == nil {
			e.outcomes = map[string]map[string]string{}
		}
		key := rt.kind + " / " + dec.name
		if e.outcomes[key] == nil {
			e.outcomes[key] = map[string]string{}
		}
		e.outcomes[key][rt.via] = fmt.Sprintf("exit0=%v used=%v", res.Exit == 0, worked)
		e.mu.Unlock()
	}
	more := map[string]any{"route": rt.name, "decoration": dec.name, "line": s, "line_hex": fmt.Sprintf("%x", s), "argv": strings.Join(argv[1:], " "),
		"exit": res.Exit, "stderr": string(truncateB(res.Stderr, 300))}
	switch claim {
	case "must-work":
		if !worked {
			if attempt == 0 {
				e.run(b, k, rt, dec, 1)
				return
			}
			R.Inconclusive("routes stage: the plain key string did not work twice on route %q: %s", rt.name, res)
			return
		}
		e.mu.Lock()
		e.controlsOK[rt.name] = true
		e.mu.Unlock()
		b.add("routes: outcomes", "plain string works")
		R.SampleN("route-"+rt.kind, 1, map[string]any{"route": rt.name, "argv": strings.Join(argv[1:], " "), "line": s, "result": "exit 0, the key was used"})
	case "must-fail":
		if res.Exit == 0 || worked {
			violate("decorated-spelling-accepted:"+rt.name,
				fmt.Sprintf("%s: the tool took %+q (the valid %q with: %s) as a key: exit %d, key used: %v", rt.name, s, v, dec.name, res.Exit, worked), more)
			return
		}
		b.add("routes: outcomes", "decorated spelling refused")
	default:
		if worked {
			b.add("routes: outcomes", "reduced to the plain string by the line format: accepted")
		} else {
			b.add("routes: outcomes", "reduced to the plain string by the line format: refused")
		}
	}
}

func truncateB(b []byte, n int) []byte {
	if len(b) > n {
		return b[:n]
	}
	return b
}

func finishRoutes() {
	e := routesState
	if e == nil || e.base == "" {
		return
	}
	os.RemoveAll(e.base)
	cmp := 0
	for key, m := range e.outcomes {
		f, okf := m["file"]
		p, okp := m["pipe"]
		if !okf || !okp {
			continue
		}
		cmp++
		if f != p {
			violate("file-and-stdin-disagree:"+strings.SplitN(key, " / ", 2)[0],
				fmt.Sprintf("the same bytes (%s) as a named file give %s, on standard input (a pipe) %s", key, f, p), map[string]any{"case": key, "file": f, "pipe": p})
		}
	}
	R.Set("routes_file_vs_stdin_outcomes_compared", cmp)
	for _, rt := range routes {
		if !e.controlsOK[rt.name] {
			R.Inconclusive("routes stage: the plain key string never worked on route %q, so refusals on it prove nothing", rt.name)
		}
	}
}
