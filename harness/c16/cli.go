package main

import (
	"bytes"
	"fmt"
	"os"
	"path/filepath"
	"strings"
	"time"

	"filippo.io/age/zverif/cli"
	"filippo.io/age/zverif/keys"
	"filippo.io/age/zverif/mon"
	"filippo.io/age/zverif/plug"
	"filippo.io/age/zverif/refage"
)

// cliAbort: a conversation that the plugin ends with an error (or that breaks
// off) ABORTS the operation, wherever the plugin identity was found: on the
// command line (-j), in a plain identity file, or inside a passphrase-protected
// identity file next to other identities. The real tool is run with the
// matching native key given AFTER the plugin identity: it must not be reached —
// no plaintext, exit status not 0 — while with a plugin that merely has no file
// key for the file (control) the native key opens the file.
func cliAbort(r *mon.Run, env *plug.Env) {
	age := os.Getenv("AGE_BIN")
	if age == "" {
		r.Count("cli_abort_stage_skipped_no_binary", 1)
		return
	}
	work, err := os.MkdirTemp(os.Getenv("VERIF_SCRATCH"), "c16cli.")
	if err != nil {
		r.Inconclusive("scratch: %v", err)
		return
	}
	defer os.RemoveAll(work)
	name := "cliabort"
	env.Install(name)
	pt := []byte("c16 cli: the plugin said stop\n")
	fk := mon.DetBytes("c16-cli-fk", 16)
	mine, _ := refage.X25519Wrap(fk, keys.NewX("X1").Public, mon.DetBytes("c16-cli-eph", 32))
	file := refage.BuildFile(fk, []refage.Stanza{{Type: "cliabort-stanza", Args: []string{"a"}, Body: make([]byte, 32)}, mine}, mon.DetBytes("c16-cli-nonce", 16), pt)
	os.WriteFile(filepath.Join(work, "file.age"), file, 0o600)
	os.WriteFile(filepath.Join(work, "x1.key"), []byte(keys.NewX("X1").SecretStr+"\n"), 0o600)
	pluginLine := refage.Bech32Encode("AGE-PLUGIN-"+strings.ToUpper(name)+"-", []byte{1, 2, 3})
	other := keys.NewX("X2").SecretStr
	plainIDs := map[string]string{
		"plugin-alone":        pluginLine + "\n",
		"after-a-non-match":   other + "\n" + pluginLine + "\n",
		"before-a-non-match":  pluginLine + "\n" + other + "\n",
		"between-non-matches": other + "\n" + pluginLine + "\n" + keys.NewX("X3").SecretStr + "\n",
	}
	for k, content := range plainIDs {
		os.WriteFile(filepath.Join(work, "ids-"+k+".txt"), []byte(content), 0o600)
		// the same list inside a passphrase-protected identity file
		ifk := mon.DetBytes("c16-cli-ifk-"+k, 16)
		s := refage.ScryptWrap(ifk, "filepass", mon.DetBytes("c16-cli-salt-"+k, 16), 10)
		os.WriteFile(filepath.Join(work, "ids-"+k+".age"), refage.BuildFile(ifk, []refage.Stanza{s}, mon.DetBytes("c16-cli-in-"+k, 16), []byte(content)), 0o600)
	}
	perr := plug.Step{Send: plug.Stanza("error", []string{"internal"}, []byte("token is locked"))}
	perrS := plug.Step{Send: plug.Stanza("error", []string{"stanza", "0", "0"}, []byte("bad stanza"))}
	msg := plug.Step{Send: plug.Stanza("msg", nil, []byte("touch your token"))}
	done := plug.Step{Send: plug.Stanza("done", nil, nil), NoReply: true}
	scripts := []struct {
		name  string
		sc    *plug.Script
		abort bool
	}{
		{"no-file-key (control)", &plug.Script{Steps: []plug.Step{done}}, false},
		{"msg then no-file-key (control)", &plug.Script{Steps: []plug.Step{msg, done}}, false},
		{"error internal", &plug.Script{Steps: []plug.Step{perr, done}}, true},
		{"error stanza 0 0", &plug.Script{Steps: []plug.Step{perrS, done}}, true},
		{"msg then error", &plug.Script{Steps: []plug.Step{msg, perr, done}}, true},
		{"malformed message", &plug.Script{Steps: []plug.Step{{Send: []byte("-> file-key\n\n"), NoReply: true}}, End: "exit"}, true},
		{"exits mid-conversation", &plug.Script{Steps: []plug.Step{msg}, End: "exit"}, true},
	}
	type route struct {
		name string
		argv func(k string) []string
		pty  bool
	}
	routes := []route{
		{"plain identity file", func(k string) []string { return []string{"-i", "ids-" + k + ".txt"} }, false},
		{"passphrase-protected identity file", func(k string) []string { return []string{"-i", "ids-" + k + ".age"} }, true},
	}
	ran := 0
	for _, sc := range scripts {
		for k := range plainIDs {
			for _, rt := range routes {
				if !r.Thorough() && rt.pty && sc.name == "error stanza 0 0" {
					continue
				}
				env.SetScript(name, sc.sc)
				out := filepath.Join(work, "out.txt")
				os.Remove(out)
				argv := append([]string{age, "-d"}, rt.argv(k)...)
				argv = append(argv, "-i", "x1.key", "-o", out, "file.age")
				c := &cli.Cmd{Argv: argv, Dir: work, Timeout: 60 * time.Second, Env: []string{"FAKEPLUGIN_DIR=" + env.Dir}}
				if rt.pty {
					c.TTY = true
					c.Script = []cli.TTYStep{{Expect: "Enter passphrase", Send: "filepass\n", Blind: 1500 * time.Millisecond}}
				}
				res := cli.Run(c)
				r.Eval(1)
				desc := fmt.Sprintf("plugin identity %s in a %s, plugin: %s", k, rt.name, sc.name)
				r.Distinct("cli-abort " + desc)
				if res.Err != nil {
					r.Inconclusive("%s: driver error %v", desc, res.Err)
					continue
				}
				got, _ := os.ReadFile(out)
				replay := map[string]any{"case": desc, "argv": argv[1:]}
				switch {
				case sc.abort && (res.Exit == 0 || len(got) != 0):
					r.Violate("cli-plugin-abort-ignored:"+rt.name, fmt.Sprintf("%s: the plugin ended the conversation with an error, yet the tool went on (exit %d, %d bytes of output)", desc, res.Exit, len(got)), replay)
				case !sc.abort && (res.Exit != 0 || !bytes.Equal(got, pt)):
					// the control: after "no file key" the next identity is tried
					r.Inconclusive("%s: the control did not decrypt with the native key given after it: %s", desc, res)
				default:
					ran++
				}
			}
		}
	}
	r.Count("cli_plugin_abort_runs", int64(ran))
}
